(* Extract.v — compiled in build/extract (not part of the library build).
   Only ExtrOcamlBasic's directives are used; N, Z, positive, nat stay inductive. *)
Require Extraction.
Require Import ExtrOcamlBasic.
From V Require Import Dispatch.
Extraction "model.ml" dispatch z_of_dec dec_of_Z.
