(* C07_Model.v — executable model of internal/app/connectconformance/test_case_library.go
     newTestCaseLibrary, expandSuite, expandCases, generateTestCasePrefix, path.Join (Clean),
     groupTestCases, serverInstanceForCase, allPermutations, filterGRPCImplTestCases,
     addGRPCMarkerToName, and the mode restrictions of parseTestSuites.
   Enum fields are N (0 = *_UNSPECIFIED); a string field that is absent and one that is empty
   are the same thing here (the Go code only asks GetService() == "").  Go maps:
     allSuites         -> the list of suites IN THE ORDER the range statement visits them
     configCaseSet     -> a list; only membership is asked
     lib.testCases     -> the list of permutations in insertion order; the duplicate test of
                          expandCases is a membership test on the names
     casesByServer     -> association list keyed by server instance, built from an explicit
                          visiting order of lib.testCases
   The constants (allProtocols ..., the enum String() tables, default service and methods,
   clientReceiveLimit, the three markers) come from C07_Consts.v, which is regenerated from
   the compiled Go code on every run.  No proofs here. *)
From V Require Export Base.
From V Require Import Dispatch.
From V Require Export C07_Consts.
Open Scope N_scope.

Inductive res (A : Type) : Type :=
| Ok (a : A)
| Err.
Arguments Ok {A} a.
Arguments Err {A}.

(* type configCase *)
Record case := mkCase {
  c_version : N; c_protocol : N; c_codec : N; c_compression : N; c_stream : N;
  c_tls : bool; c_certs : bool; c_get : bool; c_limit : bool; c_cvm : N }.

(* the parts of a TestCase message besides the request.  They are the test author's: expansion
   and the gRPC-peer variants carry them along unchanged (proto.Clone of the whole message);
   assert later reads other_allowed_error_codes and expected_response from the permutation. *)
Record extras := mkX {
  x_other : list N;              (* other_allowed_error_codes *)
  x_expand : list N;             (* expand_requests: size_relative_to_limit of each entry *)
  x_expected : option bytes }.   (* explicit expected_response (the mark the harness puts into it);
                                    None: left to populateExpectedResponses (C02) *)
Definition no_extras : extras := mkX [] [] None.

(* message TestCase, as far as expansion looks at it.  t_junk: the request arrives with
   runner-owned fields already set; the model ignores it, the Go harness does not. *)
Record tcase := mkT {
  t_name : bytes; t_stream : N; t_service : bytes; t_method : bytes;
  t_rawreq : bool; t_rawresp : bool;
  t_extras : extras }.

(* message TestSuite *)
Record suite := mkSuite {
  s_name : bytes; s_mode : N;
  s_protocols : list N; s_versions : list N; s_codecs : list N; s_compressions : list N;
  s_cvm : N; s_tls : bool; s_certs : bool; s_get : bool; s_limit : bool;
  s_cases : list tcase }.

(* one entry of lib.testCases: key, testCaseNames[key], and the request fields *)
Record perm := mkPerm {
  p_name : bytes; p_simple : bytes;
  p_version : N; p_protocol : N; p_codec : N; p_compression : N; p_stream : N;
  p_cert : bytes;          (* Request.ServerTlsCert *)
  p_creds : bool;          (* Request.ClientTlsCreds != nil (then both fields are the placeholder) *)
  p_service : bytes; p_method : bytes; p_limit : N;
  p_rawreq : bool; p_rawresp : bool;
  p_extras : extras }.       (* TestCase.{OtherAllowedErrorCodes, ExpandRequests, ExpectedResponse} *)

(* type serverInstance *)
Record inst := mkInst { i_protocol : N; i_version : N; i_tls : bool; i_certs : bool }.

Definition is_nil {A} (l : list A) : bool := match l with [] => true | _ => false end.
Definition only (l : list N) (x : N) : bool :=
  match l with [] => false | _ => forallb (fun e => e =? x) l end.

Definition case_eqb (a b : case) : bool :=
  (c_version a =? c_version b) && (c_protocol a =? c_protocol b) && (c_codec a =? c_codec b)
  && (c_compression a =? c_compression b) && (c_stream a =? c_stream b)
  && Bool.eqb (c_tls a) (c_tls b) && Bool.eqb (c_certs a) (c_certs b)
  && Bool.eqb (c_get a) (c_get b) && Bool.eqb (c_limit a) (c_limit b) && (c_cvm a =? c_cvm b).
Definition mem_case (c : case) (l : list case) : bool := existsb (case_eqb c) l.

(* ---------- names ---------- *)
(* %d / strconv.Itoa of a non-negative number *)
Definition dec (n : N) : bytes := map (fun d => 48 + d) (dec_digits (S (N.size_nat n)) n []).

Fixpoint lookup (n : N) (table : list (N * bytes)) : option bytes :=
  match table with
  | [] => None
  | (k, v) :: r => if k =? n then Some v else lookup n r
  end.

(* Enum.String(): the declared name, else the number *)
Definition enum_name (table : list (N * bytes)) (n : N) : bytes :=
  match lookup n table with Some s => s | None => dec n end.

Definition len1 {A} (l : list A) : bool := match l with [_] => true | _ => false end.
Definition bool_name (b : bool) : bytes := if b then bs "true" else bs "false".

(* generateTestCasePrefix (components starts as a slice of ONE empty string: make([]string, 1, 5)) *)
Definition name_prefix (s : suite) (c : case) : list bytes :=
  [[]; s_name s]
  ++ (if len1 (s_versions s) then [] else [bs "HTTPVersion:" ++ dec (c_version c)])
  ++ (if len1 (s_protocols s) then [] else [bs "Protocol:" ++ enum_name c07_protocol_names (c_protocol c)])
  ++ (if len1 (s_codecs s) then [] else [bs "Codec:" ++ enum_name c07_codec_names (c_codec c)])
  ++ (if len1 (s_compressions s) then [] else [bs "Compression:" ++ enum_name c07_compression_names (c_compression c)])
  ++ (if s_tls s then [] else [bs "TLS:" ++ bool_name (c_tls c)]).

(* path.Clean *)
Definition dot : bytes := [46].
Definition dotdot : bytes := [46; 46].
Definition clean_step (rooted : bool) (st : list bytes) (comp : bytes) : list bytes :=
  if is_nil comp || bytes_eqb comp dot then st
  else if bytes_eqb comp dotdot then
    match st with
    | top :: r => if negb rooted && bytes_eqb top dotdot then comp :: st else r
    | [] => if rooted then [] else [comp]
    end
  else comp :: st.
Definition clean (p : bytes) : bytes :=
  match p with
  | [] => dot
  | c0 :: _ =>
    let rooted := c0 =? 47 in
    let st := fold_left (clean_step rooted) (split_on 47 p) [] in
    let body := join 47 (rev st) in
    if rooted then 47 :: body else if is_nil st then dot else body
  end.

(* path.Join: leading empty elements are skipped, the rest joined with "/", then Clean *)
Fixpoint drop_empty_front (l : list bytes) : list bytes :=
  match l with
  | [] :: r => drop_empty_front r
  | _ => l
  end.
Definition path_join (elems : list bytes) : bytes :=
  match drop_empty_front elems with
  | [] => []
  | l => clean (join 47 l)
  end.

Definition full_name (s : suite) (c : case) (t : tcase) : bytes :=
  path_join (name_prefix s c ++ [t_name t]).

(* ---------- expandCases ---------- *)
Definition default_method (stream : N) : bytes :=
  match lookup stream c07_default_methods with Some m => m | None => [] end.

(* service and method after the defaulting block; None = the two "specified but no ..." errors *)
Definition resolve_svc (t : tcase) : option (bytes * bytes) :=
  if is_nil (t_service t) then
    if is_nil (t_method t) then Some (c07_default_service, default_method (t_stream t)) else None
  else
    if is_nil (t_method t) then None else Some (t_service t, t_method t).

Definition placeholder : bytes := bs "PLACEHOLDER".

Definition mk_perm (s : suite) (c : case) (t : tcase) (svc meth : bytes) : perm :=
  mkPerm (full_name s c t) (t_name t)
         (c_version c) (c_protocol c) (c_codec c) (c_compression c) (t_stream t)
         (if c_tls c then placeholder else [])
         (c_tls c && c_certs c)
         svc meth c07_client_receive_limit
         (t_rawreq t) (t_rawresp t) (t_extras t).

Definition mem_name (n : bytes) (lib : list perm) : bool := existsb (fun p => bytes_eqb n (p_name p)) lib.

Fixpoint expand_cases (s : suite) (c : case) (tcs : list tcase) (lib : list perm) : res (list perm) :=
  match tcs with
  | [] => Ok lib
  | t :: r =>
    if is_nil (t_name t) then Err
    else if t_stream t =? 0 then Err
    else if negb (t_stream t =? c_stream c) then expand_cases s c r lib
    else match resolve_svc t with
         | None => Err
         | Some (svc, meth) =>
           if mem_name (full_name s c t) lib then Err
           else expand_cases s c r (lib ++ [mk_perm s c t svc meth])
         end
  end.

(* ---------- expandSuite ---------- *)
Definition or_all (l all : list N) : list N := if is_nil l then all else l.

(* the six nested loops: every configCase value the suite asks the config-case set about, in order *)
Definition candidate_cases (s : suite) : list case :=
  flat_map (fun protocol =>
  flat_map (fun version =>
  flat_map (fun tls =>
  flat_map (fun codec =>
  flat_map (fun compression =>
  map (fun stream =>
    mkCase version protocol codec compression stream tls (s_certs s) (s_get s) (s_limit s) (s_cvm s))
    c07_all_streams)
  (or_all (s_compressions s) c07_all_compressions))
  (or_all (s_codecs s) c07_all_codecs))
  (if s_tls s then [true] else [true; false]))
  (or_all (s_versions s) c07_all_versions))
  (or_all (s_protocols s) c07_all_protocols).

(* ... and those for which `if _, ok := configCases[cfgCase]; ok` holds *)
Definition suite_cases (s : suite) (cs : list case) : list case :=
  filter (fun c => mem_case c cs) (candidate_cases s).

Definition suite_misconfigured (s : suite) : bool :=
  (s_certs s && negb (s_tls s))
  || (s_get s && negb (only (s_protocols s) 1))
  || ((s_cvm s =? 2) && negb (only (s_protocols s) 1))
  || ((s_cvm s =? 1) && negb (only (s_protocols s) 1)).

Fixpoint fold_res {A} (f : A -> list perm -> res (list perm)) (l : list A) (lib : list perm) : res (list perm) :=
  match l with
  | [] => Ok lib
  | a :: r => match f a lib with Err => Err | Ok lib1 => fold_res f r lib1 end
  end.

Definition expand_suite (s : suite) (cs : list case) (lib : list perm) : res (list perm) :=
  if suite_misconfigured s then Err
  else fold_res (fun c lib => expand_cases s c (s_cases s) lib) (suite_cases s cs) lib.

(* ---------- newTestCaseLibrary ---------- *)
Definition suite_active (mode : N) (s : suite) : bool := (s_mode s =? 0) || (s_mode s =? mode).

(* the range over allSuites, visiting them in the order of the list; index = suitesIndex keys *)
Fixpoint process_suites (mode : N) (cs : list case) (ss : list suite) (index : list bytes) (lib : list perm)
  : res (list perm) :=
  match ss with
  | [] => Ok lib
  | s :: r =>
    if is_nil (s_name s) then Err
    else if is_nil (s_cases s) then Err
    else if mem_bytes (s_name s) index then Err
    else if negb (suite_active mode s) then process_suites mode cs r (s_name s :: index) lib
    else match expand_suite s cs lib with
         | Err => Err
         | Ok lib1 => process_suites mode cs r (s_name s :: index) lib1
         end
  end.

(* up to populateExpectedResponses (C02's subject; the harness only uses test cases for which it
   cannot fail) *)
Definition new_library (ss : list suite) (cs : list case) (mode : N) : res (list perm) :=
  match process_suites mode cs ss [] [] with
  | Err => Err
  | Ok [] => Err
  | Ok lib => Ok lib
  end.

(* ---------- groupTestCases ---------- *)
Definition server_instance (p : perm) : inst :=
  mkInst (p_protocol p) (p_version p) (negb (is_nil (p_cert p))) (p_creds p).

Definition inst_eqb (a b : inst) : bool :=
  (i_protocol a =? i_protocol b) && (i_version a =? i_version b)
  && Bool.eqb (i_tls a) (i_tls b) && Bool.eqb (i_certs a) (i_certs b).

Fixpoint add_to_group (k : inst) (p : perm) (g : list (inst * list perm)) : list (inst * list perm) :=
  match g with
  | [] => [(k, [p])]
  | (k', l) :: r => if inst_eqb k k' then (k', l ++ [p]) :: r else (k', l) :: add_to_group k p r
  end.

(* `order` is the order in which the range over lib.testCases visits the permutations *)
Definition group_cases (order : list perm) : list (inst * list perm) :=
  fold_left (fun g p => add_to_group (server_instance p) p g) order [].

(* ---------- serverInstancesSlice(lib, sorted = true) (connectconformance.go): the keys of
   casesByServer, sort.Slice'd by HTTP version, protocol, TLS (without first), client certs
   (without first).  The less function is Go's, clause by clause; the keys of a map are pairwise
   distinct, so any correct sorting algorithm returns the same slice (C07_Order.v). ---------- *)
Definition inst_less (a b : inst) : bool :=
  if negb (i_version a =? i_version b) then i_version a <? i_version b
  else if negb (i_protocol a =? i_protocol b) then i_protocol a <? i_protocol b
  else if negb (Bool.eqb (i_tls a) (i_tls b)) then negb (i_tls a)
  else negb (i_certs a) || i_certs b.

Fixpoint insert_inst (k : inst) (l : list inst) : list inst :=
  match l with
  | [] => [k]
  | k' :: r => if inst_less k k' then k :: l else k' :: insert_inst k r
  end.
Definition sort_insts (l : list inst) : list inst := fold_right insert_inst [] l.
Definition sorted_instances (order : list perm) : list inst := sort_insts (map fst (group_cases order)).

(* how many names of a list are issued a second (third ...) time *)
Fixpoint dup_count (l : list bytes) : nat :=
  match l with
  | [] => O
  | x :: r => ((if mem_bytes x r then 1 else 0) + dup_count r)%nat
  end.

(* ---------- filterGRPCImplTestCases / addGRPCMarkerToName / allPermutations ---------- *)
Definition grpc_keep (cl sv : bool) (p : perm) : bool :=
  if (cl && negb (p_protocol p =? 2)) || (p_protocol p =? 1) then false else
  if (if p_protocol p =? 3
      then negb ((p_version p =? 1) || (p_version p =? 2))
      else negb (p_version p =? 2)) then false else
  if negb (p_codec p =? 1) then false else
  if negb (p_compression p =? 1) && negb (p_compression p =? 2) then false else
  if negb (is_nil (p_cert p)) then false else
  if p_rawreq p && cl then false else
  if p_rawresp p && sv then false else true.

Definition has_suffix (s suf : bytes) : bool := has_prefix (rev suf) (rev s).
Definition trim_suffix (s suf : bytes) : bytes :=
  if has_suffix s suf then firstn (length s - length suf) s else s.

Definition marker (cl sv : bool) : bytes :=
  if cl && sv then c07_marker_both else if cl then c07_marker_client else if sv then c07_marker_server else [].

Definition add_marker (full simple : bytes) (cl sv : bool) : bytes :=
  trim_suffix full simple ++ marker cl sv ++ 47 :: simple.

Definition rename (cl sv : bool) (p : perm) : perm :=
  mkPerm (add_marker (p_name p) (p_simple p) cl sv) (p_simple p)
         (p_version p) (p_protocol p) (p_codec p) (p_compression p) (p_stream p)
         (p_cert p) (p_creds p) (p_service p) (p_method p) (p_limit p) (p_rawreq p) (p_rawresp p)
         (p_extras p).

Definition grpc_filter (cl sv : bool) (l : list perm) : list perm :=
  if negb cl && negb sv then l else map (rename cl sv) (filter (grpc_keep cl sv) l).

Definition all_permutations (cl sv : bool) (order : list perm) : list perm :=
  order
  ++ (if cl then grpc_filter true false order else [])
  ++ (if sv then grpc_filter false true order else [])
  ++ (if cl && sv then grpc_filter true true order else []).

(* ---------- parseTestSuites: the mode-specific payload restrictions ---------- *)
Definition parse_allows (s : suite) (has_expected : bool) : bool :=
  forallb (fun t =>
    negb (t_rawreq t && negb (s_mode s =? 2))
    && negb (t_rawresp t && negb (s_mode s =? 1))
    && negb (t_rawresp t && negb has_expected)) (s_cases s).

(* ---------- case decoding / result encoding (extracted glue) ---------- *)
Fixpoint insert_perm (p : perm) (l : list perm) : list perm :=
  match l with
  | [] => [p]
  | q :: l' => if bytes_leb (p_name p) (p_name q) then p :: l else q :: insert_perm p l'
  end.
Definition sort_perms (l : list perm) : list perm := fold_right insert_perm [] l.

Definition find_group (n : bytes) (g : list (inst * list perm)) : option inst :=
  match find (fun kl => mem_name n (snd kl)) g with Some (k, _) => Some k | None => None end.

Definition sx_inst (k : inst) : sx :=
  L [sx_N (i_protocol k); sx_N (i_version k); sx_bool (i_tls k); sx_bool (i_certs k)].

Definition sx_extras (x : extras) : sx :=
  L [ L (map sx_N (x_other x)); L (map sx_N (x_expand x));
      match x_expected x with Some m => L [B m] | None => L [] end ].

Definition un_extras (s : sx) : option extras :=
  match s with
  | L [o; e; x] => do o <- un_listof un_N o; do e <- un_listof un_N e; do x <- un_opt un_B x; ret (mkX o e x)
  | _ => None
  end.

(* name and other fields of a permutation as one byte string (codes, sizes and lengths are below
   256 in every generated case), so that lists of them sort canonically even when a name occurs twice *)
Definition extras_key (x : extras) : bytes :=
  N.of_nat (length (x_other x)) :: x_other x ++ N.of_nat (length (x_expand x)) :: x_expand x
  ++ match x_expected x with Some m => 1 :: m | None => [0] end.
Definition perm_key (p : perm) : bytes := p_name p ++ 0 :: extras_key (p_extras p).

Definition sx_perm (g : list (inst * list perm)) (p : perm) : sx :=
  L [ B (p_name p); B (p_simple p);
      sx_N (p_version p); sx_N (p_protocol p); sx_N (p_codec p); sx_N (p_compression p); sx_N (p_stream p);
      B (p_cert p); (if p_creds p then L [B placeholder; B placeholder] else L []);
      B (p_service p); B (p_method p); sx_N (p_limit p);
      sx_bool (p_rawreq p); sx_bool (p_rawresp p); sx_extras (p_extras p);
      match find_group (p_name p) g with Some k => sx_inst k | None => L [] end ].

Definition un_Ns (s : sx) : option (list N) := un_listof un_N s.

Definition un_tcase (s : sx) : option tcase :=
  match s with
  | L [n; st; sv; m; rq; rs; _junk] =>
    do n <- un_B n; do st <- un_N st; do sv <- un_B sv; do m <- un_B m;
    do rq <- un_bool rq; do rs <- un_bool rs;
    ret (mkT n st sv m rq rs no_extras)
  | L [n; st; sv; m; rq; rs; _junk; x] =>
    do n <- un_B n; do st <- un_N st; do sv <- un_B sv; do m <- un_B m;
    do rq <- un_bool rq; do rs <- un_bool rs; do x <- un_extras x;
    ret (mkT n st sv m rq rs x)
  | _ => None
  end.

Definition un_suite (s : sx) : option suite :=
  match s with
  | L [n; md; ps; vs; cds; zs; cvm; tls; certs; get; lim; tcs] =>
    do n <- un_B n; do md <- un_N md; do ps <- un_Ns ps; do vs <- un_Ns vs; do cds <- un_Ns cds;
    do zs <- un_Ns zs; do cvm <- un_N cvm; do tls <- un_bool tls; do certs <- un_bool certs;
    do get <- un_bool get; do lim <- un_bool lim; do tcs <- un_listof un_tcase tcs;
    ret (mkSuite n md ps vs cds zs cvm tls certs get lim tcs)
  | _ => None
  end.

Definition un_case (s : sx) : option case :=
  match s with
  | L [v; p; cd; z; st; tls; certs; get; lim; cvm] =>
    do v <- un_N v; do p <- un_N p; do cd <- un_N cd; do z <- un_N z; do st <- un_N st;
    do tls <- un_bool tls; do certs <- un_bool certs; do get <- un_bool get; do lim <- un_bool lim;
    do cvm <- un_N cvm;
    ret (mkCase v p cd z st tls certs get lim cvm)
  | _ => None
  end.

(* ("c07.lib" id mode (suites) (cases)) *)
Definition run_c07_lib (args : list sx) : sx :=
  or_bad (match args with
  | [mode; ss; cs] =>
    do mode <- un_N mode; do ss <- un_listof un_suite ss; do cs <- un_listof un_case cs;
    ret (match new_library ss cs mode with
         | Err => sx_err "lib"
         | Ok lib =>
           let g := group_cases lib in
           L [ B (bs "ok"); L (map (sx_perm g) (sort_perms lib)); sx_nat (length g);
               L (map B (sort_bytes (map perm_key (all_permutations true true lib))));
               sx_nat (length (all_permutations false false lib));
               sx_nat (length (all_permutations true false lib));
               sx_nat (length (all_permutations false true lib));
               L (map sx_inst (sorted_instances lib));
               sx_nat (dup_count (map p_name (all_permutations true true lib))) ]
         end)
  | _ => None end).

Definition un_fperm (s : sx) : option perm :=
  match s with
  | L [n; sn; p; v; cd; z; tls; rq; rs] =>
    do n <- un_B n; do sn <- un_B sn; do p <- un_N p; do v <- un_N v; do cd <- un_N cd; do z <- un_N z;
    do tls <- un_bool tls; do rq <- un_bool rq; do rs <- un_bool rs;
    ret (mkPerm n sn v p cd z 1 (if tls then placeholder else []) false [] [] 0 rq rs no_extras)
  | L [n; sn; p; v; cd; z; tls; rq; rs; x] =>
    do n <- un_B n; do sn <- un_B sn; do p <- un_N p; do v <- un_N v; do cd <- un_N cd; do z <- un_N z;
    do tls <- un_bool tls; do rq <- un_bool rq; do rs <- un_bool rs; do x <- un_extras x;
    ret (mkPerm n sn v p cd z 1 (if tls then placeholder else []) false [] [] 0 rq rs x)
  | _ => None
  end.

(* ("c07.filter" id client server (perms)) -> (name, the test case's other fields) in order *)
Definition run_c07_filter (args : list sx) : sx :=
  or_bad (match args with
  | [cl; sv; ps] =>
    do cl <- un_bool cl; do sv <- un_bool sv; do ps <- un_listof un_fperm ps;
    ret (L (map (fun p => L [B (p_name p); sx_extras (p_extras p)]) (grpc_filter cl sv ps)))
  | _ => None end).

Definition run_c07_join (args : list sx) : sx :=
  or_bad (match args with
  | [es] => do es <- un_listof un_B es; ret (B (path_join es))
  | _ => None end).

Definition run_c07_marker (args : list sx) : sx :=
  or_bad (match args with
  | [f; s; cl; sv] =>
    do f <- un_B f; do s <- un_B s; do cl <- un_bool cl; do sv <- un_bool sv;
    ret (B (add_marker f s cl sv))
  | _ => None end).

Definition run_c07_parse (args : list sx) : sx :=
  or_bad (match args with
  | [s; he] =>
    do s <- un_suite s; do he <- un_bool he;
    ret (if parse_allows s he then L [B (bs "ok")] else sx_err "parse")
  | _ => None end).

Definition c07_table : list (bytes * (list sx -> sx)) :=
  [ (bs "c07.lib", run_c07_lib); (bs "c07.filter", run_c07_filter); (bs "c07.join", run_c07_join);
    (bs "c07.marker", run_c07_marker); (bs "c07.parse", run_c07_parse) ].
