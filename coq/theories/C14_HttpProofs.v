(* C14_HttpProofs.v — headers and trailers pass through the tracing middleware (model C14_Http). *)
From Coq Require Import Lia.
From V Require Import C14_Spec C14_Proofs.
Open Scope N_scope.

(* ---------- the heap ---------- *)
Lemma h_at_alloc_new hp m : h_at (hp ++ [m]) (length hp) = m.
Proof. unfold h_at. rewrite app_nth2 by lia. rewrite Nat.sub_diag. reflexivity. Qed.

Lemma h_at_alloc_old hp m a : (a < length hp)%nat -> h_at (hp ++ [m]) a = h_at hp a.
Proof. intros H. unfold h_at. apply app_nth1. exact H. Qed.

Lemma h_store_length : forall hp a m, length (h_store hp a m) = length hp.
Proof. induction hp as [|x hp IH]; intros [|a] m; simpl; auto. Qed.

Lemma h_at_store_same : forall hp a m, (a < length hp)%nat -> h_at (h_store hp a m) a = m.
Proof.
  unfold h_at. induction hp as [|x hp IH]; intros a m H; simpl in H; [lia|].
  destruct a as [|a]; simpl; [reflexivity|]. apply IH. lia.
Qed.

Lemma h_at_store_other : forall hp a b m, a <> b -> h_at (h_store hp a m) b = h_at hp b.
Proof.
  unfold h_at. induction hp as [|x hp IH]; intros a b m H; simpl; [reflexivity|].
  destruct a as [|a], b as [|b]; simpl; try congruence; try reflexivity.
  apply IH. congruence.
Qed.

(* ---------- TracingHandler ---------- *)
Lemma new_builder_server_clone hp q :
  (q_hdr q < length hp)%nat ->
  let '(hp1, th) := new_builder_server true hp q in
  th = length hp /\ length hp1 = S (length hp) /\
  (forall a, (a < length hp)%nat -> h_at hp1 a = h_at hp a) /\
  h_at hp1 th = trace_headers (h_at hp (q_hdr q)) (q_clen q).
Proof.
  intros Hq. unfold new_builder_server, h_alloc, trace_headers.
  rewrite h_at_alloc_new.
  destruct (is_nil_bytes (h_get1 CL (h_at hp (q_hdr q))) && negb (q_clen q =? -1)%Z).
  - repeat split.
    + rewrite h_store_length, app_length. simpl. lia.
    + intros a Ha. rewrite h_at_store_other by lia. apply h_at_alloc_old. exact Ha.
    + apply h_at_store_same. rewrite app_length. simpl. lia.
  - repeat split.
    + rewrite app_length. simpl. lia.
    + intros a Ha. apply h_at_alloc_old. exact Ha.
    + apply h_at_alloc_new.
Qed.

Lemma handler_entry_proof hp q :
  (q_hdr q < length hp)%nat ->
  let '(hp', q', th) := tracing_handler_entry true hp q in
  req_view hp' q' = req_view hp q /\
  (forall a, (a < length hp)%nat -> h_at hp' a = h_at hp a) /\
  h_at hp' th = trace_headers (h_at hp (q_hdr q)) (q_clen q) /\
  q_hdr q' <> th /\ (length hp <= th)%nat /\ (length hp <= q_hdr q')%nat.
Proof.
  intros Hq. unfold tracing_handler_entry.
  pose proof (new_builder_server_clone hp q Hq) as NB.
  destruct (new_builder_server true hp q) as [hp1 th]. destruct NB as (Eth & Elen & Hold & Htr).
  unfold h_alloc, req_view. simpl.
  repeat split.
  - rewrite h_at_alloc_new. rewrite Hold by exact Hq. reflexivity.
  - intros a Ha. rewrite h_at_alloc_old by lia. apply Hold. exact Ha.
  - rewrite h_at_alloc_old by lia. exact Htr.
  - lia.
  - lia.
  - lia.
Qed.

Lemma handler_sees_same_request_proof decompress c s body_ops hp q :
  (q_hdr q < length hp)%nat ->
  let '(hp', q', th) := tracing_handler_entry true hp q in
  req_view hp' q' = req_view hp q /\
  snd (reader_run decompress c s body_ops) = map rres_of body_ops /\
  (forall a, (a < length hp)%nat -> h_at hp' a = h_at hp a) /\
  h_at hp' th = trace_headers (h_at hp (q_hdr q)) (q_clen q) /\
  q_hdr q' <> th /\ (length hp <= th)%nat /\ (length hp <= q_hdr q')%nat.
Proof.
  intros Hq. pose proof (handler_entry_proof hp q Hq) as H.
  destruct (tracing_handler_entry true hp q) as [[hp' q'] th].
  destruct H as (H1 & H2 & H3 & H4 & H5 & H6).
  repeat split; auto. apply reader_transparent_proof.
Qed.

(* ---------- TracingRoundTripper ---------- *)
Section RoundTrip.
  Variable transport : heap -> hreq -> heap * hresp.
  (* the transport answers by what it is asked - method, length, header CONTENTS -, not by where the
     caller keeps its maps *)
  Hypothesis by_content : forall hp1 q1 hp2 q2, req_view hp1 q1 = req_view hp2 q2 ->
    resp_view (fst (transport hp1 q1)) (snd (transport hp1 q1)) =
    resp_view (fst (transport hp2 q2)) (snd (transport hp2 q2)).
  (* it may add to the headers of the request it is given, and allocates; it writes to no other map *)
  Hypothesis frame : forall hp q a, (a < length hp)%nat -> a <> q_hdr q ->
    h_at (fst (transport hp q)) a = h_at hp a.

  Lemma client_sees_same_response_proof hp q :
    (q_hdr q < length hp)%nat ->
    let '(hpT, qT, pT) := tracing_round_trip transport hp q in
    let hp1 := hp ++ [h_at hp (q_hdr q)] in
    resp_view hpT pT = resp_view (fst (transport hp q)) (snd (transport hp q)) /\
    req_view hp1 qT = req_view hp q /\
    transport hp1 qT = (hpT, pT) /\
    h_at hpT (q_hdr q) = h_at hp (q_hdr q).
  Proof.
    intros Hq. unfold tracing_round_trip, h_alloc.
    set (hp1 := hp ++ [h_at hp (q_hdr q)]).
    set (qT := mk_hreq (q_method q) (q_clen q) (length hp)).
    assert (V : req_view hp1 qT = req_view hp q).
    { unfold req_view, qT, hp1. simpl. rewrite h_at_alloc_new. reflexivity. }
    pose proof (by_content hp1 qT hp q V) as BC.
    pose proof (frame hp1 qT (q_hdr q)) as FR.
    destruct (transport hp1 qT) as [hpT pT] eqn:ET. simpl in *.
    repeat split; auto.
    rewrite FR.
    - unfold hp1. apply h_at_alloc_old. exact Hq.
    - unfold hp1. rewrite app_length. simpl. lia.
    - lia.
  Qed.
End RoundTrip.

(* the scripted transport of the differential run is such a transport *)
Lemma h_at_alloc2_fst hp h t : h_at ((hp ++ [h]) ++ [t]) (length hp) = h.
Proof. rewrite h_at_alloc_old by (rewrite app_length; simpl; lia). apply h_at_alloc_new. Qed.

Lemma scripted_view st clen h t hp q :
  resp_view (fst (scripted_transport st clen h t hp q)) (snd (scripted_transport st clen h t hp q)) =
  (st, clen, h, map (fun e => (fst e, [])) t).
Proof.
  unfold scripted_transport, h_alloc, resp_view. simpl.
  rewrite h_at_alloc2_fst, h_at_alloc_new. reflexivity.
Qed.

Lemma scripted_by_content st clen h t hp1 q1 hp2 q2 :
  resp_view (fst (scripted_transport st clen h t hp1 q1)) (snd (scripted_transport st clen h t hp1 q1)) =
  resp_view (fst (scripted_transport st clen h t hp2 q2)) (snd (scripted_transport st clen h t hp2 q2)).
Proof. rewrite !scripted_view. reflexivity. Qed.

Lemma scripted_frame st clen h t hp q a :
  (a < length hp)%nat -> h_at (fst (scripted_transport st clen h t hp q)) a = h_at hp a.
Proof.
  intros Ha. unfold scripted_transport, h_alloc. simpl.
  rewrite h_at_alloc_old by (rewrite app_length; simpl; lia).
  apply h_at_alloc_old. exact Ha.
Qed.
