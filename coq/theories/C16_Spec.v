(* C16_Spec.v — what the property text promises, stated over HISTORIES (the list of
   operations performed so far, oldest first), with no reference to slots, ids,
   channels or counters. *)
From V Require Export C16_Model.
Open Scope N_scope.

(* ---------- Tracer ---------- *)
(* What a test name looks like after a history.  It is decided by the latest Init /
   Clear of that name and by the FIRST Complete after that Init.  The history is read
   backwards (latest operation first); `later` carries the earliest Complete seen so
   far on the way back. *)
Inductive view := NoSlot | Open | Done (t : trace).

Fixpoint lookback (rh : list action) (n : name) (later : option trace) : view :=
  match rh with
  | [] => NoSlot                                           (* never initialised *)
  | Init m :: r =>
    if bytes_eqb m n then match later with Some t => Done t | None => Open end
    else lookback r n later
  | Clear m :: r => if bytes_eqb m n then NoSlot else lookback r n later
  | Complete m t :: r => lookback r n (if bytes_eqb m n then Some t else later)
  | _ :: r => lookback r n later
  end.

Definition view_after (h : list action) (n : name) : view := lookback (rev h) n None.

(* The same, relationally (proved equivalent in C16_Props: view_done_iff etc.) *)
Definition touches (n : name) (a : action) : Prop := a = Init n \/ a = Clear n.
Definition untouched (n : name) (h : list action) : Prop := forall a, In a h -> ~ touches n a.
Definition uncompleted (n : name) (h : list action) : Prop := forall t, ~ In (Complete n t) h.

Definition first_completed (h : list action) (n : name) (t : trace) : Prop :=
  exists h1 h2 h3, h = h1 ++ Init n :: h2 ++ Complete n t :: h3 /\
                   untouched n h2 /\ uncompleted n h2 /\ untouched n h3.
Definition still_open (h : list action) (n : name) : Prop :=
  exists h1 h2, h = h1 ++ Init n :: h2 /\ untouched n h2 /\ uncompleted n h2.
Definition never_or_cleared (h : list action) (n : name) : Prop :=
  (forall a, In a h -> a <> Init n) \/
  (exists h1 h2, h = h1 ++ Clear n :: h2 /\ forall a, In a h2 -> a <> Init n).

(* Outcome of one Await call *)
Inductive outcome := StillWaiting | GotTrace (t : trace) | FailedFast | CtxError.

(* a waiter whose slot was replaced (Init) or dropped (Clear) can only end by its context *)
Fixpoint orphaned (w : N) (post : list action) : outcome :=
  match post with
  | [] => StillWaiting
  | CtxDone v :: r => if v =? w then CtxError else orphaned w r
  | _ :: r => orphaned w r
  end.

(* a waiter that began while the name was Open, then `post` happens *)
Fixpoint parked (n : name) (w : N) (post : list action) : outcome :=
  match post with
  | [] => StillWaiting
  | Complete m t :: r => if bytes_eqb m n then GotTrace t else parked n w r
  | Init m :: r => if bytes_eqb m n then orphaned w r else parked n w r
  | Clear m :: r => if bytes_eqb m n then orphaned w r else parked n w r
  | CtxDone v :: r => if v =? w then CtxError else parked n w r
  | AwaitBegin _ _ :: r => parked n w r
  end.

(* Await on n called after `pre`, followed by `post` *)
Definition await_outcome (pre post : list action) (w : N) (n : name) : outcome :=
  match view_after pre n with
  | NoSlot => FailedFast
  | Done t => GotTrace t
  | Open => parked n w post
  end.

Definition outcome_of (s : wstate) : option outcome :=
  match s with
  | NotStarted => None
  | Waiting _ => Some StillWaiting
  | Got t => Some (GotTrace t)
  | Failed => Some FailedFast
  | CtxErr => Some CtxError
  end.

(* ---------- builder ---------- *)
(* An operation's events are frozen by the first terminal action: a finishing event
   or build(). *)
Definition terminal (a : bact) : bool :=
  match a with Build => true | Add e => finishing e end.

(* the actions up to and including the first terminal one *)
Fixpoint cut (l : list bact) : list bact :=
  match l with
  | [] => []
  | a :: r => if terminal a then [a] else a :: cut r
  end.

Definition adds (l : list bact) : list bev :=
  flat_map (fun a => match a with Add e => [e] | Build => [] end) l.

Definition is_req_data (e : bev) : bool := match e with EReqData => true | _ => false end.
Definition is_resp_data (e : bev) : bool := match e with ERespData => true | _ => false end.
Definition count {A} (p : A -> bool) (l : list A) : N := N.of_nat (length (filter p l)).

(* the recorded form of the k-th added event: data events carry the number of earlier
   data events of the same direction *)
Definition recorded (before : list bev) (e : bev) : tev :=
  match e with
  | EReqData => TReqData (count is_req_data before)
  | ERespData => TRespData (count is_resp_data before)
  | EReqEnd x => TReqEnd x | ERespStart => TRespStart | ERespError x => TRespError x
  | ERespEndStream => TRespEndStream | ERespEnd x => TRespEnd x | ECanceled => TCanceled
  end.

Fixpoint numbered (before evs : list bev) : list tev :=
  match evs with
  | [] => []
  | e :: r => recorded before e :: numbered (before ++ [e]) r
  end.

Definition req_indices (l : list tev) : list N :=
  flat_map (fun e => match e with TReqData i => [i] | _ => [] end) l.
Definition resp_indices (l : list tev) : list N :=
  flat_map (fun e => match e with TRespData i => [i] | _ => [] end) l.
Definition upto (n : nat) : list N := map N.of_nat (seq 0 n).

(* "records no event after completion": in a delivered trace nothing follows a finishing
   event (an end of the response body, a response or request-body error, a cancellation) *)
Definition tev_finishing (e : tev) : bool :=
  match e with
  | TReqEnd x => negb (x =? 0)
  | TRespError _ | TRespEnd _ | TCanceled => true
  | _ => false
  end.
Definition nothing_after_finish (evs : list tev) : Prop :=
  forall pre e post, evs = pre ++ e :: post -> tev_finishing e = true -> post = [].

(* ---------- concurrency: interleavings of goroutines ---------- *)
(* l is a merge of l1 and l2 that keeps the order inside each of them *)
Inductive Shuffle {A} : list A -> list A -> list A -> Prop :=
| Sh_nil : Shuffle [] [] []
| Sh_l : forall a l1 l2 l, Shuffle l1 l2 l -> Shuffle (a :: l1) l2 (a :: l)
| Sh_r : forall a l1 l2 l, Shuffle l1 l2 l -> Shuffle l1 (a :: l2) (a :: l).

(* l is an interleaving of the scripts ss: every script's actions occur in l in program
   order, and l contains nothing else *)
Fixpoint Interleave {A} (ss : list (list A)) (l : list A) : Prop :=
  match ss with
  | [] => l = []
  | s :: r => exists m, Interleave r m /\ Shuffle s m l
  end.
