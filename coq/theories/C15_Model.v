(* C15_Model.v — executable model of internal/tracer/http2.go (with the pieces of reader.go and
   builder.go it drives), in the three layers the Go file is written in:

     L2  http2FrameTracer.trace / traceHeaderLocked / traceFrameLocked / emitFrame
         byte-level reassembly of frames per direction (client preface, 9-byte header,
         payload; header blocks continued in CONTINUATION frames are parsed as one unit),
         `broken` on anything the framer rejects.  Framer.ReadFrame's structural checks
         (x/net/http2 frame.go) are transcribed in parse_buf; HPACK decoding is the ORACLE
         `dec`: a function of the header blocks decoded before in that direction and the
         block at hand.
     L3  handleFrame / getStreamLocked / newStreamLocked / closeStreamLocked /
         setMaxStreamIDLocked / cancelAll (sm_ functions), dataTracer (dt_ functions), builder.add (b_add),
         http2RetryCollector (rc_ functions).  A nil dereference in Go is the outcome None.
     L1  tracingHTTP2Conn.Read / Write / Close (conn_op): what the caller sees.

   The model is of the REPAIRED code (KNOWN_FINDINGS.txt: CONTINUATION, two nil dereferences, reset before
   response headers).
   No proofs here. *)
From V Require Export Base.
Open Scope N_scope.

Definition len {A} (l : list A) : N := N.of_nat (length l).

(* Go:  if len(data) < need { acc = append(acc, data...); return }
        acc = append(acc, data[:need]...); data = data[need:]                                  *)
Definition take (need : N) (data : bytes) : bytes * option bytes :=
  if len data <? need then (data, None)
  else (firstn (N.to_nat need) data, Some (skipn (N.to_nat need) data)).

(* ====================================================================================== *)
(* frames                                                                                 *)
(* ====================================================================================== *)
Definition field := (bytes * bytes)%type.

Inductive dframe :=
| FHeaders (sid : N) (end_stream : bool) (fields : list field)   (* *http2.MetaHeadersFrame *)
| FData (sid : N) (end_stream : bool) (data : bytes)
| FRst (sid code : N)
| FGoAway (last code : N)
| FOther.                                                        (* handleFrame ignores it *)

Record fhdr := mkH { h_len : N; h_typ : N; h_flags : N; h_sid : N }.

Definition parse_hdr (p : bytes) : fhdr :=
  match p with
  | [a; b; c; t; f; s0; s1; s2; s3] =>
    mkH (a * 65536 + b * 256 + c) t f ((s0 mod 128) * 16777216 + s1 * 65536 + s2 * 256 + s3)
  | _ => mkH 0 0 0 0
  end.

Definition be4 (p : bytes) : N := be_decode (firstn 4 p) 0.

(* io.ReadFull of one frame from the buffer *)
Definition read_raw (buf : bytes) : option (fhdr * bytes * bytes) :=
  if len buf <? 9 then None else
  let h := parse_hdr (firstn 9 buf) in
  let rest := skipn 9 buf in
  if len rest <? h_len h then None
  else Some (h, firstn (N.to_nat (h_len h)) rest, skipn (N.to_nat (h_len h)) rest).

Definition flag (h : fhdr) (bit : N) : bool := N.testbit (h_flags h) bit.
(* END_STREAM 0x1, END_HEADERS 0x4, PADDED 0x8, PRIORITY 0x20; ACK 0x1 *)

(* readByte for the pad length when PADDED *)
Definition read_pad (h : fhdr) (p : bytes) : option (bytes * N) :=
  if flag h 3 then match p with [] => None | x :: p' => Some (p', x) end else Some (p, 0).

(* SettingsFrame.Value(SettingInitialWindowSize): first setting with id 4 *)
Fixpoint settings_window (fuel : nat) (p : bytes) : option N :=
  match fuel with
  | O => None
  | S fuel' =>
    match p with
    | i0 :: i1 :: v0 :: v1 :: v2 :: v3 :: r =>
      if i0 * 256 + i1 =? 4 then Some (be_decode [v0; v1; v2; v3] 0) else settings_window fuel' r
    | _ => None
    end
  end.

(* CONTINUATION frames of a header block: parseContinuationFrame + checkFrameOrder *)
Fixpoint collect (fuel : nat) (sid : N) (ended : bool) (frag rest : bytes) : option bytes :=
  if ended then Some frag else
  match fuel with
  | O => None
  | S fuel' =>
    match read_raw rest with
    | None => None
    | Some (h, p, rest') =>
      if negb (h_typ h =? 9) then None
      else if h_sid h =? 0 then None
      else if negb (h_sid h =? sid) then None
      else collect fuel' sid (flag h 2) (frag ++ p) rest'
    end
  end.

(* ====================================================================================== *)
(* the CONFIGURATION of the HPACK decoders (TracingHTTP2Conn: hpack.NewDecoder(limit, nil))  *)
(* ====================================================================================== *)
(* What the header fields of a block ARE is the oracle `dec` below; which blocks a decoder built with a given
   dynamic-table limit refuses outright is repository code (the argument of hpack.NewDecoder) and is modelled:
   a block may open with dynamic table size updates (RFC 7541 6.3: 001xxxxx, integer with a 5-bit prefix,
   hpack.readVarInt), and hpack.Decoder.parseDynamicTableSizeUpdate answers "dynamic table size update too
   large" (the framer: COMPRESSION_ERROR, the tracer: broken) when one exceeds dynTab.allowedMaxSize. *)
Fixpoint hp_varint (p : bytes) (m acc : N) : option (N * bytes) :=
  match p with
  | [] => None
  | b :: r =>
    let acc' := acc + (b mod 128) * 2 ^ m in
    if b <? 128 then Some (acc', r)
    else if 63 <=? m + 7 then None else hp_varint r (m + 7) acc'
  end.

Definition hp_size_update (blk : bytes) : option (N * bytes) :=
  match blk with
  | [] => None
  | b :: r =>
    if (32 <=? b) && (b <? 64) then
      (if b - 32 <? 31 then Some (b - 32, r) else hp_varint r 0 31)
    else None
  end.

Fixpoint hp_updates (fuel : nat) (blk : bytes) : list N :=
  match fuel with
  | O => []
  | S fuel' =>
    match hp_size_update blk with
    | Some (v, r) => v :: hp_updates fuel' r
    | None => []
    end
  end.

(* the dynamic table size updates a header block opens with *)
Definition leading_updates (blk : bytes) : list N := hp_updates (length blk) blk.

Definition hp_allows (allowed : N) (blk : bytes) : bool :=
  forallb (fun v => v <=? allowed) (leading_updates blk).

(* a decoder whose table may be resized up to `allowed` *)
Definition cfg_dec (allowed : N) (dec : list bytes -> bytes -> option (list field))
  : list bytes -> bytes -> option (list field) :=
  fun hist blk => if hp_allows allowed blk then dec hist blk else None.

(* math.MaxUint32: SETTINGS_HEADER_TABLE_SIZE is a 32-bit value, so no size a peer can announce exceeds it *)
Definition hpack_unlimited : N := 4294967295.

Section Oracle.
(* hpack.Decoder as used by readMetaFrame: history of blocks of this direction -> block -> fields *)
Variable dec : list bytes -> bytes -> option (list field).

(* Framer.ReadFrame (ReadMetaHeaders set) on the tracer's buffer; None = any error.
   Returns the frame and the new decoder history. *)
Definition parse_buf (hist : list bytes) (buf : bytes) : option (dframe * list bytes) :=
  match read_raw buf with
  | None => None
  | Some (h, p, rest) =>
    let t := h_typ h in
    if t =? 0 then                                   (* DATA *)
      if h_sid h =? 0 then None else
      match read_pad h p with
      | None => None
      | Some (p, pad) =>
        if len p <? pad then None
        else Some (FData (h_sid h) (flag h 0) (firstn (N.to_nat (len p - pad)) p), hist)
      end
    else if t =? 1 then                              (* HEADERS (+ CONTINUATION) *)
      if h_sid h =? 0 then None else
      match read_pad h p with
      | None => None
      | Some (p, pad) =>
        let p' := if flag h 5 then (if len p <? 5 then None else Some (skipn 5 p)) else Some p in
        match p' with
        | None => None
        | Some p =>
          if len p <? pad then None else
          match collect (length rest) (h_sid h) (flag h 2) (firstn (N.to_nat (len p - pad)) p) rest with
          | None => None
          | Some block =>
            match dec hist block with
            | None => None
            | Some fields => Some (FHeaders (h_sid h) (flag h 0) fields, hist ++ [block])
            end
          end
        end
      end
    else if t =? 2 then                              (* PRIORITY *)
      if h_sid h =? 0 then None else if negb (len p =? 5) then None else Some (FOther, hist)
    else if t =? 3 then                              (* RST_STREAM *)
      if negb (len p =? 4) then None else if h_sid h =? 0 then None
      else Some (FRst (h_sid h) (be4 p), hist)
    else if t =? 4 then                              (* SETTINGS *)
      if flag h 0 && (0 <? h_len h) then None
      else if negb (h_sid h =? 0) then None
      else if negb (len p mod 6 =? 0) then None
      else match settings_window (length p) p with
           | Some v => if 2147483647 <? v then None else Some (FOther, hist)
           | None => Some (FOther, hist)
           end
    else if t =? 5 then                              (* PUSH_PROMISE *)
      if h_sid h =? 0 then None else
      match read_pad h p with
      | None => None
      | Some (p, pad) =>
        if len p <? 4 then None
        else if len (skipn 4 p) <? pad then None else Some (FOther, hist)
      end
    else if t =? 6 then                              (* PING *)
      if negb (len p =? 8) then None else if negb (h_sid h =? 0) then None else Some (FOther, hist)
    else if t =? 7 then                              (* GOAWAY *)
      if negb (h_sid h =? 0) then None else if len p <? 8 then None
      else Some (FGoAway (be4 p mod 2147483648) (be4 (skipn 4 p)), hist)
    else if t =? 8 then                              (* WINDOW_UPDATE *)
      if negb (len p =? 4) then None
      else if be4 p mod 2147483648 =? 0 then None else Some (FOther, hist)
    else if t =? 9 then None                         (* CONTINUATION with no HEADERS before it *)
    else Some (FOther, hist)                         (* unknown frame type *)
  end.

(* ====================================================================================== *)
(* L2: http2FrameTracer                                                                   *)
(* ====================================================================================== *)
Definition preface : bytes := bs "PRI * HTTP/2.0" ++ [13; 10; 13; 10] ++ bs "SM" ++ [13; 10; 13; 10].

Record ftr := mkF {
  f_isreq : bool;          (* isRequest: this direction carries the client preface *)
  f_pre : bytes;           (* prefaceBytes *)
  f_broken : bool;
  f_prefix : bytes;        (* partial frame header *)
  f_hdr : fhdr;            (* header *)
  f_buf : bytes;           (* frame (bytes.Buffer) *)
  f_expect : N;
  f_actual : N;
  f_inblock : bool;        (* a header block is open (HEADERS/CONTINUATION without END_HEADERS) *)
  f_hist : list bytes }.   (* what h.decoder has decoded so far *)

Definition ft_init (isreq : bool) : ftr := mkF isreq [] false [] (mkH 0 0 0 0) [] 0 0 false [].

(* emitFrame -> (state, frames handed to handleFrame, return value) *)
Definition emit_frame (st : ftr) : ftr * list dframe * bool :=
  let h := f_hdr st in
  let isblk := (h_typ h =? 1) || ((h_typ h =? 9) && f_inblock st) in
  if isblk && negb (flag h 2) then
    (mkF (f_isreq st) (f_pre st) (f_broken st) (f_prefix st) h (f_buf st) (f_expect st) (f_actual st) true (f_hist st),
     [], true)
  else
    match parse_buf (f_hist st) (f_buf st) with
    | None =>
      (mkF (f_isreq st) (f_pre st) true (f_prefix st) h [] (f_expect st) (f_actual st) false (f_hist st), [], false)
    | Some (fr, hist') =>
      (mkF (f_isreq st) (f_pre st) (f_broken st) (f_prefix st) h [] (f_expect st) (f_actual st) false hist', [fr], true)
    end.

(* one iteration of the loop in trace(); the third component is the data to go on with *)
Definition ft_step (st : ftr) (data : bytes) : ftr * list dframe * option bytes :=
  if f_isreq st && (len (f_pre st) <? 24) then
    match take (24 - len (f_pre st)) data with
    | (d, None) =>
      (mkF (f_isreq st) (f_pre st ++ d) (f_broken st) (f_prefix st) (f_hdr st) (f_buf st) (f_expect st) (f_actual st)
           (f_inblock st) (f_hist st), [], None)
    | (d, Some rest) =>
      let pre' := f_pre st ++ d in
      if bytes_eqb pre' preface then
        (mkF (f_isreq st) pre' (f_broken st) (f_prefix st) (f_hdr st) (f_buf st) (f_expect st) (f_actual st)
             (f_inblock st) (f_hist st), [], Some rest)
      else
        (mkF (f_isreq st) pre' true (f_prefix st) (f_hdr st) (f_buf st) (f_expect st) (f_actual st)
             (f_inblock st) (f_hist st), [], None)
    end
  else if f_expect st =? 0 then
    (* traceHeaderLocked *)
    match take (9 - len (f_prefix st)) data with
    | (d, None) =>
      (mkF (f_isreq st) (f_pre st) (f_broken st) (f_prefix st ++ d) (f_hdr st) (f_buf st) (f_expect st) (f_actual st)
           (f_inblock st) (f_hist st), [], None)
    | (d, Some rest) =>
      let h := parse_hdr (f_prefix st ++ d) in
      let st1 := mkF (f_isreq st) (f_pre st) (f_broken st) [] h (f_buf st ++ f_prefix st ++ d) (h_len h) (f_actual st)
                     (f_inblock st) (f_hist st) in
      if h_len h =? 0 then
        match emit_frame st1 with
        | (st2, out, ok) => (st2, out, if ok then Some rest else None)
        end
      else (st1, [], Some rest)
    end
  else
    (* traceFrameLocked *)
    match take (f_expect st - f_actual st) data with
    | (d, None) =>
      (mkF (f_isreq st) (f_pre st) (f_broken st) (f_prefix st) (f_hdr st) (f_buf st ++ d) (f_expect st) (f_actual st + len d)
           (f_inblock st) (f_hist st), [], None)
    | (d, Some rest) =>
      let st1 := mkF (f_isreq st) (f_pre st) (f_broken st) (f_prefix st) (f_hdr st) (f_buf st ++ d) 0 0
                     (f_inblock st) (f_hist st) in
      match emit_frame st1 with
      | (st2, out, ok) => (st2, out, if ok then Some rest else None)
      end
    end.

Fixpoint ft_loop (fuel : nat) (st : ftr) (data : bytes) : ftr * list dframe :=
  match data with
  | [] => (st, [])
  | _ :: _ =>
    match fuel with
    | O => (st, [])
    | S fuel' =>
      match ft_step st data with
      | (st1, out, None) => (st1, out)
      | (st1, out, Some rest) =>
        match ft_loop fuel' st1 rest with
        | (st2, out2) => (st2, out ++ out2)
        end
      end
    end
  end.

(* http2FrameTracer.trace: every iteration consumes at least one byte *)
Definition ft_trace (st : ftr) (data : bytes) : ftr * list dframe :=
  if f_broken st then (st, []) else ft_loop (length data) st data.

End Oracle.

(* ====================================================================================== *)
(* L3a: dataTracer (reader.go), events, builder.add (builder.go)                          *)
(* ====================================================================================== *)
Inductive terr := ENil | EStream (code : N) | EConn (code : N) | EOther | ECanceled.

Definition is_nil_err (e : terr) : bool := match e with ENil => true | _ => false end.

(* isRetryable *)
Definition retryable (e : terr) : bool :=
  match e with EStream c => c =? 7 | EConn c => c =? 0 | _ => false end.

Definition env := option (N * N).   (* *Envelope: flags, length *)

(* what the callers hand to builder.add *)
Inductive bev :=
| BReqData (e : env) (n : N) | BReqEnd (e : terr)
| BRespStart (status : N) (hdrs : list field)
| BRespData (e : env) (n : N) | BRespEndStream (content : bytes) | BRespEnd (e : terr)
| BCanceled.

(* what ends up in Trace.Events *)
Inductive tev :=
| TReqStart | TReqData (i : N) (e : env) (n : N) | TReqEnd (e : terr)
| TRespStart (status : N) (hdrs : list field)
| TRespData (i : N) (e : env) (n : N) | TRespEndStream (content : bytes) | TRespEnd (e : terr)
| TCanceled.

Record dt := mkDT {
  d_isreq : bool; d_stream : bool; d_hasb : bool;      (* builder != nil *)
  d_prefix : bytes; d_env : env; d_expect : N; d_actual : N;
  d_end : option bytes }.                               (* endStream buffer *)

Definition dt_zero : dt := mkDT false false false [] None 0 0 None.
Definition dt_new (isreq streamp : bool) : dt := mkDT isreq streamp true [] None 0 0 None.

Definition data_ev (isreq : bool) (e : env) (n : N) : bev := if isreq then BReqData e n else BRespData e n.

(* traceMessageLocked: need := int(d.expecting - uint32(d.actual)), uint32 arithmetic.  Inside a message of a
   well-formed body actual < expecting and this is the plain difference; but `actual` also counts the bytes of a
   body that is not (yet) known to be a stream - response DATA arriving BEFORE the response HEADERS - and is not
   reset when the HEADERS then announce a stream protocol: the subtraction wraps around, as in the code. *)
Definition dt_need (d : dt) : N := (d_expect d + 4294967296 - d_actual d mod 4294967296) mod 4294967296.

Definition dt_step (d : dt) (data : bytes) : dt * list bev * option bytes :=
  if d_expect d =? 0 then
    (* tracePrefixLocked *)
    match take (5 - len (d_prefix d)) data with
    | (x, None) =>
      (mkDT (d_isreq d) (d_stream d) (d_hasb d) (d_prefix d ++ x) (d_env d) (d_expect d) (d_actual d) (d_end d), [], None)
    | (x, Some rest) =>
      let p := d_prefix d ++ x in
      let fl := nth 0 p 0 in
      let n := be_decode (skipn 1 p) 0 in
      if n =? 0 then
        (mkDT (d_isreq d) (d_stream d) (d_hasb d) [] None 0 (d_actual d) (d_end d),
         [data_ev (d_isreq d) (Some (fl, n)) 0], Some rest)
      else
        (mkDT (d_isreq d) (d_stream d) (d_hasb d) [] (Some (fl, n)) n (d_actual d)
              (if negb (d_isreq d) && negb (N.land fl 130 =? 0) then Some [] else d_end d),
         [], Some rest)
    end
  else
    (* traceMessageLocked *)
    match take (dt_need d) data with
    | (x, None) =>
      (mkDT (d_isreq d) (d_stream d) (d_hasb d) (d_prefix d) (d_env d) (d_expect d) (d_actual d + len x)
            (match d_end d with Some b => Some (b ++ x) | None => None end), [], None)
    | (x, Some rest) =>
      let ev := data_ev (d_isreq d) (d_env d) (d_expect d) in
      let evs := match d_end d with
                 | Some b => match b ++ x with [] => [ev] | c => [ev; BRespEndStream c] end
                 | None => [ev]
                 end in
      (mkDT (d_isreq d) (d_stream d) (d_hasb d) (d_prefix d) None 0 0 None, evs, Some rest)
    end.

Fixpoint dt_loop (fuel : nat) (d : dt) (data : bytes) : dt * list bev :=
  match data with
  | [] => (d, [])
  | _ :: _ =>
    match fuel with
    | O => (d, [])
    | S fuel' =>
      match dt_step d data with
      | (d1, out, None) => (d1, out)
      | (d1, out, Some rest) => match dt_loop fuel' d1 rest with (d2, out2) => (d2, out ++ out2) end
      end
    end
  end.

(* dataTracer.trace *)
Definition dt_trace (d : dt) (data : bytes) : dt * list bev :=
  if d_stream d then dt_loop (length data) d data
  else (mkDT (d_isreq d) (d_stream d) (d_hasb d) (d_prefix d) (d_env d) (d_expect d) (d_actual d + len data) (d_end d), []).

(* dataTracer.emitUnfinished; None = d.builder is nil and an event has to be added (nil dereference) *)
Definition dt_flush (d : dt) : option (dt * list bev) :=
  let unfinished := if (d_expect d =? 0) && (0 <? len (d_prefix d)) then len (d_prefix d) else d_actual d in
  let d' := mkDT (d_isreq d) (d_stream d) (d_hasb d) [] None 0 0 None in
  if 0 <? unfinished then
    if d_hasb d then Some (d', [data_ev (d_isreq d) (d_env d) unfinished]) else None
  else Some (d', []).

(* request line and headers: makeRequest / makeHeaders (header names as on the wire; http.Header
   canonicalises them, the harness prints them lower-cased again) *)
Record reqinfo := mkReq { q_method : bytes; q_scheme : bytes; q_host : bytes; q_path : bytes; q_query : bytes;
                          q_forceq : bool; q_hdrs : list field }.

Record btrace := mkTr {
  t_name : bytes; t_req : reqinfo; t_reqtrailer : list field;
  t_resp : option (N * list field * list field);       (* Response: status, headers, trailers *)
  t_err : terr; t_events : list tev }.

Record builder := mkB { b_trace : btrace; b_cleared : bool; b_req : N; b_resp : N }.

Definition empty_req : reqinfo := mkReq [] [] [] [] [] false [].
Definition empty_trace : btrace := mkTr [] empty_req [] None ENil [].

Definition is_nil {A} (l : list A) : bool := match l with [] => true | _ => false end.

Definition keep_err (old e : terr) : terr := if is_nil_err old then e else old.

Definition finishing (e : bev) : bool :=
  match e with
  | BReqEnd e => negb (is_nil_err e)
  | BRespEnd _ | BCanceled => true
  | _ => false
  end.

(* builder.add -> (builder, the trace handed to collector.Complete if any) *)
Definition b_add (b : builder) (e : bev) : builder * option btrace :=
  let t := b_trace b in
  if is_nil (t_name t) then (b, None) else
  let te := match e with
            | BReqData v n => TReqData (b_req b) v n | BReqEnd x => TReqEnd x
            | BRespStart s h => TRespStart s h | BRespData v n => TRespData (b_resp b) v n
            | BRespEndStream c => TRespEndStream c | BRespEnd x => TRespEnd x | BCanceled => TCanceled
            end in
  let req' := match e with BReqData _ _ => b_req b + 1 | _ => b_req b end in
  let resp' := match e with BRespData _ _ => b_resp b + 1 | _ => b_resp b end in
  let err' := match e with
              | BReqEnd x | BRespEnd x => keep_err (t_err t) x
              | BCanceled => keep_err (t_err t) ECanceled
              | _ => t_err t
              end in
  let r' := match e with BRespStart s h => Some (s, h, []) | _ => t_resp t end in
  let t' := mkTr (t_name t) (t_req t) (t_reqtrailer t) r' err' (t_events t ++ [te]) in
  if finishing e then (mkB empty_trace true req' resp', Some t')
  else (mkB t' (b_cleared b) req' resp', None).

Fixpoint b_adds (b : builder) (es : list bev) : builder * list btrace :=
  match es with
  | [] => (b, [])
  | e :: r =>
    match b_add b e with
    | (b1, o) => match b_adds b1 r with (b2, l) => (b2, match o with Some t => t :: l | None => l end) end
    end
  end.

(* ---- header helpers ---- *)
Fixpoint get_field (n : bytes) (fs : list field) : bytes :=
  match fs with
  | [] => []
  | (k, v) :: r => if bytes_eqb k n then v else get_field n r
  end.

Definition is_pseudo (f : field) : bool := match fst f with 58 :: _ => true | _ => false end.
Definition make_headers (fs : list field) : list field := filter (fun f => negb (is_pseudo f)) fs.

Fixpoint split_q (p : bytes) : bytes * option bytes :=
  match p with
  | [] => ([], None)
  | c :: r => if c =? 63 then ([], Some r) else match split_q r with (a, q) => (c :: a, q) end
  end.

Definition make_request (fs : list field) : reqinfo :=
  let p := get_field (bs ":path") fs in
  match split_q p with
  | (path, q) =>
    mkReq (get_field (bs ":method") fs) (get_field (bs ":scheme") fs) (get_field (bs ":authority") fs) path
          (match q with Some q => q | None => [] end)
          (match q with Some [] => true | _ => false end)
          (make_headers fs)
  end.

Fixpoint all_digits (s : bytes) : bool :=
  match s with [] => true | c :: r => is_digit c && all_digits r end.
Fixpoint dec_val (s : bytes) (acc : N) : N :=
  match s with [] => acc | c :: r => dec_val r (acc * 10 + (c - 48)) end.
(* makeResponse: strconv.Atoi of :status, 500 when absent or not a number (signs are not modelled) *)
Definition status_of (fs : list field) : N :=
  let s := get_field (bs ":status") fs in
  if is_nil s then 500 else if all_digits s && (length s <=? 18)%nat then dec_val s 0 else 500.

Definition test_name (fs : list field) : bytes := get_field (bs "x-test-case-name") (make_headers fs).

(* propertiesFromHeaders: isStreamProtocol (the decompressor is the identity in the modelled fragment) *)
Definition is_stream_proto (hdrs : list field) : bool :=
  if negb (is_nil (get_field (bs "content-encoding") hdrs)) then false
  else let ct := lower (get_field (bs "content-type") hdrs) in
       has_prefix (bs "application/connect") ct || has_prefix (bs "application/grpc") ct.

(* an end-stream message is run through the negotiated decompressor: only identity is modelled *)
Definition identity_only (hdrs : list field) : bool :=
  let ok v := is_nil v || bytes_eqb (lower v) (bs "identity") in
  ok (get_field (bs "grpc-encoding") hdrs) && ok (get_field (bs "connect-content-encoding") hdrs).

(* ====================================================================================== *)
(* L3b: streams                                                                           *)
(* ====================================================================================== *)
Record stream := mkS { s_b : builder; s_req : dt; s_got : bool; s_resp : dt }.

(* what handleFrame / cancelAll tell the retry collector, in order *)
Inductive cact := CNew (name : bytes) | CComplete (sid : N) (t : btrace) | CTimesUp (name : bytes) | CCancel.

Record sm := mkSM { m_streams : list (N * stream); m_max : N }.
Definition sm_init : sm := mkSM [] 0.

Fixpoint m_get (k : N) (l : list (N * stream)) : option stream :=
  match l with [] => None | (k', v) :: r => if k' =? k then Some v else m_get k r end.
Definition m_del (k : N) (l : list (N * stream)) : list (N * stream) := filter (fun e => negb (fst e =? k)) l.
Definition m_set (k : N) (v : stream) (l : list (N * stream)) : list (N * stream) := (k, v) :: m_del k l.

Definition completes (sid : N) (l : list btrace) : list cact := map (CComplete sid) l.

(* newStreamLocked *)
Definition new_stream (fs : list field) : stream :=
  let q := make_request fs in
  let b := mkB (mkTr (test_name fs) q [] None ENil [TReqStart]) false 0 0 in
  mkS b (dt_new true (is_stream_proto (q_hdrs q))) false dt_zero.

(* closeStreamLocked *)
Definition close_stream (sid : N) (s : stream) (isreq : bool) (e : terr)
  : option (option stream * list cact) :=
  let keep := isreq && is_nil_err e in
  if isreq then
    match dt_flush (s_req s) with
    | None => None
    | Some (rq, evs) =>
      match b_adds (s_b s) (evs ++ [BReqEnd e]) with
      | (b, done) => Some (if keep then Some (mkS b rq (s_got s) (s_resp s)) else None, completes sid done)
      end
    end
  else if d_hasb (s_resp s) then
    match dt_flush (s_req s), dt_flush (s_resp s) with
    | Some (rq, evs1), Some (rs, evs2) =>
      match b_adds (s_b s) (evs1 ++ evs2 ++ [BRespEnd e]) with
      | (b, done) => Some (None, completes sid done)
      end
    | _, _ => None
    end
  else if negb (is_nil_err e) then
    (* reset before any response headers (repaired code): the operation ends with this error *)
    match dt_flush (s_req s) with
    | None => None
    | Some (rq, evs1) =>
      match b_adds (s_b s) (evs1 ++ [BRespEnd e]) with
      | (b, done) => Some (None, completes sid done)
      end
    end
  else Some (None, []).

(* a stream abandoned by GOAWAY (and by cancelAll on a server): both tracers flushed, ResponseBodyEnd.
   The response tracer is only flushed when it has a builder (repaired code). *)
Definition abandon_resp (sid : N) (s : stream) (e : terr) : option (list cact) :=
  match dt_flush (s_req s) with
  | None => None
  | Some (_, evs1) =>
    let r := if d_hasb (s_resp s) then dt_flush (s_resp s) else Some (s_resp s, []) in
    match r with
    | None => None
    | Some (_, evs2) => Some (completes sid (snd (b_adds (s_b s) (evs1 ++ evs2 ++ [BRespEnd e]))))
    end
  end.

(* cancelAll on a client *)
Definition abandon_req (sid : N) (s : stream) (e : terr) : option (list cact) :=
  match dt_flush (s_req s) with
  | None => None
  | Some (_, evs1) => Some (completes sid (snd (b_adds (s_b s) (evs1 ++ [BReqEnd e; BCanceled]))))
  end.

Fixpoint abandon_all (f : N -> stream -> option (list cact)) (l : list (N * stream)) : option (list cact) :=
  match l with
  | [] => Some []
  | (k, s) :: r =>
    match f k s, abandon_all f r with
    | Some a, Some b => Some (a ++ b)
    | _, _ => None
    end
  end.

(* what a frame on stream sid does to that stream's map entry *)
Inductive upd := UKeep | USet (s : stream) | UDel.

Definition apply_upd (sid : N) (u : upd) (l : list (N * stream)) : list (N * stream) :=
  match u with UKeep => l | USet v => m_set sid v l | UDel => m_del sid l end.

Definition close_upd (r : option (option stream * list cact)) (pre : list cact) : option (upd * list cact) :=
  match r with
  | None => None
  | Some (Some s2, a) => Some (USet s2, pre ++ a)
  | Some (None, a) => Some (UDel, pre ++ a)
  end.

(* handleFrame for HEADERS / DATA / RST_STREAM, as a function of the stream's entry g = c.streams[sid]
   and maxStreamID; None = nil dereference *)
Definition sm_local (g : option stream) (max : N) (isreq : bool) (f : dframe) : option (upd * list cact) :=
  match f with
  | FHeaders sid es fs =>
    (* getStreamLocked *)
    let found :=
      match g with
      | Some s => Some (s, false, [])
      | None =>
        if negb isreq then None
        else if negb (max =? 0) && (max <? sid) then None
        else Some (new_stream fs, true, [CNew (test_name fs)])
      end in
    match found with
    | None => Some (UKeep, [])
    | Some (s, isnew, acts0) =>
      let s1 :=
        if isnew then Some (s, [])
        else if negb isreq && negb (s_got s) then
          (* receiveResponseLocked *)
          let h := make_headers fs in
          match b_add (s_b s) (BRespStart (status_of fs) h) with
          | (b, done) =>
            let o := s_resp s in     (* only isStreamProtocol, decompressor and builder are assigned *)
            Some (mkS b (s_req s) true
                      (mkDT (d_isreq o) (is_stream_proto h) true (d_prefix o) (d_env o) (d_expect o) (d_actual o) (d_end o)),
                  completes sid (match done with Some t => [t] | None => [] end))
          end
        else if isreq then
          (* stream.builder.trace.Request.Trailer = ...: Request is nil once the builder was cleared *)
          if b_cleared (s_b s) then None
          else let t := b_trace (s_b s) in
               Some (mkS (mkB (mkTr (t_name t) (t_req t) (make_headers fs) (t_resp t) (t_err t) (t_events t))
                              false (b_req (s_b s)) (b_resp (s_b s))) (s_req s) (s_got s) (s_resp s), [])
        else
          (* response trailers; only when there is a Response (repaired code) *)
          let t := b_trace (s_b s) in
          match t_resp t with
          | Some (stt, h, _) =>
            Some (mkS (mkB (mkTr (t_name t) (t_req t) (t_reqtrailer t) (Some (stt, h, make_headers fs)) (t_err t) (t_events t))
                           (b_cleared (s_b s)) (b_req (s_b s)) (b_resp (s_b s))) (s_req s) (s_got s) (s_resp s), [])
          | None => Some (s, [])
          end in
      match s1 with
      | None => None
      | Some (s1, acts1) =>
        if es then close_upd (close_stream sid s1 isreq ENil) (acts0 ++ acts1)
        else Some (USet s1, acts0 ++ acts1)
      end
    end
  | FData sid es data =>
    match g with
    | None => Some (UKeep, [])
    | Some s =>
      let '(s1, evs) :=
        if isreq then match dt_trace (s_req s) data with (d, evs) => (mkS (s_b s) d (s_got s) (s_resp s), evs) end
        else match dt_trace (s_resp s) data with (d, evs) => (mkS (s_b s) (s_req s) (s_got s) d, evs) end in
      match b_adds (s_b s1) evs with
      | (b, done) =>
        let s2 := mkS b (s_req s1) (s_got s1) (s_resp s1) in
        if es then close_upd (close_stream sid s2 isreq ENil) (completes sid done)
        else Some (USet s2, completes sid done)
      end
    end
  | FRst sid code =>
    match g with
    | None => Some (UKeep, [])
    | Some s => close_upd (close_stream sid s isreq (EStream code)) []
    end
  | _ => Some (UKeep, [])
  end.

Definition fsid (f : dframe) : option N :=
  match f with
  | FHeaders s _ _ | FData s _ _ | FRst s _ => Some s
  | _ => None
  end.

(* handleFrame; None = nil dereference *)
Definition sm_frame (client : bool) (st : sm) (isreq : bool) (f : dframe) : option (sm * list cact) :=
  match f with
  | FGoAway last code =>
    (* setMaxStreamIDLocked *)
    match abandon_all (fun k s => abandon_resp k s (EConn code)) (filter (fun e => last <? fst e) (m_streams st)) with
    | None => None
    | Some acts => Some (mkSM (filter (fun e => negb (last <? fst e)) (m_streams st)) last, acts)
    end
  | _ =>
    match fsid f with
    | None => Some (st, [])
    | Some sid =>
      match sm_local (m_get sid (m_streams st)) (m_max st) isreq f with
      | None => None
      | Some (u, acts) => Some (mkSM (apply_upd sid u (m_streams st)) (m_max st), acts)
      end
    end
  end.

(* cancelAll *)
Definition sm_cancel (client : bool) (st : sm) (e : terr) : option (sm * list cact) :=
  match abandon_all (fun k s => if client then abandon_req k s e else abandon_resp k s e) (m_streams st) with
  | None => None
  | Some acts => Some (mkSM [] (m_max st), acts ++ [CCancel])
  end.

(* ====================================================================================== *)
(* L3c: http2RetryCollector                                                               *)
(* ====================================================================================== *)
Record rc := mkRC { r_wait : list (bytes * btrace); r_out : list btrace }.
Definition rc_init : rc := mkRC [] [].

Definition w_del (n : bytes) (l : list (bytes * btrace)) : list (bytes * btrace) :=
  filter (fun e => negb (bytes_eqb (fst e) n)) l.
Fixpoint w_get (n : bytes) (l : list (bytes * btrace)) : option btrace :=
  match l with [] => None | (k, v) :: r => if bytes_eqb k n then Some v else w_get n r end.

Definition rc_step (r : rc) (a : cact) : rc :=
  match a with
  | CNew n => mkRC (w_del n (r_wait r)) (r_out r)                                   (* newAttempt *)
  | CComplete _ t =>
    if retryable (t_err t) then mkRC ((t_name t, t) :: w_del (t_name t) (r_wait r)) (r_out r)
    else match w_get (t_name t) (r_wait r) with
         | Some _ => r                                                              (* alreadyInvoked *)
         | None => mkRC (r_wait r) (r_out r ++ [t])
         end
  | CTimesUp n =>
    match w_get n (r_wait r) with
    | Some t => mkRC (w_del n (r_wait r)) (r_out r ++ [t])
    | None => r
    end
  | CCancel => mkRC [] (r_out r ++ map snd (r_wait r))
  end.

Definition rc_run (r : rc) (l : list cact) : rc := fold_left rc_step l r.

(* ====================================================================================== *)
(* L1: the connection                                                                     *)
(* ====================================================================================== *)
Section Conn.
Variable dec_r dec_w : list bytes -> bytes -> option (list field).

Record conn := mkC { c_server : bool; c_rd : ftr; c_wr : ftr; c_sm : sm; c_rc : rc }.

(* TracingHTTP2Conn *)
Definition conn_init (server : bool) : conn := mkC server (ft_init server) (ft_init (negb server)) sm_init rc_init.

(* the frames a trace() call emitted, through handleFrame *)
Fixpoint sm_frames (client : bool) (st : sm) (isreq : bool) (fs : list dframe) : option (sm * list cact) :=
  match fs with
  | [] => Some (st, [])
  | f :: r =>
    match sm_frame client st isreq f with
    | None => None
    | Some (st1, a1) =>
      match sm_frames client st1 isreq r with
      | None => None
      | Some (st2, a2) => Some (st2, a1 ++ a2)
      end
    end
  end.

(* scripted result of the inner conn's method: error class 0 nil, 1 io.EOF, 2 timeout, 3 other *)
Inductive op :=
| ORead (data : bytes) (e : N)            (* inner Read delivered data, returned e *)
| OWrite (data : bytes) (k : N) (e : N)   (* caller writes data; inner Write returns (k, e) *)
| OClose (e : N)
| OTimesUp (name : bytes).

(* what the caller gets back *)
Inductive opres :=
| RRead (data : bytes) (e : N) | RWrite (given : bytes) (k : N) (e : N) | RClose (e : N) | RTimer.

Definition cancel_conn (c : conn) : option conn :=
  match sm_cancel (negb (c_server c)) (c_sm c) EOther with
  | None => None
  | Some (m, acts) => Some (mkC (c_server c) (c_rd c) (c_wr c) m (rc_run (c_rc c) acts))
  end.

(* None = the tracer panicked *)
Definition conn_op (c : conn) (o : op) : option (conn * opres) :=
  match o with
  | ORead data e =>
    match ft_trace dec_r (c_rd c) data with
    | (rd, frames) =>
      match sm_frames (negb (c_server c)) (c_sm c) (f_isreq rd) frames with
      | None => None
      | Some (m, acts) =>
        let c1 := mkC (c_server c) rd (c_wr c) m (rc_run (c_rc c) acts) in
        if (e =? 0) || (e =? 2) then Some (c1, RRead data e)
        else match cancel_conn c1 with None => None | Some c2 => Some (c2, RRead data e) end
      end
    end
  | OWrite data k e =>
    match ft_trace dec_w (c_wr c) data with
    | (wr, frames) =>
      match sm_frames (negb (c_server c)) (c_sm c) (f_isreq wr) frames with
      | None => None
      | Some (m, acts) =>
        let c1 := mkC (c_server c) (c_rd c) wr m (rc_run (c_rc c) acts) in
        if e =? 0 then Some (c1, RWrite data k e)
        else match cancel_conn c1 with None => None | Some c2 => Some (c2, RWrite data k e) end
      end
    end
  | OClose e =>
    match cancel_conn c with None => None | Some c2 => Some (c2, RClose e) end
  | OTimesUp n =>
    Some (mkC (c_server c) (c_rd c) (c_wr c) (c_sm c) (rc_step (c_rc c) (CTimesUp n)), RTimer)
  end.

Fixpoint conn_run (c : conn) (ops : list op) : option (conn * list opres) :=
  match ops with
  | [] => Some (c, [])
  | o :: r =>
    match conn_op c o with
    | None => None
    | Some (c1, x) =>
      match conn_run c1 r with
      | None => None
      | Some (c2, xs) => Some (c2, x :: xs)
      end
    end
  end.
End Conn.

(* ====================================================================================== *)
(* case decoding / result encoding (extracted glue)                                       *)
(* ====================================================================================== *)
Definition MASK : N := 1073741823.   (* 2^30 - 1 *)
Fixpoint sx_hash (s : sx) (acc : N) : N :=
  match s with
  | I z => N.land (acc * 31 + 11 + Z.to_N z) MASK
  | B b => fold_left (fun a c => N.land (a * 31 + c + 1) MASK) b (N.land (acc * 31 + 7) MASK)
  | L l => N.land ((fix go (l : list sx) (a : N) : N :=
               match l with [] => a | x :: r => go r (sx_hash x a) end) l (N.land (acc * 31 + 5) MASK) * 31 + 3) MASK
  end.

Definition un_field (s : sx) : option field :=
  match s with L [B k; B v] => Some (k, v) | _ => None end.
Definition un_entry (s : sx) : option (bytes * list field) :=
  match s with L [B blk; fs] => do fs <- un_listof un_field fs; ret (blk, fs) | _ => None end.

(* the oracle of a run: the k-th block of the direction decodes to the k-th table entry
   (None when the block is not the one the encoder produced: decoding error) *)
Definition table_dec (tbl : list (bytes * list field)) (hist : list bytes) (blk : bytes) : option (list field) :=
  match nth_error tbl (length hist) with
  | Some (b, fs) => if bytes_eqb b blk then Some fs else None
  | None => None
  end.

(* op with lengths -> op with bytes; threads the positions in R and W *)
Fixpoint un_ops (ops : list sx) (R W : bytes) : option (list op) :=
  match ops with
  | [] => Some []
  | o :: r =>
    match o with
    | L [I 0%Z; I n; I e] =>
      let n := N.min (Z.to_N n) (len R) in
      do rest <- un_ops r (skipn (N.to_nat n) R) W; ret (ORead (firstn (N.to_nat n) R) (Z.to_N e) :: rest)
    | L [I 1%Z; I n; I k; I e] =>
      let n := N.min (Z.to_N n) (len W) in
      let k := if (Z.to_N k) <=? n then Z.to_N k else n in
      do rest <- un_ops r R (skipn (N.to_nat n) W); ret (OWrite (firstn (N.to_nat n) W) k (Z.to_N e) :: rest)
    | L [I 2%Z; I e] => do rest <- un_ops r R W; ret (OClose (Z.to_N e) :: rest)
    | L [I 3%Z; B n] => do rest <- un_ops r R W; ret (OTimesUp n :: rest)
    | _ => None
    end
  end.

Definition sx_ecode (e : N) : sx := sx_N (if e <=? 3 then e else 3).
Definition sx_opres (r : opres) : sx :=
  match r with
  | RRead d e => L [I 0%Z; sx_N (len d); sx_ecode e; B d; I 1%Z]
  | RWrite d k e => L [I 1%Z; sx_N k; sx_ecode e; B d; I 1%Z]
  | RClose e => L [I 2%Z; sx_ecode e; I 1%Z]
  | RTimer => L [I 3%Z]
  end.

Definition sx_terr (e : terr) : sx :=
  match e with
  | ENil => L [I 0%Z] | EStream c => L [I 1%Z; sx_N c] | EConn c => L [I 2%Z; sx_N c]
  | EOther => L [I 3%Z] | ECanceled => L [I 4%Z]
  end.
Definition sx_env (e : env) : sx := match e with None => L [] | Some (f, n) => L [sx_N f; sx_N n] end.

(* http.Header: values grouped by name, names sorted *)
Definition sx_hdrs (fs : list field) : sx :=
  L (map (fun k => L [B k; L (map (fun f => B (snd f)) (filter (fun f => bytes_eqb (fst f) k) fs))])
         (sort_bytes (dedup (map fst fs)))).

Definition sx_tev (e : tev) : sx :=
  match e with
  | TReqStart => L [I 0%Z]
  | TReqData i v n => L [I 1%Z; sx_N i; sx_env v; sx_N n]
  | TReqEnd x => L [I 2%Z; sx_terr x]
  | TRespStart s h => L [I 3%Z; sx_N s; sx_hdrs h]
  | TRespData i v n => L [I 4%Z; sx_N i; sx_env v; sx_N n]
  | TRespEndStream c => L [I 5%Z; B c]
  | TRespEnd x => L [I 6%Z; sx_terr x]
  | TCanceled => L [I 7%Z]
  end.

Definition sx_trace (t : btrace) : sx :=
  let q := t_req t in
  L [B (t_name t); B (q_method q); B (q_scheme q); B (q_host q); B (q_path q); B (q_query q); sx_bool (q_forceq q);
     sx_hdrs (q_hdrs q); sx_hdrs (t_reqtrailer t);
     match t_resp t with None => L [] | Some (s, h, tr) => L [sx_N s; sx_hdrs h; sx_hdrs tr] end;
     sx_terr (t_err t); L (map sx_tev (t_events t))].

(* stable insertion sort by key *)
Fixpoint insert_by {A} (key : A -> bytes) (x : A) (l : list A) : list A :=
  match l with
  | [] => [x]
  | y :: r => if bytes_leb (key x) (key y) then x :: l else y :: insert_by key x r
  end.
Definition sort_by {A} (key : A -> bytes) (l : list A) : list A := fold_right (insert_by key) [] l.
Fixpoint insert_N (x : N) (l : list N) : list N :=
  match l with [] => [x] | y :: r => if x <=? y then x :: l else y :: insert_N x r end.
Definition sort_N (l : list N) : list N := fold_right insert_N [] l.

Definition trace_key (t : btrace) : bytes := t_name t ++ 0 :: q_path (t_req t).

(* traces whose streams negotiated a compression are outside the modelled fragment *)
Definition in_fragment (t : btrace) : bool :=
  identity_only (q_hdrs (t_req t)) &&
  match t_resp t with Some (_, h, _) => identity_only h | None => true end.

Definition decode_case (args : list sx)
  : option (bool * list (bytes * list field) * list (bytes * list field) * list op) :=
  match args with
  | [I side; B R; B W; TR; TW; I chk; L ops] =>
    if negb (sx_hash (L [B R; B W; TR; TW]) 0 =? Z.to_N chk) then None else
    do tr <- un_listof un_entry TR; do tw <- un_listof un_entry TW;
    do ops <- un_ops ops R W;
    ret (negb (Z.eqb side 0), tr, tw, ops)
  | _ => None
  end.

Definition run_c15_conn (args : list sx) : sx :=
  or_bad (do (server, tr, tw, ops) <- decode_case args;
          (* TracingHTTP2Conn: both decoders are built with an unlimited dynamic table *)
          match conn_run (cfg_dec hpack_unlimited (table_dec tr)) (cfg_dec hpack_unlimited (table_dec tw))
                         (conn_init server) ops with
          | None => ret sx_crash
          | Some (c, rs) =>
            let out := r_out (c_rc c) in
            if negb (forallb in_fragment (out ++ map snd (r_wait (c_rc c)))) then None else
            ret (L [ L (map sx_opres rs);
                     L [sx_bool (f_broken (c_rd c)); sx_bool (f_broken (c_wr c))];
                     L (map sx_N (sort_N (map fst (m_streams (c_sm c)))));
                     L (map B (sort_bytes (map fst (r_wait (c_rc c)))));
                     L (map sx_trace (sort_by trace_key out)) ])
          end).

(* arbitrary bytes: only what the caller sees (and that nothing panics) *)
Definition no_dec (hist : list bytes) (blk : bytes) : option (list field) := None.
Definition run_c15_fuzz (args : list sx) : sx :=
  or_bad (do (server, _, _, ops) <- decode_case args;
          match conn_run no_dec no_dec (conn_init server) ops with
          | None => ret sx_crash
          | Some (_, rs) => ret (L [L (map sx_opres rs)])
          end).

Definition c15_table : list (bytes * (list sx -> sx)) :=
  [ (bs "c15.conn", run_c15_conn);
    (bs "c15.fuzz", run_c15_fuzz) ].
