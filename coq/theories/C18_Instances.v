(* C18_Instances.v — the contracts assumed of the third-party libraries are satisfiable:
   the computable instances the extracted model runs with (and which the differential run
   compares with the Go libraries on every check) satisfy them. *)
From Coq Require Import Lia.
From V Require Import C18_Spec C18_Proofs.
Open Scope N_scope.

(* ---- connect.NewErrorDetail / Type / Bytes ---- *)
Lemma detail_contract_i : detail_contract new_detail_i d_type_i d_bytes_i.
Proof.
  intros a. exists a. split; [reflexivity|]. split; [|reflexivity].
  unfold d_type_i. apply type_name_spec.
Qed.

Lemma d_type_i_noslash d : ~ In slash (d_type_i d).
Proof. apply type_name_noslash. Qed.

(* ---- base64 ---- *)
(* the 6-bit groups of a byte string *)
Fixpoint sextets (s : bytes) : list N :=
  match s with
  | a :: b :: c :: r =>
    (a / 4) :: ((a mod 4) * 16 + b / 16) :: ((b mod 16) * 4 + c / 64) :: (c mod 64) :: sextets r
  | [a; b] => [a / 4; (a mod 4) * 16 + b / 16; (b mod 16) * 4]
  | [a] => [a / 4; (a mod 4) * 16]
  | [] => []
  end.

Lemma list_ind3 {A} (P : list A -> Prop) :
  P [] -> (forall a, P [a]) -> (forall a b, P [a; b]) ->
  (forall a b c r, P r -> P (a :: b :: c :: r)) -> forall l, P l.
Proof.
  intros H0 H1 H2 H3.
  assert (X : forall l, P l /\ (forall a, P (a :: l)) /\ (forall a b, P (a :: b :: l))).
  { induction l as [|x l (I0 & I1 & I2)]; [repeat split; auto|].
    repeat split; [apply I1|intros; apply I2|intros; apply H3, I0]. }
  intros l. apply X.
Qed.

Lemma encode_sextets s : b64_encode s = map b64_char (sextets s).
Proof.
  induction s as [| | |a b c r IH] using list_ind3; try reflexivity.
  cbn [b64_encode sextets map]. rewrite IH. reflexivity.
Qed.

Ltac Zify.zify_post_hook ::= Z.to_euclidean_division_equations.

Lemma sextets_small s : Forall is_byte s -> Forall (fun n => n < 64) (sextets s).
Proof.
  unfold is_byte.
  induction s as [| | |a b c r IH] using list_ind3; intros H; cbn [sextets].
  - constructor.
  - inversion H; subst. constructor; [lia|]. constructor; [lia|]. constructor.
  - inversion H as [|? ? Ha H']; subst. inversion H'; subst.
    constructor; [lia|]. constructor; [lia|]. constructor; [lia|]. constructor.
  - inversion H as [|? ? Ha H']; subst. inversion H' as [|? ? Hb H'']; subst.
    inversion H'' as [|? ? Hc Hr]; subst.
    constructor; [lia|]. constructor; [lia|]. constructor; [lia|]. constructor; [lia|]. apply IH, Hr.
Qed.

Lemma groups_sextets s : Forall is_byte s -> b64_groups (sextets s) = Some s.
Proof.
  unfold is_byte.
  induction s as [| | |a b c r IH] using list_ind3; intros H; cbn [sextets b64_groups].
  - reflexivity.
  - inversion H; subst. do 2 f_equal. lia.
  - inversion H as [|? ? Ha H']; subst. inversion H'; subst. do 2 f_equal; [lia|f_equal; lia].
  - inversion H as [|? ? Ha H']; subst. inversion H' as [|? ? Hb H'']; subst.
    inversion H'' as [|? ? Hc Hr]; subst. rewrite (IH Hr).
    do 2 f_equal; [lia|]. f_equal; [lia|]. f_equal. lia.
Qed.

Definition b64_char_ok (n : N) : bool :=
  if n <? 64 then match b64_val (b64_char n) with Some v => v =? n | None => false end else true.
Lemma b64_char_ok_all : forallb b64_char_ok all_bytes = true.
Proof. vm_compute. reflexivity. Qed.

Lemma b64_val_char n : n < 64 -> b64_val (b64_char n) = Some n.
Proof.
  intros H. assert (Hb : n < 256) by lia.
  pose proof (byte_sweep _ b64_char_ok_all n Hb) as K. unfold b64_char_ok in K.
  apply N.ltb_lt in H. rewrite H in K.
  destruct (b64_val (b64_char n)) as [v|]; [|discriminate]. apply N.eqb_eq in K. congruence.
Qed.

Lemma vals_chars l : Forall (fun n => n < 64) l -> b64_vals (map b64_char l) = Some l.
Proof.
  induction 1 as [|n l Hn Hl IH]; [reflexivity|].
  cbn [map b64_vals]. rewrite (b64_val_char n Hn), IH. reflexivity.
Qed.

Lemma decode_raw_encode s : Forall is_byte s -> b64_decode_raw (b64_encode s) = Some s.
Proof.
  intros H. unfold b64_decode_raw. rewrite encode_sextets, (vals_chars _ (sextets_small s H)).
  apply groups_sextets, H.
Qed.

(* text made of alphabet characters only: no line breaks to skip, no padding to strip *)
Lemma b64_vals_alphabet s l : b64_vals s = Some l -> Forall (fun c => b64_val c <> None) s.
Proof.
  revert l; induction s as [|c s IH]; intros l E; [constructor|].
  cbn [b64_vals] in E. destruct (b64_val c) eqn:Ec; [|discriminate].
  destruct (b64_vals s) eqn:Es; [|discriminate]. constructor; [congruence|]. apply (IH _ eq_refl).
Qed.

Lemma alphabet_not_special c : b64_val c <> None -> is_newline c = false /\ (c =? pad) = false.
Proof.
  intros H. split.
  - destruct (is_newline c) eqn:E; [|reflexivity]. exfalso. apply H.
    unfold is_newline in E. apply orb_true_iff in E. destruct E as [E|E]; apply N.eqb_eq in E; subst; reflexivity.
  - destruct (N.eqb_spec c pad) as [->|]; [|reflexivity]. exfalso. apply H. reflexivity.
Qed.

Lemma dec_i_alphabet s : Forall (fun c => b64_val c <> None) s -> b64dec_i s = b64_decode_raw s.
Proof.
  intros H. unfold b64dec_i.
  assert (F : filter (fun c => negb (is_newline c)) s = s).
  { induction H as [|c s Hc Hs IH]; [reflexivity|]. cbn [filter].
    destruct (alphabet_not_special c Hc) as (-> & _). cbn [negb]. rewrite IH. reflexivity. }
  rewrite F. destruct (N.of_nat (length s) mod 4 =? 0) eqn:E; [|reflexivity].
  unfold b64_decode_std. rewrite E. cbn [negb].
  destruct (rev s) as [|p1 [|p2 body]] eqn:R; try reflexivity.
  assert (In1 : In p1 s) by (apply in_rev; rewrite R; left; reflexivity).
  assert (In2 : In p2 s) by (apply in_rev; rewrite R; right; left; reflexivity).
  rewrite Forall_forall in H.
  destruct (alphabet_not_special p1 (H p1 In1)) as (_ & ->).
  destruct (alphabet_not_special p2 (H p2 In2)) as (_ & E2). cbn [andb]. reflexivity.
Qed.

Lemma b64_contract_i : b64_contract b64enc_i b64dec_i.
Proof.
  intros x Hx. unfold b64enc_i. pose proof (decode_raw_encode x Hx) as D.
  rewrite dec_i_alphabet; [exact D|].
  unfold b64_decode_raw in D. destruct (b64_vals (b64_encode x)) as [l|] eqn:E; [|discriminate].
  apply (b64_vals_alphabet _ l E).
Qed.

(* ---- marshal oracles at contract level ---- *)
Definition json_unknown_i (w : wire_i) : Prop := fst w = 1 /\ has_unknown (snd w).

Lemma strip_clean m : clean (strip m) = true.
Proof.
  induction m as [k u subs IH] using pmsg_ind'. cbn [strip clean is_nil andb].
  rewrite forallb_forall. intros s Hs. apply in_map_iff in Hs. destruct Hs as (s0 & <- & Hin).
  rewrite Forall_forall in IH. apply IH, Hin.
Qed.

Lemma strip_id m : clean m = true -> strip m = m.
Proof.
  induction m as [k u subs IH] using pmsg_ind'. cbn [strip clean]. rewrite andb_true_iff.
  intros (Hu & Hs). destruct u; [|discriminate]. f_equal.
  rewrite forallb_forall in Hs. rewrite Forall_forall in IH.
  rewrite <- (map_id subs) at 2. apply map_ext_in. intros s Hin. apply IH; [exact Hin|apply Hs, Hin].
Qed.

Lemma bin_contract_i : bin_contract marshal_bin_i unmarshal_bin_i.
Proof. intros m. reflexivity. Qed.

Lemma json_contract_i : json_contract marshal_json_i unmarshal_json_i json_unknown_i.
Proof.
  split; [|split].
  - intros m NU. apply clean_iff in NU. unfold marshal_json_i, unmarshal_json_i. cbn [fst snd].
    rewrite N.eqb_refl, (strip_id m NU), NU. reflexivity.
  - intros [t m] (E & HU). cbn [fst snd] in *. subst t. unfold unmarshal_json_i. cbn [fst snd].
    rewrite N.eqb_refl. apply clean_false_iff in HU. rewrite HU. reflexivity.
  - intros [t m] m' E. unfold unmarshal_json_i in E. cbn [fst snd] in E.
    destruct (t =? 1); [|discriminate]. destruct (clean m) eqn:C; [|discriminate].
    inversion E; subst. apply clean_iff, C.
Qed.

Lemma contracts_inhabited_proof :
  detail_contract new_detail_i d_type_i d_bytes_i /\ (forall d, ~ In slash (d_type_i d)) /\
  b64_contract b64enc_i b64dec_i /\
  bin_contract marshal_bin_i unmarshal_bin_i /\
  json_contract marshal_json_i unmarshal_json_i json_unknown_i.
Proof.
  split; [exact detail_contract_i|]. split; [exact d_type_i_noslash|]. split; [exact b64_contract_i|].
  split; [exact bin_contract_i|exact json_contract_i].
Qed.
