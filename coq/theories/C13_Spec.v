(* C13_Spec.v — what "well-formed" and "malformed" mean, written from the protocol texts
   (RFC 7230 field syntax, the gRPC HTTP/2 and gRPC-Web status trailers, the Connect error
   and end-of-stream JSON), not from the structure of wire_details.go. *)
From V Require Import C13_Model.
Open Scope N_scope.

Definition is_byte (c : N) : Prop := c < 256.

(* RFC 7230 3.2.6 token characters; field-content bytes (VCHAR / SP / HTAB / obs-text) *)
Definition tchar (c : N) : Prop :=
  In c (bs "!#$%&'*+-.^_`|~0123456789abcdefghijklmnopqrstuvwxyzABCDEFGHIJKLMNOPQRSTUVWXYZ").
Definition vchar (c : N) : Prop := c = 9 \/ (32 <= c /\ c <> 127).

(* gRPC: Percent-Byte-Unencoded = 0x20-0x24 / 0x26-0x7E *)
Definition unencoded (c : N) : Prop := (32 <= c /\ c <= 36) \/ (38 <= c /\ c <= 126).

(* response metadata a server may add to the status trailers: token names other than the three
   status trailers, field-content values *)
Definition status_names : list bytes :=
  [bs "grpc-status"; bs "grpc-message"; bs "grpc-status-details-bin"].
Definition wf_trailer (h : header) : Prop :=
  Forall tchar (fst h) /\ ~ In (lower (fst h)) status_names /\ Forall (Forall vchar) (snd h).
Definition wf_meta (hs : list header) : Prop := Forall wf_trailer hs.

(* the protobuf library: what was marshalled is what is unmarshalled, and it is bytes *)
Definition proto_roundtrip (marshal : Z -> bytes -> list (bytes * bytes) -> option bytes)
                           (unmarshal : bytes -> ustatus) : Prop :=
  forall c m ds d, marshal c m ds = Some d -> unmarshal d = UOk c m (length ds) /\ Forall is_byte d.

(* ---------- Connect JSON ---------- *)
(* no object anywhere in the tree has two members with the same key, and every number converts *)
Inductive clean_json : json -> Prop :=
| cj_null : clean_json JNull
| cj_bool b : clean_json (JBool b)
| cj_num : clean_json (JNum true)
| cj_str s : clean_json (JStr s)
| cj_arr l : Forall clean_json l -> clean_json (JArr l)
| cj_obj ms : NoDup (map fst ms) -> Forall (fun kv => clean_json (snd kv)) ms -> clean_json (JObj ms).

(* an error detail: {"type": full name, "value": unpadded base64, "debug"?: anything} *)
Definition wf_detail (t : json) : Prop :=
  exists ms, t = JObj ms /\ clean_json t /\
    (forall k v, In (k, v) ms ->
       (k = bs "type" /\ exists s, v = JStr s /\ fullname_valid s = true) \/
       (k = bs "value" /\ exists s d, v = JStr s /\ b64_decode_raw s = Some d) \/
       k = bs "debug") /\
    In (bs "type") (map fst ms) /\ In (bs "value") (map fst ms).

(* a Connect error: {"code": one of the 16 names, "message"?: string, "details"?: [detail]} *)
Definition wf_connect_error (t : json) : Prop :=
  exists ms, t = JObj ms /\ clean_json t /\
    (forall k v, In (k, v) ms ->
       (k = bs "code" /\ exists s, v = JStr s /\ In s C13_Consts.c13_code_names) \/
       (k = bs "message" /\ exists s, v = JStr s) \/
       (k = bs "details" /\ exists l, v = JArr l /\ Forall wf_detail l)) /\
    In (bs "code") (map fst ms).

(* an end-of-stream message: {"error"?: Connect error, "metadata"?: {name: [value]}} *)
Definition wf_metadata_entry (kv : bytes * json) : Prop :=
  valid_field_name (fst kv) = true /\
  exists l, snd kv = JArr l /\ Forall (fun v => exists s, v = JStr s /\ valid_field_value s = true) l.
Definition wf_end_stream (t : json) : Prop :=
  exists ms, t = JObj ms /\ clean_json t /\
    (forall k v, In (k, v) ms ->
       (k = bs "error" /\ wf_connect_error v) \/
       (k = bs "metadata" /\ exists es, v = JObj es /\ Forall wf_metadata_entry es)).

(* ---------- what a server may put into a Connect error / end-of-stream message ---------- *)
(* an error detail: a full type name, value bytes, and (when the type resolves) a debug rendering that is
   some duplicate-free JSON value *)
Definition wf_wdetail (d : wdetail) : Prop :=
  fullname_valid (fst (fst d)) = true /\ Forall is_byte (snd (fst d)) /\
  (forall j, snd d = Some j -> clean_json j).
(* a metadata field: token name, field-content values (RFC 7230) *)
Definition wf_field (h : header) : Prop := Forall tchar (fst h) /\ Forall (Forall vchar) (snd h).
Definition wf_wire_error (e : N * bytes * list wdetail) : Prop :=
  1 <= fst (fst e) <= 16 /\ Forall wf_wdetail (snd e).
