(* C13_Spec.v — in progress *)
