(* C07_Consts.v - REGENERATED on every run from the compiled Go code by TestVerifConsts
   (harness/C07); do not edit. *)
From Coq Require Import ZArith NArith List.
Import ListNotations.
Definition c07_all_protocols : list N := [1%N; 2%N; 3%N].
Definition c07_all_versions : list N := [1%N; 2%N; 3%N].
Definition c07_all_codecs : list N := [1%N; 2%N; 3%N].
Definition c07_all_compressions : list N := [1%N; 2%N; 3%N; 4%N; 5%N; 6%N].
Definition c07_all_streams : list N := [1%N; 2%N; 3%N; 4%N; 5%N].
Definition c07_protocol_names : list (N * list N) :=
  [(0%N, [80%N; 82%N; 79%N; 84%N; 79%N; 67%N; 79%N; 76%N; 95%N; 85%N; 78%N; 83%N; 80%N; 69%N; 67%N; 73%N; 70%N; 73%N; 69%N; 68%N]);
   (1%N, [80%N; 82%N; 79%N; 84%N; 79%N; 67%N; 79%N; 76%N; 95%N; 67%N; 79%N; 78%N; 78%N; 69%N; 67%N; 84%N]);
   (2%N, [80%N; 82%N; 79%N; 84%N; 79%N; 67%N; 79%N; 76%N; 95%N; 71%N; 82%N; 80%N; 67%N]);
   (3%N, [80%N; 82%N; 79%N; 84%N; 79%N; 67%N; 79%N; 76%N; 95%N; 71%N; 82%N; 80%N; 67%N; 95%N; 87%N; 69%N; 66%N])].
Definition c07_codec_names : list (N * list N) :=
  [(0%N, [67%N; 79%N; 68%N; 69%N; 67%N; 95%N; 85%N; 78%N; 83%N; 80%N; 69%N; 67%N; 73%N; 70%N; 73%N; 69%N; 68%N]);
   (1%N, [67%N; 79%N; 68%N; 69%N; 67%N; 95%N; 80%N; 82%N; 79%N; 84%N; 79%N]);
   (2%N, [67%N; 79%N; 68%N; 69%N; 67%N; 95%N; 74%N; 83%N; 79%N; 78%N]);
   (3%N, [67%N; 79%N; 68%N; 69%N; 67%N; 95%N; 84%N; 69%N; 88%N; 84%N])].
Definition c07_compression_names : list (N * list N) :=
  [(0%N, [67%N; 79%N; 77%N; 80%N; 82%N; 69%N; 83%N; 83%N; 73%N; 79%N; 78%N; 95%N; 85%N; 78%N; 83%N; 80%N; 69%N; 67%N; 73%N; 70%N; 73%N; 69%N; 68%N]);
   (1%N, [67%N; 79%N; 77%N; 80%N; 82%N; 69%N; 83%N; 83%N; 73%N; 79%N; 78%N; 95%N; 73%N; 68%N; 69%N; 78%N; 84%N; 73%N; 84%N; 89%N]);
   (2%N, [67%N; 79%N; 77%N; 80%N; 82%N; 69%N; 83%N; 83%N; 73%N; 79%N; 78%N; 95%N; 71%N; 90%N; 73%N; 80%N]);
   (3%N, [67%N; 79%N; 77%N; 80%N; 82%N; 69%N; 83%N; 83%N; 73%N; 79%N; 78%N; 95%N; 66%N; 82%N]);
   (4%N, [67%N; 79%N; 77%N; 80%N; 82%N; 69%N; 83%N; 83%N; 73%N; 79%N; 78%N; 95%N; 90%N; 83%N; 84%N; 68%N]);
   (5%N, [67%N; 79%N; 77%N; 80%N; 82%N; 69%N; 83%N; 83%N; 73%N; 79%N; 78%N; 95%N; 68%N; 69%N; 70%N; 76%N; 65%N; 84%N; 69%N]);
   (6%N, [67%N; 79%N; 77%N; 80%N; 82%N; 69%N; 83%N; 83%N; 73%N; 79%N; 78%N; 95%N; 83%N; 78%N; 65%N; 80%N; 80%N; 89%N])].
Definition c07_default_service : list N := [99%N; 111%N; 110%N; 110%N; 101%N; 99%N; 116%N; 114%N; 112%N; 99%N; 46%N; 99%N; 111%N; 110%N; 102%N; 111%N; 114%N; 109%N; 97%N; 110%N; 99%N; 101%N; 46%N; 118%N; 49%N; 46%N; 67%N; 111%N; 110%N; 102%N; 111%N; 114%N; 109%N; 97%N; 110%N; 99%N; 101%N; 83%N; 101%N; 114%N; 118%N; 105%N; 99%N; 101%N].
Definition c07_default_methods : list (N * list N) :=
  [(1%N, [85%N; 110%N; 97%N; 114%N; 121%N]);
   (2%N, [67%N; 108%N; 105%N; 101%N; 110%N; 116%N; 83%N; 116%N; 114%N; 101%N; 97%N; 109%N]);
   (3%N, [83%N; 101%N; 114%N; 118%N; 101%N; 114%N; 83%N; 116%N; 114%N; 101%N; 97%N; 109%N]);
   (4%N, [66%N; 105%N; 100%N; 105%N; 83%N; 116%N; 114%N; 101%N; 97%N; 109%N]);
   (5%N, [66%N; 105%N; 100%N; 105%N; 83%N; 116%N; 114%N; 101%N; 97%N; 109%N])].
Definition c07_client_receive_limit : N := 1048576%N.
Definition c07_marker_both : list N := [40%N; 103%N; 114%N; 112%N; 99%N; 32%N; 105%N; 109%N; 112%N; 108%N; 115%N; 41%N].
Definition c07_marker_client : list N := [40%N; 103%N; 114%N; 112%N; 99%N; 32%N; 99%N; 108%N; 105%N; 101%N; 110%N; 116%N; 32%N; 105%N; 109%N; 112%N; 108%N; 41%N].
Definition c07_marker_server : list N := [40%N; 103%N; 114%N; 112%N; 99%N; 32%N; 115%N; 101%N; 114%N; 118%N; 101%N; 114%N; 32%N; 105%N; 109%N; 112%N; 108%N; 41%N].
