(* C13_Proofs3.v — the Connect JSON examiners characterised: each is silent on a value tree
   exactly when the tree satisfies the declarative well-formedness predicate of C13_Spec
   (clean_json / wf_detail / wf_connect_error / wf_end_stream), at every depth. *)
From Coq Require Import Lia.
From V Require Import C13_Consts C13_Model C13_Spec C13_Proofs.
Open Scope N_scope.

(* ====================================================================== *)
(* induction over value trees                                              *)
(* ====================================================================== *)
Section JsonInd.
  Variable P : json -> Prop.
  Hypothesis Hnull : P JNull.
  Hypothesis Hbool : forall b, P (JBool b).
  Hypothesis Hnum : forall f, P (JNum f).
  Hypothesis Hstr : forall s, P (JStr s).
  Hypothesis Harr : forall l, Forall P l -> P (JArr l).
  Hypothesis Hobj : forall ms, Forall (fun kv => P (snd kv)) ms -> P (JObj ms).
  Fixpoint json_ind2 (t : json) : P t :=
    match t with
    | JNull => Hnull
    | JBool b => Hbool b
    | JNum f => Hnum f
    | JStr s => Hstr s
    | JArr l =>
      Harr l ((fix go (l : list json) : Forall P l :=
                 match l with
                 | [] => Forall_nil P
                 | x :: r => Forall_cons x (json_ind2 x) (go r)
                 end) l)
    | JObj ms =>
      Hobj ms ((fix go (l : list (bytes * json)) : Forall (fun kv => P (snd kv)) l :=
                  match l with
                  | [] => Forall_nil _
                  | (k, v) :: r => Forall_cons (k, v) (json_ind2 v) (go r)
                  end) ms)
    end.
End JsonInd.

(* ====================================================================== *)
(* checkNoDuplicateKeys finds nothing  <->  clean_json                      *)
(* ====================================================================== *)
Lemma dup_arr_none l : dup_arr l = None <-> Forall (fun x => check_dup x = None) l.
Proof.
  induction l as [|x r IH]; cbn [dup_arr]; [split; [constructor|reflexivity]|].
  destruct (check_dup x) eqn:E.
  - split; [discriminate|]. intros H. inversion H; congruence.
  - rewrite IH. split; [intros H; constructor; assumption|intros H; inversion H; assumption].
Qed.

Lemma dup_go_iff : forall l seen,
  dup_go seen l = None <->
  NoDup (map fst l) /\ (forall k, In k (map fst l) -> ~ In k seen) /\
  Forall (fun kv => check_dup (snd kv) = None) l.
Proof.
  induction l as [|[k v] r IH]; intros seen; cbn [dup_go map fst].
  - split; [intros _; repeat split; [constructor|intros ? []|constructor]|reflexivity].
  - destruct (mem_bytes k seen) eqn:M.
    + split; [discriminate|]. intros (_ & NS & _). exfalso. apply (NS k); [left; reflexivity|].
      apply mem_bytes_in, M.
    + assert (NM : ~ In k seen) by (intros HI; apply mem_bytes_in in HI; congruence).
      destruct (check_dup v) eqn:E.
      * split; [discriminate|]. intros (_ & _ & F). inversion F; subst. cbn [snd] in *. congruence.
      * rewrite IH. split.
        -- intros (ND & NS & F). split; [|split].
           ++ constructor; [|exact ND]. intros HI. apply (NS k HI). left. reflexivity.
           ++ intros k' [<-|HI]; [exact NM|]. intros HS. apply (NS k' HI). right. exact HS.
           ++ constructor; [exact E|exact F].
        -- intros (ND & NS & F). inversion ND; subst. inversion F; subst. split; [|split].
           ++ assumption.
           ++ intros k' HI [<-|HS]; [contradiction|]. apply (NS k'); [right; exact HI|exact HS].
           ++ assumption.
Qed.

Lemma clean_iff_proof : forall t, check_dup t = None <-> clean_json t.
Proof.
  induction t as [| b | f | s | l IH | ms IH] using json_ind2.
  - split; [constructor|reflexivity].
  - split; [constructor|reflexivity].
  - destruct f; cbn; split; try constructor; try discriminate; try reflexivity. intros H. inversion H.
  - split; [constructor|reflexivity].
  - rewrite check_dup_arr, dup_arr_none. split.
    + intros H. constructor. rewrite Forall_forall in *. intros x Hx. apply (IH x Hx), H, Hx.
    + intros H. inversion H; subst. rewrite Forall_forall in *. intros x Hx. apply (IH x Hx). auto.
  - rewrite check_dup_obj, dup_go_iff. split.
    + intros (ND & _ & F). constructor; [exact ND|]. rewrite Forall_forall in *. intros kv Hkv.
      apply (IH kv Hkv), F, Hkv.
    + intros H. inversion H; subst. split; [assumption|]. split; [intros ? _ []|].
      rewrite Forall_forall in *. intros kv Hkv. apply (IH kv Hkv). auto.
Qed.

(* ====================================================================== *)
(* small tools                                                             *)
(* ====================================================================== *)
Lemma flat_map_nil_iff {A B} (f : A -> list B) l : flat_map f l = [] <-> forall x, In x l -> f x = [].
Proof.
  split; [|apply flat_map_nil]. induction l as [|y l IH]; intros H x []; cbn in H; apply app_eq_nil in H as [H1 H2].
  - subst. exact H1.
  - apply IH; assumption.
Qed.

Lemma sorted_nil_iff {B} (f : bytes * json -> list B) ms :
  flat_map f (sort_members ms) = [] <-> forall k v, In (k, v) ms -> f (k, v) = [].
Proof.
  rewrite flat_map_nil_iff. split.
  - intros H k v Hin. apply H, sort_members_in, Hin.
  - intros H [k v] Hin. apply H, sort_members_in, Hin.
Qed.

Lemma in_keys {B} (k : bytes) (ms : list (bytes * B)) : In k (map fst ms) <-> exists v, In (k, v) ms.
Proof.
  rewrite in_map_iff. split.
  - intros ([k' v] & <- & H). exists v. exact H.
  - intros (v & H). exists (k, v). auto.
Qed.

Lemma nodup_unique {B} (k : bytes) (v v' : B) (ms : list (bytes * B)) : NoDup (map fst ms) -> In (k, v) ms -> In (k, v') ms -> v = v'.
Proof.
  induction ms as [|[k0 v0] r IH]; intros ND H1 H2; [destruct H1|].
  cbn [map fst] in ND. inversion ND; subst.
  destruct H1 as [E1|H1]; destruct H2 as [E2|H2].
  - congruence.
  - inversion E1; subst. exfalso. apply H3. apply in_keys. eauto.
  - inversion E2; subst. exfalso. apply H3. apply in_keys. eauto.
  - apply IH; assumption.
Qed.

(* the typed view of a field (last member whose key folds to the field's name) *)
Lemma last_field_nomatch name : forall ms acc,
  (forall k, In k (map fst ms) -> field_match name k = false) -> last_field name ms acc = acc.
Proof.
  induction ms as [|[k v] r IH]; intros acc H; [reflexivity|]. cbn [last_field].
  rewrite (H k) by (left; reflexivity). apply IH. intros k' Hk. apply H. right. exact Hk.
Qed.

Lemma field_match_refl name : field_match name name = true.
Proof. unfold field_match. apply bytes_eqb_refl. Qed.

Lemma last_field_unique name v : forall ms acc, NoDup (map fst ms) ->
  (forall k, In k (map fst ms) -> field_match name k = true -> k = name) ->
  In (name, v) ms -> last_field name ms acc = Some v.
Proof.
  induction ms as [|[k0 v0] r IH]; intros acc ND U Hin; [destruct Hin|].
  cbn [map fst] in ND. inversion ND as [|? ? NI ND']; subst. cbn [last_field].
  destruct Hin as [E|Hin].
  - inversion E; subst. rewrite field_match_refl. apply last_field_nomatch.
    intros k Hk. destruct (field_match name k) eqn:FM; [|reflexivity].
    exfalso. apply NI. rewrite <- (U k); [exact Hk|right; exact Hk|exact FM].
  - assert (NE : field_match name k0 = false).
    { destruct (field_match name k0) eqn:FM; [|reflexivity]. exfalso. apply NI.
      rewrite (U k0); [apply in_keys; eauto|left; reflexivity|exact FM]. }
    rewrite NE. apply IH; [exact ND'| |exact Hin]. intros k Hk. apply U. right. exact Hk.
Qed.

Lemma get_key_unique k v : forall ms, NoDup (map fst ms) -> In (k, v) ms -> get_key k ms = Some v.
Proof.
  induction ms as [|[k0 v0] r IH]; intros ND Hin; [destruct Hin|].
  cbn [map fst] in ND. inversion ND as [|? ? NI ND']; subst. cbn [get_key].
  destruct Hin as [E|Hin].
  - inversion E; subst. rewrite bytes_eqb_refl. reflexivity.
  - destruct (bytes_eqb_spec k k0) as [->|NE]; [exfalso; apply NI; apply in_keys; eauto|]. apply IH; assumption.
Qed.

Lemma get_key_none k : forall (ms : list (bytes * json)), ~ In k (map fst ms) -> get_key k ms = None.
Proof.
  induction ms as [|[k0 v0] r IH]; intros NI; [reflexivity|]. cbn [get_key].
  destruct (bytes_eqb_spec k k0) as [->|NE]; [exfalso; apply NI; left; reflexivity|].
  apply IH. intros H. apply NI. right. exact H.
Qed.

Lemma has_key_false k (ms : list (bytes * json)) : has_key k ms = false <-> ~ In k (map fst ms).
Proof. rewrite <- has_key_in. destruct (has_key k ms); split; congruence. Qed.

(* examineJSON on an object: either it hands the members on, or it reports one message *)
Lemma examine_json_ok ctx fs ms :
  examine_json ctx fs (Some (JObj ms)) = JOk ms <-> typed_ok fs ms = true /\ check_dup (JObj ms) = None.
Proof.
  unfold examine_json. destruct (typed_ok fs ms); [|split; [discriminate|intros [? _]; discriminate]].
  destruct (check_dup (JObj ms)) as [[|]|]; split; try discriminate; auto; intros [_ ?]; discriminate.
Qed.

Lemma examine_json_cases ctx fs t :
  (exists ms, t = Some (JObj ms) /\ examine_json ctx fs t = JOk ms) \/ exists f, examine_json ctx fs t = JErr f.
Proof.
  unfold examine_json. destruct t as [[| | | | |ms]|]; eauto.
  destruct (typed_ok fs ms); [|eauto]. destruct (check_dup (JObj ms)) as [[|]|]; eauto.
Qed.

Lemma typed_ok_all fs ms :
  (forall k v, In (k, v) ms -> exists kd, find_field fs k = Some kd /\ kind_ok kd v = true) -> typed_ok fs ms = true.
Proof.
  intros H. unfold typed_ok. apply forallb_forall. intros [k v] Hin. cbn [fst snd].
  destruct (H k v Hin) as (kd & -> & K). exact K.
Qed.

(* ====================================================================== *)
(* examineConnectErrorDetail                                               *)
(* ====================================================================== *)
Definition detail_member_ok (k : bytes) (v : json) : Prop :=
  (k = bs "type" /\ exists s, v = JStr s /\ fullname_valid s = true) \/
  (k = bs "value" /\ exists s d, v = JStr s /\ b64_decode_raw s = Some d) \/
  k = bs "debug".

Lemma cd_key_iff k v : cd_key_fb (k, v) = [] <-> detail_member_ok k v.
Proof.
  unfold cd_key_fb, detail_member_ok.
  destruct (bytes_eqb_spec k (bs "type")) as [->|N1].
  { split.
    - intros H. left. split; [reflexivity|]. destruct v; try discriminate H.
      destruct (fullname_valid s) eqn:F; [eauto|discriminate H].
    - intros [(_ & s & -> & F)|[(E & _)|E]]; [rewrite F; reflexivity|discriminate E|discriminate E]. }
  destruct (bytes_eqb_spec k (bs "value")) as [->|N2].
  { split.
    - intros H. right. left. split; [reflexivity|]. destruct v; try discriminate H.
      destruct (b64_decode_raw s) eqn:F; [eauto|discriminate H].
    - intros [(E & _)|[(_ & s & d & -> & F)|E]]; [discriminate E|rewrite F; reflexivity|discriminate E]. }
  destruct (bytes_eqb_spec k (bs "debug")) as [->|N3]; [split; auto|].
  split; [discriminate|]. intros [(E & _)|[(E & _)|E]]; congruence.
Qed.

Lemma detail_typed ms : (forall k v, In (k, v) ms -> detail_member_ok k v) -> typed_ok cd_fields ms = true.
Proof.
  intros H. apply typed_ok_all. intros k v Hin.
  destruct (H k v Hin) as [(-> & s & -> & _)|[(-> & s & d & -> & _)| ->]].
  - exists FStrPtr. split; reflexivity.
  - exists FStrPtr. split; reflexivity.
  - exists FRaw. split; reflexivity.
Qed.

Lemma detail_iff_proof : forall t, examine_connect_error_detail t = [] <-> exists j, t = Some j /\ wf_detail j.
Proof.
  intros t. unfold examine_connect_error_detail.
  destruct (examine_json_cases 1 cd_fields t) as [(ms & -> & E)|(f & E)]; rewrite E.
  - apply examine_json_ok in E as [TY CD]. split.
    + intros H. apply app_eq_nil in H as [K H]. apply app_eq_nil in H as [HT HV].
      exists (JObj ms). split; [reflexivity|]. exists ms. split; [reflexivity|].
      split; [apply clean_iff_proof, CD|]. split; [|split].
      * intros k v Hin. apply cd_key_iff. revert k v Hin. apply sorted_nil_iff. exact K.
      * apply has_key_in. destruct (has_key (bs "type") ms); [reflexivity|discriminate HT].
      * apply has_key_in. destruct (has_key (bs "value") ms); [reflexivity|discriminate HV].
    + intros (j & [= <-] & ms' & [= <-] & CL & MEM & HT & HV).
      apply has_key_in in HT, HV. rewrite HT, HV.
      replace (flat_map cd_key_fb (sort_members ms)) with (@nil fb); [reflexivity|]. symmetry.
      apply sorted_nil_iff. intros k v Hin. apply cd_key_iff, MEM, Hin.
  - split; [discriminate|]. intros (j & -> & ms & -> & CL & MEM & _). exfalso.
    assert (OK : examine_json 1 cd_fields (Some (JObj ms)) = JOk ms).
    { apply examine_json_ok. split; [apply detail_typed, MEM|apply clean_iff_proof, CL]. }
    congruence.
Qed.

(* ====================================================================== *)
(* examineConnectError                                                     *)
(* ====================================================================== *)
Definition error_member_ok (k : bytes) (v : json) : Prop :=
  (k = bs "code" /\ exists s, v = JStr s /\ In s c13_code_names) \/
  (k = bs "message" /\ exists s, v = JStr s) \/
  (k = bs "details" /\ exists l, v = JArr l).

Lemma ce_key_iff k v : ce_key_fb (k, v) = [] <-> error_member_ok k v.
Proof.
  unfold ce_key_fb, error_member_ok.
  destruct (bytes_eqb_spec k (bs "code")) as [->|N1].
  { split.
    - intros H. left. split; [reflexivity|]. destruct v; try discriminate H.
      destruct (mem_bytes s c13_code_names) eqn:F; [|discriminate H]. apply mem_bytes_in in F. eauto.
    - intros [(_ & s & -> & F)|[(E & _)|(E & _)]]; [|discriminate E|discriminate E].
      apply mem_bytes_in in F. rewrite F. reflexivity. }
  destruct (bytes_eqb_spec k (bs "message")) as [->|N2].
  { split.
    - intros H. right. left. split; [reflexivity|]. destruct v; try discriminate H. eauto.
    - intros [(E & _)|[(_ & s & ->)|(E & _)]]; [discriminate E|reflexivity|discriminate E]. }
  destruct (bytes_eqb_spec k (bs "details")) as [->|N3].
  { split.
    - intros H. right. right. split; [reflexivity|]. destruct v; try discriminate H. eauto.
    - intros [(E & _)|[(E & _)|(_ & l & ->)]]; [discriminate E|discriminate E|reflexivity]. }
  split; [discriminate|]. intros [(E & _)|[(E & _)|(E & _)]]; congruence.
Qed.

Lemma error_typed ms : (forall k v, In (k, v) ms -> error_member_ok k v) -> typed_ok ce_fields ms = true.
Proof.
  intros H. apply typed_ok_all. intros k v Hin.
  destruct (H k v Hin) as [(-> & s & -> & _)|[(-> & s & ->)|(-> & l & ->)]].
  - exists FStrPtr. split; reflexivity.
  - exists FStrPtr. split; reflexivity.
  - exists FRawList. split; reflexivity.
Qed.

Lemma error_keys_details ms : (forall k v, In (k, v) ms -> error_member_ok k v) ->
  forall k, In k (map fst ms) -> field_match (bs "details") k = true -> k = bs "details".
Proof.
  intros H k Hk FM. apply in_keys in Hk as (v & Hin).
  destruct (H k v Hin) as [(-> & _)|[(-> & _)|(-> & _)]]; [discriminate FM|discriminate FM|reflexivity].
Qed.

(* the details part of examineConnectError, when the members passed the per-key checks *)
Lemma error_details_part ms : NoDup (map fst ms) -> (forall k v, In (k, v) ms -> error_member_ok k v) ->
  (if has_key (bs "details") ms then
     match last_field (bs "details") ms None with
     | Some (JArr l) => flat_map (fun d => examine_connect_error_detail (Some d)) l
     | _ => []
     end
   else []) = [] <->
  (forall l, In (bs "details", JArr l) ms -> Forall wf_detail l).
Proof.
  intros ND MEM. destruct (has_key (bs "details") ms) eqn:HK.
  - apply has_key_in, in_keys in HK as (v & Hin).
    destruct (MEM _ _ Hin) as [(E & _)|[(E & _)|(_ & l & ->)]]; [discriminate E|discriminate E|].
    rewrite (last_field_unique (bs "details") (JArr l) ms None ND (error_keys_details ms MEM) Hin).
    rewrite flat_map_nil_iff. split.
    + intros H l' Hin'. assert (JArr l' = JArr l) by (eapply nodup_unique; eauto). inversion H0; subst l'.
      apply Forall_forall. intros d Hd. destruct (proj1 (detail_iff_proof (Some d)) (H d Hd)) as (j & Ej & W).
      inversion Ej; subst. exact W.
    + intros H d Hd. apply detail_iff_proof. exists d. split; [reflexivity|].
      specialize (H l Hin). rewrite Forall_forall in H. apply H, Hd.
  - split; [|reflexivity]. intros _ l Hin. exfalso. apply has_key_false in HK. apply HK, in_keys. eauto.
Qed.

Lemma error_iff_proof : forall t, examine_connect_error t = [] <-> exists j, t = Some j /\ wf_connect_error j.
Proof.
  intros t. unfold examine_connect_error.
  destruct (examine_json_cases 0 ce_fields t) as [(ms & -> & E)|(f & E)]; rewrite E.
  - apply examine_json_ok in E as [TY CD].
    assert (CL : clean_json (JObj ms)) by (apply clean_iff_proof, CD).
    assert (ND : NoDup (map fst ms)) by (inversion CL; assumption).
    split.
    + intros H. apply app_eq_nil in H as [K H]. apply app_eq_nil in H as [HC HD].
      assert (MEM : forall k v, In (k, v) ms -> error_member_ok k v).
      { intros k v Hin. apply ce_key_iff. revert k v Hin. apply sorted_nil_iff. exact K. }
      pose proof (proj1 (error_details_part ms ND MEM) HD) as HD'. clear HD. rename HD' into HD.
      exists (JObj ms). split; [reflexivity|]. exists ms. split; [reflexivity|]. split; [exact CL|]. split.
      * intros k v Hin. destruct (MEM k v Hin) as [M|[M|(-> & l & ->)]]; [left; exact M|right; left; exact M|].
        right. right. split; [reflexivity|]. exists l. split; [reflexivity|]. apply HD, Hin.
      * apply has_key_in. destruct (has_key (bs "code") ms); [reflexivity|discriminate HC].
    + intros (j & [= <-] & ms' & [= <-] & _ & MEM & HC).
      assert (MEM' : forall k v, In (k, v) ms -> error_member_ok k v).
      { intros k v Hin. destruct (MEM k v Hin) as [M|[M|(-> & l & -> & _)]]; [left; exact M|right; left; exact M|].
        right. right. split; [reflexivity|]. eauto. }
      apply has_key_in in HC. rewrite HC.
      replace (flat_map ce_key_fb (sort_members ms)) with (@nil fb)
        by (symmetry; apply sorted_nil_iff; intros k v Hin; apply ce_key_iff, MEM', Hin).
      cbn [app]. apply (error_details_part ms ND MEM'). intros l Hin.
      destruct (MEM _ _ Hin) as [(E & _)|[(E & _)|(_ & l' & El & W)]]; [discriminate E|discriminate E|].
      inversion El; subst. exact W.
  - split; [discriminate|]. intros (j & -> & ms & -> & CL & MEM & _). exfalso.
    assert (OK : examine_json 0 ce_fields (Some (JObj ms)) = JOk ms).
    { apply examine_json_ok. split; [|apply clean_iff_proof, CL]. apply error_typed.
      intros k v Hin. destruct (MEM k v Hin) as [M|[M|(-> & l & -> & _)]]; [left; exact M|right; left; exact M|].
      right. right. split; [reflexivity|]. eauto. }
    congruence.
Qed.

(* ====================================================================== *)
(* examineConnectEndStream                                                 *)
(* ====================================================================== *)
Lemma es_meta_iff kv : es_meta_fb kv = [] <-> wf_metadata_entry kv.
Proof.
  destruct kv as [name values]. unfold es_meta_fb, wf_metadata_entry. cbn [fst snd]. split.
  - intros H. apply app_eq_nil in H as [HN HV].
    split; [destruct (valid_field_name name); [reflexivity|discriminate HN]|].
    destruct values; try discriminate HV. exists l. split; [reflexivity|].
    apply Forall_forall. intros v Hv. rewrite flat_map_nil_iff in HV. specialize (HV v Hv).
    destruct v; try discriminate HV. exists s. split; [reflexivity|].
    destruct (valid_field_value s); [reflexivity|discriminate HV].
  - intros (HN & l & -> & F). rewrite HN. cbn [app]. apply flat_map_nil_iff. intros v Hv.
    rewrite Forall_forall in F. destruct (F v Hv) as (s & -> & V). rewrite V. reflexivity.
Qed.

Definition es_member_ok (k : bytes) (v : json) : Prop :=
  (k = bs "error" /\ exists ms, v = JObj ms) \/
  (k = bs "metadata" /\ exists es, v = JObj es /\ Forall wf_metadata_entry es).

Lemma es_key_iff k v : es_key_fb (k, v) = [] <-> es_member_ok k v.
Proof.
  unfold es_key_fb, es_member_ok.
  destruct (bytes_eqb_spec k (bs "error")) as [->|N1].
  { split.
    - intros H. left. split; [reflexivity|]. destruct v; try discriminate H. eauto.
    - intros [(_ & ms & ->)|(E & _)]; [reflexivity|discriminate E]. }
  destruct (bytes_eqb_spec k (bs "metadata")) as [->|N2].
  { split.
    - intros H. right. split; [reflexivity|]. destruct v; try discriminate H. exists l. split; [reflexivity|].
      apply Forall_forall. intros kv Hkv. apply es_meta_iff. rewrite flat_map_nil_iff in H. apply H, Hkv.
    - intros [(E & _)|(_ & es & -> & F)]; [discriminate E|]. apply flat_map_nil_iff. intros kv Hkv.
      apply es_meta_iff. rewrite Forall_forall in F. apply F, Hkv. }
  split; [discriminate|]. intros [(E & _)|(E & _)]; congruence.
Qed.

Lemma es_typed ms : (forall k v, In (k, v) ms -> es_member_ok k v) -> typed_ok es_fields ms = true.
Proof.
  intros H. apply typed_ok_all. intros k v Hin.
  destruct (H k v Hin) as [(-> & ms' & ->)|(-> & es & -> & F)].
  - exists FRaw. split; reflexivity.
  - exists FStrListMap. split; [reflexivity|]. cbn [kind_ok]. apply forallb_forall. intros kv Hkv.
    rewrite Forall_forall in F. destruct (F kv Hkv) as (_ & l & -> & FL). apply forallb_forall. intros x Hx.
    rewrite Forall_forall in FL. destruct (FL x Hx) as (s & -> & _). reflexivity.
Qed.

Lemma es_keys_error ms : (forall k v, In (k, v) ms -> es_member_ok k v) ->
  forall k, In k (map fst ms) -> field_match (bs "error") k = true -> k = bs "error".
Proof.
  intros H k Hk FM. apply in_keys in Hk as (v & Hin).
  destruct (H k v Hin) as [(-> & _)|(-> & _)]; [reflexivity|discriminate FM].
Qed.

Lemma es_error_part ms : NoDup (map fst ms) -> (forall k v, In (k, v) ms -> es_member_ok k v) ->
  match get_key (bs "error") ms with
  | Some v => if is_obj v then examine_connect_error (last_field (bs "error") ms None) else []
  | None => []
  end = [] <->
  (forall v, In (bs "error", v) ms -> wf_connect_error v).
Proof.
  intros ND MEM. destruct (in_dec (list_eq_dec N.eq_dec) (bs "error") (map fst ms)) as [HI|HN].
  - apply in_keys in HI as (v & Hin).
    rewrite (get_key_unique _ _ ms ND Hin).
    destruct (MEM _ _ Hin) as [(_ & ms' & ->)|(E & _)]; [|discriminate E]. cbn [is_obj].
    rewrite (last_field_unique (bs "error") (JObj ms') ms None ND (es_keys_error ms MEM) Hin).
    rewrite error_iff_proof. split.
    + intros (j & Ej & W) v' Hin'. inversion Ej; subst j.
      assert (v' = JObj ms') by (eapply nodup_unique; eauto). subst. exact W.
    + intros H. exists (JObj ms'). split; [reflexivity|]. apply H, Hin.
  - rewrite (get_key_none _ ms HN). split; [|reflexivity]. intros _ v Hin. exfalso. apply HN, in_keys. eauto.
Qed.

Lemma end_stream_iff_proof : forall t, examine_connect_end_stream t = [] <-> exists j, t = Some j /\ wf_end_stream j.
Proof.
  intros t. unfold examine_connect_end_stream.
  destruct (examine_json_cases 2 es_fields t) as [(ms & -> & E)|(f & E)]; rewrite E.
  - apply examine_json_ok in E as [TY CD].
    assert (CL : clean_json (JObj ms)) by (apply clean_iff_proof, CD).
    assert (ND : NoDup (map fst ms)) by (inversion CL; assumption).
    split.
    + intros H. apply app_eq_nil in H as [K HE].
      assert (MEM : forall k v, In (k, v) ms -> es_member_ok k v).
      { intros k v Hin. apply es_key_iff. revert k v Hin. apply sorted_nil_iff. exact K. }
      pose proof (proj1 (es_error_part ms ND MEM) HE) as HE'. clear HE. rename HE' into HE.
      exists (JObj ms). split; [reflexivity|]. exists ms. split; [reflexivity|]. split; [exact CL|].
      intros k v Hin. destruct (MEM k v Hin) as [(-> & _)|M]; [left; split; [reflexivity|apply HE, Hin]|right; exact M].
    + intros (j & [= <-] & ms' & [= <-] & _ & MEM).
      assert (MEM' : forall k v, In (k, v) ms -> es_member_ok k v).
      { intros k v Hin. destruct (MEM k v Hin) as [(-> & ms' & -> & _)|M]; [left; split; [reflexivity|eauto]|right; exact M]. }
      replace (flat_map es_key_fb (sort_members ms)) with (@nil fb)
        by (symmetry; apply sorted_nil_iff; intros k v Hin; apply es_key_iff, MEM', Hin).
      cbn [app]. apply (es_error_part ms ND MEM'). intros v Hin.
      destruct (MEM _ _ Hin) as [(_ & W)|(E & _)]; [exact W|discriminate E].
  - split; [discriminate|]. intros (j & -> & ms & -> & CL & MEM). exfalso.
    assert (OK : examine_json 2 es_fields (Some (JObj ms)) = JOk ms).
    { apply examine_json_ok. split; [|apply clean_iff_proof, CL]. apply es_typed.
      intros k v Hin. destruct (MEM k v Hin) as [(-> & ms' & -> & _)|M]; [left; split; [reflexivity|eauto]|right; exact M]. }
    congruence.
Qed.

(* ====================================================================== *)
(* rejections below the top level, as corollaries                           *)
(* ====================================================================== *)
(* a duplicate key or a number that does not convert, anywhere in the tree *)
Lemma flags_unclean_json_proof : forall t, ~ clean_json t ->
  examine_connect_error (Some t) <> [] /\ examine_connect_end_stream (Some t) <> [].
Proof.
  intros t H. split; intros C.
  - apply error_iff_proof in C as (j & Ej & ms & -> & CL & _). inversion Ej; subst. contradiction.
  - apply end_stream_iff_proof in C as (j & Ej & ms & -> & CL & _). inversion Ej; subst. contradiction.
Qed.

(* any malformed element of "details" *)
Lemma flags_bad_detail_proof : forall ms l d, In (bs "details", JArr l) ms -> In d l -> ~ wf_detail d ->
  examine_connect_error (Some (JObj ms)) <> [].
Proof.
  intros ms l d Hin Hd NW C. apply error_iff_proof in C as (j & [= <-] & ms' & [= <-] & _ & MEM & _).
 
  destruct (MEM _ _ Hin) as [(E & _)|[(E & _)|(_ & l' & El & W)]]; [discriminate E|discriminate E|].
  inversion El; subst. rewrite Forall_forall in W. apply NW, W, Hd.
Qed.

(* any malformed "error" inside an end-of-stream message *)
Lemma flags_bad_end_stream_error_proof : forall ms v, In (bs "error", v) ms -> ~ wf_connect_error v ->
  examine_connect_end_stream (Some (JObj ms)) <> [].
Proof.
  intros ms v Hin NW C. apply end_stream_iff_proof in C as (j & [= <-] & ms' & [= <-] & _ & MEM).
 
  destruct (MEM _ _ Hin) as [(_ & W)|(E & _)]; [contradiction|discriminate E].
Qed.

(* any malformed metadata entry *)
Lemma flags_bad_metadata_entry_proof : forall ms es kv, In (bs "metadata", JObj es) ms -> In kv es ->
  ~ wf_metadata_entry kv -> examine_connect_end_stream (Some (JObj ms)) <> [].
Proof.
  intros ms es kv Hin Hkv NW C. apply end_stream_iff_proof in C as (j & [= <-] & ms' & [= <-] & _ & MEM).
 
  destruct (MEM _ _ Hin) as [(E & _)|(_ & es' & Ee & F)]; [discriminate E|].
  inversion Ee; subst. rewrite Forall_forall in F. apply NW, F, Hkv.
Qed.
