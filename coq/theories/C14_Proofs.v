(* C14_Proofs.v — chunking independence of the dataTracer model:
     run d (a ++ b) = run d a ; run _ b        (under the state invariant wf)
   hence feeding any list of chunks = one trace of their concatenation, and the one-shot trace
   of a whole body followed by emitUnfinished = the declarative parse.  The builder numbering,
   the wrappers and the consequences for well-formed streams follow. *)
From Coq Require Import Lia.
From V Require Import C14_Spec.
Open Scope N_scope.

(* ---------- flag tests: the code's masks are the spec's bits ---------- *)
Lemma flags_end_stream_spec f : flags_end_stream f = is_end_stream f.
Proof.
  unfold flags_end_stream, is_end_stream.
  destruct f as [|p]; [reflexivity|].
  do 8 (try destruct p as [p|p|]); reflexivity.
Qed.

Lemma flags_compressed_spec f : flags_compressed f = is_compressed f.
Proof.
  unfold flags_compressed, is_compressed.
  destruct f as [|p]; [reflexivity|]. destruct p; reflexivity.
Qed.

Lemma blen_app a b : blen (a ++ b) = blen a + blen b.
Proof. unfold blen. rewrite app_length. lia. Qed.

Lemma blen_nil_iff a : blen a = 0 <-> a = [].
Proof. unfold blen. destruct a; simpl; split; intros; try reflexivity; try discriminate; lia. Qed.

Section Core.
  Variable decompress : bytes -> option bytes.
  Variable c : cfg.

  Definition step (d : dt) (data : bytes) : dt * list tev * nat * bool :=
    if d_expecting d =? 0 then step_prefix c d data else step_message decompress c d data.

  Definition run (d : dt) (data : bytes) : dt * list tev :=
    trace_loop decompress c (S (length data)) d data.

  (* the state invariant: a partial prefix is shorter than a prefix; payload bytes are only
     counted inside a message and never reach the declared length *)
  Definition wf (d : dt) : Prop :=
    (length (d_prefix d) < 5)%nat /\
    (d_expecting d = 0 -> d_actual d = 0) /\
    (d_expecting d <> 0 -> d_actual d < d_expecting d).

  Local Opaque prefix_len.

  Lemma wf_init : wf dt_init.
  Proof. repeat split; simpl; intros; try lia; congruence. Qed.

  Lemma step_done d data d' evs n :
    wf d -> step d data = (d', evs, n, true) -> wf d' /\ (1 <= n <= length data)%nat.
  Proof.
    intros (Hp & H0 & H1). unfold step.
    destruct (N.eqb_spec (d_expecting d) 0) as [E|E].
    - unfold step_prefix; pose proof (eq_refl : prefix_len = 5%nat) as PL.
      destruct (Nat.ltb_spec (length data) (prefix_len - length (d_prefix d))); [discriminate|].
      cbv zeta. cbn [e_len e_flags].
      repeat match goal with |- context [if ?b then _ else _] => destruct b eqn:? end;
        intros Q; injection Q; clear Q; intros; subst; (split; [|lia]);
        repeat split; cbn; intros; try lia; try congruence.
      all: try (apply H0; exact E).
      all: try (rewrite (H0 E); apply N.eqb_neq in Heqb; lia).
    - unfold step_message.
      destruct (N.ltb_spec (blen data) (d_expecting d - d_actual d)); [discriminate|].
      intros Q; injection Q; clear Q; intros; subst. specialize (H1 E). unfold blen in *.
      split; [repeat split; cbn; intros; try lia; congruence|lia].
  Qed.

  Lemma fuel_eq : forall f1 f2 d data,
    wf d -> (length data < f1)%nat -> (length data < f2)%nat ->
    trace_loop decompress c f1 d data = trace_loop decompress c f2 d data.
  Proof.
    induction f1 as [|f1 IH]; intros f2 d data W L1 L2; [lia|].
    destruct f2 as [|f2]; [lia|].
    destruct data as [|x r]; [reflexivity|].
    cbn [trace_loop]. fold (step d (x :: r)).
    destruct (step d (x :: r)) as [[[d' evs] n] done] eqn:HS.
    destruct done; [|reflexivity].
    destruct (step_done _ _ _ _ _ W HS) as [W' Hn].
    assert (length (skipn n (x :: r)) < length (x :: r))%nat by (rewrite skipn_length; lia).
    rewrite (IH f2 d' (skipn n (x :: r)) W'); [reflexivity|lia|lia].
  Qed.

  Lemma run_nil d : run d [] = (d, []).
  Proof. reflexivity. Qed.

  Lemma run_unfold d data :
    wf d -> data <> [] ->
    run d data =
    let '(d', evs, n, done) := step d data in
    if done then let (d'', evs') := run d' (skipn n data) in (d'', evs ++ evs') else (d', evs).
  Proof.
    intros W NE. destruct data as [|x r]; [congruence|].
    unfold run at 1. cbn [trace_loop]. fold (step d (x :: r)).
    destruct (step d (x :: r)) as [[[d' evs] n] done] eqn:HS.
    destruct done; [|reflexivity].
    destruct (step_done _ _ _ _ _ W HS) as [W' Hn].
    unfold run.
    rewrite (fuel_eq (length (x :: r)) (S (length (skipn n (x :: r)))) d' _ W');
      [reflexivity|rewrite skipn_length; lia|lia].
  Qed.

  (* a step that is not completed only records what it saw *)
  Lemma step_partial d data d1 evs n :
    wf d -> step d data = (d1, evs, n, false) ->
    evs = [] /\ wf d1 /\ d_expecting d1 = d_expecting d /\ d_env d1 = d_env d.
  Proof.
    intros (Hp & H0 & H1). unfold step.
    destruct (N.eqb_spec (d_expecting d) 0) as [E|E].
    - unfold step_prefix; pose proof (eq_refl : prefix_len = 5%nat) as PL.
      destruct (Nat.ltb_spec (length data) (prefix_len - length (d_prefix d))).
      + intros Q; injection Q; clear Q; intros; subst. repeat split; cbn; auto.
        rewrite app_length. lia.
      + cbv zeta. repeat match goal with |- context [if ?b then _ else _] => destruct b end; discriminate.
    - unfold step_message.
      destruct (N.ltb_spec (blen data) (d_expecting d - d_actual d)); [|discriminate].
      intros Q; injection Q; clear Q; intros; subst. repeat split; cbn; auto; intros; try congruence.
      specialize (H1 E). lia.
  Qed.

  Lemma run_wf : forall data d, wf d -> wf (fst (run d data)).
  Proof.
    intros data. remember (length data) as k eqn:Hk. revert data Hk.
    induction k as [k IH] using lt_wf_ind. intros data Hk d W.
    destruct data as [|x r]; [exact W|].
    rewrite run_unfold by (auto; discriminate).
    destruct (step d (x :: r)) as [[[d' evs] n] done] eqn:HS.
    destruct done.
    - destruct (step_done _ _ _ _ _ W HS) as [W' Hn].
      specialize (IH (length (skipn n (x :: r)))).
      assert (length (skipn n (x :: r)) < k)%nat by (rewrite skipn_length; subst k; lia).
      specialize (IH H _ eq_refl d' W').
      destruct (run d' (skipn n (x :: r))); exact IH.
    - apply (step_partial _ _ _ _ _ W HS).
  Qed.

  (* a completed step looks at its first n bytes only *)
  Lemma step_done_app d a b d' evs n :
    wf d -> step d a = (d', evs, n, true) -> step d (a ++ b) = (d', evs, n, true).
  Proof.
    intros W HS. destruct (step_done _ _ _ _ _ W HS) as [_ Hn]. revert HS. unfold step.
    destruct (d_expecting d =? 0).
    - unfold step_prefix; pose proof (eq_refl : prefix_len = 5%nat) as PL.
      destruct (Nat.ltb_spec (length a) (prefix_len - length (d_prefix d))); [discriminate|].
      destruct (Nat.ltb_spec (length (a ++ b)) (prefix_len - length (d_prefix d))) as [L|L];
        [rewrite app_length in L; lia|].
      rewrite firstn_app.
      replace (prefix_len - length (d_prefix d) - length a)%nat with O by lia.
      rewrite firstn_O, app_nil_r. auto.
    - unfold step_message.
      destruct (N.ltb_spec (blen a) (d_expecting d - d_actual d)); [discriminate|].
      destruct (N.ltb_spec (blen (a ++ b)) (d_expecting d - d_actual d)) as [L|L];
        [rewrite blen_app in L; lia|].
      intros Q. injection Q; intros; subst.
      rewrite firstn_app.
      replace (N.to_nat (d_expecting d - d_actual d) - length a)%nat with O by (unfold blen in *; lia).
      rewrite firstn_O, app_nil_r. reflexivity.
  Qed.

  (* an uncompleted step followed by a step on the next bytes = one step on both *)
  Lemma step_partial_app d a b d1 n1 :
    wf d -> step d a = (d1, [], n1, false) ->
    forall d' evs n done, step d1 b = (d', evs, n, done) ->
    exists nn, step d (a ++ b) = (d', evs, nn, done) /\ (done = true -> nn = (length a + n)%nat).
  Proof.
    intros (Hp & H0 & H1). unfold step.
    destruct (N.eqb_spec (d_expecting d) 0) as [E|E].
    - unfold step_prefix at 1; pose proof (eq_refl : prefix_len = 5%nat) as PL.
      destruct (Nat.ltb_spec (length a) (prefix_len - length (d_prefix d))) as [La|La].
      2:{ cbv zeta. repeat match goal with |- context [if ?b then _ else _] => destruct b end; discriminate. }
      intros Q.
      assert (Hd1 : d1 = mk_dt (d_prefix d ++ a) (d_env d) (d_expecting d) (d_actual d) (d_end d)) by congruence.
      subst d1; clear Q. cbn [d_expecting]. destruct (N.eqb_spec (d_expecting d) 0) as [E0|NE0]; [|congruence].
      unfold step_prefix. cbn [d_prefix d_env d_expecting d_actual d_end].
      rewrite !app_length.
      intros d' evs n done.
      destruct (Nat.ltb_spec (length b) (prefix_len - (length (d_prefix d) + length a))) as [Lb|Lb].
      + destruct (Nat.ltb_spec (length a + length b) (prefix_len - length (d_prefix d))); [|lia].
        intros Q; injection Q; intros; subst. rewrite app_assoc. eexists; split; [reflexivity|discriminate].
      + destruct (Nat.ltb_spec (length a + length b) (prefix_len - length (d_prefix d))); [lia|].
        rewrite firstn_app, (firstn_all2 a) by lia.
        replace (prefix_len - length (d_prefix d) - length a)%nat with (prefix_len - (length (d_prefix d) + length a))%nat by lia.
        rewrite <- app_assoc. cbv zeta.
        set (p := d_prefix d ++ a ++ firstn (prefix_len - (length (d_prefix d) + length a)) b).
        cbn [e_len e_flags].
        repeat match goal with |- context [if ?b then _ else _] => destruct b end;
          intros Q; injection Q; intros; subst; (eexists; split; [reflexivity|intros _; lia]).
    - unfold step_message at 1.
      destruct (N.ltb_spec (blen a) (d_expecting d - d_actual d)) as [La|La]; [|discriminate].
      intros Q.
      assert (Hd1 : d1 = mk_dt (d_prefix d) (d_env d) (d_expecting d) (d_actual d + blen a)
                               (match d_end d with Some b => Some (b ++ a) | None => None end)) by congruence.
      subst d1; clear Q. cbn [d_expecting].
      destruct (N.eqb_spec (d_expecting d) 0) as [E0|NE0]; [congruence|].
      unfold step_message. cbn [d_prefix d_env d_expecting d_actual d_end].
      intros d' evs n done. specialize (H1 E). rewrite blen_app.
      destruct (N.ltb_spec (blen b) (d_expecting d - (d_actual d + blen a))) as [Lb|Lb].
      + destruct (N.ltb_spec (blen a + blen b) (d_expecting d - d_actual d)); [|lia].
        intros Q; injection Q; intros; subst. eexists; split; [|discriminate].
        rewrite N.add_assoc. destruct (d_end d); [rewrite app_assoc|]; reflexivity.
      + destruct (N.ltb_spec (blen a + blen b) (d_expecting d - d_actual d)); [lia|].
        intros Q; injection Q; intros; subst.
        rewrite firstn_app, (firstn_all2 a) by (unfold blen in *; lia).
        replace (N.to_nat (d_expecting d - d_actual d) - length a)%nat
          with (N.to_nat (d_expecting d - (d_actual d + blen a))) by (unfold blen in *; lia).
        eexists; split;
          [destruct (d_end d) as [e0|]; [rewrite <- !app_assoc|]; reflexivity
          |intros _; unfold blen in *; lia].
  Qed.

  Lemma skipn_app_exact {A} (a b : list A) n : skipn (length a + n) (a ++ b) = skipn n b.
  Proof.
    rewrite skipn_app. rewrite skipn_all2 by lia.
    replace (length a + n - length a)%nat with n by lia. reflexivity.
  Qed.

  (* THE chunking lemma *)
  Lemma run_app : forall a d b,
    wf d ->
    run d (a ++ b) =
    let (d1, e1) := run d a in let (d2, e2) := run d1 b in (d2, e1 ++ e2).
  Proof.
    intros a. remember (length a) as k eqn:Hk. revert a Hk.
    induction k as [k IH] using lt_wf_ind. intros a Hk d b W.
    destruct a as [|x r].
    - rewrite run_nil. cbn [app]. destruct (run d b); reflexivity.
    - destruct b as [|y s].
      { rewrite app_nil_r. destruct (run d (x :: r)) as [d1 e1] eqn:R.
        rewrite run_nil, app_nil_r. reflexivity. }
      rewrite (run_unfold d ((x :: r) ++ y :: s)) by (auto; discriminate).
      rewrite (run_unfold d (x :: r)) by (auto; discriminate).
      destruct (step d (x :: r)) as [[[d' evs] n] done] eqn:HS.
      destruct done.
      + rewrite (step_done_app _ _ _ _ _ _ W HS).
        destruct (step_done _ _ _ _ _ W HS) as [W' Hn].
        rewrite skipn_app. replace (n - length (x :: r))%nat with O by lia. rewrite skipn_O.
        assert (HL : (length (skipn n (x :: r)) < k)%nat) by (rewrite skipn_length; subst k; lia).
        rewrite (IH _ HL _ eq_refl d' (y :: s) W').
        destruct (run d' (skipn n (x :: r))) as [d1 e1].
        destruct (run d1 (y :: s)) as [d2 e2]. rewrite app_assoc. reflexivity.
      + destruct (step_partial _ _ _ _ _ W HS) as (-> & W1 & _ & _).
        rewrite (run_unfold d' (y :: s)) by (auto; discriminate).
        destruct (step d' (y :: s)) as [[[d2 evs2] n2] done2] eqn:HS2.
        destruct (step_partial_app _ _ _ _ _ W HS _ _ _ _ HS2) as (nn & -> & Hnn).
        destruct done2; [|reflexivity].
        rewrite (Hnn eq_refl), skipn_app_exact.
        destruct (run d2 (skipn n2 (y :: s))); reflexivity.
  Qed.

  (* feeding chunk after chunk = one trace of the concatenation (streaming protocols) *)
  Lemma trace_stream d data : c_stream c = true -> trace decompress c d data = run d data.
  Proof. intros H. unfold trace, run. rewrite H. reflexivity. Qed.

  Lemma feed_concat : c_stream c = true -> forall chunks d,
    wf d -> feed decompress c d chunks = run d (concat chunks).
  Proof.
    intros Hs. induction chunks as [|ch rest IH]; intros d W; [reflexivity|].
    cbn [feed concat]. rewrite trace_stream by exact Hs.
    rewrite run_app by exact W.
    pose proof (run_wf ch d W) as W1.
    destruct (run d ch) as [d1 e1]. rewrite (IH d1 W1). reflexivity.
  Qed.

  (* non-streaming bodies: only the byte count accumulates *)
  Lemma feed_unary : c_stream c = false -> forall chunks d,
    feed decompress c d chunks =
    (mk_dt (d_prefix d) (d_env d) (d_expecting d) (d_actual d + blen (concat chunks)) (d_end d), []).
  Proof.
    intros Hs. induction chunks as [|ch rest IH]; intros d.
    - cbn. rewrite N.add_0_r. destruct d; reflexivity.
    - cbn [feed concat]. unfold trace at 1. rewrite Hs. cbn [negb].
      rewrite IH. cbn. rewrite blen_app, N.add_assoc. reflexivity.
  Qed.

  Local Transparent prefix_len.

  (* ---------- the one-shot run of a whole body = the declarative parse ---------- *)
  Definition whole (body : bytes) : list tev :=
    let (d, evs) := run dt_init body in evs ++ snd (emit_unfinished d).

  Lemma end_events_match flags len payload :
    payload <> [] ->
    (if negb (c_req c) && flags_end_stream flags
     then match end_content decompress c (Some (mk_env flags len)) payload with
          | [] => [] | content => [TEnd content] end
     else []) = end_stream_events decompress c flags payload.
  Proof.
    intros NE. unfold end_stream_events, end_content, shown_content. cbn [e_flags].
    rewrite flags_end_stream_spec, flags_compressed_spec.
    destruct (negb (c_req c) && is_end_stream flags); [|reflexivity].
    destruct payload as [|x r]; [congruence|].
    destruct (is_compressed flags), (c_dec c); cbn; try reflexivity.
    destruct (decompress (x :: r)) as [[|y o]|]; reflexivity.
  Qed.

  Lemma whole_parse : forall f body, (length body < f)%nat -> whole body = parse decompress c f body.
  Proof.
    induction f as [|f IH]; intros body L; [lia|].
    destruct body as [|fl body]; [reflexivity|].
    unfold whole. rewrite run_unfold by (auto using wf_init; discriminate).
    unfold step. cbn [dt_init d_expecting N.eqb].
    unfold step_prefix, prefix_len. cbn [dt_init d_prefix d_env d_expecting d_actual d_end length Nat.sub app].
    destruct body as [|b1 [|b2 [|b3 [|b4 rest]]]]; try reflexivity.
    cbn [length Nat.ltb Nat.leb firstn hd tl skipn]. cbv zeta. cbn [e_len e_flags].
    cbn [parse]. set (len := be_decode [b1; b2; b3; b4] 0). clearbody len.
    destruct (N.eqb_spec len 0) as [Z|NZ].
    - (* zero-length message *)
      rewrite Z. cbn [N.leb N.compare N.to_nat firstn skipn].
      destruct (N.leb_spec 0 (blen rest)) as [_|Gt]; [|lia].
      assert (EE : end_stream_events decompress c fl [] = [])
        by (unfold end_stream_events; destruct (negb (c_req c) && is_end_stream fl); reflexivity).
      rewrite EE. cbn [app].
      specialize (IH rest). unfold whole in IH. fold dt_init.
      destruct (run dt_init rest) as [d2 e2]. cbn [app]. rewrite IH by (cbn in L; lia). reflexivity.
    - set (e := mk_env fl len).
      assert (NZb : (len =? 0) = false) by (apply N.eqb_neq; exact NZ).
      (* the state after the prefix, whichever branch *)
      assert (ST : exists endb,
                 (if negb (c_req c) && flags_end_stream fl
                  then (mk_dt [] (Some e) len 0 (Some []), @nil tev, 5%nat, true)
                  else (mk_dt [] (Some e) len 0 None, [], 5%nat, true)) =
                 (mk_dt [] (Some e) len 0 endb, [], 5%nat, true) /\
                 endb = if negb (c_req c) && flags_end_stream fl then Some [] else None).
      { destruct (negb (c_req c) && flags_end_stream fl); eexists; split; reflexivity. }
      destruct ST as (endb & -> & Hend). cbn [skipn].
      assert (W1 : wf (mk_dt [] (Some e) len 0 endb)).
      { repeat split; cbn; intros; try lia; congruence. }
      destruct rest as [|r0 rest'].
      + (* cut exactly after the prefix *)
        rewrite run_nil. cbn [app snd emit_unfinished d_expecting d_prefix d_actual length].
        rewrite NZb. destruct (N.leb_spec len (blen [])) as [Le|_]; [unfold blen in Le; cbn in Le; lia|].
        reflexivity.
      + set (rest := r0 :: rest') in *.
        rewrite run_unfold by (auto; discriminate).
        unfold step. cbn [d_expecting]. rewrite NZb.
        unfold step_message. cbn [d_prefix d_env d_expecting d_actual d_end]. rewrite N.sub_0_r.
        destruct (N.ltb_spec (blen rest) len) as [Lt|Ge].
        * (* cut inside the payload *)
          destruct (N.leb_spec len (blen rest)) as [Le|_]; [lia|].
          cbn [app snd emit_unfinished d_expecting d_prefix d_actual d_env length].
          rewrite NZb. cbn [andb]. rewrite N.add_0_l.
          destruct (N.ltb_spec 0 (blen rest)) as [_|Le]; [reflexivity|].
          unfold blen, rest in Le; cbn in Le; lia.
        * destruct (N.leb_spec len (blen rest)) as [_|Gt]; [|lia].
          set (n := N.to_nat len).
          assert (PNE : firstn n rest <> []).
          { intros E0. apply (f_equal (@length N)) in E0. rewrite firstn_length in E0.
            unfold blen in Ge. cbn [length] in E0. lia. }
          assert (EV : match endb with
                       | Some b => match end_content decompress c (Some e) (b ++ firstn n rest) with
                                   | [] => [] | content => [TEnd content] end
                       | None => []
                       end = end_stream_events decompress c fl (firstn n rest)).
          { rewrite <- (end_events_match fl len _ PNE). subst endb.
            destruct (negb (c_req c) && flags_end_stream fl); reflexivity. }
          rewrite EV.
          specialize (IH (skipn n rest)). unfold whole in IH. fold dt_init.
          destruct (run dt_init (skipn n rest)) as [d2 e2].
          cbn [app]. rewrite <- app_assoc. rewrite IH; [reflexivity|].
          rewrite skipn_length. cbn in L. unfold rest. cbn [length]. lia.
  Qed.

  Lemma parse_fuel f1 f2 body :
    (length body < f1)%nat -> (length body < f2)%nat ->
    parse decompress c f1 body = parse decompress c f2 body.
  Proof. intros. rewrite <- !whole_parse by assumption. reflexivity. Qed.
End Core.
