(* C14_Proofs.v — chunking independence of the dataTracer model:
     run d (a ++ b) = run d a ; run _ b        (under the state invariant wf)
   hence feeding any list of chunks = one trace of their concatenation, and the one-shot trace
   of a whole body followed by emitUnfinished = the declarative parse.  The builder numbering,
   the wrappers and the consequences for well-formed streams follow. *)
From Coq Require Import Lia.
From V Require Import C14_Spec.
Open Scope N_scope.

(* ---------- flag tests: the code's masks are the spec's bits ---------- *)
Lemma flags_end_stream_spec f : flags_end_stream f = is_end_stream f.
Proof.
  unfold flags_end_stream, is_end_stream.
  destruct f as [|p]; [reflexivity|].
  do 8 (try destruct p as [p|p|]); reflexivity.
Qed.

Lemma flags_compressed_spec f : flags_compressed f = is_compressed f.
Proof.
  unfold flags_compressed, is_compressed.
  destruct f as [|p]; [reflexivity|]. destruct p; reflexivity.
Qed.

Lemma blen_app a b : blen (a ++ b) = blen a + blen b.
Proof. unfold blen. rewrite app_length. lia. Qed.

Lemma blen_nil_iff a : blen a = 0 <-> a = [].
Proof. unfold blen. destruct a; simpl; split; intros; try reflexivity; try discriminate; lia. Qed.

Section Core.
  Variable decompress : bytes -> option bytes.
  Variable c : cfg.

  Definition step (d : dt) (data : bytes) : dt * list tev * nat * bool :=
    if d_expecting d =? 0 then step_prefix c d data else step_message decompress c d data.

  Definition run (d : dt) (data : bytes) : dt * list tev :=
    trace_loop decompress c (S (length data)) d data.

  (* the state invariant: a partial prefix is shorter than a prefix; payload bytes are only
     counted inside a message and never reach the declared length *)
  Definition wf (d : dt) : Prop :=
    (length (d_prefix d) < 5)%nat /\
    (d_expecting d = 0 -> d_actual d = 0) /\
    (d_expecting d <> 0 -> d_actual d < d_expecting d).

  Local Opaque prefix_len.

  Lemma wf_init : wf dt_init.
  Proof. repeat split; simpl; intros; try lia; congruence. Qed.

  Lemma step_done d data d' evs n :
    wf d -> step d data = (d', evs, n, true) -> wf d' /\ (1 <= n <= length data)%nat.
  Proof.
    intros (Hp & H0 & H1). unfold step.
    destruct (N.eqb_spec (d_expecting d) 0) as [E|E].
    - unfold step_prefix; pose proof (eq_refl : prefix_len = 5%nat) as PL.
      destruct (Nat.ltb_spec (length data) (prefix_len - length (d_prefix d))); [discriminate|].
      cbv zeta. cbn [e_len e_flags].
      repeat match goal with |- context [if ?b then _ else _] => destruct b eqn:? end;
        intros Q; injection Q; clear Q; intros; subst; (split; [|lia]);
        repeat split; cbn; intros; try lia; try congruence.
      all: try (apply H0; exact E).
      all: try (rewrite (H0 E); apply N.eqb_neq in Heqb; lia).
    - unfold step_message.
      destruct (N.ltb_spec (blen data) (d_expecting d - d_actual d)); [discriminate|].
      intros Q; injection Q; clear Q; intros; subst. specialize (H1 E). unfold blen in *.
      split; [repeat split; cbn; intros; try lia; congruence|lia].
  Qed.

  Lemma fuel_eq : forall f1 f2 d data,
    wf d -> (length data < f1)%nat -> (length data < f2)%nat ->
    trace_loop decompress c f1 d data = trace_loop decompress c f2 d data.
  Proof.
    induction f1 as [|f1 IH]; intros f2 d data W L1 L2; [lia|].
    destruct f2 as [|f2]; [lia|].
    destruct data as [|x r]; [reflexivity|].
    cbn [trace_loop]. fold (step d (x :: r)).
    destruct (step d (x :: r)) as [[[d' evs] n] done] eqn:HS.
    destruct done; [|reflexivity].
    destruct (step_done _ _ _ _ _ W HS) as [W' Hn].
    assert (length (skipn n (x :: r)) < length (x :: r))%nat by (rewrite skipn_length; lia).
    rewrite (IH f2 d' (skipn n (x :: r)) W'); [reflexivity|lia|lia].
  Qed.

  Lemma run_nil d : run d [] = (d, []).
  Proof. reflexivity. Qed.

  Lemma run_unfold d data :
    wf d -> data <> [] ->
    run d data =
    let '(d', evs, n, done) := step d data in
    if done then let (d'', evs') := run d' (skipn n data) in (d'', evs ++ evs') else (d', evs).
  Proof.
    intros W NE. destruct data as [|x r]; [congruence|].
    unfold run at 1. cbn [trace_loop]. fold (step d (x :: r)).
    destruct (step d (x :: r)) as [[[d' evs] n] done] eqn:HS.
    destruct done; [|reflexivity].
    destruct (step_done _ _ _ _ _ W HS) as [W' Hn].
    unfold run.
    rewrite (fuel_eq (length (x :: r)) (S (length (skipn n (x :: r)))) d' _ W');
      [reflexivity|rewrite skipn_length; lia|lia].
  Qed.

  (* a step that is not completed only records what it saw *)
  Lemma step_partial d data d1 evs n :
    wf d -> step d data = (d1, evs, n, false) ->
    evs = [] /\ wf d1 /\ d_expecting d1 = d_expecting d /\ d_env d1 = d_env d.
  Proof.
    intros (Hp & H0 & H1). unfold step.
    destruct (N.eqb_spec (d_expecting d) 0) as [E|E].
    - unfold step_prefix; pose proof (eq_refl : prefix_len = 5%nat) as PL.
      destruct (Nat.ltb_spec (length data) (prefix_len - length (d_prefix d))).
      + intros Q; injection Q; clear Q; intros; subst. repeat split; cbn; auto.
        rewrite app_length. lia.
      + cbv zeta. repeat match goal with |- context [if ?b then _ else _] => destruct b end; discriminate.
    - unfold step_message.
      destruct (N.ltb_spec (blen data) (d_expecting d - d_actual d)); [|discriminate].
      intros Q; injection Q; clear Q; intros; subst. repeat split; cbn; auto; intros; try congruence.
      specialize (H1 E). lia.
  Qed.

  Lemma run_wf : forall data d, wf d -> wf (fst (run d data)).
  Proof.
    intros data. remember (length data) as k eqn:Hk. revert data Hk.
    induction k as [k IH] using lt_wf_ind. intros data Hk d W.
    destruct data as [|x r]; [exact W|].
    rewrite run_unfold by (auto; discriminate).
    destruct (step d (x :: r)) as [[[d' evs] n] done] eqn:HS.
    destruct done.
    - destruct (step_done _ _ _ _ _ W HS) as [W' Hn].
      specialize (IH (length (skipn n (x :: r)))).
      assert (length (skipn n (x :: r)) < k)%nat by (rewrite skipn_length; subst k; lia).
      specialize (IH H _ eq_refl d' W').
      destruct (run d' (skipn n (x :: r))); exact IH.
    - apply (step_partial _ _ _ _ _ W HS).
  Qed.

  (* a completed step looks at its first n bytes only *)
  Lemma step_done_app d a b d' evs n :
    wf d -> step d a = (d', evs, n, true) -> step d (a ++ b) = (d', evs, n, true).
  Proof.
    intros W HS. destruct (step_done _ _ _ _ _ W HS) as [_ Hn]. revert HS. unfold step.
    destruct (d_expecting d =? 0).
    - unfold step_prefix; pose proof (eq_refl : prefix_len = 5%nat) as PL.
      destruct (Nat.ltb_spec (length a) (prefix_len - length (d_prefix d))); [discriminate|].
      destruct (Nat.ltb_spec (length (a ++ b)) (prefix_len - length (d_prefix d))) as [L|L];
        [rewrite app_length in L; lia|].
      rewrite firstn_app.
      replace (prefix_len - length (d_prefix d) - length a)%nat with O by lia.
      rewrite firstn_O, app_nil_r. auto.
    - unfold step_message.
      destruct (N.ltb_spec (blen a) (d_expecting d - d_actual d)); [discriminate|].
      destruct (N.ltb_spec (blen (a ++ b)) (d_expecting d - d_actual d)) as [L|L];
        [rewrite blen_app in L; lia|].
      intros Q. injection Q; intros; subst.
      rewrite firstn_app.
      replace (N.to_nat (d_expecting d - d_actual d) - length a)%nat with O by (unfold blen in *; lia).
      rewrite firstn_O, app_nil_r. reflexivity.
  Qed.

  (* an uncompleted step followed by a step on the next bytes = one step on both *)
  Lemma step_partial_app d a b d1 n1 :
    wf d -> step d a = (d1, [], n1, false) ->
    forall d' evs n done, step d1 b = (d', evs, n, done) ->
    exists nn, step d (a ++ b) = (d', evs, nn, done) /\ (done = true -> nn = (length a + n)%nat).
  Proof.
    intros (Hp & H0 & H1). unfold step.
    destruct (N.eqb_spec (d_expecting d) 0) as [E|E].
    - unfold step_prefix at 1; pose proof (eq_refl : prefix_len = 5%nat) as PL.
      destruct (Nat.ltb_spec (length a) (prefix_len - length (d_prefix d))) as [La|La].
      2:{ cbv zeta. repeat match goal with |- context [if ?b then _ else _] => destruct b end; discriminate. }
      intros Q.
      assert (Hd1 : d1 = mk_dt (d_prefix d ++ a) (d_env d) (d_expecting d) (d_actual d) (d_end d)) by congruence.
      subst d1; clear Q. cbn [d_expecting]. destruct (N.eqb_spec (d_expecting d) 0) as [E0|NE0]; [|congruence].
      unfold step_prefix. cbn [d_prefix d_env d_expecting d_actual d_end].
      rewrite !app_length.
      intros d' evs n done.
      destruct (Nat.ltb_spec (length b) (prefix_len - (length (d_prefix d) + length a))) as [Lb|Lb].
      + destruct (Nat.ltb_spec (length a + length b) (prefix_len - length (d_prefix d))); [|lia].
        intros Q; injection Q; intros; subst. rewrite app_assoc. eexists; split; [reflexivity|discriminate].
      + destruct (Nat.ltb_spec (length a + length b) (prefix_len - length (d_prefix d))); [lia|].
        rewrite firstn_app, (firstn_all2 a) by lia.
        replace (prefix_len - length (d_prefix d) - length a)%nat with (prefix_len - (length (d_prefix d) + length a))%nat by lia.
        rewrite <- app_assoc. cbv zeta.
        set (p := d_prefix d ++ a ++ firstn (prefix_len - (length (d_prefix d) + length a)) b).
        cbn [e_len e_flags].
        repeat match goal with |- context [if ?b then _ else _] => destruct b end;
          intros Q; injection Q; intros; subst; (eexists; split; [reflexivity|intros _; lia]).
    - unfold step_message at 1.
      destruct (N.ltb_spec (blen a) (d_expecting d - d_actual d)) as [La|La]; [|discriminate].
      intros Q.
      assert (Hd1 : d1 = mk_dt (d_prefix d) (d_env d) (d_expecting d) (d_actual d + blen a)
                               (match d_end d with Some b => Some (b ++ a) | None => None end)) by congruence.
      subst d1; clear Q. cbn [d_expecting].
      destruct (N.eqb_spec (d_expecting d) 0) as [E0|NE0]; [congruence|].
      unfold step_message. cbn [d_prefix d_env d_expecting d_actual d_end].
      intros d' evs n done. specialize (H1 E). rewrite blen_app.
      destruct (N.ltb_spec (blen b) (d_expecting d - (d_actual d + blen a))) as [Lb|Lb].
      + destruct (N.ltb_spec (blen a + blen b) (d_expecting d - d_actual d)); [|lia].
        intros Q; injection Q; intros; subst. eexists; split; [|discriminate].
        rewrite N.add_assoc. destruct (d_end d); [rewrite app_assoc|]; reflexivity.
      + destruct (N.ltb_spec (blen a + blen b) (d_expecting d - d_actual d)); [lia|].
        intros Q; injection Q; intros; subst.
        rewrite firstn_app, (firstn_all2 a) by (unfold blen in *; lia).
        replace (N.to_nat (d_expecting d - d_actual d) - length a)%nat
          with (N.to_nat (d_expecting d - (d_actual d + blen a))) by (unfold blen in *; lia).
        eexists; split;
          [destruct (d_end d) as [e0|]; [rewrite <- !app_assoc|]; reflexivity
          |intros _; unfold blen in *; lia].
  Qed.

  Lemma skipn_app_exact {A} (a b : list A) n : skipn (length a + n) (a ++ b) = skipn n b.
  Proof.
    rewrite skipn_app. rewrite skipn_all2 by lia.
    replace (length a + n - length a)%nat with n by lia. reflexivity.
  Qed.

  (* THE chunking lemma *)
  Lemma run_app : forall a d b,
    wf d ->
    run d (a ++ b) =
    let (d1, e1) := run d a in let (d2, e2) := run d1 b in (d2, e1 ++ e2).
  Proof.
    intros a. remember (length a) as k eqn:Hk. revert a Hk.
    induction k as [k IH] using lt_wf_ind. intros a Hk d b W.
    destruct a as [|x r].
    - rewrite run_nil. cbn [app]. destruct (run d b); reflexivity.
    - destruct b as [|y s].
      { rewrite app_nil_r. destruct (run d (x :: r)) as [d1 e1] eqn:R.
        rewrite run_nil, app_nil_r. reflexivity. }
      rewrite (run_unfold d ((x :: r) ++ y :: s)) by (auto; discriminate).
      rewrite (run_unfold d (x :: r)) by (auto; discriminate).
      destruct (step d (x :: r)) as [[[d' evs] n] done] eqn:HS.
      destruct done.
      + rewrite (step_done_app _ _ _ _ _ _ W HS).
        destruct (step_done _ _ _ _ _ W HS) as [W' Hn].
        rewrite skipn_app. replace (n - length (x :: r))%nat with O by lia. rewrite skipn_O.
        assert (HL : (length (skipn n (x :: r)) < k)%nat) by (rewrite skipn_length; subst k; lia).
        rewrite (IH _ HL _ eq_refl d' (y :: s) W').
        destruct (run d' (skipn n (x :: r))) as [d1 e1].
        destruct (run d1 (y :: s)) as [d2 e2]. rewrite app_assoc. reflexivity.
      + destruct (step_partial _ _ _ _ _ W HS) as (-> & W1 & _ & _).
        rewrite (run_unfold d' (y :: s)) by (auto; discriminate).
        destruct (step d' (y :: s)) as [[[d2 evs2] n2] done2] eqn:HS2.
        destruct (step_partial_app _ _ _ _ _ W HS _ _ _ _ HS2) as (nn & -> & Hnn).
        destruct done2; [|reflexivity].
        rewrite (Hnn eq_refl), skipn_app_exact.
        destruct (run d2 (skipn n2 (y :: s))); reflexivity.
  Qed.

  (* feeding chunk after chunk = one trace of the concatenation (streaming protocols) *)
  Lemma trace_stream d data : c_stream c = true -> trace decompress c d data = run d data.
  Proof. intros H. unfold trace, run. rewrite H. reflexivity. Qed.

  Lemma feed_concat : c_stream c = true -> forall chunks d,
    wf d -> feed decompress c d chunks = run d (concat chunks).
  Proof.
    intros Hs. induction chunks as [|ch rest IH]; intros d W; [reflexivity|].
    cbn [feed concat]. rewrite trace_stream by exact Hs.
    rewrite run_app by exact W.
    pose proof (run_wf ch d W) as W1.
    destruct (run d ch) as [d1 e1]. rewrite (IH d1 W1). reflexivity.
  Qed.

  (* non-streaming bodies: only the byte count accumulates *)
  Lemma feed_unary : c_stream c = false -> forall chunks d,
    feed decompress c d chunks =
    (mk_dt (d_prefix d) (d_env d) (d_expecting d) (d_actual d + blen (concat chunks)) (d_end d), []).
  Proof.
    intros Hs. induction chunks as [|ch rest IH]; intros d.
    - cbn. rewrite N.add_0_r. destruct d; reflexivity.
    - cbn [feed concat]. unfold trace at 1. rewrite Hs. cbn [negb].
      rewrite IH. cbn. rewrite blen_app, N.add_assoc. reflexivity.
  Qed.

  Local Transparent prefix_len.

  (* ---------- the one-shot run of a whole body = the declarative parse ---------- *)
  Definition whole (body : bytes) : list tev :=
    let (d, evs) := run dt_init body in evs ++ snd (emit_unfinished d).

  Lemma end_events_match flags len payload :
    payload <> [] ->
    (if negb (c_req c) && flags_end_stream flags
     then match end_content decompress c (Some (mk_env flags len)) payload with
          | [] => [] | content => [TEnd content] end
     else []) = end_stream_events decompress c flags payload.
  Proof.
    intros NE. unfold end_stream_events, end_content, shown_content. cbn [e_flags].
    rewrite flags_end_stream_spec, flags_compressed_spec.
    destruct (negb (c_req c) && is_end_stream flags); [|reflexivity].
    destruct payload as [|x r]; [congruence|].
    destruct (is_compressed flags), (c_dec c); cbn; try reflexivity.
    destruct (decompress (x :: r)) as [[|y o]|]; reflexivity.
  Qed.

  Lemma whole_parse : forall f body, (length body < f)%nat -> whole body = parse decompress c f body.
  Proof.
    induction f as [|f IH]; intros body L; [lia|].
    destruct body as [|fl body]; [reflexivity|].
    unfold whole. rewrite run_unfold by (auto using wf_init; discriminate).
    unfold step. cbn [dt_init d_expecting N.eqb].
    unfold step_prefix, prefix_len. cbn [dt_init d_prefix d_env d_expecting d_actual d_end length Nat.sub app].
    destruct body as [|b1 [|b2 [|b3 [|b4 rest]]]]; try reflexivity.
    cbn [length Nat.ltb Nat.leb firstn hd tl skipn]. cbv zeta. cbn [e_len e_flags].
    cbn [parse]. set (len := be_decode [b1; b2; b3; b4] 0). clearbody len.
    destruct (N.eqb_spec len 0) as [Z|NZ].
    - (* zero-length message *)
      rewrite Z. cbn [N.leb N.compare N.to_nat firstn skipn].
      destruct (N.leb_spec 0 (blen rest)) as [_|Gt]; [|lia].
      assert (EE : end_stream_events decompress c fl [] = [])
        by (unfold end_stream_events; destruct (negb (c_req c) && is_end_stream fl); reflexivity).
      rewrite EE. cbn [app].
      specialize (IH rest). unfold whole in IH. fold dt_init.
      destruct (run dt_init rest) as [d2 e2]. cbn [app]. rewrite IH by (cbn in L; lia). reflexivity.
    - set (e := mk_env fl len).
      assert (NZb : (len =? 0) = false) by (apply N.eqb_neq; exact NZ).
      (* the state after the prefix, whichever branch *)
      assert (ST : exists endb,
                 (if negb (c_req c) && flags_end_stream fl
                  then (mk_dt [] (Some e) len 0 (Some []), @nil tev, 5%nat, true)
                  else (mk_dt [] (Some e) len 0 None, [], 5%nat, true)) =
                 (mk_dt [] (Some e) len 0 endb, [], 5%nat, true) /\
                 endb = if negb (c_req c) && flags_end_stream fl then Some [] else None).
      { destruct (negb (c_req c) && flags_end_stream fl); eexists; split; reflexivity. }
      destruct ST as (endb & -> & Hend). cbn [skipn].
      assert (W1 : wf (mk_dt [] (Some e) len 0 endb)).
      { repeat split; cbn; intros; try lia; congruence. }
      destruct rest as [|r0 rest'].
      + (* cut exactly after the prefix *)
        rewrite run_nil. cbn [app snd emit_unfinished d_expecting d_prefix d_actual length].
        rewrite NZb. destruct (N.leb_spec len (blen [])) as [Le|_]; [unfold blen in Le; cbn in Le; lia|].
        reflexivity.
      + set (rest := r0 :: rest') in *.
        rewrite run_unfold by (auto; discriminate).
        unfold step. cbn [d_expecting]. rewrite NZb.
        unfold step_message. cbn [d_prefix d_env d_expecting d_actual d_end]. rewrite N.sub_0_r.
        destruct (N.ltb_spec (blen rest) len) as [Lt|Ge].
        * (* cut inside the payload *)
          destruct (N.leb_spec len (blen rest)) as [Le|_]; [lia|].
          cbn [app snd emit_unfinished d_expecting d_prefix d_actual d_env length].
          rewrite NZb. cbn [andb]. rewrite N.add_0_l.
          destruct (N.ltb_spec 0 (blen rest)) as [_|Le]; [reflexivity|].
          unfold blen, rest in Le; cbn in Le; lia.
        * destruct (N.leb_spec len (blen rest)) as [_|Gt]; [|lia].
          set (n := N.to_nat len).
          assert (PNE : firstn n rest <> []).
          { intros E0. apply (f_equal (@length N)) in E0. rewrite firstn_length in E0.
            unfold blen in Ge. cbn [length] in E0. lia. }
          assert (EV : match endb with
                       | Some b => match end_content decompress c (Some e) (b ++ firstn n rest) with
                                   | [] => [] | content => [TEnd content] end
                       | None => []
                       end = end_stream_events decompress c fl (firstn n rest)).
          { rewrite <- (end_events_match fl len _ PNE). subst endb.
            destruct (negb (c_req c) && flags_end_stream fl); reflexivity. }
          rewrite EV.
          specialize (IH (skipn n rest)). unfold whole in IH. fold dt_init.
          destruct (run dt_init (skipn n rest)) as [d2 e2].
          cbn [app]. rewrite <- app_assoc. rewrite IH; [reflexivity|].
          rewrite skipn_length. cbn in L. unfold rest. cbn [length]. lia.
  Qed.

  Lemma parse_fuel f1 f2 body :
    (length body < f1)%nat -> (length body < f2)%nat ->
    parse decompress c f1 body = parse decompress c f2 body.
  Proof. intros. rewrite <- !whole_parse by assumption. reflexivity. Qed.
End Core.

(* ---------- builder: consecutive indices ---------- *)
Fixpoint ndata (ts : list tev) : N :=
  match ts with
  | [] => 0
  | TData _ _ :: r => 1 + ndata r
  | TEnd _ :: r => ndata r
  end.

Lemma ndata_app a b : ndata (a ++ b) = ndata a + ndata b.
Proof. induction a as [|[e l|ct] a IH]; cbn [app ndata]; lia. Qed.

Lemma number_app req : forall a k b, number req k (a ++ b) = number req k a ++ number req (k + ndata a) b.
Proof.
  induction a as [|[e l|ct] a IH]; intros k b; cbn [app number ndata].
  - rewrite N.add_0_r. reflexivity.
  - rewrite IH. replace (k + (1 + ndata a)) with (k + 1 + ndata a) by lia. reflexivity.
  - rewrite IH. reflexivity.
Qed.

Definition cnt (req : bool) (b : bld) : N := if req then b_req_count b else b_resp_count b.

Lemma b_add_all_app req b a1 a2 : b_add_all req b (a1 ++ a2) = b_add_all req (b_add_all req b a1) a2.
Proof. unfold b_add_all. apply fold_left_app. Qed.

Lemma b_add_all_live req : forall ts b, b_live b = true ->
  b_live (b_add_all req b ts) = true /\
  b_events (b_add_all req b ts) = b_events b ++ number req (cnt req b) ts /\
  cnt req (b_add_all req b ts) = cnt req b + ndata ts.
Proof.
  induction ts as [|t ts IH]; intros b L.
  - cbn. rewrite app_nil_r, N.add_0_r. auto.
  - cbn [b_add_all fold_left]. fold (b_add_all req (b_add_tev req b t) ts).
    assert (L' : b_live (b_add_tev req b t) = true).
    { unfold b_add_tev. rewrite L. cbn. destruct t; [destruct req|]; reflexivity. }
    destruct (IH _ L') as (I1 & I2 & I3). split; [exact I1|]. rewrite I2, I3.
    unfold b_add_tev, cnt. rewrite L. cbn [negb].
    destruct t as [e l|ct]; [destruct req|]; cbn [b_events b_req_count b_resp_count number ndata];
      rewrite <- ?app_assoc; cbn [app]; (split; [reflexivity|lia]).
Qed.

Lemma b_add_all_dead req ts b : b_live b = false -> b_add_all req b ts = b.
Proof.
  intros L. induction ts as [|t ts IH]; [reflexivity|].
  cbn [b_add_all fold_left]. unfold b_add_tev at 2. rewrite L. cbn [negb]. exact IH.
Qed.

Lemma count_end_app a b : count_end (a ++ b) = (count_end a + count_end b)%nat.
Proof. unfold count_end. rewrite filter_app, app_length. reflexivity. Qed.

Lemma count_end_number req ts k : count_end (number req k ts) = O.
Proof. revert k. induction ts as [|[e l|ct] ts IH]; intros k; cbn [number]; [reflexivity|apply IH|apply IH]. Qed.

Section Wrap.
  Variable decompress : bytes -> option bytes.
  Variable c : cfg.
  Notation req := (c_req c).

  (* ---------- a run of traces = feed ---------- *)
  Lemma do_trace_all : forall chunks s,
    fold_left (do_trace decompress c) chunks s =
    let (d, evs) := feed decompress c (w_dt s) chunks in
    mk_ws (w_closed s) d (b_add_all req (w_b s) evs).
  Proof.
    induction chunks as [|ch rest IH]; intros s.
    - cbn. destruct s; reflexivity.
    - cbn [fold_left feed]. rewrite IH. unfold do_trace.
      destruct (trace decompress c (w_dt s) ch) as [d1 e1]. cbn [w_dt w_b w_closed].
      destruct (feed decompress c d1 rest) as [d2 e2]. rewrite b_add_all_app. reflexivity.
  Qed.

  (* ---------- finishing after any chunk list gives the expected events ---------- *)
  Lemma finish_events chunks err :
    b_events (w_b (try_finish c (fold_left (do_trace decompress c) chunks ws_init) err)) =
    expected_events decompress c (concat chunks) err.
  Proof.
    rewrite do_trace_all. cbn [ws_init w_dt w_b w_closed].
    assert (K : forall d evs, feed decompress c dt_init chunks = (d, evs) ->
                evs ++ snd (emit_unfinished d) = parse_body decompress c (concat chunks)).
    { intros d evs F. unfold parse_body. destruct (c_stream c) eqn:Hs.
      - rewrite feed_concat in F by (auto using wf_init).
        rewrite <- whole_parse by lia. unfold whole. rewrite F. reflexivity.
      - rewrite feed_unary in F by exact Hs. injection F; intros; subst. cbn.
        destruct (concat chunks) as [|x r]; reflexivity. }
    destruct (feed decompress c dt_init chunks) as [d evs]. specialize (K d evs eq_refl).
    unfold try_finish. cbn [w_closed w_dt w_b].
    destruct (emit_unfinished d) as [d' evs2]. cbn [snd] in K. cbn [w_b].
    rewrite <- b_add_all_app.
    destruct (b_add_all_live req (evs ++ evs2) bld_init eq_refl) as (L & Ev & _).
    unfold b_add_end. rewrite L. cbn [negb b_events]. rewrite Ev. cbn [bld_init b_events app].
    unfold expected_events. rewrite K. unfold cnt. destruct req; reflexivity.
  Qed.

  (* ---------- the reader ---------- *)
  Definition reads (chunks : list bytes) : list rop := map (fun ch => RRead ch IoNone) chunks.
  Definition closes (fl : list bool) : list rop := map RClose fl.

  Lemma reader_run_app : forall a s b,
    reader_run decompress c s (a ++ b) =
    let (s1, r1) := reader_run decompress c s a in
    let (s2, r2) := reader_run decompress c s1 b in (s2, r1 ++ r2).
  Proof.
    induction a as [|op a IH]; intros s b.
    - cbn. destruct (reader_run decompress c s b); reflexivity.
    - cbn [app reader_run]. destruct (reader_step decompress c s op) as [s1 r].
      rewrite IH. destruct (reader_run decompress c s1 a) as [s2 rs].
      destruct (reader_run decompress c s2 b); reflexivity.
  Qed.

  Lemma reader_reads : forall chunks s,
    fst (reader_run decompress c s (reads chunks)) = fold_left (do_trace decompress c) chunks s.
  Proof.
    induction chunks as [|ch rest IH]; intros s; [reflexivity|].
    cbn [reads map reader_run reader_step fold_left]. fold (reads rest).
    specialize (IH (do_trace decompress c s ch)).
    destruct (reader_run decompress c (do_trace decompress c s ch) (reads rest)). exact IH.
  Qed.

  Lemma try_finish_closed s err : w_closed s = true -> try_finish c s err = s.
  Proof. intros H. unfold try_finish. rewrite H. reflexivity. Qed.

  Lemma try_finish_closes s err : w_closed (try_finish c s err) = true.
  Proof.
    unfold try_finish. destruct (w_closed s) eqn:E; [exact E|].
    destruct (emit_unfinished (w_dt s)); reflexivity.
  Qed.

  Lemma reader_closes : forall fl s, w_closed s = true -> fst (reader_run decompress c s (closes fl)) = s.
  Proof.
    induction fl as [|f fl IH]; intros s H; [reflexivity|].
    cbn [closes map reader_run reader_step]. fold (closes fl). rewrite try_finish_closed by exact H.
    specialize (IH s H). destruct (reader_run decompress c s (closes fl)). exact IH.
  Qed.

  Definition errk_of (e : ioerr) : errk := match e with IoEOF => ENil | _ => EScripted end.

  Lemma do_trace_closed s ch : w_closed (do_trace decompress c s ch) = w_closed s.
  Proof. unfold do_trace. destruct (trace decompress c (w_dt s) ch); reflexivity. Qed.

  Lemma reader_chunks_proof : forall chunks last e fl,
    e <> IoNone ->
    reader_events decompress c (reads chunks ++ [RRead last e] ++ closes fl) =
    expected_events decompress c (concat (chunks ++ [last])) (errk_of e).
  Proof.
    intros chunks last e fl NE. unfold reader_events.
    rewrite reader_run_app. pose proof (reader_reads chunks ws_init) as R1.
    destruct (reader_run decompress c ws_init (reads chunks)) as [s1 r1]. cbn [fst] in R1.
    rewrite reader_run_app. cbn [reader_run reader_step].
    set (s2 := match e with
               | IoNone => do_trace decompress c s1 last
               | IoEOF => try_finish c (do_trace decompress c s1 last) ENil
               | IoFail => try_finish c (do_trace decompress c s1 last) EScripted
               end).
    assert (S2 : s2 = try_finish c (fold_left (do_trace decompress c) (chunks ++ [last]) ws_init) (errk_of e)).
    { rewrite fold_left_app. cbn [fold_left]. rewrite <- R1. subst s2. destruct e; [congruence|reflexivity|reflexivity]. }
    pose proof (reader_closes fl s2) as R3.
    destruct (reader_run decompress c s2 (closes fl)) as [s3 r3]. cbn [fst] in *.
    rewrite R3 by (rewrite S2; apply try_finish_closes).
    rewrite S2. apply finish_events.
  Qed.

  Lemma reader_close_proof : forall chunks f fl,
    reader_events decompress c (reads chunks ++ closes (f :: fl)) =
    expected_events decompress c (concat chunks) (if f then EScripted else EOther).
  Proof.
    intros chunks f fl. unfold reader_events.
    rewrite reader_run_app. pose proof (reader_reads chunks ws_init) as R1.
    destruct (reader_run decompress c ws_init (reads chunks)) as [s1 r1]. cbn [fst] in R1.
    cbn [closes map reader_run reader_step]. fold (closes fl).
    set (s2 := try_finish c s1 (if f then EScripted else EOther)).
    pose proof (reader_closes fl s2) as R3.
    destruct (reader_run decompress c s2 (closes fl)) as [s3 r3]. cbn [fst] in *.
    rewrite R3 by apply try_finish_closes. subst s2. rewrite R1. apply finish_events.
  Qed.

  (* pass-through: whatever the script, the caller gets the inner results *)
  Definition rres_of (op : rop) : rres :=
    match op with RRead data e => ResRead data e | RClose f => ResClose f end.
  Lemma reader_transparent_proof : forall ops s, snd (reader_run decompress c s ops) = map rres_of ops.
  Proof.
    induction ops as [|op ops IH]; intros s; [reflexivity|].
    cbn [reader_run map].
    assert (E : snd (reader_step decompress c s op) = rres_of op) by (destruct op; reflexivity).
    destruct (reader_step decompress c s op) as [s1 r]. cbn [snd] in E. subst r.
    specialize (IH s1). destruct (reader_run decompress c s1 ops). cbn [snd] in *. rewrite IH. reflexivity.
  Qed.

  (* ---------- the response writer ---------- *)
  Definition writes (l : list (bytes * nat)) : list wop := map (fun p => WWrite (fst p) (snd p) false) l.
  Definition accepted (l : list (bytes * nat)) : list bytes := map (fun p => firstn (snd p) (fst p)) l.

  Lemma writer_run_app : forall a s b,
    writer_run decompress c s (a ++ b) =
    let (s1, r1) := writer_run decompress c s a in
    let (s2, r2) := writer_run decompress c s1 b in (s2, r1 ++ r2).
  Proof.
    induction a as [|op a IH]; intros s b.
    - cbn. destruct (writer_run decompress c s b); reflexivity.
    - cbn [app writer_run]. destruct (writer_step decompress c s op) as [s1 r].
      rewrite IH. destruct (writer_run decompress c s1 a) as [s2 rs].
      destruct (writer_run decompress c s2 b); reflexivity.
  Qed.

  Lemma writer_writes : forall l s,
    fst (writer_run decompress c s (writes l)) = fold_left (do_trace decompress c) (accepted l) s.
  Proof.
    induction l as [|[data n] rest IH]; intros s; [reflexivity|].
    cbn [writes accepted map writer_run writer_step fold_left fst snd]. fold (writes rest). fold (accepted rest).
    specialize (IH (do_trace decompress c s (firstn n data))).
    destruct (writer_run decompress c (do_trace decompress c s (firstn n data)) (writes rest)). exact IH.
  Qed.

  Lemma writer_ok_proof : forall l,
    writer_events decompress c (writes l) = expected_events decompress c (concat (accepted l)) ENil.
  Proof.
    intros l. unfold writer_events. rewrite writer_writes. apply finish_events.
  Qed.

  Lemma writer_fail_proof : forall l data n,
    writer_events decompress c (writes l ++ [WWrite data n true]) =
    expected_events decompress c (concat (accepted l ++ [firstn n data])) EScripted.
  Proof.
    intros l data n. unfold writer_events. rewrite writer_run_app.
    pose proof (writer_writes l ws_init) as R1.
    destruct (writer_run decompress c ws_init (writes l)) as [s1 r1]. cbn [fst] in R1.
    cbn [writer_run writer_step fst].
    rewrite try_finish_closed by apply try_finish_closes.
    rewrite R1. rewrite <- finish_events. rewrite fold_left_app. reflexivity.
  Qed.

  Definition wres_of (op : wop) : wres := match op with WWrite _ n f => ResWrite n f end.
  Lemma writer_transparent_proof : forall ops s, snd (writer_run decompress c s ops) = map wres_of ops.
  Proof.
    induction ops as [|op ops IH]; intros s; [reflexivity|].
    cbn [writer_run map].
    assert (E : snd (writer_step decompress c s op) = wres_of op) by (destruct op; reflexivity).
    destruct (writer_step decompress c s op) as [s1 r]. cbn [snd] in E. subst r.
    specialize (IH s1). destruct (writer_run decompress c s1 ops). cbn [snd] in *. rewrite IH. reflexivity.
  Qed.

  (* ---------- raw tracer ---------- *)
  Lemma raw_events_proof : forall chunks,
    raw_events decompress c chunks = expected_events decompress c (concat chunks) ENil.
  Proof.
    intros chunks. rewrite <- finish_events. unfold raw_events. rewrite do_trace_all.
    cbn [ws_init w_dt w_b w_closed]. destruct (feed decompress c dt_init chunks); reflexivity.
  Qed.

  (* ---------- a single body-end event, whatever the script ---------- *)
  Definition inv (s : wstate) : Prop :=
    (w_closed s = false -> b_live (w_b s) = true /\ count_end (b_events (w_b s)) = O) /\
    (w_closed s = true -> count_end (b_events (w_b s)) = 1%nat).

  Lemma inv_init : inv ws_init.
  Proof. split; cbn; [auto|discriminate]. Qed.

  Lemma count_end_add_all ts b : count_end (b_events (b_add_all req b ts)) = count_end (b_events b).
  Proof.
    destruct (b_live b) eqn:L.
    - destruct (b_add_all_live req ts b L) as (_ & -> & _).
      rewrite count_end_app, count_end_number. lia.
    - rewrite b_add_all_dead by exact L. reflexivity.
  Qed.

  Lemma inv_do_trace s ch : inv s -> inv (do_trace decompress c s ch).
  Proof.
    intros [I0 I1]. unfold do_trace. destruct (trace decompress c (w_dt s) ch) as [d' evs].
    split; cbn [w_closed w_b]; intros H.
    - destruct (I0 H) as [L Z]. split; [apply (b_add_all_live req evs _ L)|].
      rewrite count_end_add_all. exact Z.
    - rewrite count_end_add_all. exact (I1 H).
  Qed.

  Lemma inv_try_finish s err : inv s -> inv (try_finish c s err).
  Proof.
    intros [I0 I1]. unfold try_finish. destruct (w_closed s) eqn:E; [split; [congruence|intros _; apply I1; reflexivity]|].
    destruct (I0 eq_refl) as [L Z].
    destruct (emit_unfinished (w_dt s)) as [d' evs].
    split; cbn [w_closed w_b]; [discriminate|intros _].
    destruct (b_add_all_live req evs _ L) as (L' & _ & _).
    unfold b_add_end. rewrite L'. cbn [negb b_events].
    rewrite count_end_app, count_end_add_all, Z. reflexivity.
  Qed.

  Definition finishing (op : rop) : bool :=
    match op with RRead _ IoNone => false | _ => true end.

  Lemma reader_step_closed s op :
    w_closed (fst (reader_step decompress c s op)) = w_closed s || finishing op.
  Proof.
    destruct op as [data e|f]; cbn [reader_step fst finishing].
    - destruct e; rewrite ?try_finish_closes, ?do_trace_closed, ?orb_true_r, ?orb_false_r; reflexivity.
    - rewrite try_finish_closes, orb_true_r. reflexivity.
  Qed.

  Lemma inv_reader_step s op : inv s -> inv (fst (reader_step decompress c s op)).
  Proof.
    intros I. destruct op as [data e|f]; cbn [reader_step fst].
    - destruct e; auto using inv_do_trace, inv_try_finish.
    - apply inv_try_finish; exact I.
  Qed.

  Lemma reader_run_inv : forall ops s, inv s ->
    inv (fst (reader_run decompress c s ops)) /\
    w_closed (fst (reader_run decompress c s ops)) = w_closed s || existsb finishing ops.
  Proof.
    induction ops as [|op ops IH]; intros s I.
    - cbn. rewrite orb_false_r. auto.
    - cbn [reader_run existsb].
      pose proof (inv_reader_step s op I) as I1. pose proof (reader_step_closed s op) as C1.
      destruct (reader_step decompress c s op) as [s1 r]. cbn [fst] in *.
      destruct (IH s1 I1) as [I2 C2].
      destruct (reader_run decompress c s1 ops) as [s2 rs]. cbn [fst] in *.
      split; [exact I2|]. rewrite C2, C1, orb_assoc. reflexivity.
  Qed.

  Lemma reader_single_end_proof : forall ops,
    count_end (reader_events decompress c ops) = if existsb finishing ops then 1%nat else O.
  Proof.
    intros ops. unfold reader_events.
    destruct (reader_run_inv ops ws_init inv_init) as [[I0 I1] C]. cbn [ws_init w_closed orb] in C.
    destruct (existsb finishing ops); [apply I1; exact C|apply I0; exact C].
  Qed.

  Lemma inv_writer_step s op : inv s -> inv (fst (writer_step decompress c s op)).
  Proof.
    intros I. destruct op as [data n f]; cbn [writer_step fst].
    destruct f; auto using inv_do_trace, inv_try_finish.
  Qed.

  Lemma writer_run_inv : forall ops s, inv s -> inv (fst (writer_run decompress c s ops)).
  Proof.
    induction ops as [|op ops IH]; intros s I; [exact I|].
    cbn [writer_run]. pose proof (inv_writer_step s op I) as I1.
    destruct (writer_step decompress c s op) as [s1 r]. cbn [fst] in *.
    specialize (IH s1 I1). destruct (writer_run decompress c s1 ops). exact IH.
  Qed.

  Lemma writer_single_end_proof : forall ops, count_end (writer_events decompress c ops) = 1%nat.
  Proof.
    intros ops. unfold writer_events.
    pose proof (inv_try_finish _ ENil (writer_run_inv ops ws_init inv_init)) as [_ I1].
    apply I1. apply try_finish_closes.
  Qed.
End Wrap.

(* ---------- consequences for well-formed streams (chunk-free reasoning on the parser) ---------- *)
Ltac Zify.zify_post_hook ::= Z.to_euclidean_division_equations.

Lemma be_decode_be32 n : n < 4294967296 -> be_decode (be32 n) 0 = n.
Proof. intros H. unfold be32. cbn [be_decode]. lia. Qed.

Lemma data_indices_number req : forall ts k, data_indices (number req k ts) = seqN k (count_data ts).
Proof.
  induction ts as [|[e l|ct] ts IH]; intros k; [reflexivity| |].
  - cbn [number data_indices]. unfold count_data. cbn [filter length seqN]. f_equal. apply IH.
  - cbn [number data_indices]. apply IH.
Qed.

Lemma data_indices_app a b : data_indices (a ++ b) = data_indices a ++ data_indices b.
Proof. induction a as [|[r i e l|ct|r e] a IH]; cbn [app data_indices]; rewrite ?IH; reflexivity. Qed.

Section Streams.
  Variable decompress : bytes -> option bytes.
  Variable c : cfg.
  Notation parse_all := (fun body => parse decompress c (S (length body)) body).

  Lemma parse_encode fl p rest :
    blen p < 4294967296 ->
    parse_all (encode fl p ++ rest) = msg_events decompress c (fl, p) ++ parse_all rest.
  Proof.
    intros H. unfold encode, msg_events. cbn [fst snd]. cbv beta.
    set (R := parse decompress c (S (length rest)) rest).
    remember (S (length ((fl :: be32 (blen p) ++ p) ++ rest))) as f eqn:Hf.
    destruct f as [|f]; [discriminate|].
    unfold be32 in *. cbn [app] in *. cbn [parse].
    change (be_decode [blen p / 16777216 mod 256; blen p / 65536 mod 256; blen p / 256 mod 256; blen p mod 256] 0)
      with (be_decode (be32 (blen p)) 0).
    rewrite be_decode_be32 by exact H.
    destruct (N.leb_spec (blen p) (blen (p ++ rest))) as [_|Gt]; [|rewrite blen_app in Gt; lia].
    unfold blen at 3 4. rewrite !Nat2N.id.
    rewrite firstn_app, firstn_all, Nat.sub_diag, firstn_O, app_nil_r.
    rewrite skipn_app, skipn_all, Nat.sub_diag, skipn_O. cbn [app].
    subst R. f_equal. f_equal.
    apply parse_fuel; [|lia].
    injection Hf as Hf. cbn [length] in Hf. rewrite app_length in Hf. lia.
  Qed.

  Lemma parse_messages : forall msgs tail,
    Forall fits msgs ->
    parse_all (encode_all msgs ++ tail) = flat_map (msg_events decompress c) msgs ++ parse_all tail.
  Proof.
    induction msgs as [|[fl p] msgs IH]; intros tail F; [reflexivity|].
    inversion F as [|? ? Fm Fr]; subst.
    unfold encode_all. cbn [map concat flat_map fst snd]. fold (encode_all msgs).
    rewrite <- !app_assoc. rewrite parse_encode by exact Fm.
    rewrite (IH tail Fr). reflexivity.
  Qed.

  Lemma parse_cut fl p j :
    blen p < 4294967296 -> (0 < j < length (encode fl p))%nat ->
    parse_all (firstn j (encode fl p)) = partial_events fl (blen p) j.
  Proof.
    intros H Hj. unfold encode in *. unfold be32 in *. cbn [app length] in Hj.
    do 5 (destruct j as [|j]; [first [lia|reflexivity]|]).
    cbn [app firstn]. cbn [length parse].
    change (be_decode [blen p / 16777216 mod 256; blen p / 65536 mod 256; blen p / 256 mod 256; blen p mod 256] 0)
      with (be_decode (be32 (blen p)) 0).
    rewrite be_decode_be32 by exact H.
    assert (Lj : length (firstn j p) = j) by (rewrite firstn_length; lia).
    destruct (N.leb_spec (blen p) (blen (firstn j p))) as [Le|_]; [unfold blen in Le; lia|].
    unfold partial_events. cbn [Nat.ltb Nat.leb Nat.eqb Nat.sub].
    destruct j as [|j]; [reflexivity|].
    destruct p as [|x p]; [cbn in Hj; lia|]. cbn [firstn].
    unfold blen. cbn [length]. cbn [firstn length] in Lj. rewrite Lj.
    replace (S j - 0)%nat with (S j) by lia. reflexivity.
  Qed.

  Lemma count_data_messages : forall msgs,
    count_data (flat_map (msg_events decompress c) msgs) = length msgs.
  Proof.
    induction msgs as [|[fl p] msgs IH]; [reflexivity|].
    cbn [flat_map]. unfold count_data in *. rewrite filter_app, app_length, IH.
    unfold msg_events, end_stream_events. cbn [fst snd filter length].
    destruct (negb (c_req c) && is_end_stream fl); [|reflexivity].
    destruct p; [reflexivity|]. destruct (shown_content decompress c fl (n :: p)) as [[|? ?]|]; reflexivity.
  Qed.

  Lemma ndata_count ts : ndata ts = N.of_nat (count_data ts).
  Proof.
    induction ts as [|[e l|ct] ts IH]; [reflexivity| |].
    - cbn [ndata]. unfold count_data in *. cbn [filter length]. lia.
    - cbn [ndata]. unfold count_data in *. cbn [filter]. exact IH.
  Qed.

  (* --- statements in terms of the events of ANY chunking --- *)
  Hypothesis Hstream : c_stream c = true.

  Lemma parse_body_all body : parse_body decompress c body = parse_all body.
  Proof. unfold parse_body. rewrite Hstream. reflexivity. Qed.

  Lemma one_per_message_proof : forall msgs chunks,
    Forall fits msgs -> concat chunks = encode_all msgs ->
    raw_events decompress c chunks =
    number (c_req c) 0 (flat_map (msg_events decompress c) msgs) ++ [EvEnd (c_req c) ENil].
  Proof.
    intros msgs chunks F E. rewrite raw_events_proof. unfold expected_events.
    rewrite E, parse_body_all. rewrite <- (app_nil_r (encode_all msgs)).
    rewrite (parse_messages msgs [] F). cbn [parse length]. rewrite app_nil_r. reflexivity.
  Qed.

  Lemma truncation_proof : forall msgs fl p j chunks,
    Forall fits msgs -> fits (fl, p) -> (0 < j < length (encode fl p))%nat ->
    concat chunks = encode_all msgs ++ firstn j (encode fl p) ->
    raw_events decompress c chunks =
    number (c_req c) 0 (flat_map (msg_events decompress c) msgs ++ partial_events fl (blen p) j)
    ++ [EvEnd (c_req c) ENil].
  Proof.
    intros msgs fl p j chunks F Fp Hj E. rewrite raw_events_proof. unfold expected_events.
    rewrite E, parse_body_all, (parse_messages msgs _ F).
    rewrite (parse_cut fl p j Fp Hj). reflexivity.
  Qed.

  (* the last complete message is an end-stream message on the response side *)
  Lemma end_stream_general : forall msgs fl p chunks,
    Forall fits msgs -> fits (fl, p) ->
    concat chunks = encode_all msgs ++ encode fl p ->
    raw_events decompress c chunks =
    number (c_req c) 0 (flat_map (msg_events decompress c) msgs) ++
    EvData (c_req c) (N.of_nat (length msgs)) (Some (mk_env fl (blen p))) (blen p) ::
    number (c_req c) (N.of_nat (length msgs) + 1) (end_stream_events decompress c fl p) ++
    [EvEnd (c_req c) ENil].
  Proof.
    intros msgs fl p chunks F Fp E. rewrite raw_events_proof. unfold expected_events.
    rewrite E, parse_body_all, (parse_messages msgs _ F).
    rewrite <- (app_nil_r (encode fl p)), (parse_encode fl p [] Fp). cbn [parse length]. rewrite app_nil_r.
    rewrite number_app, ndata_count, count_data_messages. rewrite N.add_0_l.
    unfold msg_events. cbn [fst snd number]. rewrite <- app_assoc. reflexivity.
  Qed.

  Lemma end_stream_uncompressed_proof : forall msgs fl p chunks,
    c_req c = false -> Forall fits msgs -> fits (fl, p) -> p <> [] ->
    is_end_stream fl = true -> is_compressed fl = false ->
    concat chunks = encode_all msgs ++ encode fl p ->
    raw_events decompress c chunks =
    number false 0 (flat_map (msg_events decompress c) msgs) ++
    [EvData false (N.of_nat (length msgs)) (Some (mk_env fl (blen p))) (blen p); EvEos p; EvEnd false ENil].
  Proof.
    intros msgs fl p chunks R F Fp NE ES NC E.
    rewrite (end_stream_general msgs fl p chunks F Fp E). rewrite R.
    unfold end_stream_events, shown_content. rewrite R, ES, NC. cbn [negb andb].
    destruct p as [|x p]; [congruence|]. reflexivity.
  Qed.

  Lemma end_stream_compressed_proof : forall msgs fl p out chunks,
    c_req c = false -> c_dec c = true -> Forall fits msgs -> fits (fl, p) -> p <> [] ->
    is_end_stream fl = true -> is_compressed fl = true ->
    decompress p = Some out -> out <> [] ->
    concat chunks = encode_all msgs ++ encode fl p ->
    raw_events decompress c chunks =
    number false 0 (flat_map (msg_events decompress c) msgs) ++
    [EvData false (N.of_nat (length msgs)) (Some (mk_env fl (blen p))) (blen p); EvEos out; EvEnd false ENil].
  Proof.
    intros msgs fl p out chunks R D F Fp NE ES CP DE NO E.
    rewrite (end_stream_general msgs fl p chunks F Fp E). rewrite R.
    unfold end_stream_events, shown_content. rewrite R, ES, CP, D. cbn [negb andb].
    destruct p as [|x p]; [congruence|]. rewrite DE. destruct out; [congruence|]. reflexivity.
  Qed.

  (* undecodable or empty content is not shown, the data event still is *)
  Lemma end_stream_undecodable_proof : forall msgs fl p chunks,
    c_req c = false -> c_dec c = true -> Forall fits msgs -> fits (fl, p) ->
    is_end_stream fl = true -> is_compressed fl = true ->
    decompress p = None ->
    concat chunks = encode_all msgs ++ encode fl p ->
    raw_events decompress c chunks =
    number false 0 (flat_map (msg_events decompress c) msgs) ++
    [EvData false (N.of_nat (length msgs)) (Some (mk_env fl (blen p))) (blen p); EvEnd false ENil].
  Proof.
    intros msgs fl p chunks R D F Fp ES CP DE E.
    rewrite (end_stream_general msgs fl p chunks F Fp E). rewrite R.
    unfold end_stream_events, shown_content. rewrite R, ES, CP, D. cbn [negb andb].
    destruct p as [|x p]; [reflexivity|]. rewrite DE. reflexivity.
  Qed.
End Streams.

(* requests never produce end-stream events; numbering is consecutive for EVERY body *)
Lemma consecutive_proof : forall decompress c chunks,
  data_indices (raw_events decompress c chunks) =
  seqN 0 (count_data (parse_body decompress c (concat chunks))).
Proof.
  intros. rewrite raw_events_proof. unfold expected_events.
  rewrite data_indices_app, data_indices_number. cbn [data_indices]. apply app_nil_r.
Qed.

Lemma non_stream_proof : forall decompress c chunks,
  c_stream c = false ->
  raw_events decompress c chunks =
  match concat chunks with
  | [] => [EvEnd (c_req c) ENil]
  | _ :: _ => [EvData (c_req c) 0 None (blen (concat chunks)); EvEnd (c_req c) ENil]
  end.
Proof.
  intros decompress c chunks H. rewrite raw_events_proof. unfold expected_events, parse_body. rewrite H.
  destruct (concat chunks); reflexivity.
Qed.
