(* C05_Spec.v — what the property text promises, written without reference to the runner's
   loops, groups, semaphore or slots: WHICH permutations are to be issued (a flat selection
   over the library), and WHAT must be true of an event history (newest event first) of
   server starts / exits, sends and recorded setup failures. *)
From Coq Require Export Permutation.
From V Require Export C05_Model.
Open Scope N_scope.

(* ---------- which permutations are issued ---------- *)
(* What the grpc-go reference peers can run (docs + test_case_library.go comments): never the
   Connect protocol; the gRPC client speaks gRPC only, the gRPC server also gRPC-Web; gRPC needs
   HTTP/2, gRPC-Web runs over HTTP/1.1 and HTTP/2; proto codec; identity or gzip; no TLS; no raw
   request through the gRPC client, no raw response out of the gRPC server. *)
Definition grpc_supported (c s : bool) (tc : tcase) : bool :=
  negb (tc.(tc_proto) =? 1)
  && (negb c || (tc.(tc_proto) =? 2))
  && (if tc.(tc_proto) =? 3 then (tc.(tc_ver) =? 1) || (tc.(tc_ver) =? 2) else tc.(tc_ver) =? 2)
  && (tc.(tc_codec) =? 1)
  && ((tc.(tc_comp) =? 1) || (tc.(tc_comp) =? 2))
  && negb tc.(tc_tls)
  && negb (c && is_some tc.(tc_raw))
  && negb (s && tc.(tc_rawresp)).

(* the permutation as it is issued to the pair (client c, server s): itself between two ordinary
   peers, its marked variant when a gRPC peer takes part and supports it, nothing otherwise *)
Definition variant (c s : bool) (tc : tcase) : option tcase :=
  if negb c && negb s then Some tc
  else if grpc_supported c s tc then Some (rename c s tc) else None.

Definition select_one (sel : bytes -> bool) (c s : peer) (tc : tcase) : list tcase :=
  match variant c.(p_grpc) s.(p_grpc) tc with
  | Some tc' => if sel tc'.(tc_name) then [tc'] else []
  | None => []
  end.

(* everything that has to be issued in a run: no grouping, no order *)
Definition selected (lib : list tcase) (sel : bytes -> bool) (clients servers : list peer) : list tcase :=
  flat_map (fun c => flat_map (fun s => flat_map (select_one sel c s) lib) servers) clients.

(* ---------- reading an event history (newest first) ---------- *)
(* the permutations handed to the client for batch k, oldest first *)
Fixpoint sent_cases (tr : list event) (k : nat) : list tcase :=
  match tr with
  | [] => []
  | ESend j tc _ :: old => if Nat.eqb j k then sent_cases old k ++ [tc] else sent_cases old k
  | _ :: old => sent_cases old k
  end.

(* batch k was recorded as a setup failure *)
Fixpoint failed_in (tr : list event) (k : nat) : bool :=
  match tr with
  | [] => false
  | EFail j :: old => Nat.eqb j k || failed_in old k
  | _ :: old => failed_in old k
  end.

(* every send, at the moment it happened (`old` = what had happened before): the server spawned
   for that batch was serving — it had answered with address a and had not exited —, the
   permutation belongs to the batch, and the request is the permutation completed with a *)
Fixpoint sends_ok (p : list batch) (tr : list event) : Prop :=
  match tr with
  | [] => True
  | e :: old =>
    match e with
    | ESend k tc r =>
      exists b a, nth_error p k = Some b /\ serving old k = Some a /\ In tc b.(b_cases)
                  /\ r = complete a b.(b_inst) b.(b_sref) tc
    | _ => True
    end /\ sends_ok p old
  end.

(* the bound on server processes held at EVERY moment of the history *)
Fixpoint always_bounded (max : nat) (tr : list event) : Prop :=
  match tr with
  | [] => True
  | _ :: old => (length (alive_list tr) <= max)%nat /\ always_bounded max old
  end.

(* how many of the listed actions were enabled when their turn came *)
Fixpoint effective (max : nat) (s : state) (acts : list action) : nat :=
  match acts with
  | [] => 0
  | a :: r => match step_opt max s a with
              | Some s' => S (effective max s' r)
              | None => effective max s r
              end
  end.
