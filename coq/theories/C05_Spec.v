(* C05_Spec.v - placeholder, being written *)
From V Require Export C05_Model.
