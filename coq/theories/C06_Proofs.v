(* C06_Proofs.v — the model of parseConfig equals the set-comprehension specification. *)
From Coq Require Import Lia Permutation.
From V Require Import C06_Spec.
Open Scope N_scope.

(* ---------- small facts about the helpers ---------- *)
Lemma contains_In l x : contains l x = true <-> In x l.
Proof.
  unfold contains. rewrite existsb_exists. split.
  - intros (y & Hy & E). apply N.eqb_eq in E. subst. exact Hy.
  - intros H. exists x. split; [exact H|apply N.eqb_refl].
Qed.

Lemma contains_false l x : contains l x = false <-> ~ In x l.
Proof.
  rewrite <- contains_In. destruct (contains l x); split; congruence.
Qed.

Definition all_eq (l : list N) (x : N) : Prop := l <> [] /\ forall v, In v l -> v = x.

Lemma only_spec l x : only l x = true <-> all_eq l x.
Proof.
  unfold only, all_eq. destruct l as [|a l]; [split; [discriminate|intros [H _]; congruence]|].
  rewrite forallb_forall. split.
  - intros H. split; [discriminate|]. intros v Hv. apply H in Hv. apply N.eqb_eq in Hv. congruence.
  - intros [_ H] v Hv. apply N.eqb_eq. symmetry. apply H. exact Hv.
Qed.

Lemma in_unless {A} (b : bool) (l : list A) x : In x (unless b l) <-> b = false /\ In x l.
Proof. destruct b; simpl; intuition congruence. Qed.

Lemma in_bool_cases_nil sup x : In x (bool_cases [] sup) <-> (x = true -> sup = true).
Proof. destruct sup, x; simpl; intuition congruence. Qed.

Lemma in_bool_cases_opt o sup x : In x (bool_cases (opt_cases o) sup) <-> flag_matches o sup x.
Proof.
  destruct o as [b|]; [|apply in_bool_cases_nil].
  simpl. intuition congruence.
Qed.

Lemma in_axis g sup x : In x (if g =? 0 then sup else [g]) <-> axis_matches g sup x.
Proof.
  unfold axis_matches. destruct (g =? 0); [tauto|]. simpl. intuition congruence.
Qed.

Lemma case_eqb_eq a b : case_eqb a b = true <-> a = b.
Proof.
  destruct a as [v p cd z s tls cert g l cvm], b as [v' p' cd' z' s' tls' cert' g' l' cvm']. unfold case_eqb. cbn [c_version c_protocol c_codec c_compression c_stream c_tls c_certs c_get c_limit c_cvm].
  rewrite !andb_true_iff, !N.eqb_eq, !Bool.eqb_true_iff. split.
  - intros H. decompose [and] H. congruence.
  - intros H. inversion H. tauto.
Qed.

Lemma mem_case_In c l : mem_case c l = true <-> In c l.
Proof.
  unfold mem_case. rewrite existsb_exists. split.
  - intros (y & Hy & E). apply case_eqb_eq in E. subst. exact Hy.
  - intros H. exists c. split; [exact H|apply case_eqb_eq; reflexivity].
Qed.

(* ---------- membership in the nested loops of computeCasesFromFeatures ---------- *)
Definition loop_guards (f : resolved) (c : case) : bool :=
  negb (negb (c_tls c) && ((c_version c =? H3) || ((c_version c =? H2) && negb (r_h2c f))))
  && negb (c_certs c && negb (c_tls c))
  && negb ((c_protocol c =? GRPC) && negb (c_version c =? H2))
  && implb (c_get c) ((c_protocol c =? CONNECT) && r_get f)
  && negb ((c_stream c =? HALF) && (negb (r_half1 f) && (c_version c =? H1)))
  && negb ((c_stream c =? FULL) && (c_version c =? H1))
  && negb (c_codec c =? TEXT).

Lemma in_get_cases (b g : bool) : In g (if b then [false; true] else [false]) <-> implb g b = true.
Proof. destruct b, g; simpl; intuition congruence. Qed.

Lemma in_compute f T C L c :
  In c (compute_cases f T C L) <->
  In (c_version c) (r_versions f) /\ In (c_protocol c) (r_protocols f) /\ In (c_codec c) (r_codecs f) /\
  In (c_compression c) (r_compressions f) /\ In (c_stream c) (r_streams f) /\
  In (c_tls c) (bool_cases T (r_tls f)) /\ In (c_certs c) (bool_cases C (r_certs f)) /\
  In (c_limit c) (bool_cases L (r_limit f)) /\
  loop_guards f c = true /\ c_cvm c = 0.
Proof.
  unfold compute_cases. cbv zeta. split.
  - intros H.
    apply in_flat_map in H. destruct H as (v & Hv & H).
    apply in_flat_map in H. destruct H as (tls & Htls & H).
    apply in_unless in H. destruct H as (G1 & H).
    apply in_flat_map in H. destruct H as (cert & Hcert & H).
    apply in_unless in H. destruct H as (G2 & H).
    apply in_flat_map in H. destruct H as (p & Hp & H).
    apply in_unless in H. destruct H as (G3 & H).
    apply in_flat_map in H. destruct H as (s & Hs & H).
    apply in_unless in H. destruct H as (G4 & H).
    apply in_unless in H. destruct H as (G5 & H).
    apply in_flat_map in H. destruct H as (cd & Hcd & H).
    apply in_unless in H. destruct H as (G6 & H).
    apply in_flat_map in H. destruct H as (z & Hz & H).
    apply in_flat_map in H. destruct H as (g & Hg & H).
    apply in_map_iff in H. destruct H as (l & <- & Hl).
    apply in_get_cases in Hg.
    unfold loop_guards. cbn [c_version c_protocol c_codec c_compression c_stream c_tls c_certs c_get c_limit c_cvm].
    rewrite G1, G2, G3, G4, G5, G6, Hg. simpl. tauto.
  - destruct c as [v p cd z s tls cert g l cvm].
    cbn [c_version c_protocol c_codec c_compression c_stream c_tls c_certs c_get c_limit c_cvm].
    unfold loop_guards. cbn [c_version c_protocol c_codec c_compression c_stream c_tls c_certs c_get c_limit c_cvm].
    intros (Hv & Hp & Hcd & Hz & Hs & Htls & Hcert & Hl & G & ->).
    rewrite !andb_true_iff, !negb_true_iff in G.
    destruct G as ((((((G1 & G2) & G3) & Hg) & G4) & G5) & G6).
    apply in_flat_map. exists v. split; [exact Hv|].
    apply in_flat_map. exists tls. split; [exact Htls|].
    apply in_unless. split; [exact G1|].
    apply in_flat_map. exists cert. split; [exact Hcert|].
    apply in_unless. split; [exact G2|].
    apply in_flat_map. exists p. split; [exact Hp|].
    apply in_unless. split; [exact G3|].
    apply in_flat_map. exists s. split; [exact Hs|].
    apply in_unless. split; [exact G4|].
    apply in_unless. split; [exact G5|].
    apply in_flat_map. exists cd. split; [exact Hcd|].
    apply in_unless. split; [exact G6|].
    apply in_flat_map. exists z. split; [exact Hz|].
    apply in_flat_map. exists g. split; [apply in_get_cases; exact Hg|].
    apply in_map_iff. exists l. split; [reflexivity|exact Hl].
Qed.

Ltac split_eqb :=
  repeat match goal with
         | |- context [N.eqb ?a ?b] => destruct (N.eqb_spec a b); try discriminate; try subst
         end.

Ltac bsolve :=
  split_eqb; repeat match goal with b : bool |- _ => destruct b end; simpl;
  intuition (try congruence; try discriminate).

Lemma g_tls (tls h2c : bool) v :
  negb (negb tls && ((v =? 3) || ((v =? 2) && negb h2c))) = true <->
  (v = 3 -> tls = true) /\ (v = 2 -> tls = false -> h2c = true).
Proof. bsolve. Qed.
Lemma g_cert (cert tls : bool) : negb (cert && negb tls) = true <-> (cert = true -> tls = true).
Proof. bsolve. Qed.
Lemma g_grpc p v : negb ((p =? 2) && negb (v =? 2)) = true <-> (p = 2 -> v = 2).
Proof. bsolve. Qed.
Lemma g_get (g fget : bool) p : implb g ((p =? 1) && fget) = true <-> (g = true -> p = 1 /\ fget = true).
Proof. bsolve. Qed.
Lemma g_half (half1 : bool) s v :
  negb ((s =? 4) && (negb half1 && (v =? 1))) = true <-> (s = 4 -> v = 1 -> half1 = true).
Proof. bsolve. Qed.
Lemma g_full s v : negb ((s =? 5) && (v =? 1)) = true <-> (s = 5 -> v <> 1).
Proof. bsolve. Qed.
Lemma g_text cd : negb (cd =? 3) = true <-> cd <> 3.
Proof. bsolve. Qed.

(* the `continue` conditions are exactly "internally possible" (and not CODEC_TEXT) *)
Lemma guards_valid f c : loop_guards f c = true <-> valid_case f c /\ c_codec c <> TEXT.
Proof.
  unfold loop_guards, valid_case, H1, H2, H3, GRPC, CONNECT, HALF, FULL, TEXT.
  rewrite !andb_true_iff, g_tls, g_cert, g_grpc, g_get, g_half, g_full, g_text. tauto.
Qed.

(* ---------- resolveFeatures = documented defaults, or an error exactly when contradictory ---------- *)
Definition features_bad (F : features) : bool :=
  let f := defaulted F in
  (r_certs f && negb (r_tls f))
  || (negb (is_nil (F_versions F)) && getb (F_h2c F) && negb (contains (F_versions F) H2))
  || (contains (r_versions f) H3 && negb (r_tls f))
  || (contains (r_versions f) H2 && negb (r_h2c f || r_tls f))
  || (contains (F_protocols F) GRPC && negb (r_trailers f))
  || (contains (F_protocols F) GRPC && negb (contains (r_versions f) H2))
  || (contains (F_streams F) FULL && negb (beyond_http1 (r_versions f)))
  || (contains (F_streams F) HALF && negb (beyond_http1 (r_versions f)) && negb (r_half1 f)).

Lemma filter_versions tls h2c :
  filter (version_possible tls h2c) [H1; H2] = if tls || h2c then [H1; H2] else [H1].
Proof.
  unfold version_possible, filter. change (H1 =? H2) with false. change (H1 =? H3) with false.
  change (H2 =? H2) with true. cbn beta iota. destruct (tls || h2c); reflexivity.
Qed.

Lemma filter_protocols tr V :
  filter (protocol_possible tr V) [CONNECT; GRPC; GRPCWEB] =
  if tr && contains V H2 then [CONNECT; GRPC; GRPCWEB] else [CONNECT; GRPCWEB].
Proof.
  unfold protocol_possible, filter. change (CONNECT =? GRPC) with false. change (GRPC =? GRPC) with true.
  change (GRPCWEB =? GRPC) with false. cbn beta iota. destruct (tr && contains V H2); reflexivity.
Qed.

Lemma filter_streams half1 V :
  filter (stream_possible half1 V) [UNARY; CLIENT_STREAM; SERVER_STREAM; HALF; FULL] =
  if contains V H2 || contains V H3 then [UNARY; CLIENT_STREAM; SERVER_STREAM; HALF; FULL]
  else if half1 then [UNARY; CLIENT_STREAM; SERVER_STREAM; HALF] else [UNARY; CLIENT_STREAM; SERVER_STREAM].
Proof.
  unfold stream_possible, beyond_http1, filter.
  change (UNARY =? FULL) with false. change (UNARY =? HALF) with false.
  change (CLIENT_STREAM =? FULL) with false. change (CLIENT_STREAM =? HALF) with false.
  change (SERVER_STREAM =? FULL) with false. change (SERVER_STREAM =? HALF) with false.
  change (HALF =? FULL) with false. change (HALF =? HALF) with true. change (FULL =? FULL) with true.
  cbn beta iota. destruct (contains V H2 || contains V H3), half1; reflexivity.
Qed.

Ltac abstract_contains :=
  repeat match goal with
         | |- context [contains (?a :: ?l) ?x] =>
           let b := fresh "b" in generalize (contains (a :: l) x); intro b
         end.

Lemma resolve_features_char F :
  resolve_features F = if features_bad F then Err else Ok (defaulted F).
Proof.
  destruct F as [v p c z s h2c tls certs tr half1 get lim].
  unfold resolve_features, features_bad, defaulted.
  cbn [F_versions F_protocols F_codecs F_compressions F_streams F_h2c F_tls F_certs F_trailers F_half1 F_get F_limit
       r_versions r_protocols r_codecs r_compressions r_streams r_h2c r_tls r_certs r_trailers r_half1 r_get r_limit].
  assert (Ec : (if is_nil c then [PROTO; JSON] else c) = or_default c [PROTO; JSON] (fun _ => true))
    by (destruct c; reflexivity).
  assert (Ez : (if is_nil z then [IDENTITY; GZIP] else z) = or_default z [IDENTITY; GZIP] (fun _ => true))
    by (destruct z; reflexivity).
  rewrite Ec, Ez. clear Ec Ez.
  generalize (or_default c [PROTO; JSON] (fun _ => true)) (or_default z [IDENTITY; GZIP] (fun _ => true)).
  intros C Z.
  change (flag true tls) with (dflt_true tls). change (flag false certs) with (getb certs).
  change (flag true tr) with (dflt_true tr). change (flag false half1) with (getb half1).
  change (flag true get) with (dflt_true get). change (flag true lim) with (dflt_true lim).
  generalize (dflt_true tls) (getb certs) (dflt_true tr) (getb half1) (dflt_true get) (dflt_true lim).
  intros TLS CERTS TR HALF1 GET LIM.
  unfold or_default, beyond_http1, is_nil.
  destruct v as [|v0 v']; destruct p as [|p0 p']; destruct s as [|s0 s']; cbn beta iota;
    rewrite ?filter_versions, ?filter_protocols, ?filter_streams;
    abstract_contains;
    destruct TLS, CERTS; try reflexivity; destruct h2c as [[]|]; try reflexivity;
    repeat match goal with b : bool |- _ => destruct b; try reflexivity end.
Qed.

Lemma versions_bad_iff F :
  (contains (r_versions (defaulted F)) H3 && negb (r_tls (defaulted F)))
  || (contains (r_versions (defaulted F)) H2 && negb (r_h2c (defaulted F) || r_tls (defaulted F))) = true <->
  exists v, In v (F_versions F) /\ version_possible (r_tls (defaulted F)) (r_h2c (defaulted F)) v = false.
Proof.
  destruct F as [v p c z s h2c tls certs tr half1 get lim]. unfold defaulted.
  cbn [F_versions F_h2c F_tls r_versions r_h2c r_tls].
  generalize (flag true tls) (flag true h2c). intros TLS H2C.
  destruct v as [|v0 v'].
  - unfold or_default. rewrite filter_versions. split.
    + destruct TLS, H2C; discriminate.
    + intros (x & [] & _).
  - unfold or_default. rewrite orb_true_iff, !andb_true_iff, !negb_true_iff, !contains_In. split.
    + intros [[Hin E]|[Hin E]].
      * exists H3. split; [exact Hin|]. unfold version_possible. exact E.
      * exists H2. split; [exact Hin|]. unfold version_possible. simpl.
        rewrite orb_comm. exact E.
    + intros (x & Hin & E). unfold version_possible in E.
      destruct (N.eqb_spec x H2) as [->|_].
      * right. split; [exact Hin|]. rewrite orb_comm. exact E.
      * destruct (N.eqb_spec x H3) as [->|_]; [|discriminate]. left. split; [exact Hin|exact E].
Qed.

Lemma protocols_bad_iff P tr V :
  (contains P GRPC && negb tr) || (contains P GRPC && negb (contains V H2)) = true <->
  exists p, In p P /\ protocol_possible tr V p = false.
Proof.
  rewrite orb_true_iff, !andb_true_iff, !negb_true_iff, contains_In. split.
  - intros [[Hin E]|[Hin E]]; exists GRPC; (split; [exact Hin|]); unfold protocol_possible; simpl; rewrite E;
      [reflexivity|apply andb_false_r].
  - intros (p & Hin & E). unfold protocol_possible in E.
    destruct (N.eqb_spec p GRPC) as [->|_]; [|discriminate].
    apply andb_false_iff in E. destruct E as [E|E]; [left|right]; split; assumption.
Qed.

Lemma streams_bad_iff S half1 V :
  (contains S FULL && negb (beyond_http1 V)) || (contains S HALF && negb (beyond_http1 V) && negb half1) = true <->
  exists s, In s S /\ stream_possible half1 V s = false.
Proof.
  rewrite orb_true_iff, !andb_true_iff, !negb_true_iff, !contains_In. split.
  - intros [[Hin E]|[[Hin E] E']].
    + exists FULL. split; [exact Hin|]. unfold stream_possible. simpl. exact E.
    + exists HALF. split; [exact Hin|]. unfold stream_possible. simpl. rewrite E, E'. reflexivity.
  - intros (s & Hin & E). unfold stream_possible in E.
    destruct (N.eqb_spec s FULL) as [->|_]; [left; split; assumption|].
    destruct (N.eqb_spec s HALF) as [->|_]; [|discriminate].
    apply orb_false_iff in E. right. tauto.
Qed.

Lemma features_bad_iff F : features_bad F = true <-> features_contradictory F.
Proof.
  unfold features_bad, features_contradictory. cbv zeta.
  rewrite <- versions_bad_iff, <- protocols_bad_iff, <- streams_bad_iff.
  rewrite !orb_true_iff, !andb_true_iff, !negb_true_iff.
  assert (E2 : (is_nil (F_versions F) = false /\ getb (F_h2c F) = true) /\ contains (F_versions F) H2 = false
               <-> F_h2c F = Some true /\ F_versions F <> [] /\ ~ In H2 (F_versions F)).
  { rewrite contains_false. destruct (F_versions F), (F_h2c F) as [[]|]; simpl; intuition congruence. }
  rewrite E2. tauto.
Qed.

Lemma resolve_features_err F : resolve_features F = Err <-> features_contradictory F.
Proof.
  rewrite resolve_features_char, <- features_bad_iff. destruct (features_bad F); split; congruence.
Qed.

Lemma resolve_features_ok F f : resolve_features F = Ok f -> f = defaulted F.
Proof. rewrite resolve_features_char. destruct (features_bad F); congruence. Qed.

(* ---------- resolveCase ---------- *)
Lemma if_err {A} (b : bool) (X : res A) : (if b then Err else X) = Err <-> b = true \/ X = Err.
Proof. destruct b; intuition congruence. Qed.

Lemma if_ok {A} (b : bool) (X : res A) a : (if b then Err else X) = Ok a <-> b = false /\ X = Ok a.
Proof. destruct b; intuition congruence. Qed.

Lemma loop_guards_with_lists f v p c z s x : loop_guards (with_lists f v p c z s) x = loop_guards f x.
Proof. reflexivity. Qed.

Lemma valid_case_with_lists f v p c z s x : valid_case (with_lists f v p c z s) x <-> valid_case f x.
Proof. reflexivity. Qed.

Lemma resolve_case_ok f e l :
  resolve_case f e = Ok l -> forall c, In c l <-> matches f e c.
Proof.
  unfold resolve_case. cbv zeta. rewrite !if_ok. intros (_ & _ & _ & _ & _ & _ & _ & E). inversion E; subst; clear E.
  intros c. rewrite in_compute, loop_guards_with_lists, guards_valid.
  unfold with_lists. cbn [r_versions r_protocols r_codecs r_compressions r_streams r_tls r_certs r_limit].
  rewrite !in_axis, !in_bool_cases_opt. unfold matches, regular. tauto.
Qed.

(* the seven error tests of resolveCase, one small lemma each (no search over the
   whole conjunction: each lemma speaks about the two or three atoms it needs) *)
Lemma or_iff (A B C D : Prop) : (A <-> B) -> (C <-> D) -> (A \/ C <-> B \/ D).
Proof. tauto. Qed.

Lemma nz_eqb (x k : N) : k <> 0 -> negb (x =? 0) && (x =? k) = (x =? k).
Proof.
  intros Hk. destruct (N.eqb_spec x k) as [->|_]; [|apply andb_false_r].
  destruct (N.eqb_spec k 0); [contradiction|reflexivity].
Qed.

Lemma e_h2 (v : N) (t h : bool) :
  negb (v =? 0) && (v =? H2) && negb t && negb h = true <-> v = H2 /\ t = false /\ h = false.
Proof.
  rewrite nz_eqb by discriminate. rewrite !andb_true_iff, !negb_true_iff, N.eqb_eq. tauto.
Qed.

Lemma e_h3 (v : N) (t : bool) :
  negb (v =? 0) && (v =? H3) && negb t = true <-> v = H3 /\ t = false.
Proof.
  rewrite nz_eqb by discriminate. rewrite !andb_true_iff, !negb_true_iff, N.eqb_eq. tauto.
Qed.

Lemma e_grpc (p : N) (V : list N) :
  negb (p =? 0) && (p =? GRPC) && negb (contains V H2) = true <-> p = GRPC /\ ~ In H2 V.
Proof.
  rewrite nz_eqb by discriminate. rewrite !andb_true_iff, !negb_true_iff, N.eqb_eq, contains_false. tauto.
Qed.

Lemma only_H1 V : only V H1 = true <-> all_http1 V.
Proof. apply only_spec. Qed.

Lemma e_half (s : N) (h : bool) (V : list N) :
  negb (s =? 0) && (s =? HALF) && negb h && only V H1 = true <-> s = HALF /\ h = false /\ all_http1 V.
Proof.
  rewrite nz_eqb by discriminate. rewrite !andb_true_iff, !negb_true_iff, N.eqb_eq, only_H1. tauto.
Qed.

Lemma e_full (s : N) (V : list N) :
  negb (s =? 0) && (s =? FULL) && only V H1 = true <-> s = FULL /\ all_http1 V.
Proof.
  rewrite nz_eqb by discriminate. rewrite !andb_true_iff, N.eqb_eq, only_H1. tauto.
Qed.

Lemma e_certs {A} (ec et : option bool) (ft : bool) (a : A) :
  (getb ec && match et with Some false => true | _ => false end = true \/
   getb ec && negb (contains_b (opt_cases et) true) && negb ft = true \/ Ok a = Err)
  <-> ec = Some true /\ match et with Some b => b | None => ft end = false.
Proof.
  destruct ec as [[]|], et as [[]|], ft; simpl; split;
    try (intros [H|[H|H]]; discriminate); try (intros [H H']; discriminate);
    try (intros _; split; reflexivity); try (intros _; left; reflexivity); try (intros _; right; left; reflexivity).
Qed.

Lemma resolve_case_err f e : resolve_case f e = Err <-> entry_contradictory f e.
Proof.
  unfold resolve_case. cbv zeta. rewrite !if_err. unfold entry_contradictory.
  fold (entry_versions f e). fold (entry_tls_possible f e).
  apply or_iff; [apply e_h2|].
  apply or_iff; [apply e_h3|].
  apply or_iff; [apply e_grpc|].
  apply or_iff; [apply e_half|].
  apply or_iff; [apply e_full|].
  apply e_certs.
Qed.

Lemma resolve_case_total f e : resolve_case f e = Err \/ exists l, resolve_case f e = Ok l.
Proof. destruct (resolve_case f e) as [l|]; [right; exists l; reflexivity|left; reflexivity]. Qed.

(* ---------- the features-implied set ---------- *)
Lemma in_features_compute f c : In c (compute_cases f [] [] []) <-> in_features f c.
Proof.
  rewrite in_compute, guards_valid, !in_bool_cases_nil. unfold in_features, regular. tauto.
Qed.

(* ---------- the include loop: union ---------- *)
Lemma add_includes_ok f es : forall cs r,
  add_includes f cs es = Ok r ->
  forall c, In c r <-> In c cs \/ exists e, In e es /\ matches f e c.
Proof.
  induction es as [|e es IH]; intros cs r H c.
  - simpl in H. inversion H; subst. split; [tauto|]. intros [H'|(e & [] & _)]. exact H'.
  - simpl in H. destruct (resolve_case f e) as [l|] eqn:E; [|discriminate].
    rewrite (IH _ _ H c), in_app_iff. pose proof (resolve_case_ok f e l E c) as M. split.
    + intros [[Hc|Hc]|(e' & Hin & Hm)].
      * left; exact Hc.
      * right. exists e. split; [left; reflexivity|apply M; exact Hc].
      * right. exists e'. split; [right; exact Hin|exact Hm].
    + intros [Hc|(e' & [<-|Hin] & Hm)].
      * left; left; exact Hc.
      * left; right; apply M; exact Hm.
      * right. exists e'. split; assumption.
Qed.

Lemma add_includes_err f es : forall cs,
  add_includes f cs es = Err <-> exists e, In e es /\ entry_contradictory f e.
Proof.
  induction es as [|e es IH]; intros cs; simpl.
  - split; [discriminate|intros (e & [] & _)].
  - destruct (resolve_case f e) as [l|] eqn:E.
    + rewrite IH. split.
      * intros (e' & Hin & Hc). exists e'. split; [right; exact Hin|exact Hc].
      * intros (e' & [<-|Hin] & Hc).
        -- apply resolve_case_err in Hc. congruence.
        -- exists e'. split; assumption.
    + split; [|reflexivity]. intros _. exists e. split; [left; reflexivity|apply resolve_case_err; exact E].
Qed.

(* ---------- the exclude loop: difference ---------- *)
Lemma in_filter_not_mem c cs l :
  In c (filter (fun c => negb (mem_case c l)) cs) <-> In c cs /\ ~ In c l.
Proof.
  rewrite filter_In, negb_true_iff, <- (mem_case_In c l).
  destruct (mem_case c l); split; intros [H H']; (split; [exact H|]); try discriminate; try reflexivity.
  exfalso. apply H'. reflexivity.
Qed.

Lemma drop_excludes_ok f es : forall cs r,
  drop_excludes f cs es = Ok r ->
  forall c, In c r <-> In c cs /\ ~ exists e, In e es /\ matches f e c.
Proof.
  induction es as [|e es IH]; intros cs r H c.
  - simpl in H. inversion H; subst. split; [|tauto]. intros H'. split; [exact H'|]. intros (e & [] & _).
  - simpl in H. destruct (resolve_case f e) as [l|] eqn:E; [|discriminate].
    rewrite (IH _ _ H c), in_filter_not_mem. pose proof (resolve_case_ok f e l E c) as M. split.
    + intros [[Hc Hn] Hn']. split; [exact Hc|]. intros (e' & [<-|Hin] & Hm).
      * apply Hn, M, Hm.
      * apply Hn'. exists e'. split; assumption.
    + intros [Hc Hn]. split; [split; [exact Hc|]|].
      * intros Hl. apply Hn. exists e. split; [left; reflexivity|apply M; exact Hl].
      * intros (e' & Hin & Hm). apply Hn. exists e'. split; [right; exact Hin|exact Hm].
Qed.

Lemma drop_excludes_err f es : forall cs,
  drop_excludes f cs es = Err <-> exists e, In e es /\ entry_contradictory f e.
Proof.
  induction es as [|e es IH]; intros cs; simpl.
  - split; [discriminate|intros (e & [] & _)].
  - destruct (resolve_case f e) as [l|] eqn:E.
    + rewrite IH. split.
      * intros (e' & Hin & Hc). exists e'. split; [right; exact Hin|exact Hc].
      * intros (e' & [<-|Hin] & Hc).
        -- apply resolve_case_err in Hc. congruence.
        -- exists e'. split; assumption.
    + split; [|reflexivity]. intros _. exists e. split; [left; reflexivity|apply resolve_case_err; exact E].
Qed.

(* ---------- parseConfig before the emptiness test ---------- *)
Lemma expand_ok cfg cs :
  expand_config cfg = Ok cs -> forall c, In c cs <-> spec_member cfg c.
Proof.
  unfold expand_config, spec_member. cbv zeta.
  destruct (resolve_features (cfg_features cfg)) as [f|] eqn:EF; [|discriminate].
  apply resolve_features_ok in EF. subst f.
  destruct (add_includes _ _ (cfg_includes cfg)) as [inc|] eqn:EI; [|discriminate].
  intros ED c.
  rewrite (drop_excludes_ok _ _ _ _ ED c), (add_includes_ok _ _ _ _ EI c), in_features_compute. tauto.
Qed.

Lemma expand_err cfg : expand_config cfg = Err <-> contradictory cfg.
Proof.
  unfold expand_config, contradictory.
  destruct (resolve_features (cfg_features cfg)) as [f|] eqn:EF.
  - pose proof EF as NF. apply resolve_features_ok in EF. subst f.
    assert (NC : ~ features_contradictory (cfg_features cfg)).
    { intros H. apply resolve_features_err in H. congruence. }
    destruct (add_includes _ _ (cfg_includes cfg)) as [inc|] eqn:EI.
    + assert (NI : ~ exists e, In e (cfg_includes cfg) /\ entry_contradictory (defaulted (cfg_features cfg)) e).
      { intros H. apply (add_includes_err _ _ (compute_cases (defaulted (cfg_features cfg)) [] [] [])) in H. congruence. }
      rewrite drop_excludes_err. split.
      * intros (e & Hin & Hc). right. exists e. split; [apply in_or_app; right; exact Hin|exact Hc].
      * intros [H|(e & Hin & Hc)]; [contradiction|]. apply in_app_or in Hin. destruct Hin as [Hin|Hin].
        -- exfalso. apply NI. exists e. split; assumption.
        -- exists e. split; assumption.
    + split; [|reflexivity]. intros _. right. apply add_includes_err in EI. destruct EI as (e & Hin & Hc).
      exists e. split; [apply in_or_app; left; exact Hin|exact Hc].
  - split; [|reflexivity]. intros _. left. apply resolve_features_err. exact EF.
Qed.

(* ---------- the property theorems ---------- *)
Theorem parse_ok_iff_proof : forall cfg cs,
  parse_config cfg = Ok cs -> forall c, In c cs <-> spec_member cfg c.
Proof.
  intros cfg cs H. unfold parse_config in H.
  destruct (expand_config cfg) as [[|c0 l]|] eqn:E; try discriminate.
  inversion H; subst. apply expand_ok. exact E.
Qed.

Lemma spec_member_valid cfg c : spec_member cfg c -> valid_case (defaulted (cfg_features cfg)) c /\ regular c.
Proof.
  unfold spec_member, in_features, matches. cbv zeta. intros [[H|(e & _ & H)] _]; tauto.
Qed.

Theorem parse_valid_proof : forall cfg cs,
  parse_config cfg = Ok cs ->
  cs <> [] /\ Forall (fun c => valid_case (defaulted (cfg_features cfg)) c /\ regular c) cs.
Proof.
  intros cfg cs H. split.
  - unfold parse_config in H. destruct (expand_config cfg) as [[|c0 l]|]; try discriminate.
    inversion H; subst. discriminate.
  - apply Forall_forall. intros c Hc. apply spec_member_valid. apply (parse_ok_iff_proof cfg cs H c). exact Hc.
Qed.

Theorem parse_err_iff_proof : forall cfg,
  parse_config cfg = Err <-> contradictory cfg \/ (forall c, ~ spec_member cfg c).
Proof.
  intros cfg. unfold parse_config. destruct (expand_config cfg) as [[|c0 l]|] eqn:E.
  - split; [|reflexivity]. intros _. right. intros c Hc. apply (expand_ok cfg [] E c) in Hc. exact Hc.
  - split; [discriminate|]. intros [H|H].
    + apply expand_err in H. congruence.
    + exfalso. apply (H c0). apply (expand_ok cfg _ E c0). left. reflexivity.
  - split; [|reflexivity]. intros _. left. apply expand_err. exact E.
Qed.

(* parseConfig is total: error or a set, never both (res has two constructors) *)
Theorem parse_ok_when_proof : forall cfg,
  ~ contradictory cfg -> (exists c, spec_member cfg c) -> exists cs, parse_config cfg = Ok cs.
Proof.
  intros cfg NC (c & Hc). destruct (parse_config cfg) as [cs|] eqn:E; [exists cs; reflexivity|].
  apply parse_err_iff_proof in E. destruct E as [E|E]; [contradiction|]. exfalso. exact (E c Hc).
Qed.

(* the empty Features message resolves to the documented defaults *)
Theorem defaults_doc_proof :
  resolve_features (mkFeatures [] [] [] [] [] None None None None None None None) =
  Ok (mkResolved [H1; H2] [CONNECT; GRPC; GRPCWEB] [PROTO; JSON] [IDENTITY; GZIP]
                 [UNARY; CLIENT_STREAM; SERVER_STREAM; HALF; FULL] true true false true false true true).
Proof. reflexivity. Qed.

(* ---------- the compared observable (sorted, de-duplicated keys) determines the set ---------- *)
Lemma in_uniq_sorted x l : In x (uniq_sorted l) <-> In x l.
Proof.
  induction l as [|a [|b t] IH]; [tauto|tauto|].
  change (uniq_sorted (a :: b :: t)) with (if a =? b then uniq_sorted (b :: t) else a :: uniq_sorted (b :: t)).
  destruct (N.eqb_spec a b) as [->|_].
  - rewrite IH. simpl. tauto.
  - simpl In at 1. rewrite IH. simpl. tauto.
Qed.

Lemma in_case_keys k cs : In k (case_keys cs) <-> exists c, In c cs /\ case_key c = k.
Proof.
  unfold case_keys. rewrite in_uniq_sorted. split.
  - intros H. apply (Permutation_in k (Permutation_sym (NSort.Permuted_sort (map case_key cs)))) in H.
    apply in_map_iff in H. destruct H as (c & E & Hc). exists c. split; assumption.
  - intros (c & Hc & E). apply (Permutation_in k (NSort.Permuted_sort (map case_key cs))).
    apply in_map_iff. exists c. split; assumption.
Qed.

Lemma split16 x u y v : u < 16 -> v < 16 -> x * 16 + u = y * 16 + v -> x = y /\ u = v.
Proof. lia. Qed.
Lemma split2 x (a : bool) y (b : bool) : x * 2 + b2n a = y * 2 + b2n b -> x = y /\ a = b.
Proof. destruct a, b; simpl; intros H; split; try reflexivity; lia. Qed.

(* enum numbers below 16 (config.proto declares 0..6 at most) *)
Definition small_case (c : case) : Prop :=
  c_version c < 16 /\ c_protocol c < 16 /\ c_codec c < 16 /\ c_compression c < 16 /\ c_stream c < 16.

Lemma case_key_inj a b : small_case a -> small_case b -> case_key a = case_key b -> a = b.
Proof.
  destruct a as [v p cd z s tls cert g l cvm], b as [v' p' cd' z' s' tls' cert' g' l' cvm'].
  unfold small_case, case_key.
  cbn [c_version c_protocol c_codec c_compression c_stream c_tls c_certs c_get c_limit c_cvm].
  intros (A1 & A2 & A3 & A4 & A5) (B1 & B2 & B3 & B4 & B5) H.
  apply split2 in H. destruct H as [H ->].
  apply split2 in H. destruct H as [H ->].
  apply split2 in H. destruct H as [H ->].
  apply split2 in H. destruct H as [H ->].
  apply split16 in H; [|assumption|assumption]. destruct H as [H ->].
  apply split16 in H; [|assumption|assumption]. destruct H as [H ->].
  apply split16 in H; [|assumption|assumption]. destruct H as [H ->].
  apply split16 in H; [|assumption|assumption]. destruct H as [H ->].
  apply split16 in H; [|assumption|assumption]. destruct H as [-> ->].
  reflexivity.
Qed.

Theorem observable_faithful_proof : forall cs cs',
  Forall small_case cs -> Forall small_case cs' ->
  case_keys cs = case_keys cs' -> forall c, In c cs <-> In c cs'.
Proof.
  assert (half : forall cs cs', Forall small_case cs -> Forall small_case cs' ->
                 case_keys cs = case_keys cs' -> forall c, In c cs -> In c cs').
  { intros cs cs' S S' E c Hc.
    assert (K : In (case_key c) (case_keys cs)) by (apply in_case_keys; exists c; split; [exact Hc|reflexivity]).
    rewrite E in K. apply in_case_keys in K. destruct K as (c' & Hc' & E').
    rewrite Forall_forall in S, S'.
    rewrite <- (case_key_inj c' c (S' c' Hc') (S c Hc) E'). exact Hc'. }
  intros cs cs' S S' E c. split; [apply half|apply half]; auto.
Qed.

(* ---------- fifth wave: the helper `only` on lists that repeat a value; entries that differ only in
   omitted / explicit false of an optional flag ---------- *)

(* `only` is "non-empty and every element is x", however often x is repeated (not "has length one") *)
Theorem only_exact_proof : forall l x, only l x = true <-> l <> [] /\ forall v, In v l -> v = x.
Proof. exact only_spec. Qed.

Lemma only_repeat n x : only (repeat x (S n)) x = true.
Proof.
  apply only_spec. split; [discriminate|]. intros v Hv. apply repeat_spec in Hv. exact Hv.
Qed.

(* an include / exclude entry that omits the version and asks for full-duplex (or undeclared half-duplex)
   is rejected whenever every declared version is HTTP/1.1 - whatever the length of the versions list *)
Theorem duplex_entry_over_http1_rejected_proof : forall cfg e,
  In e (cfg_includes cfg ++ cfg_excludes cfg) ->
  e_version e = 0 ->
  all_http1 (r_versions (defaulted (cfg_features cfg))) ->
  e_stream e = FULL \/ (e_stream e = HALF /\ r_half1 (defaulted (cfg_features cfg)) = false) ->
  parse_config cfg = Err.
Proof.
  intros cfg e Hin Hv Hall Hs. apply parse_err_iff_proof. left. right. exists e. split; [exact Hin|].
  unfold entry_contradictory, entry_versions. rewrite Hv. simpl.
  destruct Hs as [Hs|[Hs Hh]].
  - right; right; right; right; left. split; assumption.
  - right; right; right; left. split; [assumption|split; assumption].
Qed.

(* an exclude entry with an explicit use_tls: false removes no TLS case (an omitted flag matches both,
   an explicit false only the plaintext cases): each entry is resolved from its own fields *)
Theorem exclude_explicit_false_keeps_tls_proof : forall cfg cs c,
  parse_config cfg = Ok cs ->
  (forall e, In e (cfg_excludes cfg) -> e_tls e = Some false) ->
  c_tls c = true ->
  (In c cs <-> in_features (defaulted (cfg_features cfg)) c \/
               exists e, In e (cfg_includes cfg) /\ matches (defaulted (cfg_features cfg)) e c).
Proof.
  intros cfg cs c H Hex Ht. rewrite (parse_ok_iff_proof cfg cs H c). split; [intros [HH _]; exact HH|].
  intros HH. split; [exact HH|]. intros (e & Hin & Hm).
  destruct Hm as (_ & _ & _ & _ & _ & Hf & _). rewrite (Hex e Hin) in Hf. simpl in Hf. congruence.
Qed.

(* the same for the other two optional flags of an entry *)
Theorem exclude_explicit_false_keeps_flagged_proof : forall cfg cs c,
  parse_config cfg = Ok cs ->
  (forall e, In e (cfg_excludes cfg) ->
     (e_tls e = Some false /\ c_tls c = true) \/ (C06_Model.e_certs e = Some false /\ c_certs c = true) \/
     (e_limit e = Some false /\ c_limit c = true)) ->
  (In c cs <-> in_features (defaulted (cfg_features cfg)) c \/
               exists e, In e (cfg_includes cfg) /\ matches (defaulted (cfg_features cfg)) e c).
Proof.
  intros cfg cs c H Hex. rewrite (parse_ok_iff_proof cfg cs H c). split; [intros [HH _]; exact HH|].
  intros HH. split; [exact HH|]. intros (e & Hin & Hm).
  destruct Hm as (_ & _ & _ & _ & _ & Hf & Hc & Hl & _).
  destruct (Hex e Hin) as [[E T]|[[E T]|[E T]]].
  - rewrite E in Hf. simpl in Hf. congruence.
  - rewrite E in Hc. simpl in Hc. congruence.
  - rewrite E in Hl. simpl in Hl. congruence.
Qed.
