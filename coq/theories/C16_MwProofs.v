(* C16_MwProofs.v — specification predicates and proofs about the middleware call sites
   and the consumers (C16_Mw.v). *)
From V Require Import C16_Spec C16_Proofs C16_Conc C16_ConcProofs.
From V Require Export C16_Mw.
From Coq Require Import Lia.
Open Scope N_scope.

(* ====================================================================== *)
(* specification predicates                                               *)
(* ====================================================================== *)
Definition is_cell (a : mwact) : bool := match a with MCell _ => true | _ => false end.
(* an action after which the builder has handed the trace to the collector (if named) *)
Definition mterminal (a : mwact) : bool :=
  match a with MAdd e => finishing e | MBuild => true | MCell _ => false end.
(* the response path's own end: the end of the response body or the round trip's error *)
Definition is_end (a : mwact) : bool :=
  match a with MAdd (ERespEnd _) | MAdd (ERespError _) => true | _ => false end.

(* no write to the Trailer map once an action satisfying p has been seen *)
Fixpoint guard_from (p : mwact -> bool) (seen : bool) (l : list mwact) : bool :=
  match l with
  | [] => true
  | a :: r => negb (seen && is_cell a) && guard_from p (seen || p a) r
  end.

(* the same, declaratively *)
Definition writes_precede (p : mwact -> bool) (l : list mwact) : Prop :=
  forall pre a post tr, l = pre ++ a :: post -> p a = true -> ~ In (MCell tr) post.

(* every mutation of what the trace points to precedes the wrapper's finishing action *)
Definition mutations_precede_finish (l : list mwact) : Prop := writes_precede is_end l.
(* ... and precedes whatever hands the trace over (finishing add of any goroutine, build) *)
Definition cells_before_terminal (l : list mwact) : Prop := writes_precede mterminal l.

(* exchanges in which nothing but the response path ends the operation: no cancellation
   point, no request-body error *)
Definition hop_ok (x : sexch) (o : hop) : bool :=
  match o with
  | HCancel => false
  | HReadReq => x.(sx_req).(bd_err) =? 0
  | _ => true
  end.
Definition server_undisturbed (x : sexch) : Prop := forallb (hop_ok x) x.(sx_ops) = true.
Definition cop_ok (o : cop) : bool := match o with CCancel => false | _ => true end.
Definition client_undisturbed (y : cexch) : Prop :=
  forallb cop_ok y.(c_ops) = true /\
  (y.(c_treq) = 0 \/ (y.(c_treq) = 1 /\ y.(c_req).(bd_err) = 0)).

(* ====================================================================== *)
(* guard_from                                                             *)
(* ====================================================================== *)
Lemma guard_app p : forall a s b,
  guard_from p s (a ++ b) = guard_from p s a && guard_from p (s || existsb p a) b.
Proof.
  induction a as [|x a IH]; intros s b; simpl.
  - rewrite Bool.orb_false_r. reflexivity.
  - rewrite IH, Bool.orb_assoc, Bool.andb_assoc. reflexivity.
Qed.

Lemma guard_mono p : forall l s, guard_from p true l = true -> guard_from p s l = true.
Proof.
  induction l as [|a l IH]; intros s H; [reflexivity|]. simpl in *.
  apply Bool.andb_true_iff in H as [H1 H2].
  destruct s; simpl in *; [rewrite H1, H2; reflexivity|].
  rewrite IH; [reflexivity|]. destruct (p a); exact H2.
Qed.

Lemma guard_nocell p : forall l s, forallb (fun a => negb (is_cell a)) l = true -> guard_from p s l = true.
Proof.
  induction l as [|a l IH]; intros s H; [reflexivity|]. simpl in *.
  apply Bool.andb_true_iff in H as [H1 H2]. rewrite IH by exact H2.
  destruct (is_cell a); [discriminate|]. rewrite Bool.andb_false_r. reflexivity.
Qed.

Lemma guard_spec p l : guard_from p false l = true <-> writes_precede p l.
Proof.
  split.
  - intros G pre a post tr -> PA IN.
    rewrite guard_app in G. apply Bool.andb_true_iff in G as [_ G]. simpl in G.
    apply Bool.andb_true_iff in G as [_ G]. rewrite PA, Bool.orb_true_r in G.
    apply in_split in IN as (l1 & l2 & ->).
    rewrite guard_app in G. apply Bool.andb_true_iff in G as [_ G]. simpl in G. discriminate.
  - intros W. assert (GEN : forall l0 s, (s = true -> forall tr, ~ In (MCell tr) l0) ->
                                          writes_precede p l0 -> guard_from p s l0 = true).
    { clear. induction l0 as [|a l0 IH]; intros s NC W; [reflexivity|]. simpl.
      apply Bool.andb_true_iff. split.
      - destruct s; [|reflexivity]. destruct a; try reflexivity.
        exfalso. apply (NC eq_refl tr). left. reflexivity.
      - apply IH.
        + intros E tr IN. destruct s; simpl in E.
          * apply (NC eq_refl tr). right. exact IN.
          * apply (W [] a l0 tr eq_refl E IN).
        + intros pre b post tr -> PB. apply (W (a :: pre) b post tr eq_refl PB). }
    apply GEN; [discriminate|exact W].
Qed.

(* ====================================================================== *)
(* mwrun                                                                  *)
(* ====================================================================== *)
Lemma mw_builder_fold : forall l s,
  (fold_left mwstep l s).(m_b) = fold_left bstep (bacts_of l) s.(m_b).
Proof.
  induction l as [|a l IH]; intros s; [reflexivity|]. simpl. rewrite IH.
  destruct a; reflexivity.
Qed.

(* the builder sees exactly the add / build calls of the list: every theorem about the
   builder (once_per_op, frozen, indices, no_event_after_finish) holds for every exchange *)
Lemma mw_builder_view_proof : forall nm acts, (mwrun nm acts).(m_b) = brun nm (bacts_of acts).
Proof. intros. unfold mwrun. rewrite mw_builder_fold. reflexivity. Qed.

Lemma bstep_calls_grow b a : exists k, (bstep b a).(b_calls) = b.(b_calls) ++ k.
Proof.
  destruct a as [e|]; simpl; unfold deliver.
  - destruct (is_nil (t_name (b_trace b))) eqn:E; [exists []; rewrite app_nil_r; reflexivity|].
    destruct (finishing e); simpl; [|exists []; rewrite app_nil_r; reflexivity].
    rewrite E. eexists. reflexivity.
  - destruct (is_nil (t_name (b_trace b))); [exists []; rewrite app_nil_r; reflexivity|].
    eexists. reflexivity.
Qed.

Lemma bstep_nonfinishing b e : finishing e = false -> (bstep b (Add e)).(b_calls) = b.(b_calls).
Proof.
  intros F. simpl. destruct (is_nil (t_name (b_trace b))); [reflexivity|]. rewrite F. reflexivity.
Qed.

Local Opaque bstep.

Lemma grow_len old new cell : (exists k, new = old ++ k) ->
  (length old + length (grow old new cell) = length new)%nat.
Proof. intros [k ->]. unfold grow. rewrite repeat_length, app_length. lia. Qed.

(* one snapshot per collector call *)
Lemma snaps_len_fold : forall l s, length s.(m_snaps) = length s.(m_b).(b_calls) ->
  length (fold_left mwstep l s).(m_snaps) = length (fold_left mwstep l s).(m_b).(b_calls).
Proof.
  induction l as [|a l IH]; intros s H; [exact H|]. simpl. apply IH.
  destruct a; simpl; try exact H; rewrite app_length, H; apply grow_len, bstep_calls_grow.
Qed.

Lemma snaps_len nm acts : length (mwrun nm acts).(m_snaps) = length (mwrun nm acts).(m_b).(b_calls).
Proof. apply snaps_len_fold. reflexivity. Qed.

Lemma Forall_repeat {A} (c : A) n : Forall (eq c) (repeat c n).
Proof. induction n; simpl; constructor; auto. Qed.

Lemma snaps_final_fold : forall l s seen,
  guard_from mterminal seen l = true ->
  (seen = false -> s.(m_snaps) = []) ->
  Forall (eq s.(m_cell)) s.(m_snaps) ->
  Forall (eq (fold_left mwstep l s).(m_cell)) (fold_left mwstep l s).(m_snaps).
Proof.
  induction l as [|a l IH]; intros s seen G E F; [exact F|]. simpl in G |- *.
  apply Bool.andb_true_iff in G as [G1 G2].
  apply (IH _ _ G2).
  - intros S. apply Bool.orb_false_iff in S as [-> T]. specialize (E eq_refl).
    destruct a as [e| |tr]; simpl in *; try discriminate; [|exact E].
    rewrite E, bstep_nonfinishing by exact T. unfold grow. rewrite Nat.sub_diag. reflexivity.
  - destruct a as [e| |tr]; simpl in *.
    + apply Forall_app. split; [exact F|apply Forall_repeat].
    + apply Forall_app. split; [exact F|apply Forall_repeat].
    + destruct seen; [discriminate|]. rewrite (E eq_refl). constructor.
Qed.

(* whatever the list of actions: if no write to the Trailer map follows the action that
   hands the trace over, every collector call saw the map as it is at the end *)
Lemma delivered_trace_final_proof : forall nm acts,
  cells_before_terminal acts ->
  forall s, In s (mwrun nm acts).(m_snaps) -> s = (mwrun nm acts).(m_cell).
Proof.
  intros nm acts W s IN. apply guard_spec in W.
  pose proof (snaps_final_fold acts (mkM (new_builder nm) [] []) false W (fun _ => eq_refl) (Forall_nil _)) as F.
  rewrite Forall_forall in F. symmetry. apply F. exact IN.
Qed.

(* ====================================================================== *)
(* the scripts of the two wrappers                                        *)
(* ====================================================================== *)
Section Scripts.
  Variable p : mwact -> bool.
  Hypothesis Pcell : forall tr, p (MCell tr) = false.
  Hypothesis Preqdata : p (MAdd EReqData) = false.
  Hypothesis Prespdata : p (MAdd ERespData) = false.
  Hypothesis Pstart : p (MAdd ERespStart) = false.
  Hypothesis Pend : forall e, p (MAdd (ERespEnd e)) = true.

  Definition clean (l : list mwact) : Prop := forallb (fun a => negb (is_cell a) && negb (p a)) l = true.

  Lemma clean_app l1 l2 : clean l1 -> clean l2 -> clean (l1 ++ l2).
  Proof. unfold clean. intros H1 H2. rewrite forallb_app, H1, H2. reflexivity. Qed.

  Lemma clean_guard l s : clean l -> guard_from p s l = true.
  Proof.
    intros C. apply guard_nocell. unfold clean in C. rewrite forallb_forall in *.
    intros a IN. specialize (C a IN). apply Bool.andb_true_iff in C as [C _]. exact C.
  Qed.

  Lemma clean_exists l : clean l -> existsb p l = false.
  Proof.
    unfold clean. induction l as [|a l IH]; simpl; intros C; [reflexivity|].
    apply Bool.andb_true_iff in C as [C1 C2]. apply Bool.andb_true_iff in C1 as [_ C1].
    rewrite IH by exact C2. destruct (p a); [discriminate|reflexivity].
  Qed.

  Lemma clean_repeat a n : is_cell a = false -> p a = false -> clean (repeat a n).
  Proof. intros H1 H2. unfold clean. induction n; simpl; [reflexivity|]. rewrite H1, H2, IHn. reflexivity. Qed.

  Lemma clean_data req stream n : clean (data_acts req stream n).
  Proof.
    unfold data_acts. destruct stream; [|reflexivity].
    apply clean_repeat; [reflexivity|]. destruct req; assumption.
  Qed.

  Lemma clean_unfinished req n : clean (unfinished req n).
  Proof.
    unfold unfinished, clean. destruct (n =? 0); [reflexivity|]. simpl.
    destruct req; [rewrite Preqdata|rewrite Prespdata]; reflexivity.
  Qed.

  Lemma clean_flat_data req stream l : clean (flat_map (data_acts req stream) l).
  Proof. induction l; simpl; [reflexivity|]. apply clean_app; [apply clean_data|assumption]. Qed.

  Lemma clean_read_all b : p (MAdd (EReqEnd b.(bd_err))) = false -> clean (read_all_req b).
  Proof.
    intros H. unfold read_all_req. apply clean_app; [apply clean_flat_data|].
    apply clean_app; [apply clean_unfinished|]. unfold clean. simpl. rewrite H. reflexivity.
  Qed.

  (* ---- server ---- *)
  Definition good (x : sexch) (o : hop) : bool :=
    match o with
    | HCancel => negb (p (MAdd ECanceled))
    | HReadReq => negb (p (MAdd (EReqEnd x.(sx_req).(bd_err))))
    | _ => true
    end.

  Definition fin_started (w : swr) : Prop := w.(w_finished) = true -> w.(w_started) = true.

  Lemma write_header_ok w w' a : fin_started w -> write_header w = (w', a) ->
    guard_from p w.(w_finished) a = true /\ existsb p a = false /\ w'.(w_finished) = w.(w_finished) /\
    w'.(w_started) = true.
  Proof.
    unfold write_header, fin_started. destruct w as [st fi ca rd de pl pr pe ce]; simpl.
    destruct st; intros FS E; inversion E; subst; simpl.
    - auto.
    - rewrite Pcell, Pstart. destruct fi; [discriminate (FS eq_refl)|]. auto.
  Qed.

  Lemma try_finish_ok w e w' a : fin_started w -> try_finish w e = (w', a) ->
    guard_from p w.(w_finished) a = true /\ w'.(w_finished) = w.(w_finished) || existsb p a /\
    w'.(w_finished) = true /\ w'.(w_started) = true.
  Proof.
    unfold try_finish. intros FS. destruct (w_finished w) eqn:F.
    - intros E; inversion E; subst. simpl. rewrite F. auto.
    - destruct (write_header w) as [w1 a1] eqn:WH.
      destruct (write_header_ok _ _ _ FS WH) as (G1 & X1 & F1 & S1). rewrite F in G1.
      intros E; inversion E; subst; clear E. simpl.
      rewrite !guard_app, !existsb_app, G1, X1. simpl.
      rewrite (clean_guard _ _ (clean_unfinished false _)), (clean_exists _ (clean_unfinished false _)).
      simpl. rewrite Pcell, Pend. simpl. rewrite ?Bool.orb_true_r. auto.
  Qed.

  Lemma hop_step_ok x w o w' a : fin_started w -> good x o = true -> hop_step x w o = (w', a) ->
    guard_from p w.(w_finished) a = true /\ w'.(w_finished) = w.(w_finished) || existsb p a /\ fin_started w'.
  Proof.
    intros FS GD. destruct o; simpl in *.
    - intros E; inversion E; subst; simpl. rewrite Bool.orb_false_r. auto.
    - destruct pref; intros E; inversion E; subst; simpl; rewrite Bool.orb_false_r; auto.
    - intros E. destruct (write_header_ok _ _ _ FS E) as (G1 & X1 & F1 & S1).
      rewrite X1, Bool.orb_false_r. unfold fin_started. auto.
    - destruct (write_header w) as [w1 a1] eqn:WH.
      destruct (write_header_ok _ _ _ FS WH) as (G1 & X1 & F1 & S1).
      assert (FS1 : fin_started w1) by (unfold fin_started; auto).
      destruct fail.
      + destruct (try_finish w1 err_write) as [w2 a2] eqn:TF.
        destruct (try_finish_ok _ _ _ _ FS1 TF) as (G2 & F2 & F2' & S2).
        intros E; inversion E; subst; clear E. rewrite F1 in G2, F2.
        rewrite guard_app, existsb_app, G1, X1, Bool.orb_false_r, G2, F2. simpl.
        unfold fin_started. auto.
      + intros E; inversion E; subst; clear E. simpl.
        rewrite guard_app, existsb_app, G1, X1, (clean_guard _ _ (clean_data false _ _)),
                (clean_exists _ (clean_data false _ _)), F1, Bool.orb_false_r.
        unfold fin_started. simpl. auto.
    - destruct (w_reqdone w).
      + intros E; inversion E; subst; simpl. rewrite Bool.orb_false_r. auto.
      + apply Bool.negb_true_iff in GD.
        intros E; inversion E; subst; clear E. simpl.
        rewrite (clean_guard _ _ (clean_read_all _ GD)), (clean_exists _ (clean_read_all _ GD)), Bool.orb_false_r.
        auto.
    - destruct (w_canceled w).
      + intros E; inversion E; subst; simpl. rewrite Bool.orb_false_r. auto.
      + apply Bool.negb_true_iff in GD.
        intros E; inversion E; subst; clear E. simpl. rewrite GD, !Bool.orb_false_r, Bool.andb_false_r. auto.
    - intros E; inversion E; subst; simpl. rewrite Bool.orb_false_r. auto.
  Qed.

  Definition SInv (w : swr) (acts : list mwact) : Prop :=
    guard_from p false acts = true /\ existsb p acts = w.(w_finished) /\ fin_started w.

  Lemma SInv_extend w acts w' a :
    SInv w acts -> guard_from p w.(w_finished) a = true -> w'.(w_finished) = w.(w_finished) || existsb p a ->
    fin_started w' -> SInv w' (acts ++ a).
  Proof.
    intros (G & X & FS) G' F' FS'. unfold SInv.
    rewrite guard_app, existsb_app, G, X. simpl. rewrite G', F'. auto.
  Qed.

  Lemma hrun_ok x : forall ops w acc w' acts pk,
    forallb (good x) ops = true -> SInv w acc -> hrun x w ops acc = (w', acts, pk) -> SInv w' acts.
  Proof.
    induction ops as [|o ops IH]; intros w acc w' acts pk GD I E; simpl in *.
    - inversion E; subst. exact I.
    - apply Bool.andb_true_iff in GD as [G1 G2].
      destruct (is_panic o); [inversion E; subst; exact I|].
      destruct (hop_step x w o) as [w1 a1] eqn:HS.
      destruct I as (G & X & FS).
      destruct (hop_step_ok _ _ _ _ _ FS G1 HS) as (Ga & Fa & FSa).
      eapply IH; [exact G2| |exact E]. eapply SInv_extend; eauto. split; auto.
  Qed.

  Lemma server_script_ok x : forallb (good x) x.(sx_ops) = true -> guard_from p false (server_script x) = true.
  Proof.
    intros GD. unfold server_script.
    destruct (hrun x sw0 (sx_ops x) []) as [[w acts] pk] eqn:HR.
    assert (I0 : SInv sw0 []) by (split; [reflexivity|split; [reflexivity|discriminate]]).
    destruct (hrun_ok _ _ _ _ _ _ _ GD I0 HR) as (G & X & FS).
    destruct (try_finish w _) as [w1 fin] eqn:TF.
    destruct (try_finish_ok _ _ _ _ FS TF) as (G1 & F1 & F1' & S1).
    rewrite app_assoc, guard_app, guard_app, G, X. simpl. rewrite G1. simpl.
    apply guard_nocell. destruct (w_canceled w1); reflexivity.
  Qed.
  (* ---- client ---- *)
  Definition goodc (o : cop) : bool :=
    match o with CCancel => negb (p (MAdd ECanceled)) | _ => true end.

  Definition CInv2 (r : crd) : Prop := r.(r_closed) = true -> r.(r_canceled) || r.(r_uclosed) = true.

  Lemma c_try_finish_ok r e r' a : CInv2 r -> c_try_finish r e = (r', a) ->
    guard_from p r.(r_closed) a = true /\ r'.(r_closed) = true /\ CInv2 r'.
  Proof.
    unfold c_try_finish, CInv2. destruct r as [lf cl uc ca ts pe]; simpl.
    destruct cl; intros I E; inversion E; subst; simpl; auto.
    split; [|auto]. apply guard_nocell. rewrite !forallb_app. simpl.
    assert (C := clean_unfinished false pe). unfold clean in C. rewrite forallb_forall in C.
    rewrite Bool.andb_true_iff. split.
    - rewrite forallb_forall. intros x IN. specialize (C x IN). apply Bool.andb_true_iff in C as [C _]. exact C.
    - destruct ca; reflexivity.
  Qed.

  Lemma cop_step_ok y r o r' a : CInv2 r -> goodc o = true -> cop_step y r o = (r', a) ->
    guard_from p r.(r_closed) a = true /\ (existsb p a = true -> r'.(r_closed) = true) /\
    (r.(r_closed) = true -> r'.(r_closed) = true) /\ CInv2 r'.
  Proof.
    intros I GD. destruct o; simpl in *.
    - (* CRead *)
      destruct (r_canceled r) eqn:CA.
      { intros E. destruct (c_try_finish_ok _ _ _ _ I E) as (G & C & I'). auto. }
      destruct (r_uclosed r) eqn:UC.
      { intros E. destruct (c_try_finish_ok _ _ _ _ I E) as (G & C & I'). auto. }
      assert (CL : r_closed r = false).
      { destruct (r_closed r) eqn:CL; [|reflexivity]. unfold CInv2 in I. rewrite CL, CA, UC in I. discriminate (I eq_refl). }
      destruct (r_left r) as [|n rest] eqn:LF.
      + destruct (bd_err (c_resp y) =? 0).
        * set (r1 := mkCR [] (r_closed r) (r_uclosed r) (r_canceled r) true (r_pend r)).
          assert (I1 : CInv2 r1) by (unfold CInv2, r1; simpl; rewrite CL; discriminate).
          destruct (c_try_finish r1 0) as [r2 f] eqn:TF.
          destruct (c_try_finish_ok _ _ _ _ I1 TF) as (G & C & I').
          unfold r1 in G; simpl in G. rewrite CL in G |- *.
          intros E; inversion E; subst; clear E.
          rewrite guard_app.
          assert (NC : forall s0, guard_from p s0 (unfinished false (r_pend r) ++ [MAdd (ERespEnd 0); MAdd ECanceled]) = true).
          { intros s0. rewrite guard_app, (clean_guard _ _ (clean_unfinished false _)). simpl. rewrite !Bool.andb_false_r. reflexivity. }
          destruct (r_tset r); simpl; rewrite ?Pcell; simpl; rewrite NC; unfold CInv2; simpl; auto.
        * intros E. destruct (c_try_finish_ok _ _ _ _ I E) as (G & C & I'). auto.
      + intros E; inversion E; subst; clear E. simpl.
        rewrite (clean_guard _ _ (clean_data false _ _)), (clean_exists _ (clean_data false _ _)).
        unfold CInv2. simpl. rewrite CL. repeat split; auto; discriminate.
    - (* CClose *)
      set (r1 := mkCR (r_left r) (r_closed r) true (r_canceled r) (r_tset r) (r_pend r)).
      assert (I1 : CInv2 r1) by (unfold CInv2, r1; simpl; intros _; apply Bool.orb_true_r).
      intros E. destruct (c_try_finish_ok _ _ _ _ I1 E) as (G & C & I'). auto.
    - (* CCancel *)
      destruct (r_canceled r) eqn:CA; intros E; inversion E; subst; clear E; simpl.
      + repeat split; auto; discriminate.
      + apply Bool.negb_true_iff in GD. rewrite GD, Bool.andb_false_r. unfold CInv2. simpl.
        repeat split; auto; discriminate.
  Qed.

  Definition CInv (r : crd) (acts : list mwact) : Prop :=
    guard_from p false acts = true /\ (existsb p acts = true -> r.(r_closed) = true) /\ CInv2 r.

  Lemma crun_ok y : forall ops r acc,
    forallb goodc ops = true -> CInv r acc -> guard_from p false (crun y r ops acc) = true.
  Proof.
    induction ops as [|o ops IH]; intros r acc GD (G & X & I); simpl in *; [exact G|].
    apply Bool.andb_true_iff in GD as [G1 G2].
    destruct (cop_step y r o) as [r' a] eqn:CS.
    destruct (cop_step_ok _ _ _ _ _ I G1 CS) as (Ga & Xa & Ka & Ia).
    apply IH; [exact G2|]. split; [|split; [|exact Ia]].
    - rewrite guard_app, G. simpl.
      destruct (existsb p acc) eqn:XA.
      + rewrite (X eq_refl) in Ga. exact Ga.
      + destruct (r_closed r); [apply guard_mono|]; exact Ga.
    - rewrite existsb_app. intros H. apply Bool.orb_true_iff in H as [H|H]; auto.
  Qed.

  Lemma client_script_ok y : forallb goodc y.(c_ops) = true -> clean (treq_acts y) ->
    guard_from p false (client_script y) = true.
  Proof.
    intros GD CT. unfold client_script.
    rewrite guard_app, (clean_guard _ _ CT), (clean_exists _ CT). simpl.
    destruct (c_tfail y =? 0); [|apply guard_nocell; reflexivity].
    apply crun_ok; [exact GD|]. split; [|split].
    - simpl. rewrite Pcell. reflexivity.
    - simpl. rewrite Pcell, Pstart. discriminate.
    - unfold CInv2. simpl. discriminate.
  Qed.
End Scripts.

(* ---- instances ---- *)
Lemma good_is_end x ops : forallb (good is_end x) ops = true.
Proof. induction ops as [|o ops IH]; simpl; [reflexivity|]. rewrite IH. destruct o; reflexivity. Qed.

Lemma goodc_is_end ops : forallb (goodc is_end) ops = true.
Proof. induction ops as [|o ops IH]; simpl; [reflexivity|]. rewrite IH. destruct o; reflexivity. Qed.

Lemma treq_clean_is_end y : clean is_end (treq_acts y).
Proof.
  unfold treq_acts. destruct (c_treq y =? 1).
  - apply clean_read_all; reflexivity.
  - destruct (c_treq y =? 2); reflexivity.
Qed.

(* in what either wrapper does for an exchange — ANY exchange: cancellation points,
   failing writes, panics, early closes included — every write to the Trailer map of the
   trace's response precedes the wrapper's own finishing add (end of the response body /
   round-trip error) *)
Lemma mutations_before_finish_proof :
  (forall x, mutations_precede_finish (server_script x)) /\
  (forall y, mutations_precede_finish (client_script y)).
Proof.
  split; intros z; apply guard_spec.
  - apply server_script_ok; try reflexivity. apply good_is_end.
  - apply client_script_ok; try reflexivity; [apply goodc_is_end|apply treq_clean_is_end].
Qed.

Lemma good_mterminal x ops : forallb (hop_ok x) ops = true -> forallb (good mterminal x) ops = true.
Proof.
  induction ops as [|o ops IH]; simpl; [reflexivity|]. intros H.
  apply Bool.andb_true_iff in H as [H1 H2]. rewrite IH by exact H2.
  destruct o; simpl in *; try reflexivity; try discriminate.
  rewrite H1. reflexivity.
Qed.

Lemma goodc_mterminal ops : forallb cop_ok ops = true -> forallb (goodc mterminal) ops = true.
Proof.
  induction ops as [|o ops IH]; simpl; [reflexivity|]. intros H.
  apply Bool.andb_true_iff in H as [H1 H2]. rewrite IH by exact H2.
  destruct o; simpl in *; try reflexivity; discriminate.
Qed.

(* when nothing but the response path ends the operation, no write follows the hand-over *)
Lemma undisturbed_proof :
  (forall x, server_undisturbed x -> cells_before_terminal (server_script x)) /\
  (forall y, client_undisturbed y -> cells_before_terminal (client_script y)).
Proof.
  split.
  - intros x U. apply guard_spec. apply server_script_ok; try reflexivity. apply good_mterminal, U.
  - intros y [U1 U2]. apply guard_spec. apply client_script_ok; try reflexivity.
    + apply goodc_mterminal, U1.
    + unfold treq_acts. destruct U2 as [->|[-> E]]; simpl; [reflexivity|].
      apply clean_read_all; try reflexivity. rewrite E. reflexivity.
Qed.

(* ... hence the collector receives the trace with the trailers in place, and the trace it
   received is the trace as it is when the exchange is over *)
Lemma delivered_with_trailers_proof :
  (forall x nm s, server_undisturbed x ->
     In s (mwrun nm (server_script x)).(m_snaps) -> s = (mwrun nm (server_script x)).(m_cell)) /\
  (forall y nm s, client_undisturbed y ->
     In s (mwrun nm (client_script y)).(m_snaps) -> s = (mwrun nm (client_script y)).(m_cell)).
Proof.
  destruct undisturbed_proof as [S C].
  split; intros z nm s U; apply delivered_trace_final_proof; auto.
Qed.

(* one exchange = at most one collector call (once_per_op through the builder view) *)
Lemma mw_once_proof : forall nm acts,
  (length (mwrun nm acts).(m_b).(b_calls) <= 1)%nat /\
  length (mwrun nm acts).(m_snaps) = length (mwrun nm acts).(m_b).(b_calls).
Proof.
  intros nm acts. split; [|apply snaps_len].
  rewrite mw_builder_view_proof. apply once_per_op_proof.
Qed.

(* ====================================================================== *)
(* results.go fetchTrace                                                  *)
(* ====================================================================== *)
Lemma frunf_snoc h a : frunf (h ++ [a]) = fstep (frunf h) a.
Proof. unfold frunf. rewrite fold_left_app. reflexivity. Qed.

Definition pending (s : wstate) : bool :=
  match s with Waiting _ | NotStarted => true | _ => false end.

Lemma settle_one_keeps s wn :
  (settle_one s wn).(f_tr).(waiters) = s.(f_tr).(waiters) /\
  (settle_one s wn).(f_wants) = s.(f_wants) /\ (settle_one s wn).(f_next) = s.(f_next).
Proof. destruct wn as [w n]. unfold settle_one. destruct (waiters (f_tr s) w); simpl; auto. Qed.

Lemma settle_fold_keeps l : forall s,
  (fold_left settle_one l s).(f_tr).(waiters) = s.(f_tr).(waiters) /\
  (fold_left settle_one l s).(f_wants) = s.(f_wants).
Proof.
  induction l as [|wn l IH]; intros s; simpl; [auto|].
  destruct (IH (settle_one s wn)) as [A B]. destruct (settle_one_keeps s wn) as (C & D & _).
  rewrite A, B, C, D. auto.
Qed.

(* who is still a live fetch goroutine after settling: exactly those still waiting *)
Lemma settle_fold_live l : forall s wn,
  In wn (fold_left settle_one l s).(f_live) ->
  In wn s.(f_live) \/ (In wn l /\ pending (s.(f_tr).(waiters) (fst wn)) = true).
Proof.
  induction l as [|x l IH]; intros s wn IN; simpl in *; [auto|].
  apply IH in IN. destruct (settle_one_keeps s x) as (C & _ & _). rewrite C in IN.
  destruct IN as [IN|[IN P]]; [|auto].
  destruct x as [w n]. unfold settle_one in IN.
  destruct (waiters (f_tr s) w) eqn:W; simpl in IN; auto;
    apply in_app_iff in IN as [IN|[<-|[]]]; auto; right; simpl; rewrite W; auto.
Qed.

Lemma settled_fstep s a wn : In wn (fstep s a).(f_live) ->
  pending ((fstep s a).(f_tr).(waiters) (fst wn)) = true.
Proof.
  unfold fstep, settle. intros IN.
  destruct (settle_fold_keeps (f_live (fapply s a))
              (mkF (f_tr (fapply s a)) (f_stored (fapply s a)) (f_wants (fapply s a)) [] (f_next (fapply s a)))) as [A _].
  rewrite A. simpl. apply settle_fold_live in IN. simpl in IN. destruct IN as [[]|[_ P]]. exact P.
Qed.

Lemma settled_frunf h wn : In wn (frunf h).(f_live) -> pending ((frunf h).(f_tr).(waiters) (fst wn)) = true.
Proof.
  destruct h as [|a h] using rev_ind; [intros []|]. rewrite frunf_snoc. apply settled_fstep.
Qed.

(* a trace enters r.traces only as the result of a fetch goroutine's successful Await, and
   only while the outcome is a plain failure *)
Lemma settle_fold_stored l : forall s n t,
  (fold_left settle_one l s).(f_stored) n = Some t ->
  s.(f_stored) n = Some t \/
  exists w, In (w, n) l /\ s.(f_tr).(waiters) w = Got t /\ s.(f_wants) n = true.
Proof.
  induction l as [|x l IH]; intros s n t H; simpl in *; [auto|].
  apply IH in H. destruct (settle_one_keeps s x) as (C & D & _). rewrite C, D in H.
  destruct H as [H|(w & IN & G & W)]; [|right; exists w; auto].
  destruct x as [w m]. unfold settle_one in H.
  destruct (waiters (f_tr s) w) eqn:WS; simpl in H; auto.
  destruct (f_wants s m) eqn:WM; [|auto].
  unfold upd in H. destruct (bytes_eqb_spec n m) as [->|NE]; [|auto].
  inversion H; subst. right. exists w. auto.
Qed.

Lemma fetch_stores_only_awaited_proof : forall h a n t,
  (frunf (h ++ [a])).(f_stored) n = Some t ->
  (frunf h).(f_stored) n = Some t \/
  exists w, In (w, n) (fapply (frunf h) a).(f_live) /\
            (fapply (frunf h) a).(f_tr).(waiters) w = Got t /\ (fapply (frunf h) a).(f_wants) n = true.
Proof.
  intros h a n t H. rewrite frunf_snoc in H. unfold fstep, settle in H.
  apply settle_fold_stored in H. simpl in H.
  destruct H as [H|H]; [left|right; exact H].
  destruct a; exact H.
Qed.

Lemma settle_fold_nogot l : forall s,
  (forall wn t, In wn l -> s.(f_tr).(waiters) (fst wn) <> Got t) ->
  (fold_left settle_one l s).(f_stored) = s.(f_stored).
Proof.
  induction l as [|x l IH]; intros s NG; simpl; [reflexivity|].
  rewrite IH.
  - destruct x as [w m]. unfold settle_one. destruct (waiters (f_tr s) w) eqn:W; simpl; auto.
    exfalso. apply (NG (w, m) t); [left; reflexivity|exact W].
  - intros wn t IN. destruct (settle_one_keeps s x) as (C & _ & _). rewrite C. apply NG. right. exact IN.
Qed.

(* a fetch for a name without a slot (never initialised, or cleared — e.g. by the fetch
   goroutine that got the trace) fails at once and changes nothing that was stored, for
   any name; in particular it cannot replace the trace an earlier fetch obtained *)
Lemma fetch_failed_keeps_proof : forall h n wt,
  (frunf h).(f_tr).(slots) n = None ->
  (frunf (h ++ [FOutcome n wt])).(f_stored) = (frunf h).(f_stored).
Proof.
  intros h n wt NS. rewrite frunf_snoc. unfold fstep, settle.
  rewrite settle_fold_nogot; [reflexivity|]. simpl.
  intros wn t IN. apply in_app_iff in IN.
  destruct (is_waiting (waiters (f_tr (frunf h)) (f_next (frunf h)))) eqn:IW.
  - (* cannot happen (the id is fresh), and would change nothing *)
    destruct IN as [IN|[<-|[]]].
    + apply settled_frunf in IN. intros E. rewrite E in IN. discriminate.
    + simpl. intros E. rewrite E in IW. discriminate.
  - simpl. unfold updw. rewrite NS.
    destruct (fst wn =? f_next (frunf h)) eqn:EQ; [discriminate|].
    destruct IN as [IN|[<-|[]]].
    + apply settled_frunf in IN. intros E. rewrite E in IN. discriminate.
    + simpl in EQ. rewrite N.eqb_refl in EQ. discriminate.
Qed.

(* ====================================================================== *)
(* wire_details.go                                                        *)
(* ====================================================================== *)
Definition sets_ctx (c : N) (a : wact) : bool :=
  match a with WComplete c' _ _ _ | WSet c' _ _ => c' =? c | _ => false end.
Definition renews_ctx (c : N) (a : wact) : bool :=
  match a with WNew c' _ => c' =? c | _ => false end.

(* a second hand-over to a wrapper that already has its trace crashes (close of a closed
   channel) BEFORE anything is forwarded; this is why "exactly once" matters downstream *)
Lemma wire_second_crashes_proof : forall fwd s c x a,
  s.(wr) c = Some (Some x) -> sets_ctx c a = true -> wstep fwd s a = None.
Proof.
  intros fwd s c x a H S. destruct a; simpl in S; try discriminate;
    apply N.eqb_eq in S; subst; simpl; unfold set_wire; rewrite H; reflexivity.
Qed.

(* the trace a wrapper received stays what it is, whatever else happens (other contexts,
   the Tracer, examinations), until the context is replaced *)
Lemma wire_first_kept_proof : forall fwd h s s' c x,
  wrun_from fwd s h = Some s' -> s.(wr) c = Some (Some x) ->
  existsb (renews_ctx c) h = false -> s'.(wr) c = Some (Some x).
Proof.
  induction h as [|a h IH]; intros s s' c x R H NR; simpl in *.
  - inversion R; subst. exact H.
  - apply Bool.orb_false_iff in NR as [N1 N2].
    destruct (wstep fwd s a) as [s1|] eqn:ST; [|discriminate].
    apply (IH s1 s' c x R); [|exact N2].
    destruct a; simpl in *.
    + inversion ST; subst; simpl. unfold updw. rewrite N.eqb_sym, N1. exact H.
    + unfold set_wire in ST. destruct (wr s c0) as [[y|]|] eqn:W; try discriminate.
      * inversion ST; subst; simpl. destruct fwd; simpl; unfold updw;
          (destruct (c =? c0) eqn:EQ; [apply N.eqb_eq in EQ; subst; rewrite H in W; discriminate|exact H]).
      * inversion ST; subst. destruct fwd; exact H.
    + unfold set_wire in ST. destruct (wr s c0) as [[y|]|] eqn:W; try discriminate.
      * inversion ST; subst; simpl. unfold updw.
        destruct (c =? c0) eqn:EQ; [apply N.eqb_eq in EQ; subst; rewrite H in W; discriminate|exact H].
      * inversion ST; subst. exact H.
    + inversion ST; subst. exact H.
    + inversion ST; subst. exact H.
    + inversion ST; subst. exact H.
Qed.

(* what the wrapper of a fresh call context holds after ONE traced operation, whatever the
   operation did: no crash, and the trace iff the operation delivered one.  (once_per_op
   is what makes the hand-over safe.) *)
Lemma wire_builder_safe_proof : forall fwd s c nm l t status,
  s.(wr) c = Some None ->
  exists s', deliver_wire fwd s c (brun nm l).(b_calls) t status = Some s' /\
             s'.(wr) c = match (brun nm l).(b_calls) with [] => Some None | _ => Some (Some (t, status)) end.
Proof.
  intros fwd s c nm l t status H. destruct (once_per_op_proof nm l) as [LE _].
  unfold deliver_wire. destruct (b_calls (brun nm l)) as [|b [|b' r]]; simpl in *; [eauto| |lia].
  unfold set_wire. rewrite H. eexists. split; [reflexivity|].
  destruct fwd; simpl; unfold updw; rewrite N.eqb_refl; reflexivity.
Qed.

(* the Tracer behind the wrappers sees exactly the forwarded completions *)
Definition wire_tracer_acts (fwd : bool) (h : list wact) : list action :=
  flat_map (fun a => match a with
                     | WComplete _ n t _ => if fwd then [Complete n t] else []
                     | WInit n => [Init n] | WClear n => [Clear n]
                     | _ => [] end) h.

Lemma wire_forwards_proof : forall fwd h s s',
  wrun_from fwd s h = Some s' -> s'.(w_tr) = fold_left step (wire_tracer_acts fwd h) s.(w_tr).
Proof.
  induction h as [|a h IH]; intros s s' R; simpl in *.
  - inversion R; subst. reflexivity.
  - destruct (wstep fwd s a) as [s1|] eqn:ST; [|discriminate].
    rewrite fold_left_app, (IH _ _ R). f_equal.
    destruct a; simpl in *; try (inversion ST; subst; reflexivity).
    + unfold set_wire in ST. destruct (wr s c) as [[y|]|]; try discriminate;
        inversion ST; subst; destruct fwd; reflexivity.
    + unfold set_wire in ST. destruct (wr s c) as [[y|]|]; try discriminate; inversion ST; subst; reflexivity.
Qed.

(* ====================================================================== *)
(* fetchTrace: the first stored trace is kept                             *)
(* ====================================================================== *)
Definition fresh (s : fstate) : Prop :=
  forall w, s.(f_next) <= w -> s.(f_tr).(waiters) w = NotStarted.
(* a waiting fetch goroutine waits on a slot id that only its own test name can show *)
Definition owns (s : fstate) : Prop :=
  forall w m, In (w, m) s.(f_live) -> pending (s.(f_tr).(waiters) w) = true ->
    exists i, s.(f_tr).(waiters) w = Waiting i /\
              forall m' sl, s.(f_tr).(slots) m' = Some sl -> sl.(s_id) = i -> m' = m.
Record finv (s : fstate) : Prop := {
  fi_inv : inv s.(f_tr);
  fi_fresh : fresh s;
  fi_lt : forall w m, In (w, m) s.(f_live) -> w < s.(f_next);
  fi_owns : owns s }.

Lemma settle_one_slots s wn m sl :
  (settle_one s wn).(f_tr).(slots) m = Some sl -> s.(f_tr).(slots) m = Some sl.
Proof.
  destruct wn as [w n]. unfold settle_one.
  destruct (waiters (f_tr s) w); simpl; auto; intros H; apply upd_some in H as [[_ E]|[_ E]]; auto; discriminate.
Qed.

Lemma settle_fold_slots l : forall s m sl,
  (fold_left settle_one l s).(f_tr).(slots) m = Some sl -> s.(f_tr).(slots) m = Some sl.
Proof.
  induction l as [|x l IH]; intros s m sl H; simpl in *; [exact H|].
  apply IH in H. apply settle_one_slots in H. exact H.
Qed.

Lemma settle_fold_inv l : forall s, inv s.(f_tr) -> inv (fold_left settle_one l s).(f_tr).
Proof.
  induction l as [|x l IH]; intros s I; simpl; [exact I|]. apply IH.
  destruct x as [w n]. unfold settle_one. destruct (waiters (f_tr s) w); simpl; auto;
    apply (inv_step _ (Clear n)); exact I.
Qed.

Lemma settle_fold_next l : forall s, (fold_left settle_one l s).(f_next) = s.(f_next).
Proof.
  induction l as [|x l IH]; intros s; simpl; [reflexivity|]. rewrite IH.
  destruct (settle_one_keeps s x) as (_ & _ & C). exact C.
Qed.

Lemma settle_finv s : inv s.(f_tr) -> fresh s -> (forall w m, In (w, m) s.(f_live) -> w < s.(f_next)) ->
  owns s -> finv (settle s).
Proof.
  intros I F LT O. unfold settle.
  set (s0 := mkF (f_tr s) (f_stored s) (f_wants s) [] (f_next s)).
  destruct (settle_fold_keeps (f_live s) s0) as [KW _].
  assert (LV : forall wn, In wn (fold_left settle_one (f_live s) s0).(f_live) ->
                          In wn (f_live s) /\ pending (waiters (f_tr s) (fst wn)) = true).
  { intros wn IN. apply settle_fold_live in IN. simpl in IN. destruct IN as [[]|IN]. exact IN. }
  split.
  - apply settle_fold_inv. exact I.
  - intros w LE. rewrite KW, settle_fold_next in *. apply F. exact LE.
  - intros w m IN. rewrite settle_fold_next. apply LV in IN as [IN _]. apply (LT w m IN).
  - intros w m IN P. rewrite KW in *. simpl in *. apply LV in IN as [IN _].
    destruct (O w m IN P) as (i & W & OWN). exists i. split; [exact W|].
    intros m' sl H. apply settle_fold_slots in H. apply OWN. exact H.
Qed.

Lemma wake_pending id t s : pending (wake id t s) = true -> wake id t s = s.
Proof. destruct s; simpl; auto. destruct (id0 =? id); [discriminate|reflexivity]. Qed.

Lemma ctx_step t w0 :
  slots (step t (CtxDone w0)) = slots t /\
  (forall w, waiters (step t (CtxDone w0)) w = waiters t w \/
             (is_waiting (waiters t w) = true /\ waiters (step t (CtxDone w0)) w = CtxErr)).
Proof.
  simpl. destruct (waiters t w0) eqn:W; simpl; auto. split; [reflexivity|].
  intros w. unfold updw. destruct (w =? w0) eqn:EQ; [|auto].
  apply N.eqb_eq in EQ; subst. rewrite W. right. auto.
Qed.

Definition ctx_all (l : list (N * name)) (t : tracer) : tracer :=
  fold_left (fun t (wn : N * name) => step t (CtxDone (fst wn))) l t.

Lemma ctx_fold l : forall t,
  (ctx_all l t).(slots) = t.(slots) /\
  (forall w, pending ((ctx_all l t).(waiters) w) = true -> (ctx_all l t).(waiters) w = t.(waiters) w) /\
  (forall w, t.(waiters) w = NotStarted -> (ctx_all l t).(waiters) w = NotStarted) /\
  (forall w tr, (ctx_all l t).(waiters) w = Got tr -> t.(waiters) w = Got tr).
Proof.
  induction l as [|x l IH]; intros t; [cbn; auto|].
  change (ctx_all (x :: l) t) with (ctx_all l (step t (CtxDone (fst x)))).
  destruct (IH (step t (CtxDone (fst x)))) as (A & B & C & D).
  destruct (ctx_step t (fst x)) as [S1 S2].
  rewrite A, S1. split; [reflexivity|]. split; [|split].
  - intros w P. rewrite (B w P). destruct (S2 w) as [E|[_ E]]; [exact E|].
    rewrite (B w P), E in P. discriminate.
  - intros w NS. apply C. destruct (S2 w) as [E|[E _]]; [rewrite E; exact NS|rewrite NS in E; discriminate].
  - intros w tr G. apply D in G. destruct (S2 w) as [E|[_ E]]; [rewrite <- E; exact G|rewrite E in G; discriminate].
Qed.

Lemma fold_step_inv (l : list action) : forall t, inv t -> inv (fold_left step l t).
Proof. exact (inv_fold l). Qed.

Lemma ctx_fold_inv l : forall t, inv t -> inv (ctx_all l t).
Proof. induction l as [|x l IH]; intros t I; [exact I|]. apply (IH (step t (CtxDone (fst x)))), inv_step, I. Qed.

Lemma fapply_finv s a : finv s ->
  inv (fapply s a).(f_tr) /\ fresh (fapply s a) /\
  (forall w m, In (w, m) (fapply s a).(f_live) -> w < (fapply s a).(f_next)) /\ owns (fapply s a).
Proof.
  intros [I F LT O]. pose proof (inv_uniq _ I) as Iun. pose proof (inv_wait _ I) as Iw.
  destruct a; simpl.
  - (* FInit *)
    split; [apply (inv_step _ (Init n)), I|]. split; [exact F|]. split; [exact LT|].
    intros w m IN P. simpl in *. destruct (O w m IN P) as (i & W & OWN). exists i. split; [exact W|].
    intros m' sl H E. apply upd_some in H as [[-> H]|[_ H]]; [|eapply OWN; eauto].
    inversion H; subst; simpl in *. apply Iw in W. lia.
  - (* FComplete *)
    split; [apply (inv_step _ (Complete n t)), I|].
    simpl. destruct (slots (f_tr s) n) as [sl0|] eqn:SN; [|auto].
    destruct (s_done sl0) eqn:DN; [auto|]. simpl.
    split; [|split; [exact LT|]].
    + intros w LE. simpl. rewrite (F w LE). reflexivity.
    + intros w m IN P. simpl in *. pose proof (wake_pending _ _ _ P) as WP. rewrite WP in *.
      destruct (O w m IN P) as (i & W & OWN). exists i. split; [exact W|].
      intros m' sl H E. apply upd_some in H as [[-> H]|[_ H]]; [|eapply OWN; eauto].
      inversion H; subst; simpl in *. eapply OWN; eauto.
  - (* FClear *)
    split; [apply (inv_step _ (Clear n)), I|]. split; [exact F|]. split; [exact LT|].
    intros w m IN P. simpl in *. destruct (O w m IN P) as (i & W & OWN). exists i. split; [exact W|].
    intros m' sl H E. apply upd_some in H as [[_ H]|[_ H]]; [discriminate|eapply OWN; eauto].
  - (* FOutcome *)
    split; [apply (inv_step _ (AwaitBegin (f_next s) n)), I|].
    rewrite (F (f_next s)) by apply N.le_refl. simpl.
    split; [|split].
    + intros w LE. simpl in LE |- *. unfold updw. destruct (w =? f_next s) eqn:EQ; [apply N.eqb_eq in EQ; lia|].
      apply F. lia.
    + intros w m IN. simpl in IN |- *. apply in_app_iff in IN as [IN|[E|[]]]; [apply LT in IN; lia|inversion E; subst; lia].
    + intros w m IN P. simpl in *. unfold updw in *.
      apply in_app_iff in IN as [IN|[E|[]]].
      * pose proof (LT w m IN) as L. destruct (w =? f_next s) eqn:EQ; [apply N.eqb_eq in EQ; lia|].
        apply (O w m IN P).
      * inversion E; subst. rewrite N.eqb_refl in *.
        destruct (slots (f_tr s) m) as [sl0|] eqn:SN; [|discriminate].
        destruct (s_done sl0); [discriminate|]. exists (s_id sl0). split; [reflexivity|].
        intros m' sl H E'. eapply Iun; eauto.
  - (* FTimeout *)
    change (fold_left (fun t wn => step t (CtxDone (fst wn))) (f_live s) (f_tr s)) with (ctx_all (f_live s) (f_tr s)).
    destruct (ctx_fold (f_live s) (f_tr s)) as (A & B & C & D).
    split; [apply ctx_fold_inv, I|]. split; [|split; [exact LT|]].
    + intros w LE. cbn [f_tr f_next] in LE |- *. apply C, F, LE.
    + intros w m IN P. pose proof (B w P) as E.
      assert (P' : pending (waiters (f_tr s) w) = true) by (rewrite <- E; exact P).
      destruct (O w m IN P') as (i & W & OWN). exists i. split.
      * transitivity (waiters (f_tr s) w); [exact E|exact W].
      * intros m' sl H. apply OWN. rewrite <- A. exact H.
Qed.

Lemma finv_fstep s a : finv s -> finv (fstep s a).
Proof.
  intros FI. destruct (fapply_finv s a FI) as (I & F & LT & O). unfold fstep. apply settle_finv; assumption.
Qed.

Lemma finv_frunf h : finv (frunf h).
Proof.
  induction h as [|a h IH] using rev_ind.
  - split; simpl; try (intros; contradiction); [apply inv_init|intros w _; reflexivity|intros w m []].
  - rewrite frunf_snoc. apply finv_fstep, IH.
Qed.

Lemma settle_fold_stored_keep l n t : forall s,
  s.(f_stored) n = Some t ->
  (forall w t', In (w, n) l -> s.(f_tr).(waiters) w <> Got t') ->
  (fold_left settle_one l s).(f_stored) n = Some t.
Proof.
  induction l as [|x l IH]; intros s H NG; simpl; [exact H|]. apply IH.
  - destruct x as [w m]. unfold settle_one. destruct (waiters (f_tr s) w) eqn:W; simpl; auto.
    destruct (f_wants s m); [|exact H]. unfold upd.
    destruct (bytes_eqb_spec n m) as [->|NE]; [|exact H].
    exfalso. apply (NG w t0); [left; reflexivity|exact W].
  - intros w t' IN. destruct (settle_one_keeps s x) as (C & _ & _). rewrite C. apply NG. right. exact IN.
Qed.

Lemma kept_step s a n t :
  finv s -> (forall wn, In wn s.(f_live) -> pending (s.(f_tr).(waiters) (fst wn)) = true) ->
  s.(f_stored) n = Some t -> s.(f_tr).(slots) n = None -> a <> FInit n ->
  (fstep s a).(f_stored) n = Some t /\ (fstep s a).(f_tr).(slots) n = None.
Proof.
  intros [I F LT O] ST H NS NI.
  assert (WT : forall w, In (w, n) (f_live s) ->
               exists i, waiters (f_tr s) w = Waiting i /\
                         forall m' sl, slots (f_tr s) m' = Some sl -> s_id sl = i -> m' = n).
  { intros w IN. apply (O w n IN). apply (ST (w, n) IN). }
  split.
  - unfold fstep, settle. apply settle_fold_stored_keep; simpl.
    + destruct a; exact H.
    + intros w t' IN G. destruct a; simpl in *.
      * destruct (WT w IN) as (i & W & _). rewrite W in G. discriminate.
      * destruct (WT w IN) as (i & W & OWN).
        destruct (slots (f_tr s) n0) as [sl0|] eqn:SN; [|rewrite W in G; discriminate].
        destruct (s_done sl0); [rewrite W in G; discriminate|]. simpl in G. rewrite W in G. simpl in G.
        destruct (i =? s_id sl0) eqn:EQ; [|discriminate]. apply N.eqb_eq in EQ.
        assert (n0 = n) by (eapply OWN; eauto). subst. rewrite NS in SN. discriminate.
      * destruct (WT w IN) as (i & W & _). rewrite W in G. discriminate.
      * rewrite (F (f_next s)) in G by apply N.le_refl. simpl in G. unfold updw in G.
        apply in_app_iff in IN as [IN|[E|[]]].
        -- pose proof (LT w n IN) as L. destruct (w =? f_next s) eqn:EQ; [apply N.eqb_eq in EQ; lia|].
           destruct (WT w IN) as (i & W & _). rewrite W in G. discriminate.
        -- inversion E; subst. rewrite N.eqb_refl, NS in G. discriminate.
      * change (fold_left (fun t wn => step t (CtxDone (fst wn))) (f_live s) (f_tr s))
          with (ctx_all (f_live s) (f_tr s)) in G.
        destruct (ctx_fold (f_live s) (f_tr s)) as (_ & _ & _ & D). apply D in G.
        destruct (WT w IN) as (i & W & _). rewrite W in G. discriminate.
  - unfold fstep, settle.
    destruct (slots (f_tr (fold_left settle_one (f_live (fapply s a))
               (mkF (f_tr (fapply s a)) (f_stored (fapply s a)) (f_wants (fapply s a)) [] (f_next (fapply s a))))) n)
      as [sl|] eqn:E; [|reflexivity].
    exfalso. apply settle_fold_slots in E. simpl in E. destruct a; simpl in E.
    + apply upd_some in E as [[-> _]|[_ E]]; [apply NI; reflexivity|rewrite NS in E; discriminate].
    + destruct (slots (f_tr s) n0) as [sl0|] eqn:SN; [|rewrite NS in E; discriminate].
      destruct (s_done sl0); [rewrite NS in E; discriminate|]. simpl in E.
      apply upd_some in E as [[-> _]|[_ E]]; rewrite NS in *; discriminate.
    + apply upd_some in E as [[_ E]|[_ E]]; [discriminate|rewrite NS in E; discriminate].
    + rewrite (F (f_next s)) in E by apply N.le_refl. simpl in E. rewrite NS in E. discriminate.
    + assert (E' : slots (ctx_all (f_live s) (f_tr s)) n = Some sl) by exact E.
      destruct (ctx_fold (f_live s) (f_tr s)) as (A & _). rewrite A, NS in E'. discriminate.
Qed.

(* once a fetch goroutine has stored the trace of test n (it cleared the name just before),
   that trace stays — whatever happens afterwards: further outcomes and fetches for n or other
   names, duplicate or late completions, clears, timeouts — until n is initialised again *)
Lemma first_stored_kept_proof : forall h1 h2 n t,
  (frunf h1).(f_stored) n = Some t -> (frunf h1).(f_tr).(slots) n = None ->
  (forall a, In a h2 -> a <> FInit n) ->
  (frunf (h1 ++ h2)).(f_stored) n = Some t /\ (frunf (h1 ++ h2)).(f_tr).(slots) n = None.
Proof.
  intros h1 h2 n t H NS. induction h2 as [|a h2 IH] using rev_ind; intros NI.
  - rewrite app_nil_r. auto.
  - rewrite app_assoc, frunf_snoc.
    destruct IH as [H' NS']; [intros b IN; apply NI, in_or_app; auto|].
    apply kept_step; auto.
    + apply finv_frunf.
    + intros wn IN. apply settled_frunf. exact IN.
    + apply NI, in_or_app. right. left. reflexivity.
Qed.

(* the step that stores a trace leaves the name without a slot: the hypothesis above holds
   right after every store *)
Lemma store_clears_proof : forall h a n t,
  (frunf (h ++ [a])).(f_stored) n = Some t -> (frunf h).(f_stored) n <> Some t ->
  (frunf (h ++ [a])).(f_tr).(slots) n = None.
Proof.
  intros h a n t H NE. rewrite frunf_snoc in *. unfold fstep, settle in *.
  remember (mkF (f_tr (fapply (frunf h) a)) (f_stored (fapply (frunf h) a)) (f_wants (fapply (frunf h) a)) []
                (f_next (fapply (frunf h) a))) as s0.
  assert (S0 : f_stored s0 n <> Some t) by (subst s0; simpl; destruct a; exact NE).
  clear Heqs0 NE. revert s0 H S0.
  induction (f_live (fapply (frunf h) a)) as [|x l IH]; intros s0 H S0; simpl in *; [contradiction|].
  assert (DEC : {f_stored (settle_one s0 x) n = Some t} + {f_stored (settle_one s0 x) n <> Some t}).
  { destruct (f_stored (settle_one s0 x) n) as [t1|]; [|right; discriminate].
    destruct (N.eq_dec t1 t) as [->|NE]; [left; reflexivity|right; congruence]. }
  destruct DEC as [E|E].
  - (* stored by x: x cleared n, and later goroutines only clear *)
    destruct (slots (f_tr (fold_left settle_one l (settle_one s0 x))) n) as [sl|] eqn:SL; [|reflexivity].
    exfalso. apply settle_fold_slots in SL.
    destruct x as [w m]. unfold settle_one in *. destruct (waiters (f_tr s0) w); simpl in *; try contradiction.
    destruct (f_wants s0 m); [|contradiction]. unfold upd in *.
    destruct (bytes_eqb_spec n m) as [->|NE]; [|contradiction].
    try rewrite bytes_eqb_refl in SL. discriminate.
  - apply (IH _ H E).
Qed.
