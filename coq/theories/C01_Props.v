(* C01_Props.v — the property theorems of C01 and nothing else.
   C01 is decided by EXECUTING the real binaries on a finite set of permutations; these theorems
   are about the oracle the executions are compared with:
     - which names a run must send (composition of C06, C07: predicted_names_spec, executed_exact),
     - which of them the known-failing list marks (C08), and
     - that the runner's success verdict (C04) means exactly "the list is exact".
   All inputs are universally quantified (any configuration, any suites, any pattern list, any
   assignment of outcomes); nothing is bounded. *)
From Coq Require Import Permutation.
From V Require Import C01_Spec C07_Spec C01_Proofs.
From V Require C06_Spec C08_Spec C04_Spec.
Open Scope N_scope.

(* The batches of run() (client x server x server instance, gRPC filter per pairing) send exactly the
   permutations of allPermutations — the list the patterns are validated against and whose length is
   the announced total: none dropped, none sent twice. *)
Theorem executed_exact : forall cl sv lib, Permutation (executed cl sv lib) (all_permutations cl sv lib).
Proof. exact executed_exact_proof. Qed.
Print Assumptions executed_exact.

(* Whenever the oracle predicts a run (configuration accepted, library built), the predicted names are
   pairwise distinct and are exactly the names of the permutations the specifications of C06 and C07
   describe: (suite admitted by the mode, test case, config case denoted by the configuration and
   admitted by the suite's directives), once plain and once more, under the marked name, for each
   side the gRPC reference peer can play; the marked subset is the part some pattern globs.
   Hypothesis: the configuration only denotes declared protocols (C07.grpc_filter_iff needs it; it
   holds for every configuration written with enum names, see ex_grpc_config_declared). *)
Theorem predicted_names_spec : forall cfg ss cl sv ps pr,
  predicted_run cfg ss cl sv ps = Good pr ->
  (forall c, C06_Spec.spec_member cfg c -> In (C06_Model.c_protocol c) c07_all_protocols) ->
  NoDup (pr_names pr) /\
  (forall n, In n (pr_names pr) <-> exists q, expected_perm cfg ss cl sv q /\ p_name q = n) /\
  (forall n, In n (pr_checked pr) <-> In n (pr_names pr)) /\
  (forall n, In n (pr_marked pr) <-> In n (pr_names pr) /\ C08_Spec.some_glob ps n) /\
  length (pr_names pr) = length (pr_checked pr).
Proof. exact predicted_names_spec_proof. Qed.
Print Assumptions predicted_names_spec.

(* The runner succeeds on a run in which every sent case got an outcome IFF no pattern is reported
   unmatched and the list is exact: every pattern globs at least one executed permutation, a
   permutation is listed exactly when it ran and failed, unlisted exactly when it passed.
   The first conjunct is the trie's own first-hit test (C08: unmatched_sound; its converse is refuted
   there), which is what the runner really evaluates: see ex_shadowed_pattern_rejected. *)
Theorem lists_exact_iff : forall ps chk names out,
  NoDup names -> (forall n, In n chk <-> In n names) ->
  (run_ok ps chk names out = true <->
     (ps = [] \/ C08_Model.unmatched (C08_Model.build ps) chk = []) /\ list_exact ps names out).
Proof. exact lists_exact_iff_proof. Qed.
Print Assumptions lists_exact_iff.

(* ... hence, free of any reference to the matcher: success implies the list is exact *)
Theorem lists_exact_sound : forall ps chk names out,
  NoDup names -> (forall n, In n chk <-> In n names) ->
  run_ok ps chk names out = true -> list_exact ps names out.
Proof. exact lists_exact_sound_proof. Qed.
Print Assumptions lists_exact_sound.

(* With an empty list (reference client, reference server) success means: every executed case passed. *)
Theorem empty_lists_mean_all_pass : forall chk names out,
  NoDup names ->
  (run_ok [] chk names out = true <-> forall n, In n names -> passed (out n)).
Proof. exact empty_lists_mean_all_pass_proof. Qed.
Print Assumptions empty_lists_mean_all_pass.

(* exit status 0 of the runner = run_ok *)
Theorem run_status_ok : forall ps chk names out,
  run_status ps chk names out = 0 <-> run_ok ps chk names out = true.
Proof. exact run_status_ok_proof. Qed.
Print Assumptions run_status_ok.

(* ---- runs restricted with --run / --skip: the "slices" of the quick tier ----
   The quick tier executes, besides the unrestricted runs, runs of the SHIPPED reference configuration
   restricted with --run patterns chosen by a covering computation.  For such a run the oracle predicts
   exactly the expected permutations (those of the unrestricted run, predicted_names_spec) that some run
   pattern globs and no skip pattern globs, still pairwise distinct; every pattern list is validated
   against the whole space; and the announced total (filteredTestCount, counted on allPermutations) is
   the number of names really sent by the batches. *)
Theorem slice_names_spec : forall cfg ss cl sv ps rs sk pr total,
  predicted_slice cfg ss cl sv ps rs sk = Good (pr, total) ->
  (forall c, C06_Spec.spec_member cfg c -> In (C06_Model.c_protocol c) c07_all_protocols) ->
  NoDup (pr_names pr) /\
  (forall n, In n (pr_names pr) <->
     (exists q, expected_perm cfg ss cl sv q /\ p_name q = n) /\
     (rs = [] \/ C08_Spec.some_glob rs n) /\ ~ C08_Spec.some_glob sk n) /\
  (forall n, In n (pr_checked pr) <-> exists q, expected_perm cfg ss cl sv q /\ p_name q = n) /\
  (forall n, In n (pr_marked pr) <-> In n (pr_names pr) /\ C08_Spec.some_glob ps n) /\
  total = length (pr_names pr).
Proof. exact slice_names_spec_proof. Qed.
Print Assumptions slice_names_spec.

(* without --run / --skip the slice is the whole run *)
Theorem slice_nil : forall cfg ss cl sv ps,
  predicted_slice cfg ss cl sv ps [] [] =
  match predicted_run cfg ss cl sv ps with
  | Good pr => Good (pr, length (pr_checked pr))
  | Bad e => Bad e
  end.
Proof. exact slice_nil_proof. Qed.
Print Assumptions slice_nil.

(* several restricted runs of one configuration predicted at once (what the quick tier evaluates: the
   library is built once) are the single predictions *)
Theorem slices_each : forall cfg ss cl sv ps sels l,
  predicted_slices cfg ss cl sv ps sels = Good l ->
  Forall2 (fun sel x => predicted_slice cfg ss cl sv ps (fst sel) (snd sel) = Good x) sels l.
Proof. exact slices_each_proof. Qed.
Print Assumptions slices_each.

(* the verdict of a restricted run in which every sent case got an outcome: success IFF the pattern lists
   pass the runner's validation against the whole space and every SENT permutation is listed exactly when
   it ran and failed, unlisted exactly when it passed *)
Theorem slice_ok_iff : forall ps rs sk chk names out,
  NoDup names ->
  (slice_ok ps rs sk chk names out = true <->
     patterns_ok_sel ps rs sk chk = true /\
     forall n, In n names ->
       (C08_Spec.some_glob ps n <-> ran_and_failed (out n)) /\ (~ C08_Spec.some_glob ps n <-> passed (out n))).
Proof. exact slice_ok_iff_proof. Qed.
Print Assumptions slice_ok_iff.

(* with the empty list of the reference pair: success IFF no run / skip pattern is reported unmatched and
   every sent case passed *)
Theorem slice_all_pass : forall rs sk chk names out,
  NoDup names ->
  (slice_ok [] rs sk chk names out = true <->
     (rs = [] \/ C08_Model.unmatched (C08_Model.build rs) chk = []) /\
     (sk = [] \/ C08_Model.unmatched (C08_Model.build sk) chk = []) /\
     forall n, In n names -> passed (out n)).
Proof. exact slice_all_pass_proof. Qed.
Print Assumptions slice_all_pass.

Theorem slice_status_ok : forall ps rs sk chk names out,
  slice_status ps rs sk chk names out = 0 <-> slice_ok ps rs sk chk names out = true.
Proof. exact slice_status_ok_proof. Qed.
Print Assumptions slice_status_ok.

(* ---- non-vacuity ---- *)
(* testing/grpc-impls-config.yaml: HTTP/2, gRPC, proto, no TLS *)
Definition grpc_cfg : C06_Model.config :=
  C06_Model.mkConfig (C06_Model.mkFeatures [2] [2] [1] [] [] None (Some false) None None None None None) [] [].
Definition t1 := mkT (bs "unary/success") 1 [] [] false false no_extras.
Definition t2 := mkT (bs "unary/no-request") 1 [] [] true false no_extras.          (* raw request *)
Definition s1 := mkSuite (bs "Basic") 0 [2] [2] [1] [] 0 false false false false [t1].
Definition s2 := mkSuite (bs "Raw") 2 [2] [2] [1] [] 0 false false false false [t2].

(* the hypothesis of predicted_names_spec is inhabited: this configuration denotes gRPC only *)
Example ex_grpc_config_declared :
  forall c, C06_Spec.spec_member grpc_cfg c -> In (C06_Model.c_protocol c) c07_all_protocols.
Proof.
  intros c [[H|(e & [] & _)] _]. destruct H as (_ & Hp & _). vm_compute in Hp. vm_compute.
  destruct Hp as [<-|[]]. auto.
Qed.

(* a server-mode run (cl = true): every permutation once for the reference client and, where the gRPC
   client can send it (no raw request), once more under the marked name *)
Example ex_predicted :
  match predicted_run grpc_cfg [s1; s2] true false [bs "**/no-request"] with
  | Good pr => (sort_names (pr_names pr), sort_names (pr_marked pr), pr_lib pr)
  | Bad _ => ([], [], 0%nat)
  end =
  ([ bs "Basic/Compression:COMPRESSION_GZIP/TLS:false/(grpc client impl)/unary/success";
     bs "Basic/Compression:COMPRESSION_GZIP/TLS:false/unary/success";
     bs "Basic/Compression:COMPRESSION_IDENTITY/TLS:false/(grpc client impl)/unary/success";
     bs "Basic/Compression:COMPRESSION_IDENTITY/TLS:false/unary/success";
     bs "Raw/Compression:COMPRESSION_GZIP/TLS:false/unary/no-request";
     bs "Raw/Compression:COMPRESSION_IDENTITY/TLS:false/unary/no-request" ],
   [ bs "Raw/Compression:COMPRESSION_GZIP/TLS:false/unary/no-request";
     bs "Raw/Compression:COMPRESSION_IDENTITY/TLS:false/unary/no-request" ], 4%nat).
Proof. vm_compute. reflexivity. Qed.

(* ... in client mode the server-mode suite is not run; a configuration the runner rejects; names
   made ambiguous by a test called like the marker *)
Example ex_client_mode :
  match predicted_run grpc_cfg [s1; s2] false true [] with Good pr => length (pr_names pr) | Bad _ => 0%nat end = 4%nat.
Proof. vm_compute. reflexivity. Qed.
Example ex_bad_config :
  predicted_run (C06_Model.mkConfig (C06_Model.mkFeatures [1] [2] [] [] [] None None None None None None None) [] [])
                [s1] true false [] = Bad EConfig.
Proof. vm_compute. reflexivity. Qed.
Example ex_ambiguous :
  predicted_run grpc_cfg
    [mkSuite (bs "S") 0 [2] [2] [1] [1] 0 false false false false
       [mkT (bs "t") 1 [] [] false false no_extras; mkT (bs "(grpc client impl)/t") 1 [] [] false false no_extras]] true false []
  = Bad EAmbiguousNames.
Proof. vm_compute. reflexivity. Qed.

(* both sides of lists_exact_iff *)
Definition nm := [bs "S/a"; bs "S/b"].
Definition fail_a (n : bytes) : C04_Model.res :=
  if bytes_eqb n (bs "S/a") then C04_Model.Fail false C04_Model.EAssert else C04_Model.Ok.
Example ex_exact_accepted : run_ok [bs "**/a"] nm nm fail_a = true.
Proof. vm_compute. reflexivity. Qed.
Example ex_exact_holds : list_exact [bs "**/a"] nm fail_a.
Proof. apply (lists_exact_sound [bs "**/a"] nm nm fail_a); [|tauto|exact ex_exact_accepted].
  repeat constructor; simpl; intuition discriminate. Qed.
(* a listed case that passes, an unlisted case that fails, a pattern that matches nothing, a listed
   case that could not be run: all rejected *)
Example ex_listed_passes : run_ok [bs "**/a"] nm nm (fun _ => C04_Model.Ok) = false.
Proof. vm_compute. reflexivity. Qed.
Example ex_unlisted_fails : run_ok [] nm nm fail_a = false.
Proof. vm_compute. reflexivity. Qed.
Example ex_pattern_matches_nothing : run_status [bs "**/a"; bs "**/zzz"] nm nm fail_a = 2.
Proof. vm_compute. reflexivity. Qed.
Example ex_listed_not_run :
  run_ok [bs "**/a"] nm nm (fun n => if bytes_eqb n (bs "S/a") then C04_Model.Fail true C04_Model.ECouldNotRun else C04_Model.Ok) = false.
Proof. vm_compute. reflexivity. Qed.
Example ex_all_pass : run_ok [] nm nm (fun _ => C04_Model.Ok) = true.
Proof. vm_compute. reflexivity. Qed.

(* why the first conjunct of lists_exact_iff cannot be replaced by "every pattern globs a name": a
   pattern shadowed by a more specific one is reported unmatched by the runner although the list is
   exact (C08's first-hit counters; irrelevant for the shipped lists, whose patterns are disjoint) *)
Example ex_shadowed_pattern_rejected :
  run_status [bs "S/a"; bs "S/*"] [bs "S/a"] [bs "S/a"] fail_a = 2 /\
  (forall p, In p [bs "S/a"; bs "S/*"] -> C08_Model.match_pattern (C08_Model.build [p]) (bs "S/a") = true).
Proof. split; [vm_compute; reflexivity|]. intros p [<-|[<-|[]]]; vm_compute; reflexivity. Qed.

(* slices: a run pattern selects one row (plain and marked names), a skip pattern removes the marked one;
   the total announced is the number sent; a run pattern that matches nothing is rejected (status 2);
   a failing case outside the slice does not matter, one inside does *)
Example ex_slice :
  match predicted_slice grpc_cfg [s1; s2] true false [] [bs "Basic/Compression:COMPRESSION_GZIP/**"] [] with
  | Good (pr, total) => (sort_names (pr_names pr), total, length (pr_checked pr))
  | Bad _ => ([], 0%nat, 0%nat)
  end =
  ([ bs "Basic/Compression:COMPRESSION_GZIP/TLS:false/(grpc client impl)/unary/success";
     bs "Basic/Compression:COMPRESSION_GZIP/TLS:false/unary/success" ], 2%nat, 6%nat).
Proof. vm_compute. reflexivity. Qed.
Example ex_slice_skip :
  match predicted_slice grpc_cfg [s1; s2] true false [] [bs "Basic/Compression:COMPRESSION_GZIP/**"]
                        [bs "**/(grpc client impl)/**"] with
  | Good (pr, total) => (pr_names pr, total)
  | Bad _ => ([], 0%nat)
  end = ([ bs "Basic/Compression:COMPRESSION_GZIP/TLS:false/unary/success" ], 1%nat).
Proof. vm_compute. reflexivity. Qed.
Example ex_slice_unmatched_run_pattern : slice_status [] [bs "S/a"; bs "S/zzz"] [] nm [bs "S/a"] (fun _ => C04_Model.Ok) = 2.
Proof. vm_compute. reflexivity. Qed.
Example ex_slice_failure_outside : slice_ok [] [bs "S/b"] [] nm [bs "S/b"] fail_a = true.
Proof. vm_compute. reflexivity. Qed.
Example ex_slice_failure_inside : slice_ok [] [bs "S/a"] [] nm [bs "S/a"] fail_a = false.
Proof. vm_compute. reflexivity. Qed.
