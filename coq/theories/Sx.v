(* Sx.v — the generic case/result tree exchanged between the python harness,
   the Go test binaries and the extracted model.  One case per line:
       (kind id payload ...)
   atoms: decimal integers, byte strings (#hex or "printable"), lists.
   Nothing here is proved; it is glue that is itself extracted, so that decoding
   a case into model inputs is Gallina, not hand-written OCaml. *)
From Coq Require Export List NArith ZArith Bool.
From Coq Require Import String Ascii.
Export String.StringSyntax.
Export ListNotations.
Open Scope N_scope.

Definition byte := N.
Definition bytes := list N.

Inductive sx :=
| I (z : Z)
| B (b : bytes)
| L (l : list sx).

(* string literal -> bytes, for tags in dispatch tables *)
Fixpoint bs (s : string) : bytes :=
  match s with
  | EmptyString => []
  | String a s' => N_of_ascii a :: bs s'
  end.

Arguments bs s%string.

Fixpoint bytes_eqb (a b : bytes) : bool :=
  match a, b with
  | [], [] => true
  | x :: a', y :: b' => N.eqb x y && bytes_eqb a' b'
  | _, _ => false
  end.

Lemma bytes_eqb_spec a b : reflect (a = b) (bytes_eqb a b).
Proof.
  revert b; induction a as [|x a IH]; intros [|y b]; simpl; try (constructor; congruence).
  destruct (N.eqb_spec x y); simpl; [|constructor; congruence].
  destruct (IH b); constructor; congruence.
Qed.

Lemma bytes_eqb_eq a b : bytes_eqb a b = true <-> a = b.
Proof. destruct (bytes_eqb_spec a b); split; congruence. Qed.

Lemma bytes_eqb_refl a : bytes_eqb a a = true.
Proof. apply bytes_eqb_eq; reflexivity. Qed.

(* encoders *)
Definition sx_bool (b : bool) : sx := I (if b then 1 else 0)%Z.
Definition sx_nat (n : nat) : sx := I (Z.of_nat n).
Definition sx_N (n : N) : sx := I (Z.of_N n).
Definition sx_opt {A} (f : A -> sx) (o : option A) : sx :=
  match o with None => L [] | Some a => L [f a] end.
Definition sx_list {A} (f : A -> sx) (l : list A) : sx := L (map f l).
Definition sx_err (tag : string) : sx := L [B (bs "err"); B (bs tag)].
Arguments sx_err tag%string.
Definition sx_crash : sx := L [B (bs "crash")].
Definition sx_bad : sx := L [B (bs "bad-case")].

(* decoders: total, returning option *)
Definition un_I (s : sx) : option Z := match s with I z => Some z | _ => None end.
Definition un_B (s : sx) : option bytes := match s with B b => Some b | _ => None end.
Definition un_L (s : sx) : option (list sx) := match s with L l => Some l | _ => None end.
Definition un_bool (s : sx) : option bool :=
  match s with I z => Some (negb (Z.eqb z 0)) | _ => None end.
Definition un_nat (s : sx) : option nat :=
  match s with I z => Some (Z.to_nat z) | _ => None end.
Definition un_N (s : sx) : option N :=
  match s with I z => Some (Z.to_N z) | _ => None end.

Fixpoint un_list {A} (f : sx -> option A) (l : list sx) : option (list A) :=
  match l with
  | [] => Some []
  | x :: l' =>
    match f x, un_list f l' with
    | Some a, Some r => Some (a :: r)
    | _, _ => None
    end
  end.
Definition un_listof {A} (f : sx -> option A) (s : sx) : option (list A) :=
  match s with L l => un_list f l | _ => None end.
Definition un_opt {A} (f : sx -> option A) (s : sx) : option (option A) :=
  match s with
  | L [] => Some None
  | L [x] => match f x with Some a => Some (Some a) | None => None end
  | _ => None
  end.

Definition bind {A B} (o : option A) (f : A -> option B) : option B :=
  match o with Some a => f a | None => None end.
Notation "'do' x <- e ; k" := (bind e (fun x => k))
  (at level 200, x pattern, e at level 100, k at level 200, right associativity).
Definition ret {A} (a : A) : option A := Some a.

Definition or_bad (o : option sx) : sx := match o with Some s => s | None => sx_bad end.
