(* C02_Model.v — executable model of the three independently written parts that must agree:
     expectation generator   internal/app/connectconformance/test_case_library.go
                             (populateExpectedUnaryResponse, populateExpectedStreamResponse)
     reference server        internal/app/referenceserver/impl.go (Unary, ClientStream, ServerStream, BidiStream,
                             parseUnaryResponseDefinition, createRequestInfo)  [grpcserver/impl.go has the same contract]
     reference client        internal/app/referenceclient/impl.go (doUnary, serverStream, clientStream, bidiStream)
   for the deterministic fragment of the suite schema (no delays, timeouts, cancellation, raw payloads,
   size-limit directives).  Request messages are opaque and identified by their position.  The transport
   (connect-go / grpc-go / net/http) is the identity on this level; what it may add (extra headers, joined
   values, other letter case) is absorbed by the agreement relation of the specification. *)
From V Require Export Base.
Open Scope N_scope.

Definition header := (bytes * list bytes)%type.          (* name, values *)

Record err := { e_code : N; e_msg : option bytes; e_details : list (N * bytes) }.
Record def := { d_headers : list header; d_trailers : list header; d_data : list bytes; d_err : option err }.
Record request := { r_data : bytes; r_def : option def }.
(* stream type: 1 unary, 2 client stream, 3 server stream, 4 half-duplex bidi, 5 full-duplex bidi *)
Record tcase := { t_name : bytes; t_stype : N; t_reqheaders : list header; t_requests : list request }.

Record reqinfo := { ri_headers : list header; ri_requests : list nat; ri_timeout : option Z }.
Inductive detail := DAny (kind : N) (b : bytes) | DInfo (ri : reqinfo).
Record rerr := { re_code : N; re_msg : option bytes; re_details : list detail }.
Record payload := { p_data : bytes; p_info : option reqinfo }.
Record result := { res_headers : list header; res_trailers : list header;
                   res_payloads : list payload; res_err : option rerr; res_unsent : N }.

Inductive outcome (A : Type) := Ok (a : A) | Err | Crash.
Arguments Ok {A} a. Arguments Err {A}. Arguments Crash {A}.

Definition conv_err (e : err) (extra : list detail) : rerr :=
  {| re_code := e_code e; re_msg := e_msg e;
     re_details := map (fun kb => DAny (fst kb) (snd kb)) (e_details e) ++ extra |}.

Definition all_indices (tc : tcase) : list nat := seq 0 (length (t_requests tc)).
Definition first_def (tc : tcase) : option def :=
  match t_requests tc with [] => None | r :: _ => r_def r end.
Definition full_info (tc : tcase) (reqs : list nat) : reqinfo :=
  {| ri_headers := t_reqheaders tc; ri_requests := reqs; ri_timeout := None |}.
Definition is_unary_kind (st : N) : bool := (st =? 1) || (st =? 2).

(* ------------------------------------------------------------------ *)
(* the expectation generator                                          *)
(* ------------------------------------------------------------------ *)
Definition expected_unary (tc : tcase) : outcome result :=
  let info := full_info tc (all_indices tc) in
  match first_def tc with
  | None => Ok {| res_headers := []; res_trailers := [];
                  res_payloads := [ {| p_data := []; p_info := Some info |} ]; res_err := None; res_unsent := 0 |}
  | Some d =>
    match d_err d with
    | Some e => Ok {| res_headers := d_headers d; res_trailers := d_trailers d; res_payloads := [];
                      res_err := Some (conv_err e [DInfo info]); res_unsent := 0 |}
    | None => Ok {| res_headers := d_headers d; res_trailers := d_trailers d;
                    res_payloads := [ {| p_data := hd [] (d_data d); p_info := Some info |} ];
                    res_err := None; res_unsent := 0 |}
    end
  end.

(* payload idx of a stream expectation; the full-duplex branch reads RequestMessages[idx]:
   modelled with nth_error so that an out-of-range index is an explicit Crash, guarded as the
   (repaired) code guards it. *)
Definition expected_stream_payload (tc : tcase) (idx : nat) (data : bytes) : outcome payload :=
  if t_stype tc =? 5 then
    if Nat.ltb idx (length (t_requests tc)) then
      match nth_error (t_requests tc) idx with
      | None => Crash
      | Some _ =>
        Ok {| p_data := data;
              p_info := Some (if Nat.eqb idx 0 then full_info tc [idx]
                              else {| ri_headers := []; ri_requests := [idx]; ri_timeout := None |}) |}
      end
    else Ok {| p_data := data; p_info := None |}
  else
    Ok {| p_data := data; p_info := if Nat.eqb idx 0 then Some (full_info tc (all_indices tc)) else None |}.

Fixpoint expected_stream_payloads (tc : tcase) (idx : nat) (datas : list bytes) : outcome (list payload) :=
  match datas with
  | [] => Ok []
  | d :: ds =>
    match expected_stream_payload tc idx d, expected_stream_payloads tc (S idx) ds with
    | Ok p, Ok ps => Ok (p :: ps)
    | Crash, _ | _, Crash => Crash
    | _, _ => Err
    end
  end.

Definition expected_stream (tc : tcase) : outcome result :=
  match first_def tc with
  | None => Ok {| res_headers := []; res_trailers := []; res_payloads := []; res_err := None; res_unsent := 0 |}
  | Some d =>
    (* an immediate error carries the request info in its details: every request for server and
       half-duplex streams; for full-duplex only the first, because the server must throw as soon as
       it receives a request and has no response left (service.proto, BidiStream) *)
    let info_reqs := if t_stype tc =? 5 then firstn 1 (all_indices tc) else all_indices tc in
    let extra := match d_data d with [] => [DInfo (full_info tc info_reqs)] | _ => [] end in
    match expected_stream_payloads tc 0 (d_data d) with
    | Ok ps => Ok {| res_headers := d_headers d; res_trailers := d_trailers d; res_payloads := ps;
                     res_err := option_map (fun e => conv_err e extra) (d_err d); res_unsent := 0 |}
    | Err => Err
    | Crash => Crash
    end
  end.

Definition expected (tc : tcase) : outcome result :=
  if is_unary_kind (t_stype tc) then expected_unary tc
  else if (t_stype tc =? 3) || (t_stype tc =? 4) || (t_stype tc =? 5) then expected_stream tc
  else Err.

(* ------------------------------------------------------------------ *)
(* the reference server: what goes on the wire                        *)
(* ------------------------------------------------------------------ *)
Record wire := { w_headers : list header; w_trailers : list header; w_msgs : list payload; w_err : option rerr }.

Definition srv_unary (tc : tcase) : wire :=
  (* Unary sees its single request; ClientStream reads every request first *)
  let info := full_info tc (all_indices tc) in
  match first_def tc with
  | None => {| w_headers := []; w_trailers := []; w_msgs := [ {| p_data := []; p_info := Some info |} ]; w_err := None |}
  | Some d =>
    match d_err d with
    | Some e => {| w_headers := d_headers d; w_trailers := d_trailers d; w_msgs := [];
                   w_err := Some (conv_err e [DInfo info]) |}
    | None => {| w_headers := d_headers d; w_trailers := d_trailers d;
                 w_msgs := [ {| p_data := hd [] (d_data d); p_info := Some info |} ]; w_err := None |}
    end
  end.

(* responses numbered from respNum on, request info only on response 0 *)
Fixpoint srv_flush (tc : tcase) (reqs : list nat) (resp_num : nat) (datas : list bytes) : list payload :=
  match datas with
  | [] => []
  | d :: ds =>
    {| p_data := d; p_info := if Nat.eqb resp_num 0 then Some (full_info tc reqs) else None |}
      :: srv_flush tc reqs (S resp_num) ds
  end.

Definition srv_server_stream (tc : tcase) : wire :=
  match first_def tc with
  | None => {| w_headers := []; w_trailers := []; w_msgs := []; w_err := None |}
  | Some d =>
    let info := full_info tc (all_indices tc) in
    {| w_headers := d_headers d; w_trailers := d_trailers d;
       w_msgs := srv_flush tc (all_indices tc) 0 (d_data d);
       w_err := option_map (fun e => conv_err e (match d_data d with [] => [DInfo info] | _ => [] end)) (d_err d) |}
  end.

(* full-duplex receive loop: request i arrives; if no response is left the loop breaks, otherwise
   response resp_num goes out echoing the requests received since the last response *)
Fixpoint srv_full_loop (tc : tcase) (incoming : list nat) (resp_num : nat) (datas : list bytes)
  : list payload * nat * list bytes * list nat (* sent, resp_num, remaining data, reqs since last response *) :=
  match incoming with
  | [] => ([], resp_num, datas, [])
  | i :: more =>
    match datas with
    | [] => ([], resp_num, [], [i])                          (* break: nothing left to send *)
    | d :: ds =>
      let info := if Nat.eqb resp_num 0 then full_info tc [i]
                  else {| ri_headers := []; ri_requests := [i]; ri_timeout := None |} in
      let '(sent, rn, rest, pend) := srv_full_loop tc more (S resp_num) ds in
      ({| p_data := d; p_info := Some info |} :: sent, rn, rest, pend)
    end
  end.

Definition srv_bidi (tc : tcase) : wire :=
  match t_requests tc with
  | [] => {| w_headers := []; w_trailers := []; w_msgs := []; w_err := None |}
  | _ =>
    match first_def tc with
    | None => {| w_headers := []; w_trailers := []; w_msgs := []; w_err := None |}
    | Some d =>
      if t_stype tc =? 5 then
        let '(sent, rn, rest, pend) := srv_full_loop tc (all_indices tc) 0 (d_data d) in
        let flushed := srv_flush tc pend rn rest in
        let total := (rn + length rest)%nat in
        {| w_headers := d_headers d; w_trailers := d_trailers d; w_msgs := sent ++ flushed;
           w_err := option_map (fun e => conv_err e (if Nat.eqb total 0 then [DInfo (full_info tc pend)] else [])) (d_err d) |}
      else
        let reqs := all_indices tc in
        {| w_headers := d_headers d; w_trailers := d_trailers d; w_msgs := srv_flush tc reqs 0 (d_data d);
           w_err := option_map (fun e => conv_err e (match d_data d with [] => [DInfo (full_info tc reqs)] | _ => [] end)) (d_err d) |}
    end
  end.

Definition ref_server (tc : tcase) : wire :=
  if is_unary_kind (t_stype tc) then srv_unary tc
  else if t_stype tc =? 3 then srv_server_stream tc
  else srv_bidi tc.

(* ------------------------------------------------------------------ *)
(* the reference client: what it reports                              *)
(* ------------------------------------------------------------------ *)
(* error metadata of unary / client-stream calls: one bag, headers then trailers *)
Definition ref_client (st : N) (w : wire) : result :=
  if is_unary_kind st then
    match w_err w with
    | Some e => {| res_headers := []; res_trailers := w_headers w ++ w_trailers w; res_payloads := [];
                   res_err := Some e; res_unsent := 0 |}
    | None => {| res_headers := w_headers w; res_trailers := w_trailers w; res_payloads := w_msgs w;
                 res_err := None; res_unsent := 0 |}
    end
  else {| res_headers := w_headers w; res_trailers := w_trailers w; res_payloads := w_msgs w;
          res_err := w_err w; res_unsent := 0 |}.

Definition observed (tc : tcase) : result := ref_client (t_stype tc) (ref_server tc).

(* ------------------------------------------------------------------ *)
(* projections used by the correspondence check                       *)
(* ------------------------------------------------------------------ *)
Fixpoint strip_spaces_l (s : bytes) : bytes :=
  match s with 32 :: s' => strip_spaces_l s' | _ => s end.
Definition strip_spaces (s : bytes) : bytes := rev (strip_spaces_l (rev (strip_spaces_l s))).
Definition split_vals (vals : list bytes) : list bytes :=
  flat_map (fun v => map strip_spaces (split_on 44 v)) vals.

Definition names_of (hs : list header) : list bytes := map (fun h => lower (fst h)) hs.
Definition vals_for (n : bytes) (hs : list header) : list bytes :=
  flat_map (fun h => if bytes_eqb (lower (fst h)) n then split_vals (snd h) else []) hs.
(* restrict to `names`, one entry per name present, sorted, values flattened in order of appearance *)
Definition project (hs : list header) (names : list bytes) : list header :=
  map (fun n => (n, vals_for n hs))
      (sort_bytes (dedup (filter (fun n => mem_bytes n names) (names_of hs)))).

Definition sx_header (h : header) : sx := L [B (fst h); L (map B (snd h))].
Definition sx_headers (hs : list header) : sx := L (map sx_header hs).
Definition sx_info (req_names : list bytes) (o : option reqinfo) : sx :=
  match o with
  | None => L []
  | Some ri => L [L [sx_headers (project (ri_headers ri) req_names);
                     L (map sx_nat (ri_requests ri));
                     match ri_timeout ri with None => L [] | Some z => L [I z] end]]
  end.

Definition type_url (kind : N) : bytes :=
  if kind =? 0 then bs "type.googleapis.com/connectrpc.conformance.v1.Header"
  else bs "type.googleapis.com/connectrpc.conformance.v1.Error".
(* proto encoding of Header{name: b} (field 1) and Error{message: b} (field 2); b shorter than 128 bytes *)
Definition detail_bytes (kind : N) (b : bytes) : bytes :=
  match b with
  | [] => if kind =? 0 then [] else [18; 0]
  | _ => (if kind =? 0 then 10 else 18) :: N.of_nat (length b) :: b
  end.

Definition sx_detail (req_names : list bytes) (d : detail) : sx :=
  match d with
  | DAny k b => L [I 0; B (type_url k); B (detail_bytes k b)]
  | DInfo ri => L [I 1; sx_info req_names (Some ri)]
  end.
Definition sx_rerr (req_names : list bytes) (o : option rerr) : sx :=
  match o with
  | None => L []
  | Some e => L [L [sx_N (re_code e);
                    match re_msg e with None => L [] | Some m => L [B m] end;
                    L (map (sx_detail req_names) (re_details e))]]
  end.
Definition sx_payload (req_names : list bytes) (p : payload) : sx :=
  L [B (p_data p); sx_info req_names (p_info p)].

Definition sx_result (req_names : list bytes) (rsp_names : option (list bytes)) (r : result) : sx :=
  let pr hs := match rsp_names with Some ns => project hs ns | None => project hs (names_of hs) end in
  L [sx_headers (pr (res_headers r)); sx_headers (pr (res_trailers r));
     L (map (sx_payload req_names) (res_payloads r)); sx_rerr req_names (res_err r); sx_N (res_unsent r)].

Definition sx_outcome (req_names : list bytes) (o : outcome result) : sx :=
  match o with
  | Ok r => sx_result req_names None r
  | Err => sx_err "load"
  | Crash => sx_crash
  end.

(* ---------- decoding ---------- *)
Definition un_header (s : sx) : option header :=
  match s with L [B n; vs] => do vs <- un_listof un_B vs; ret (n, vs) | _ => None end.
Definition un_err (s : sx) : option err :=
  match s with
  | L [I c; m; L ds] =>
    do m <- un_opt un_B m;
    do ds <- un_list (fun d => match d with L [I k; B b] => Some (Z.to_N k, b) | _ => None end) ds;
    ret {| e_code := Z.to_N c; e_msg := m; e_details := ds |}
  | _ => None
  end.
Definition un_def (s : sx) : option def :=
  match s with
  | L [hs; ts; ds; e] =>
    do hs <- un_listof un_header hs; do ts <- un_listof un_header ts;
    do ds <- un_listof un_B ds; do e <- un_opt un_err e;
    ret {| d_headers := hs; d_trailers := ts; d_data := ds; d_err := e |}
  | _ => None
  end.
Definition un_request (s : sx) : option request :=
  match s with
  | L [B d; df] => do df <- un_opt un_def df; ret {| r_data := d; r_def := df |}
  | _ => None
  end.
Definition un_tcase (s : sx) : option tcase :=
  match s with
  | L [B n; I st; hs; rs] =>
    do hs <- un_listof un_header hs; do rs <- un_listof un_request rs;
    ret {| t_name := n; t_stype := Z.to_N st; t_reqheaders := hs; t_requests := rs |}
  | _ => None
  end.

Definition rsp_names (tc : tcase) : list bytes :=
  match first_def tc with None => [] | Some d => names_of (d_headers d) ++ names_of (d_trailers d) end.

(* (tests) -> per test, sorted by name: (name expected) *)
Definition sort_by_name (l : list (bytes * sx)) : list (bytes * sx) :=
  let names := sort_bytes (map fst l) in
  flat_map (fun n => match find (fun e => bytes_eqb (fst e) n) l with Some e => [e] | None => [] end) names.

Definition load_fails (tcs : list tcase) : bool :=
  existsb (fun tc => match expected tc with Err => true | _ => false end) tcs.
Definition load_crashes (tcs : list tcase) : bool :=
  existsb (fun tc => match expected tc with Crash => true | _ => false end) tcs.

Definition run_c02_expect (args : list sx) : sx :=
  or_bad (match args with
  | [ts] =>
    do tcs <- un_listof un_tcase ts;
    if load_crashes tcs then ret sx_crash
    else if load_fails tcs then ret (sx_err "load")
    else ret (L (map (fun e => L [B (fst e); snd e])
               (sort_by_name (map (fun tc => (t_name tc, sx_outcome (names_of (t_reqheaders tc)) (expected tc))) tcs))))
  | _ => None end).

(* ((client server) (cfgcase ...) (test ...)) -> per permutation sorted by full name:
   (name cfgkey expected verdict feedback actual).  Full names are V/<cfg components>/<name>; the
   harness emits base name and a config key, and sorts by full name, which for a fixed config list
   is reproduced here by sorting on (cfgkey order given, name). *)
Definition applicable (grpc_client grpc_server : bool) (cfg : list Z) (st : N) : bool :=
  match cfg with
  | [ver; proto; codec; comp; tls] =>
    negb ((ver =? 1)%Z && (st =? 5)) && negb ((proto =? 2)%Z && negb (ver =? 2)%Z) &&
    (if grpc_client || grpc_server then
       negb (proto =? 1)%Z && (if grpc_client then (proto =? 2)%Z else true) &&
       (if (proto =? 3)%Z then (ver =? 1)%Z || (ver =? 2)%Z else (ver =? 2)%Z) &&
       (codec =? 1)%Z && ((comp =? 1)%Z || (comp =? 2)%Z) && (tls =? 0)%Z
     else true)
  | _ => false
  end.

Definition run_c02_live (args : list sx) : sx :=
  or_bad (match args with
  | [L [I gc; I gs]; L cfgs; ts] =>
    do tcs <- un_listof un_tcase ts;
    do cfgs <- un_list (un_listof un_I) cfgs;
    let gc := negb (gc =? 0)%Z in let gs := negb (gs =? 0)%Z in
    if load_crashes tcs then ret sx_crash
    else if load_fails tcs then ret (sx_err "load")
    else
      ret (L (flat_map (fun cfg =>
            map (fun tc =>
                   let rq := names_of (t_reqheaders tc) in
                   L [B (t_name tc); L (map I cfg);
                      sx_outcome rq (expected tc); B (bs "pass"); L [];
                      sx_result rq (Some (rsp_names tc)) (observed tc)])
                (filter (fun tc => applicable gc gs cfg (t_stype tc)) tcs)) cfgs))
  | _ => None end).

Definition c02_table : list (bytes * (list sx -> sx)) :=
  [ (bs "c02.expect", run_c02_expect); (bs "c02.live", run_c02_live) ].
