(* C02_Model.v — executable model of the independently written parts that must agree:
     expectation generator   internal/app/connectconformance/test_case_library.go
                             (populateExpectedResponse, populateExpectedUnaryResponse, populateExpectedStreamResponse,
                              the validations of expandCases / newTestCaseLibrary)
     reference server        internal/app/referenceserver/impl.go (Unary, ClientStream, ServerStream, BidiStream,
                             parseUnaryResponseDefinition, createRequestInfo)
     gRPC reference server   internal/app/grpcserver/impl.go (the same four handlers on grpc-go)
     reference client        internal/app/referenceclient/impl.go (doUnary, serverStream, clientStream, bidiStream)
     gRPC reference client   internal/app/grpcclient/impl.go
   for the deterministic fragment of the suite schema (no delays, timeouts, cancellation, raw payloads,
   size-limit directives: they cannot be written in [tcase]).  A test case may be a Connect GET case ([t_get]:
   method IdempotentUnary with use_get_http_method, in a suite that relies_on_connect_get): its expectation
   depends on the CODEC of the permutation (echoed query param encoding=proto|json), so [expected] takes the
   codec, and the handlers take the query params they see.  Results are C03's [result]s, so that C03's model of
   results.go's assert applies to them directly.  What lies between the peers (connect-go / grpc-go / net/http) is
   the pair of Section variables [tr_req] / [tr_rsp]; C02_Spec states what is assumed of them, the extracted
   model instantiates them with the identity.  No proofs here. *)
From V Require Export Base C03_Model.
From V Require Export C02_Consts.
Open Scope N_scope.

(* ------------------------------------------------------------------ *)
(* test-case definitions                                              *)
(* ------------------------------------------------------------------ *)
(* error of a response definition; details are (kind, content): 0 = Header{name: content}, 1 = Error{message: content} *)
Record xerr := mkX { xe_code : N; xe_msg : option bytes; xe_details : list (N * bytes) }.
(* Unary- and StreamResponseDefinition share one shape here: a unary definition uses the error if there is one,
   otherwise the first element of rd_data (if any) as response_data. *)
Record rdef := mkRD { rd_headers : list header; rd_trailers : list header; rd_data : list bytes; rd_err : option xerr }.
(* message kinds: 0 UnaryRequest, 1 ClientStreamRequest, 2 ServerStreamRequest, 3 BidiStreamRequest,
   4 some other linked message type, 5 an Any whose type URL does not resolve *)
Record request := mkRq { rq_kind : N; rq_full : bool; rq_data : bytes; rq_def : option rdef }.
(* stream types: 1 unary, 2 client stream, 3 server stream, 4 half-duplex bidi, 5 full-duplex bidi; 0 unspecified *)
(* t_get: use_get_http_method is set (and, for a unary case, the method is IdempotentUnary, whose request message
   IdempotentUnaryRequest is message kind 0 like UnaryRequest); such cases live in a suite of their own that
   relies_on_connect_get (relevant protocol: Connect only) *)
Record tcase := mkT { t_name : bytes; t_stype : N; t_reqheaders : list header; t_requests : list request; t_get : bool }.

Inductive outcome (A : Type) := Ok (a : A) | Err | Crash.
Arguments Ok {A} a. Arguments Err {A}. Arguments Crash {A}.

(* a request message as an Any: its type and its request data identify it *)
Definition req_any (r : request) : any := mkAny (rq_kind r) (rq_data r).
Definition reqs_any (rs : list request) : list any := map req_any rs.

Definition type_url (kind : N) : bytes :=
  if kind =? 0 then bs "type.googleapis.com/connectrpc.conformance.v1.Header"
  else bs "type.googleapis.com/connectrpc.conformance.v1.Error".
(* proto encoding of Header{name: b} (field 1) and Error{message: b} (field 2, explicit presence); b shorter than 128 bytes *)
Definition detail_bytes (kind : N) (b : bytes) : bytes :=
  match b with
  | [] => if kind =? 0 then [] else [18; 0]
  | _ => (if kind =? 0 then 10 else 18) :: N.of_nat (length b) :: b
  end.
(* detail Anys carry type 10 / 11 (never compared with request messages) *)
Definition det_any (kb : N * bytes) : any :=
  mkAny (10 + (if fst kb =? 0 then 0 else 1)) (detail_bytes (fst kb) (snd kb)).

(* Error proto -> the error a peer reports, with [extra] details appended *)
Definition conv_err (e : xerr) (extra : list detail) : rpc_error :=
  mkE (xe_code e) (xe_msg e) (map (fun kb => DOther (det_any kb)) (xe_details e) ++ extra).

(* RequestInfo with ConnectGetInfo.QueryParams = q (a nil ConnectGetInfo and an empty list are the same thing) *)
Definition infoq (q hdrs : list header) (reqs : list any) : reqinfo := mkRI hdrs None reqs q.
Definition info (hdrs : list header) (reqs : list any) : reqinfo := infoq [] hdrs reqs.

(* codecs: 1 proto, 2 json (Codec enum); populateExpectedUnaryResponse: json iff CODEC_JSON, proto otherwise *)
Definition codec_name (codec : N) : bytes := if codec =? 2 then bs "json" else bs "proto".
(* the query params a GET case expects to be echoed: "message", "base64" and "compression" are left out on purpose *)
Definition expected_query (codec : N) : list header :=
  [mkH (bs "encoding") [codec_name codec]; mkH (bs "connect") [bs "v1"]].

(* ------------------------------------------------------------------ *)
(* the expectation generator                                          *)
(* ------------------------------------------------------------------ *)
Inductive firstdef := FNone | FDef (d : rdef) | FErr.

(* UnmarshalNew of the first request + type assertion to unaryResponseDefiner / streamResponseDefiner *)
Definition first_def (unary : bool) (reqs : list request) : firstdef :=
  match reqs with
  | [] => FNone
  | r :: _ =>
    let k := rq_kind r in
    if (if unary then (k =? 0) || (k =? 1) else (k =? 2) || (k =? 3))
    then match rq_def r with Some d => FDef d | None => FNone end
    else FErr
  end.

Definition expected_unary (codec : N) (tc : tcase) : outcome result :=
  let ri := infoq (if t_get tc then expected_query codec else []) (t_reqheaders tc) (reqs_any (t_requests tc)) in
  match first_def true (t_requests tc) with
  | FErr => Err
  | FNone => Ok (mkR [] [] [mkP [] ri] None None 0)
  | FDef d =>
    match rd_err d with
    | Some e => Ok (mkR (rd_headers d) (rd_trailers d) [] (Some (conv_err e [DReq ri])) None 0)
    | None => Ok (mkR (rd_headers d) (rd_trailers d) [mkP (hd [] (rd_data d)) ri] None None 0)
    end
  end.

(* payload idx of a stream expectation.  The full-duplex branch reads RequestMessages[idx]: modelled with nth_error
   so that an index past the end is an explicit Crash; the guard idx < len is the one the repaired code has. *)
Definition expected_stream_payload (tc : tcase) (idx : nat) (data : bytes) : outcome payload :=
  if t_stype tc =? 5 then
    if Nat.ltb idx (length (t_requests tc)) then
      match nth_error (t_requests tc) idx with
      | None => Crash
      | Some r => Ok (mkP data (info (if Nat.eqb idx 0 then t_reqheaders tc else []) [req_any r]))
      end
    else Ok (mkP data empty_ri)
  else
    Ok (mkP data (if Nat.eqb idx 0 then info (t_reqheaders tc) (reqs_any (t_requests tc)) else empty_ri)).

Fixpoint expected_stream_payloads (tc : tcase) (idx : nat) (datas : list bytes) : outcome (list payload) :=
  match datas with
  | [] => Ok []
  | d :: ds =>
    match expected_stream_payload tc idx d, expected_stream_payloads tc (S idx) ds with
    | Ok p, Ok ps => Ok (p :: ps)
    | Crash, _ | _, Crash => Crash
    | _, _ => Err
    end
  end.

Definition expected_stream (tc : tcase) : outcome result :=
  match first_def false (t_requests tc) with
  | FErr => Err
  | FNone => Ok (mkR [] [] [] None None 0)
  | FDef d =>
    (* an immediate error carries the request info, with every request of the case, in its details *)
    let extra := match rd_data d with
                 | [] => [DReq (info (t_reqheaders tc) (reqs_any (t_requests tc)))]
                 | _ => [] end in
    match expected_stream_payloads tc 0 (rd_data d) with
    | Ok ps => Ok (mkR (rd_headers d) (rd_trailers d) ps (option_map (fun e => conv_err e extra) (rd_err d)) None 0)
    | Err => Err
    | Crash => Crash
    end
  end.

(* populateExpectedResponse for one permutation: the test case as expanded under a config case with that codec
   (the stream expectations never look at use_get_http_method) *)
Definition expected (codec : N) (tc : tcase) : outcome result :=
  let st := t_stype tc in
  if (st =? 1) || (st =? 2) then expected_unary codec tc
  else if (st =? 3) || (st =? 4) || (st =? 5) then expected_stream tc
  else Err.

(* ------------------------------------------------------------------ *)
(* loading a suite: expandCases' validations + expectations           *)
(* ------------------------------------------------------------------ *)
Fixpoint has_dup (l : list bytes) : bool :=
  match l with [] => false | x :: l' => mem_bytes x l' || has_dup l' end.

Fixpoint all_ok {A} (l : list (outcome A)) : outcome (list A) :=
  match l with
  | [] => Ok []
  | o :: l' =>
    match o, all_ok l' with
    | Ok a, Ok r => Ok (a :: r)
    | Crash, _ | _, Crash => Crash
    | _, _ => Err
    end
  end.

(* test cases whose stream type is none of the five known ones never match a config case: dropped silently *)
Definition expandable (tc : tcase) : bool := (1 <=? t_stype tc) && (t_stype tc <=? 5).

(* the GET cases form the suite "G" (relies_on_connect_get), the others the suite "V": a permutation's full name
   starts with the suite name, so names have to be distinct within each suite only *)
Definition suite_key (tc : tcase) : bytes := (if t_get tc then bs "G/" else bs "V/") ++ t_name tc.

(* newTestCaseLibrary under config cases with the given codecs: every expandable test case is expanded once per
   codec, populateExpectedResponses derives the expectation of every permutation *)
Definition load (codecs : list N) (tcs : list tcase) : outcome (list (bytes * N * result)) :=
  if existsb (fun tc => is_nil (t_name tc)) tcs then Err
  else if existsb (fun tc => t_stype tc =? 0) tcs then Err
  else
    let live := filter expandable tcs in
    if has_dup (map suite_key live) then Err
    else if is_nil live || is_nil codecs then Err
    else
      let perms := flat_map (fun tc => map (fun c => (tc, c)) codecs) live in
      match all_ok (map (fun p => expected (snd p) (fst p)) perms) with
      | Ok rs => Ok (combine (map (fun p => (suite_key (fst p), snd p)) perms) rs)
      | Err => Err
      | Crash => Crash
      end.

(* ------------------------------------------------------------------ *)
(* the servers: received request headers and messages -> wire         *)
(* ------------------------------------------------------------------ *)
Record wire := mkW { w_headers : list header; w_trailers : list header; w_msgs : list payload; w_err : option rpc_error }.

Definition empty_wire : wire := mkW [] [] [] None.
Definition def_headers (d : option rdef) : list header := match d with Some d => rd_headers d | None => [] end.
Definition def_trailers (d : option rdef) : list header := match d with Some d => rd_trailers d | None => [] end.

(* parseUnaryResponseDefinition: payload or error *)
Definition parse_unary (q hdrs : list header) (d : option rdef) (reqs : list any) : payload + rpc_error :=
  let ri := infoq q hdrs reqs in
  match d with
  | None => inl (mkP [] ri)
  | Some d =>
    match rd_err d with
    | Some e => inr (conv_err e [DReq ri])
    | None => inl (mkP (hd [] (rd_data d)) ri)
    end
  end.

Definition unary_wire (d : option rdef) (r : payload + rpc_error) : wire :=
  match r with
  | inl p => mkW (def_headers d) (def_trailers d) [p] None
  | inr e => mkW (def_headers d) (def_trailers d) [] (Some e)
  end.

(* a unary or server-stream handler is invoked with exactly one message; anything else never reaches it *)
Definition protocol_error : wire := mkW [] [] [] (Some (mkE 12 None [])).

(* [q] everywhere below: req.Peer().Query / stream.Peer().Query as the handler sees it (createRequestInfo sets
   ConnectGetInfo when it is not empty) *)
Definition srv_unary (q hdrs : list header) (reqs : list request) : wire :=
  match reqs with
  | [r] => unary_wire (rq_def r) (parse_unary q hdrs (rq_def r) [req_any r])
  | _ => protocol_error
  end.

(* ClientStream: the definition of the first message, every message recorded *)
Fixpoint recv_all (incoming : list request) (first : bool) (d : option rdef) (acc : list any) : option rdef * list any :=
  match incoming with
  | [] => (d, acc)
  | r :: more => recv_all more false (if first then rq_def r else d) (acc ++ [req_any r])
  end.

Definition srv_client_stream (q hdrs : list header) (reqs : list request) : wire :=
  let '(d, got) := recv_all reqs true None [] in
  unary_wire d (parse_unary q hdrs d got).

(* responses numbered from resp_num on; request info only with response 0 *)
Fixpoint flush (q hdrs : list header) (reqs : list any) (resp_num : nat) (datas : list bytes) : list payload :=
  match datas with
  | [] => []
  | d :: ds => mkP d (if Nat.eqb resp_num 0 then infoq q hdrs reqs else empty_ri) :: flush q hdrs reqs (S resp_num) ds
  end.

(* the error returned at the end: request info appended exactly when no response was sent *)
Definition final_err (q hdrs : list header) (reqs : list any) (resp_num : nat) (d : rdef) : option rpc_error :=
  option_map (fun e => conv_err e (if Nat.eqb resp_num 0 then [DReq (infoq q hdrs reqs)] else [])) (rd_err d).

Definition srv_server_stream (q hdrs : list header) (reqs : list request) : wire :=
  match reqs with
  | [r] =>
    match rq_def r with
    | None => empty_wire
    | Some d => mkW (rd_headers d) (rd_trailers d) (flush q hdrs [req_any r] 0 (rd_data d))
                    (final_err q hdrs [req_any r] (length (rd_data d)) d)
    end
  | _ => protocol_error
  end.

(* BidiStream, full-duplex receive loop after the first message fixed the definition: a request arrives; if no
   response is left the loop breaks (keeping that request as the only one since the last response), otherwise
   response resp_num goes out echoing it (headers only with response 0) and the pending list is reset. *)
Fixpoint full_loop (q hdrs : list header) (resp_num : nat) (datas : list bytes) (incoming : list request) {struct incoming}
  : list payload * nat * list bytes * list any (* sent, resp_num, data not yet sent, requests since the last response *) :=
  match incoming with
  | [] => ([], resp_num, datas, [])
  | r :: more =>
    match datas with
    | [] => ([], resp_num, [], [req_any r])
    | d :: ds =>
      let '(sent, rn, rest, pend) := full_loop q hdrs (S resp_num) ds more in
      (* the full request info (headers, query) with response 0 only; later ones carry RequestInfo{Requests} *)
      (mkP d (if Nat.eqb resp_num 0 then infoq q hdrs [req_any r] else info [] [req_any r]) :: sent, rn, rest, pend)
    end
  end.

Definition srv_bidi (q hdrs : list header) (reqs : list request) : wire :=
  match reqs with
  | [] => empty_wire                               (* end of input at once: no definition, nothing to send *)
  | r0 :: _ =>
    match rq_def r0 with
    | None => empty_wire
    | Some d =>
      if rq_full r0 then
        let '(sent, rn, rest, pend) := full_loop q hdrs 0 (rd_data d) reqs in
        mkW (rd_headers d) (rd_trailers d) (sent ++ flush q hdrs pend rn rest)
            (final_err q hdrs pend (rn + length rest) d)
      else
        let got := snd (recv_all reqs true None []) in
        mkW (rd_headers d) (rd_trailers d) (flush q hdrs got 0 (rd_data d)) (final_err q hdrs got (length (rd_data d)) d)
    end
  end.

Definition ref_server (st : N) (q hdrs : list header) (reqs : list request) : wire :=
  if st =? 1 then srv_unary q hdrs reqs
  else if st =? 2 then srv_client_stream q hdrs reqs
  else if st =? 3 then srv_server_stream q hdrs reqs
  else srv_bidi q hdrs reqs.

(* ---- grpcserver/impl.go: written separately, as the code is; grpc-go knows no query string, its createRequestInfo
   never sets ConnectGetInfo (the shared helpers of this model are used with q = []) ---- *)
Definition g_unary (hdrs : list header) (reqs : list request) : wire :=
  match reqs with
  | [r] =>
    (* SendHeader / SetTrailer first, then parseUnaryResponseDefinition *)
    match parse_unary [] hdrs (rq_def r) [req_any r] with
    | inr e => mkW (def_headers (rq_def r)) (def_trailers (rq_def r)) [] (Some e)
    | inl p => mkW (def_headers (rq_def r)) (def_trailers (rq_def r)) [p] None
    end
  | _ => protocol_error
  end.

Fixpoint g_recv_all (incoming : list request) (d : option (option rdef)) (acc : list any) : option (option rdef) * list any :=
  match incoming with
  | [] => (d, acc)
  | r :: more => g_recv_all more (match d with None => Some (rq_def r) | Some _ => d end) (acc ++ [req_any r])
  end.

Definition g_client_stream (hdrs : list header) (reqs : list request) : wire :=
  let '(d, got) := g_recv_all reqs None [] in
  let d := match d with Some d => d | None => None end in
  match parse_unary [] hdrs d got with
  | inr e => mkW (def_headers d) (def_trailers d) [] (Some e)
  | inl p => mkW (def_headers d) (def_trailers d) [p] None
  end.

Definition g_server_stream (hdrs : list header) (reqs : list request) : wire :=
  match reqs with
  | [r] =>
    match rq_def r with
    | None => empty_wire
    | Some d =>
      let msgs := flush [] hdrs [req_any r] 0 (rd_data d) in
      mkW (rd_headers d) (rd_trailers d) msgs (final_err [] hdrs [req_any r] (length msgs) d)
    end
  | _ => protocol_error
  end.

(* the gRPC server's loop tests the definition for nil inside the loop *)
Fixpoint g_full_loop (hdrs : list header) (d : option rdef) (resp_num : nat) (incoming : list request)
  : list payload * nat * list any :=
  match incoming with
  | [] => ([], resp_num, [])
  | r :: more =>
    match d with
    | None => ([], resp_num, [req_any r])
    | Some df =>
      match nth_error (rd_data df) resp_num with
      | None => ([], resp_num, [req_any r])
      | Some x =>
        let '(sent, rn, pend) := g_full_loop hdrs d (S resp_num) more in
        (mkP x (info (if Nat.eqb resp_num 0 then hdrs else []) [req_any r]) :: sent, rn, pend)
      end
    end
  end.

Definition g_bidi (hdrs : list header) (reqs : list request) : wire :=
  match reqs with
  | [] => empty_wire
  | r0 :: _ =>
    let d := rq_def r0 in
    let '(sent, rn, pend) :=
      if rq_full r0 then g_full_loop hdrs d 0 reqs else ([], 0%nat, snd (recv_all reqs true None [])) in
    match d with
    | None => empty_wire
    | Some df =>
      let rest := skipn rn (rd_data df) in
      mkW (rd_headers df) (rd_trailers df) (sent ++ flush [] hdrs pend rn rest) (final_err [] hdrs pend (rn + length rest) df)
    end
  end.

Definition grpc_server (st : N) (hdrs : list header) (reqs : list request) : wire :=
  if st =? 1 then g_unary hdrs reqs
  else if st =? 2 then g_client_stream hdrs reqs
  else if st =? 3 then g_server_stream hdrs reqs
  else g_bidi hdrs reqs.

(* ------------------------------------------------------------------ *)
(* the clients: what they report                                      *)
(* ------------------------------------------------------------------ *)
(* connect-go hands the metadata of a failed unary / client-stream call over as one bag (Error.Meta):
   per name, the header values followed by the trailer values *)
Definition meta_merge (hs ts : list header) : list header :=
  map (fun k => mkH k (all_vals hs k ++ all_vals ts k)) (dedup (map lname hs ++ map lname ts)).

(* bidiStream, full duplex: after each request sent, one receive; the first receive that yields no message
   (error or end of stream) ends the sending.  [avail] is what the server still has to deliver. *)
Fixpoint alternate (nreq : nat) (avail : list payload) : list payload * list payload (* received, still to come *) :=
  match nreq with
  | O => ([], avail)
  | S n =>
    match avail with
    | [] => ([], [])
    | p :: rest => let '(got, more) := alternate n rest in (p :: got, more)
    end
  end.

Definition stream_report (nreq : nat) (full : bool) (w : wire) : result :=
  let payloads := if full then let '(got, more) := alternate nreq (w_msgs w) in got ++ more else w_msgs w in
  mkR (w_headers w) (w_trailers w) payloads (w_err w) None 0.

Definition ref_client (st : N) (nreq : nat) (w : wire) : result :=
  if (st =? 1) || (st =? 2) then
    match w_err w with
    | Some e => mkR [] (meta_merge (w_headers w) (w_trailers w)) [] (Some e) None 0
    | None => mkR (w_headers w) (w_trailers w) (w_msgs w) None None 0
    end
  else stream_report nreq (st =? 5) w.

(* grpc-go reports header and trailer metadata separately for every kind of call *)
Definition grpc_client (st : N) (nreq : nat) (w : wire) : result :=
  if (st =? 1) || (st =? 2) then
    match w_err w with
    | Some e => mkR (w_headers w) (w_trailers w) [] (Some e) None 0
    | None => mkR (w_headers w) (w_trailers w) (w_msgs w) None None 0
    end
  else stream_report nreq (st =? 5) w.

(* ------------------------------------------------------------------ *)
(* one run                                                            *)
(* ------------------------------------------------------------------ *)
Section Run.
  Variable tr_req : list header -> list header.          (* request headers as the server's handler sees them *)
  (* the query params the handler sees: whether the call goes out as a Connect GET, codec, compression of the
     permutation -> Peer().Query (the reference client issues a GET exactly for a GET case) *)
  Variable tr_query : bool -> N -> N -> list header.
  Variable tr_rsp : wire -> wire.                        (* the response as the client's library hands it over *)
  Definition observed (server : N -> list header -> list header -> list request -> wire) (client : N -> nat -> wire -> result)
             (codec comp : N) (tc : tcase) : result :=
    client (t_stype tc) (length (t_requests tc))
           (tr_rsp (server (t_stype tc) (tr_query (t_get tc) codec comp) (tr_req (t_reqheaders tc)) (t_requests tc))).
End Run.

(* the gRPC server behind the common signature: whatever the query, it does not see one *)
Definition grpc_server_q (st : N) (q hdrs : list header) (reqs : list request) : wire := grpc_server st hdrs reqs.

(* what assert reads of the test case: stream type; no other acceptable codes in this fragment *)
Definition case_def (tc : tcase) : def := mkD (t_stype tc) [].

Definition verdict_errs tr_req tr_query tr_rsp server client (codec comp : N) (tc : tcase) : outcome (list errkind) :=
  match expected codec tc with
  | Ok e => Ok (assert_errs (case_def tc) e (observed tr_req tr_query tr_rsp server client codec comp tc))
  | Err => Err
  | Crash => Crash
  end.

(* ------------------------------------------------------------------ *)
(* well-formed test cases of the deterministic fragment               *)
(* ------------------------------------------------------------------ *)
Definition is_tchar (c : N) : bool :=
  ((48 <=? c) && (c <=? 57)) || ((65 <=? c) && (c <=? 90)) || ((97 <=? c) && (c <=? 122)) || (c =? 45) || (c =? 95).
(* names the protocols, the HTTP stack or the peers themselves set: excluded *)
Definition reserved_prefixes : list bytes :=
  [bs "connect-"; bs "grpc-"; bs "content-"; bs "accept-"; bs "trailer"; bs "transfer-"; bs "te"; bs "host";
   bs "user-agent"; bs "server"; bs "date"; bs "connection"; bs "upgrade"; bs "keep-alive"; bs "proxy-"; bs "x-expect-";
   bs "x-conformance-"; bs "x-test-case-name"].
Definition name_ok (n : bytes) : bool :=
  negb (is_nil n) && forallb is_tchar n && negb (existsb (fun p => has_prefix p (lower n)) reserved_prefixes).
(* field values: visible ASCII and inner spaces/tabs, no comma (commas split values: "repeated" values are
   separate list elements), no leading or trailing whitespace *)
Definition is_vchar (c : N) : bool := (33 <=? c) && (c <=? 126) && negb (c =? 44).
Definition value_ok (v : bytes) : bool :=
  match v with
  | [] => false
  | c :: _ => is_vchar c && is_vchar (last v 0) && forallb (fun c => is_vchar c || (c =? 32) || (c =? 9)) v
  end.
(* a -bin name carries base64 text without padding: checked by the generator, not needed by any proof *)
Definition header_ok (h : header) : bool :=
  name_ok (h_name h) && negb (is_nil (h_vals h)) && forallb value_ok (h_vals h).
Definition wf_headers (hs : list header) : bool :=
  forallb header_ok hs && negb (has_dup (map lname hs)).

Definition kind_of_stype (st : N) : N := if st =? 1 then 0 else if st =? 2 then 1 else if st =? 3 then 2 else 3.

Definition wf_def (d : rdef) : bool := wf_headers (rd_headers d) && wf_headers (rd_trailers d).

(* service.proto: the response definition and full_duplex are read from the FIRST message of a stream only
   ("should be ignored in subsequent messages"): later messages may carry any definition (with well-formed
   metadata) and any full_duplex flag *)
Definition first_full_ok (tc : tcase) : bool :=
  match t_requests tc with
  | [] => true
  | r :: _ => Bool.eqb (rq_full r) (t_stype tc =? 5)
  end.

Definition wf (tc : tcase) : bool :=
  expandable tc && negb (is_nil (t_name tc))
  && wf_headers (t_reqheaders tc)
  && forallb (fun r => (rq_kind r =? kind_of_stype (t_stype tc))
                       && match rq_def r with Some d => wf_def d | None => true end) (t_requests tc)
  && first_full_ok tc
  && (if (t_stype tc =? 1) || (t_stype tc =? 3) then Nat.eqb (length (t_requests tc)) 1 else true)
  (* Connect GET is defined for unary calls only (IdempotentUnary is the one side-effect-free method) *)
  && (negb (t_get tc) || (t_stype tc =? 1)).

(* full-duplex stream, several requests, no response data, an error: the generator's expectation lists every
   request in the error's request info, the servers have seen only the first one when they must fail
   (known finding, see KNOWN_FINDINGS.txt class fd-immediate-error-multi) *)
Definition fd_immediate_error_multi (tc : tcase) : bool :=
  (t_stype tc =? 5) && Nat.ltb 1 (length (t_requests tc))
  && match first_def false (t_requests tc) with
     | FDef d => is_nil (rd_data d) && is_some (rd_err d)
     | _ => false
     end.

(* ------------------------------------------------------------------ *)
(* projections compared with the Go side                              *)
(* ------------------------------------------------------------------ *)
Fixpoint strip_spaces_l (s : bytes) : bytes :=
  match s with 32 :: s' => strip_spaces_l s' | _ => s end.
Definition strip_spaces (s : bytes) : bytes := rev (strip_spaces_l (rev (strip_spaces_l s))).
Definition split_vals (vals : list bytes) : list bytes :=
  flat_map (fun v => map strip_spaces (split_on 44 v)) vals.
Definition vals_for (n : bytes) (hs : list header) : list bytes :=
  flat_map (fun h => if bytes_eqb (lname h) n then split_vals (h_vals h) else []) hs.
(* restrict to [names] (lower case), one entry per name present, sorted, values cut at commas in order of appearance *)
Definition project (hs : list header) (names : list bytes) : list header :=
  map (fun n => mkH n (vals_for n hs))
      (sort_bytes (dedup (filter (fun n => mem_bytes n names) (map lname hs)))).

Definition sx_header (h : header) : sx := L [B (h_name h); L (map B (h_vals h))].
Definition sx_headers (hs : list header) : sx := L (map sx_header hs).
Definition sx_any (a : any) : sx := L [sx_N (a_ty a); B (a_data a)].
(* of the query params only these are compared ("message" and "base64" depend on the encoder) *)
Definition query_names : list bytes := [bs "encoding"; bs "connect"; bs "compression"].
Definition sx_info (rq : list bytes) (ri : reqinfo) : sx :=
  L [sx_headers (project (ri_headers ri) rq); L (map sx_any (ri_requests ri));
     match ri_timeout ri with None => L [] | Some z => L [I z] end;
     sx_headers (project (ri_query ri) query_names)].
Definition sx_detail (rq : list bytes) (d : detail) : sx :=
  match d with
  | DOther a => L [I 0; B (type_url (a_ty a - 10)); B (a_data a)]
  | DReq ri => L [I 1; sx_info rq ri]
  end.
Definition sx_rerr (rq : list bytes) (o : option rpc_error) : sx :=
  match o with
  | None => L []
  | Some e => L [L [sx_N (e_code e); B (msg_text (e_msg e));
                    L (map (sx_detail rq) (e_details e))]]
  end.
Definition sx_payload (rq : list bytes) (p : payload) : sx := L [B (p_data p); sx_info rq (p_info p)].
Definition sx_result (rq rsp : list bytes) (r : result) : sx :=
  L [sx_headers (project (r_headers r) rsp); sx_headers (project (r_trailers r) rsp);
     L (map (sx_payload rq) (r_payloads r)); sx_rerr rq (r_error r)].

(* ---------- decoding ---------- *)
Definition un_xerr (s : sx) : option xerr :=
  match s with
  | L [I c; m; L ds] =>
    do m <- un_opt un_B m;
    do ds <- un_list (fun d => match d with L [I k; B b] => Some (Z.to_N k, b) | _ => None end) ds;
    ret (mkX (Z.to_N c) m ds)
  | _ => None
  end.
Definition un_rdef (s : sx) : option rdef :=
  match s with
  | L [hs; ts; ds; e] =>
    do hs <- un_listof un_header hs; do ts <- un_listof un_header ts;
    do ds <- un_listof un_B ds; do e <- un_opt un_xerr e;
    ret (mkRD hs ts ds e)
  | _ => None
  end.
Definition un_request (s : sx) : option request :=
  match s with
  | L [I k; I f; B d; df] => do df <- un_opt un_rdef df; ret (mkRq (Z.to_N k) (negb (f =? 0)%Z) d df)
  | _ => None
  end.
(* (name stype reqheaders requests) or (name stype reqheaders requests get) *)
Definition un_tcase (s : sx) : option tcase :=
  match s with
  | L [B n; I st; hs; rs] =>
    do hs <- un_listof un_header hs; do rs <- un_listof un_request rs;
    ret (mkT n (Z.to_N st) hs rs false)
  | L [B n; I st; hs; rs; I g] =>
    do hs <- un_listof un_header hs; do rs <- un_listof un_request rs;
    ret (mkT n (Z.to_N st) hs rs (negb (g =? 0)%Z))
  | _ => None
  end.

(* every name any request's definition declares (only the first request's definition may show up) *)
Definition rsp_names (tc : tcase) : list bytes :=
  flat_map (fun r => map lname (def_headers (rq_def r)) ++ map lname (def_trailers (rq_def r))) (t_requests tc).
Definition req_names (tc : tcase) : list bytes := map lname (t_reqheaders tc).

(* entries grouped by key, keys sorted; the entries of one key (one per codec) stay in their order *)
Definition sort_by_key (l : list (bytes * sx)) : list (bytes * sx) :=
  let keys := sort_bytes (dedup (map fst l)) in
  flat_map (fun n => filter (fun e => bytes_eqb (fst e) n) l) keys.

(* (tests) -> (err load) | crash | per permutation of the library built under the two codecs (proto, json), sorted by
   suite/name, then codec: (suite/name codec expected), the expectation projected on every name it carries *)
Definition expect_codecs : list N := [1; 2].
Definition run_c02_expect (args : list sx) : sx :=
  or_bad (match args with
  | [ts] =>
    do tcs <- un_listof un_tcase ts;
    match load expect_codecs tcs with
    | Crash => ret sx_crash
    | Err => ret (sx_err "load")
    | Ok rs =>
      ret (L (map snd
                  (sort_by_key (map (fun nr =>
                     let key := fst (fst nr) in
                     let r := snd nr in
                     let tcn := find (fun tc => bytes_eqb (suite_key tc) key) (filter expandable tcs) in
                     let rq := match tcn with Some tc => req_names tc | None => [] end in
                     (key, L [B key; sx_N (snd (fst nr));
                              sx_result rq (map lname (r_headers r) ++ map lname (r_trailers r)) r])) rs))))
    end
  | _ => None end).

(* which config cases a pair of peers runs (C06/C07 and filterGRPCImplTestCases):
   cfg = (http-version protocol codec compression tls).  A GET case sits in the suite that relies_on_connect_get:
   Connect only (expandSuite rejects anything else), identity only (the reference client never compresses a GET
   request of this size: the maintainers' restriction in connect_with_get.yaml), hence never with a gRPC peer. *)
Definition applicable (grpc_cl grpc_sv : bool) (cfg : list Z) (st : N) (get : bool) : bool :=
  match cfg with
  | [ver; proto; codec; comp; tls] =>
    negb ((ver =? 1)%Z && (st =? 5)) && negb ((proto =? 2)%Z && negb (ver =? 2)%Z) &&
    (if get then (proto =? 1)%Z && (comp =? 1)%Z else true) &&
    (if grpc_cl || grpc_sv then
       negb (proto =? 1)%Z && (if grpc_cl then (proto =? 2)%Z else true) &&
       (if (proto =? 3)%Z then (ver =? 1)%Z || (ver =? 2)%Z else (ver =? 2)%Z) &&
       (codec =? 1)%Z && ((comp =? 1)%Z || (comp =? 2)%Z) && (tls =? 0)%Z
     else true)
  | _ => false
  end.

Definition cfg_ok (cfg : list Z) : bool :=
  match cfg with
  | [ver; proto; codec; comp; tls] =>
    (((ver =? 1) || (ver =? 2)) && ((1 <=? proto) && (proto <=? 3)) && ((codec =? 1) || (codec =? 2))
     && ((1 <=? comp) && (comp <=? 6)) && ((tls =? 0) || (tls =? 1)))%Z
  | _ => false
  end.
Definition cfg_codec (cfg : list Z) : N := Z.to_N (nth 2 cfg 0%Z).
Definition cfg_comp (cfg : list Z) : N := Z.to_N (nth 3 cfg 0%Z).

Definition id_hdrs (hs : list header) : list header := hs.
Definition id_wire (w : wire) : wire := w.
(* the query string of a Connect GET request as connect-go writes it (buildGetURL): connect=v1, encoding=<codec>,
   message=<the request, opaque here>, base64=1 for a binary codec, compression only when the request was
   compressed (never here); a POST has no query string *)
Definition std_query (get : bool) (codec comp : N) : list header :=
  if get then
    (if codec =? 2 then [] else [mkH (bs "base64") [bs "1"]])
    ++ [mkH (bs "connect") [bs "v1"]; mkH (bs "encoding") [if codec =? 2 then bs "json" else bs "proto"];
        mkH (bs "message") [[]]]
  else [].

(* ---- which HTTP method the reference client's set-up picks (referenceclient/client.go, invoke) ----
   connect.WithHTTPGet() makes connect-go issue calls of side-effect-free methods as GET; the one further option that
   has a say is connect.WithHTTPGetMaxURLSize(n, fallback): URLs longer than n go out as POST (or fail).  The
   conformance runner expects GET for every case that sets use_get_http_method (x-expect-http-method in
   server_runner.go, connect_get_info in populateExpectedUnaryResponse) WHATEVER the size of the message, so the
   documented set-up is: GET enabled, no cap on the URL.  The options the code installs are regenerated into
   C02_Consts.v (1 = WithHTTPGet, 2 = WithHTTPGetMaxURLSize, in source order). *)
Record get_setup := mkGS { gs_enabled : bool; gs_url_cap : option Z }.
Definition sent_as_get (s : get_setup) (use_get : bool) (url_len : Z) : bool :=
  gs_enabled s && use_get && match gs_url_cap s with None => true | Some m => (url_len <=? m)%Z end.
Definition documented_get_setup : get_setup := mkGS true None.
Definition setup_of (options : list Z) (cap : Z) : get_setup :=
  mkGS (existsb (Z.eqb 1) options) (if existsb (Z.eqb 2) options then Some cap else None).
(* the URL of a GET carries the whole request message: it is at least as long as the request data *)
Definition url_floor (tc : tcase) : Z :=
  fold_right (fun r a => (Z.of_nat (length (rq_data r)) + a)%Z) 0%Z (t_requests tc).
(* the query the reference server's handler sees for a permutation of [tc] sent by the reference client *)
Definition ref_client_query (tc : tcase) (use_get : bool) (codec comp : N) : list header :=
  std_query (sent_as_get documented_get_setup use_get (url_floor tc)) codec comp.

(* ((grpc-client grpc-server) (cfg ...) (test ...)) -> per config case in the given order, per applicable test in the
   given order: (name cfg verdict observed).  The verdict is the one the property demands of a well-formed case;
   a case that is not well-formed is a bad case (so is a batch that uses one name twice: the harness looks results
   up by name). *)
Definition run_c02_live (args : list sx) : sx :=
  or_bad (match args with
  | [L [I gc; I gs]; L cfgs; ts] =>
    do tcs <- un_listof un_tcase ts;
    do cfgs <- un_list (un_listof un_I) cfgs;
    let gc := negb (gc =? 0)%Z in let gs := negb (gs =? 0)%Z in
    if negb (forallb wf tcs) || negb (forallb cfg_ok cfgs) || has_dup (map t_name tcs) then None
    else match load expect_codecs tcs with
    | Crash => ret sx_crash
    | Err => ret (sx_err "load")
    | Ok _ =>
      let server := if gs then grpc_server_q else ref_server in
      let client := if gc then grpc_client else ref_client in
      ret (L (flat_map (fun cfg =>
            map (fun tc =>
                   L [B (t_name tc); L (map I cfg); B (bs "pass");
                      sx_result (req_names tc) (rsp_names tc)
                                (observed id_hdrs (ref_client_query tc) id_wire server client (cfg_codec cfg) (cfg_comp cfg) tc)])
                (filter (fun tc => applicable gc gs cfg (t_stype tc) (t_get tc)) tcs)) cfgs))
    end
  | _ => None end).

Definition c02_table : list (bytes * (list sx -> sx)) :=
  [ (bs "c02.expect", run_c02_expect); (bs "c02.live", run_c02_live) ].
