(* C03_Spec.v — when do an expected and an actual result AGREE?  Written from the
   property text and docs/testing_{clients,servers}.md, as a conjunction of
   declarative conditions; no reference to the order or the structure of the
   checks in results.go.  The only function borrowed from the model is the value
   canonicalisation [canon_vals] ("values joined or split on commas"), which
   C03_Props characterises separately (canon_idempotent / canon_join / canon_split). *)
From V Require Export C03_Model.
Open Scope N_scope.

(* The values a header list carries under a name: those of its LAST entry with
   that name, names compared case-insensitively. *)
Inductive carries : list header -> bytes -> list bytes -> Prop :=
| carries_intro pre h post n :
    lower (h_name h) = lower n ->
    Forall (fun h' => lower (h_name h') <> lower n) post ->
    carries (pre ++ h :: post) n (h_vals h).

(* value lists agree when they are equal after cutting at commas (one space next
   to a cutting comma is insignificant) *)
Definition same_values (vs ws : list bytes) : Prop := canon_vals vs = canon_vals ws.

(* every expected entry is carried by the actual list; anything else the actual
   list carries is ignored (extra metadata) *)
Definition included (e a : list header) : Prop :=
  forall h, In h e -> exists vs, carries a (h_name h) vs /\ same_values (h_vals h) vs.

(* echoed timeout: inside [max 0 (t - grace), t], or absent on both sides *)
Definition timeout_agree (e a : option Z) : Prop :=
  match e, a with
  | None, None => True
  | Some t, Some x => (Z.max 0 (t - grace) <= x <= t)%Z
  | _, _ => False
  end.

(* echoed requests: same messages in the same order (both decodable) *)
Definition request_agree (e a : any) : Prop := resolvable e = true /\ a = e.

(* request info; headers, timeout and query parameters are echoed with the first
   response only (and inside error details) *)
Definition reqinfo_agree (first : bool) (e a : reqinfo) : Prop :=
  (first = true ->
     included (ri_headers e) (ri_headers a)
     /\ timeout_agree (ri_timeout e) (ri_timeout a)
     /\ included (ri_query e) (ri_query a))
  /\ Forall2 request_agree (ri_requests e) (ri_requests a).

(* payloads: same number, and at every index the same bytes and agreeing request info *)
Definition payloads_agree (e a : list payload) : Prop :=
  length e = length a /\
  forall i pe pa, nth_error e i = Some pe -> nth_error a i = Some pa ->
    p_data pe = p_data pa /\ reqinfo_agree (Nat.eqb i 0) (p_info pe) (p_info pa).

Definition detail_agree (e a : detail) : Prop :=
  match e, a with
  | DReq re, DReq ra => reqinfo_agree true re ra
  | DOther x, DOther y => x = y
  | _, _ => False
  end.

(* error: present on both sides or on neither; code equal or among the other
   allowed codes; message equal when one is specified; details pairwise *)
Definition error_agree (other : list N) (e a : option rpc_error) : Prop :=
  match e, a with
  | None, None => True
  | Some e, Some a =>
    (e_code a = e_code e \/ In (e_code a) other)
    /\ (forall m, e_msg e = Some m -> msg_text (e_msg a) = m)
    /\ Forall2 detail_agree (e_details e) (e_details a)
  | _, _ => False
  end.

(* response metadata.  Normally headers and trailers are each included.  For an
   expected error without payloads on a unary or client-stream call the peer may
   have merged both into one bag and reported it as headers or as trailers:
   then, for every expected name, that bag must carry the expected header values
   followed by the expected trailer values. *)
Definition expected_name (e : result) (n : bytes) : Prop :=
  exists h, In h (r_headers e ++ r_trailers e) /\ lower (h_name h) = n.
Definition merged_vals (e : result) (n : bytes) : list bytes :=
  last_vals (r_headers e) n ++ all_vals (r_trailers e) n.
Definition merged_included (e : result) (bag : list header) : Prop :=
  forall n, expected_name e n -> exists vs, carries bag n vs /\ same_values (merged_vals e n) vs.
Definition may_merge (d : def) (e : result) : Prop :=
  r_payloads e = [] /\ r_error e <> None /\ (d_stream d = stream_unary \/ d_stream d = stream_client).

Definition metadata_agree (d : def) (e a : result) : Prop :=
  (included (r_headers e) (r_headers a) /\ included (r_trailers e) (r_trailers a))
  \/ (may_merge d e /\ (merged_included e (r_headers a) \/ merged_included e (r_trailers a))).

(* HTTP status: compared only when both sides state one *)
Definition status_agree (e a : option Z) : Prop :=
  forall x y, e = Some x -> a = Some y -> x = y.

(* Nothing is required of the unsent-request count (r_unsent). *)
Definition agree (d : def) (e a : result) : Prop :=
  error_agree (d_other_codes d) (r_error e) (r_error a)
  /\ payloads_agree (r_payloads e) (r_payloads a)
  /\ metadata_agree d e a
  /\ status_agree (r_status e) (r_status a).
