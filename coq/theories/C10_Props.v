From V Require Import C10_Spec C10_Proofs.
