(* C10_Props.v — the property theorems of C10 and nothing else.
   `run h` is the state of the (repaired) clientProcessRunner after the ARBITRARY action list h:
   any number of requests, any names (duplicates included), any bytes on the client's stdout in
   any chunking, stdout/stdin closed or the process gone at any point, and any interleaving of
   the senders, the reader goroutine, the exit notice, closeSend, stop and waitForResponses
   (one action = one lock region / atomic operation / pipe operation of client_runner.go), and any
   behaviour of the write path (request that cannot be marshalled, closed pipe, any other pipe error). *)
From V Require Import C10_Consts C10_Spec C10_Proofs C10_LimitProofs.
Open Scope N_scope.

(* never twice *)
Theorem at_most_once : forall h i, (times_fired i (run h) <= 1)%nat.
Proof. exact at_most_once_proof. Qed.
Print Assumptions at_most_once.

(* once the reader has exited (what waitForResponses waits for): a request that sendRequest
   accepted has had its callback invoked exactly once, one that was refused (or never sent) never *)
Theorem exactly_once : forall h i,
  reader_exited (run h) ->
  (accepted (run h) i -> times_fired i (run h) = 1%nat) /\
  (refused (run h) i -> times_fired i (run h) = 0%nat) /\
  (not_called (run h) i -> times_fired i (run h) = 0%nat).
Proof. exact exactly_once_proof. Qed.
Print Assumptions exactly_once.

(* a response callback carries the request's own test name and a message that the client
   really wrote, as a well-formed frame, on its stdout *)
Theorem own_response : forall h i n tag,
  In (i, OResp n tag) (run h).(fired) -> (run h).(rname) i = n /\ client_wrote h n tag.
Proof. exact own_response_proof. Qed.
Print Assumptions own_response.

(* ... and an error callback is invoked with the request's own test name too *)
Theorem failure_names_request : forall h i n e,
  In (i, OFail n e) (run h).(fired) -> (run h).(rname) i = n.
Proof. exact failure_names_request_proof. Qed.
Print Assumptions failure_names_request.

(* if the client answers a pending request with a well-formed message, that request's callback
   gets exactly this response and the reader keeps going *)
Theorem response_delivered : forall s m rest n tag i,
  s.(rd) = RRun -> next_item s.(buf) = IMsg m rest -> decode m = Some (n, tag) ->
  lookup n s.(pending) = Some i ->
  (step s RStep).(fired) = s.(fired) ++ [(i, OResp n tag)] /\ (step s RStep).(rd) = RRun.
Proof. exact response_delivered_proof. Qed.
Print Assumptions response_delivered.

(* after a failure of the client (truncated, oversized, garbled output, unknown or already
   answered test) - and likewise once the reader has closed the send side after a clean end of
   output - a request not yet handed over is refused, whatever happens later, and its
   callback is never invoked *)
Theorem refused_after_failure : forall h h' i,
  reader_gone (run h) -> not_called (run h) i ->
  let s := run (h ++ h') in
  ~ accepted s i /\ s.(phase_of) i <> Writing /\ times_fired i s = 0%nat.
Proof. exact refused_after_failure_proof. Qed.
Print Assumptions refused_after_failure.

(* after a failure the runner reports the client as not running, for good *)
Theorem not_running_after_failure : forall h h',
  reader_failed (run h) -> is_running (run (h ++ h')) = false.
Proof. intros h h' H. exact (proj2 (after_failure_proof h h' H)). Qed.
Print Assumptions not_running_after_failure.

(* ... and also once the process's exit has been noticed, and after stop() *)
Theorem not_running_after_exit : forall h h',
  (run h).(noticed) = true -> is_running (run (h ++ h')) = false.
Proof. exact not_running_after_exit_proof. Qed.
Print Assumptions not_running_after_exit.

Theorem not_running_after_stop : forall h h', is_running (run (h ++ Stop :: h')) = false.
Proof. exact not_running_after_stop_proof. Qed.
Print Assumptions not_running_after_stop.

(* the code as pinned (exit notice stores false) violates this: client gone, reader exited,
   notice delivered, isRunning() still true *)
Theorem pinned_is_running_refuted :
  exists h, let s := run_with false h in
    reader_exited s /\ s.(alive) = false /\ s.(noticed) = true /\ is_running s = true.
Proof. exact pinned_is_running_refuted_proof. Qed.
Print Assumptions pinned_is_running_refuted.

(* once the reader has exited no operation is pending, and waitForResponses returns *)
Theorem nothing_pending_after_exit : forall h,
  reader_exited (run h) -> (run h).(pending) = [] /\ (run h).(closed) = true.
Proof. exact nothing_pending_after_exit_proof. Qed.
Print Assumptions nothing_pending_after_exit.

Theorem wait_returns : forall h,
  reader_exited (run h) -> (step (run h) Wait).(wait_ret) <> None.
Proof. exact wait_returns_proof. Qed.
Print Assumptions wait_returns.

(* no deadlock: from EVERY reachable state the system completes as soon as the client process
   ends (the environment's only obligation): the in-flight writer returns, the reader exits,
   nothing is pending and sendMu is free ... *)
Theorem no_deadlock : forall h failed,
  let s' := run_from (run h) (wind_down failed (run h)) in
  reader_exited s' /\ s'.(mu) = None /\ s'.(pending) = [] /\ (forall i, s'.(phase_of) i <> Writing).
Proof. exact no_deadlock_proof. Qed.
Print Assumptions no_deadlock.

(* ... a sender inside its write always has an enabled way out (the client reads, or its stdin is gone,
   or the request cannot be written at all) ... *)
Theorem writer_never_stuck : forall h i,
  in_its_write (run h) i ->
  (step (run h) (WriteOk i)).(phase_of) i = Ret None \/
  exists w r, (step (run h) (WriteFail i w)).(phase_of) i = Ret r.
Proof. exact writer_never_stuck_proof. Qed.
Print Assumptions writer_never_stuck.

(* ... and a sender that was waiting for sendMu then gets it and is refused *)
Theorem parked_sender_returns : forall h i,
  reader_exited (run h) -> (run h).(mu) = None -> (run h).(phase_of) i = Checked ->
  (step (run h) (SendLock i)).(phase_of) i = Ret (Some EClosed).
Proof. exact parked_sender_returns_proof. Qed.
Print Assumptions parked_sender_returns.

(* ... and the end of the client process - whether its function returned nil or an error, at any
   point, also while a sender is inside its write - closes the client's stdin and stdout, so that
   writer returns (process.go: runInProcess's clean-up) *)
Theorem exit_unblocks_writer : forall h failed peek i,
  in_its_write (run h) i ->
  let s := step (run h) (ProcExit failed peek) in
  s.(in_open) = false /\ s.(out_open) = false /\
  exists r, (step s (WriteFail i (wfail_for (s.(req_of) i)))).(phase_of) i = Ret r.
Proof. exact exit_unblocks_writer_proof. Qed.
Print Assumptions exit_unblocks_writer.

(* a request for which sendRequest returned an error - at the err check, as a duplicate, because the
   send side is closed, or because its write failed in whatever way (marshalling, closed pipe, any
   other pipe error) - stays refused and its callback is never invoked, whatever happens later
   (not only once the reader has exited) *)
Theorem refused_is_clean : forall h h' i,
  refused (run h) i ->
  let s := run (h ++ h') in refused s i /\ times_fired i s = 0%nat.
Proof. exact refused_is_clean_proof. Qed.
Print Assumptions refused_is_clean.

(* ... and when the write of a registered request fails with an error, the request's name is free
   again: a request with the same test name that is waiting for sendMu is registered and written
   next (or finds the send side closed) - it is not refused as a duplicate *)
Theorem name_free_after_failed_write : forall h i w j,
  in_its_write (run h) i ->
  let s := step (run h) (WriteFail i w) in
  refused s i -> at_the_door s j -> s.(rname) j = s.(rname) i ->
  let s' := step s (SendLock j) in
  in_its_write s' j \/ s'.(phase_of) j = Ret (Some EClosed).
Proof. exact name_free_after_failed_write_proof. Qed.
Print Assumptions name_free_after_failed_write.

(* ---- non-vacuity ---- *)
Definition a := bs "a".
Definition b := bs "b".
Definition fa := frame (encode a (bs "ra")).
Definition fb := frame (encode b (bs "rb")).
Definition sent (i : N) (n : name) := [SendCheck i n QOk; SendLock i; WriteOk i].

(* answers in the other order; then a clean exit *)
Example ex_shuffled :
  let s := run (sent 0 a ++ sent 1 b ++ [COut (fb ++ fa); RStep; RStep; ProcExit false false; ExitNotice; RStep; RClose; RDrain; Wait]) in
  (s.(fired), s.(wait_ret), is_running s, s.(rd))
  = ([(1, OResp b (bs "rb")); (0, OResp a (bs "ra"))], Some None, false, RDone).
Proof. vm_compute. reflexivity. Qed.

Example ex_shuffled_fired :
  (run (sent 0 a ++ sent 1 b ++ [COut (fb ++ fa); RStep; RStep])).(fired)
  = [(1, OResp b (bs "rb")); (0, OResp a (bs "ra"))].
Proof. vm_compute. reflexivity. Qed.

(* output cut inside b's answer: a got its response, b an error; the runner is not running; a later send is refused *)
Example ex_truncated :
  let s := run (sent 0 a ++ sent 1 b ++ [COut (fa ++ firstn 7 fb); CCloseOut; RStep; RStep; RClose; RDrain;
                                         SendCheck 2 (bs "c") QOk; SendLock 2]) in
  (s.(fired), s.(phase_of) 2, is_running s, s.(rd))
  = ([(0, OResp a (bs "ra")); (1, OFail b (Some RUnexp))], Ret (Some (EReason RUnexp)), false, RDone).
Proof. vm_compute. reflexivity. Qed.

(* the client answers while the request is still being written, then dies: the write fails,
   sendRequest still returns nil ("concurrently removed"), the callback fired once *)
Example ex_answer_before_write_returns :
  let s := run [SendCheck 0 a QOk; SendLock 0; COut fa; RStep; ProcExit false false; WriteFail 0 WClosed] in
  (s.(phase_of) 0, s.(fired), s.(mu)) = (Ret None, [(0, OResp a (bs "ra"))], None).
Proof. vm_compute. reflexivity. Qed.

(* the write fails with the request unanswered: refused, never fired *)
Example ex_write_fails :
  let s := run [SendCheck 0 a QOk; SendLock 0; ProcExit false false; WriteFail 0 WClosed; RStep; RClose; RDrain] in
  (s.(phase_of) 0, s.(fired), s.(err)) = (Ret (Some EClosed), [], Some EClosed).
Proof. vm_compute. reflexivity. Qed.

(* duplicate name while pending; unknown name; already answered *)
Example ex_duplicate_request :
  (run (sent 0 a ++ [SendCheck 1 a QOk; SendLock 1])).(phase_of) 1 = Ret (Some EDup).
Proof. vm_compute. reflexivity. Qed.
Example ex_already_answered :
  (run (sent 0 a ++ [COut (fa ++ fa); RStep; RStep])).(rd) = RStop1 RDupResp.
Proof. vm_compute. reflexivity. Qed.
Example ex_unknown :
  (run (sent 0 a ++ [COut fb; RStep])).(rd) = RStop1 RUnknown.
Proof. vm_compute. reflexivity. Qed.
Example ex_oversize :
  (run (sent 0 a ++ [COut [1; 0; 0; 1]; RStep])).(rd) = RStop1 ROversize.
Proof. vm_compute. reflexivity. Qed.

(* hypotheses are inhabited *)
Example ex_reader_failed : reader_failed (run (sent 0 a ++ [COut fb; RStep])).
Proof. exists RUnknown. split; [discriminate|]. left. vm_compute. reflexivity. Qed.
Example ex_client_wrote : client_wrote (sent 0 a ++ [COut (fb ++ fa)]) a (bs "ra").
Proof.
  exists fb, (firstn 4 fa), (encode a (bs "ra")), []. vm_compute. repeat split; reflexivity.
Qed.
Example ex_parked :
  let s := run [SendCheck 0 a QOk; CCloseOut; RStep; RClose; RDrain] in
  reader_exited s /\ s.(mu) = None /\ s.(phase_of) 0 = Checked.
Proof. vm_compute. repeat split; reflexivity. Qed.

(* a request in second position that cannot be marshalled: refused with the write path's own error,
   never called back (the drain at the end fails request 0 only), and the error is sticky *)
Example ex_marshal_failure :
  let s := run (sent 0 a ++ [SendCheck 1 b QBad; SendLock 1; WriteFail 1 WMarshal; SendCheck 2 b QOk;
                             ProcExit false false; RStep; RClose; RDrain]) in
  (s.(phase_of) 1, s.(phase_of) 2, s.(fired), s.(pending))
  = (Ret (Some EWrite), Ret (Some EWrite), [(0, OFail a None)], []).
Proof. vm_compute. reflexivity. Qed.

(* the client's stdin fails in the middle of request 0 with an error that is not a closed pipe,
   while request 1 (same name) waits for sendMu: 0 is refused and never called back, 1 is registered *)
Example ex_name_free :
  let s := run [SendCheck 0 a (QFailAt 5); SendLock 0; SendCheck 1 a QOk; WriteFail 0 WOther; SendLock 1] in
  (s.(phase_of) 0, s.(phase_of) 1, s.(pending), s.(fired)) = (Ret (Some EWrite), Writing, [(a, 1)], []).
Proof. vm_compute. reflexivity. Qed.
Example ex_name_free_hyps :
  let h := [SendCheck 0 a (QFailAt 5); SendLock 0; SendCheck 1 a QOk] in
  in_its_write (run h) 0 /\ refused (step (run h) (WriteFail 0 WOther)) 0 /\ at_the_door (step (run h) (WriteFail 0 WOther)) 1.
Proof. split; [|split]; [vm_compute; reflexivity|exists EWrite; vm_compute; reflexivity|vm_compute; reflexivity]. Qed.

(* the client function returns nil while request 1 is being written: stdin is closed, the writer
   gets its error, the reader exits, request 0 is failed, waitForResponses returns *)
Example ex_early_clean_exit :
  let h := sent 0 a ++ [SendCheck 1 b QOk; SendLock 1] in
  let s := run_from (run h) (wind_down false (run h) ++ [Wait]) in
  (s.(phase_of) 1, s.(fired), s.(rd), s.(wait_ret)) = (Ret (Some EClosed), [(0, OFail a None)], RDone, Some (Some EClosed)).
Proof. vm_compute. reflexivity. Qed.

(* the free-running scenario of c10.proc *)
Example ex_proc_script :
  let s := run (proc_script [a; b; bs "c"] 2 [1] false) in
  (s.(phase_of) 0, s.(phase_of) 1, s.(phase_of) 2, s.(fired), s.(wait_ret), is_running s)
  = (Ret None, Ret None, Ret (Some EClosed), [(1, OResp b (bs "r-b")); (0, OFail a None)], Some (Some EClosed), false).
Proof. vm_compute. reflexivity. Qed.

(* ====================================================================== *)
(* the two response-size limits: which reader is handed which             *)
(* ====================================================================== *)
(* consumeOutput's reader is handed the CLIENT limit (maxClientResponseSize), not the limit of the
   server-response reader (maxServerResponseSize); both constants are regenerated from the compiled
   code into C10_Consts.v, so this is re-proved against the values the code has now.  For ALL sizes:
   an answer of encoded size <= the client limit - in particular every size in the window between
   the two limits, which exists - is delivered to its own test's callback, exactly once whatever
   happens later, with no failure recorded and every other pending test untouched; a size above the
   client limit stops the reader right after the 4-byte prefix and delivers nothing. *)
Theorem limits_wired :
  (limit_of ClientOutputReader = c10_max_response /\ limit_of ServerResponseReader = c10_max_server_response) /\
  c10_max_server_response < c10_max_response /\
  (forall size, reader_accepts ClientOutputReader size = true <-> size <= c10_max_response) /\
  (forall s m rest n tag i,
     s.(rd) = RRun -> s.(buf) = frame m ++ rest -> decode m = Some (n, tag) -> lookup n s.(pending) = Some i ->
     N.of_nat (length m) <= c10_max_response ->
     delivered_to s (step s RStep) i n tag rest) /\
  (forall h m rest n tag i h',
     (run h).(rd) = RRun -> (run h).(buf) = frame m ++ rest -> decode m = Some (n, tag) ->
     lookup n (run h).(pending) = Some i -> N.of_nat (length m) <= c10_max_response ->
     let s := run (h ++ RStep :: h') in
     times_fired i s = 1%nat /\ In (i, OResp n tag) s.(fired)) /\
  (forall s size body,
     s.(rd) = RRun -> s.(buf) = be32 size ++ body -> c10_max_response < size < 4294967296 ->
     let s' := step s RStep in
     s'.(rd) = RStop1 ROversize /\ s'.(fired) = s.(fired) /\ s'.(pending) = s.(pending) /\ s'.(term) = true).
Proof. exact limits_wired_proof. Qed.
Print Assumptions limits_wired.

(* the harness makes an answer as large as it likes with a padding field; such an answer decodes to
   the same (name, marker) as the plain one ... *)
Theorem padded_decodes_like_plain : forall n tag p,
  (length n < 128)%nat -> (length tag < 126)%nat -> p < 34359738368 ->
  decode (encode_padded n tag p) = Some (n, tag) /\ decode (encode n tag) = Some (n, tag).
Proof. exact padded_decodes_like_plain_proof. Qed.
Print Assumptions padded_decodes_like_plain.

(* ... so a reader at a frame boundary does with its frame, when the wiring lets the size through,
   exactly what it does with the plain answer's frame (this is what the model's decoder of action
   code 15, `padded_out`, relies on: it does not build the megabytes) *)
Theorem padded_answer_read_like_plain : forall s n tag p rest,
  (length n < 128)%nat -> (length tag < 126)%nat -> p < 34359738368 ->
  reader_accepts ClientOutputReader (N.of_nat (length (encode_padded n tag p))) = true ->
  reader_step (with_buf s (frame (encode_padded n tag p) ++ rest)) = reader_step (with_buf s (frame (encode n tag) ++ rest)).
Proof. exact padded_answer_read_like_plain_proof. Qed.
Print Assumptions padded_answer_read_like_plain.

(* the window between the two limits is inhabited (2 MiB), its ends behave as stated *)
Example ex_window : c10_max_server_response < 2097152 <= c10_max_response.
Proof. split; [reflexivity|discriminate]. Qed.
Example ex_window_sizes :
  map (reader_accepts ClientOutputReader)
      [c10_max_server_response - 1; c10_max_server_response; c10_max_server_response + 1; 2097152;
       c10_max_response - 1; c10_max_response; c10_max_response + 1]
  = [true; true; true; true; true; true; false].
Proof. vm_compute. reflexivity. Qed.
(* a padded answer (really built, 300 bytes of padding) is delivered like the plain one; the other
   pending test stays pending *)
Example ex_padded_delivered :
  let s := run (sent 0 a ++ sent 1 b ++ [COut (frame (encode_padded b (bs "rb") 300)); RStep]) in
  (s.(fired), s.(pending), s.(rd), s.(err)) = ([(1, OResp b (bs "rb"))], [(a, 0)], RRun, None).
Proof. vm_compute. reflexivity. Qed.
(* action code 15 of the case files: sizes relative to the limits *)
Example ex_padded_out :
  (padded_out b (bs "rb") 1 1, padded_out b (bs "rb") 2 0, padded_out b (bs "rb") 2 1, padded_out b (bs "rb") 0 5)
  = (Some (frame (encode b (bs "rb"))), Some (frame (encode b (bs "rb"))), Some (be32 (c10_max_response + 1)), None).
Proof. vm_compute. reflexivity. Qed.

(* ---------- the exit notice: localProcess.whenDone (process.go) ----------
   For EVERY interleaving of registrations (WdRegister k) and the exit of the process (WdExit): once the
   exit has happened every callback has run exactly once per registration - whether it was registered
   before or after the exit - and none is left parked; before the exit none has run.  runClient registers
   its callback after start() returned, so the client may already be gone (proc_script_early, c10.proc
   with early = 1; c10.whendone drives registrations and the exit on a real localProcess). *)
Theorem exit_notice_any_order : forall acts,
  (In WdExit acts ->
     (forall k, wd_count k (wd_fired (wd_run acts)) = wd_regs k acts) /\ wd_waiting (wd_run acts) = []) /\
  (~ In WdExit acts -> wd_fired (wd_run acts) = []).
Proof. exact exit_notice_any_order_proof. Qed.
Print Assumptions exit_notice_any_order.

(* runClient's own callback: in both orders the notice is part of the schedule *)
Theorem runner_notice_both_orders : forall early, runner_notice early = [ExitNotice].
Proof. exact runner_notice_both_orders_proof. Qed.
Print Assumptions runner_notice_both_orders.

Example ex_wd_late_registration :
  let s := wd_run [WdRegister 3; WdExit; WdRegister 5; WdRegister 3] in
  (wd_exited s, wd_waiting s, wd_count 3 (wd_fired s), wd_count 5 (wd_fired s)) = (true, [], 2%nat, 1%nat).
Proof. vm_compute. reflexivity. Qed.
(* the client function returned before runClient registered: not running, sends refused, wait returns *)
Example ex_proc_script_early :
  let s := run (proc_script_early [a; b] false) in
  (is_running s, s.(rd), s.(pending), s.(fired), s.(closed)) = (false, RDone, [], [], true).
Proof. vm_compute. reflexivity. Qed.
