(* C11_ProcProofs.v — proofs about the timed model of process.go (C11_Proc.v) and about
   the time runTestCasesForServer spends stopping the server process. *)
From Coq Require Import Lia.
From V Require Import C11_Spec.
Open Scope N_scope.

Lemma earlier_r : forall a y cy, exists x c, earlier a (Some (y, cy)) = Some (x, c) /\ x <= y.
Proof.
  intros [[x cx]|] y cy; simpl.
  - destruct (N.ltb_spec y x); eexists; eexists; split; try reflexivity; lia.
  - eexists; eexists; split; [reflexivity|lia].
Qed.

Lemma earlier_l : forall x cx b, exists z c, earlier (Some (x, cx)) b = Some (z, c) /\ z <= x.
Proof.
  intros x cx [[y cy]|]; simpl.
  - destruct (N.ltb_spec y x); eexists; eexists; split; try reflexivity; lia.
  - eexists; eexists; split; [reflexivity|lia].
Qed.

Lemma wait_ge : forall P ch x c t, wait_returns P ch (Some (x, c)) = Some t -> x <= t.
Proof.
  intros P ch x c t. simpl. destruct (ch_holds ch); [destruct (0 <? p_wd P)|]; intro H; inversion H; lia.
Qed.

(* a killable child is gone when WaitDelay is over, and cmd.Wait returns then at the latest *)
Lemma killable_end : forall P ch, 0 < p_wd P -> ch_killable ch = true ->
  exists x c t, child_end P ch = Some (x, c) /\ waited P ch = Some t /\ x <= t /\ t <= p_wd P.
Proof.
  intros P ch Hwd Hk.
  assert (K : ev_kill P ch = Some (p_wd P, ByKill)).
  { unfold ev_kill. rewrite Hk. destruct (N.ltb_spec 0 (p_wd P)); [reflexivity|lia]. }
  assert (E0 : exists x c, end0 P ch = Some (x, c) /\ x <= p_wd P).
  { unfold end0. rewrite K. apply earlier_r. }
  destruct E0 as (x0 & c0 & E0 & L0).
  assert (E : exists x c, child_end P ch = Some (x, c) /\ x <= p_wd P).
  { unfold child_end. destruct (forced P ch).
    - rewrite E0. destruct (earlier_l x0 c0 (ev_close P ch)) as (z & c & -> & Lz). exists z, c. split; [reflexivity|lia].
    - exists x0, c0. split; assumption. }
  destruct E as (x & c & E & L).
  exists x, c. unfold waited. rewrite E. simpl.
  destruct (ch_holds ch).
  - destruct (N.ltb_spec 0 (p_wd P)); [|lia]. exists (N.max x (p_wd P)). repeat split; try reflexivity; lia.
  - exists x. repeat split; try reflexivity; lia.
Qed.

Lemma abort_bounded_proof : forall P ch,
  p_giveup P = true -> 0 < p_wd P ->
  let r := cmd_stop P ch in
  returns_by (pr_ret r) (p_grace P + p_grace2 P) /\
  returns_by (pr_ret r) (stop_deadline P) /\
  (ch_pre ch <> None \/ gone_by (child_end P ch) (stop_deadline P) = true \/
   kill_sent_by P ch (stop_deadline P) = true) /\
  (p_wd P <= p_grace P + p_grace2 P -> pr_dead r = true \/ pr_killed r = true) /\
  (p_wd P <= p_grace P + p_grace2 P -> ch_killable ch = true -> pr_dead r = true) /\
  (pr_force r <= 1)%nat.
Proof.
  intros P ch Hg Hwd r. subst r. unfold cmd_stop, returns_by, stop_deadline.
  destruct (ch_pre ch) as [code|] eqn:Hpre.
  { simpl. repeat split; try (exists 0; split; [reflexivity|lia]); auto.
    left; discriminate. }
  rewrite Hg. unfold give_up_at. set (g := p_grace P + p_grace2 P). clearbody g.
  assert (R : exists r, match waited P ch with Some t => Some (N.min t g) | None => Some g end = Some r /\ r <= g /\
              (forall t, waited P ch = Some t -> r = N.min t g) /\ (waited P ch = None -> r = g)).
  { destruct (waited P ch) as [t|].
    - exists (N.min t g). split; [reflexivity|]. split; [lia|]. split; [|discriminate].
      intros t' H; inversion H; reflexivity.
    - exists g. split; [reflexivity|]. split; [lia|]. split; [discriminate|reflexivity]. }
  destruct R as (r & -> & Lr & Rt & Rn). simpl.
  split; [exists r; split; [reflexivity|exact Lr]|].
  split; [exists r; split; [reflexivity|lia]|].
  split.
  { right. destruct (child_end P ch) as [[x c]|] eqn:E; simpl.
    - destruct (N.leb_spec x (g + p_wd P)); [left; reflexivity|right].
      unfold kill_sent_by. rewrite E.
      destruct (N.ltb_spec 0 (p_wd P)); [|lia].
      destruct (N.leb_spec (p_wd P) (g + p_wd P)); [|lia].
      destruct (N.ltb_spec x (p_wd P)); [lia|reflexivity].
    - right. unfold kill_sent_by. rewrite E.
      destruct (N.ltb_spec 0 (p_wd P)); [|lia].
      destruct (N.leb_spec (p_wd P) (g + p_wd P)); [reflexivity|lia]. }
  split.
  { intros Lw. unfold kill_sent_by, waited in *.
    destruct (child_end P ch) as [[x c]|] eqn:E; simpl.
    - destruct (N.leb_spec x r); [left; reflexivity|right].
      assert (r = g).
      { destruct (wait_returns P ch (Some (x, c))) as [t|] eqn:W.
        - pose proof (wait_ge _ _ _ _ _ W). pose proof (Rt t eq_refl). lia.
        - apply Rn; reflexivity. }
      subst r.
      destruct (N.ltb_spec 0 (p_wd P)); [|lia].
      destruct (N.leb_spec (p_wd P) g); [|lia].
      destruct (N.ltb_spec x (p_wd P)); [lia|reflexivity].
    - right. simpl in Rn. rewrite (Rn eq_refl).
      destruct (N.ltb_spec 0 (p_wd P)); [|lia].
      destruct (N.leb_spec (p_wd P) g); [reflexivity|lia]. }
  split.
  { intros Lw Hk. destruct (killable_end P ch Hwd Hk) as (x & c & t & E & W & Lx & Lt).
    rewrite E. simpl. rewrite (Rt t W). destruct (N.leb_spec x (N.min t g)); [reflexivity|lia]. }
  destruct (forced P ch); simpl; lia.
Qed.

Lemma local_bounded_proof : forall P lc,
  let r := local_stop P lc in
  returns_by (pr_ret r) (p_grace P) /\ local_stop_again P lc <= p_grace P /\ pr_force r = 0%nat.
Proof.
  intros P lc. unfold local_stop, local_stop_again, returns_by.
  destruct (lc_pre lc); simpl.
  { repeat split; try lia. exists 0; split; [reflexivity|lia]. }
  destruct (lc_cancel lc) as [d|]; simpl.
  - destruct (N.leb_spec d (p_grace P)); simpl; repeat split; try lia; eexists; (split; [reflexivity|lia]).
  - repeat split; try lia. eexists; split; [reflexivity|lia].
Qed.

(* n consecutive abort(); result() pairs *)
Lemma stop_time_bounded : forall P pk n, p_giveup P = true -> (n <= 2)%nat ->
  returns_by (stop_time P pk n) (N.max (p_grace P + p_grace2 P) (p_grace P + p_grace P)).
Proof.
  intros P pk n Hg Hn. unfold returns_by.
  destruct n as [|m]; simpl; [exists 0; split; [reflexivity|lia]|].
  destruct pk as [ch|lc]; simpl.
  - (* cmdProcess: the bound on result() needs no WaitDelay *)
    unfold cmd_stop. destruct (ch_pre ch).
    + simpl. exists (0 + 0). split; [destruct m; reflexivity|lia].
    + rewrite Hg. unfold give_up_at.
      destruct (waited P ch) as [t|]; simpl.
      * exists (N.min t (p_grace P + p_grace2 P) + 0). split; [destruct m; reflexivity|lia].
      * exists (p_grace P + p_grace2 P + 0). split; [destruct m; reflexivity|lia].
  - destruct (local_bounded_proof P lc) as ((t & E & Lt) & La & _). rewrite E.
    pose proof (N.le_max_r (p_grace P + p_grace2 P) (p_grace P + p_grace P)).
    destruct m as [|m'].
    + exists (t + 0). split; [reflexivity|lia].
    + exists (t + local_stop_again P lc). split; [reflexivity|lia].
Qed.

(* runTestCasesForServer asks at most twice *)
Lemma aborts_le_2 : forall er sv cs, (r_aborts (run_batch er sv cs) <= 2)%nat.
Proof.
  intros er sv cs. unfold run_batch, early.
  destruct (negb (s_start sv)); simpl; [lia|].
  destruct (if s_refsrv sv then parse_stderr (map c_name cs) (s_stderr sv) else ([], [])) as [sbs fwd].
  destruct (s_write sv); simpl; try lia.
  destruct (s_resp sv) as [cert|]; simpl; try lia.
  destruct (s_tls sv && negb cert); simpl; try lia.
  destruct (send_loop (s_refcli sv) (s_dead sv) cs _) as [l1 ex].
  destruct ex, er; simpl; lia.
Qed.

Lemma batch_stop_bounded_proof : forall P pk sv cs, p_giveup P = true ->
  returns_by (batch_stop_time P pk (run_batch false sv cs))
             (N.max (p_grace P + p_grace2 P) (p_grace P + p_grace P)).
Proof.
  intros P pk sv cs Hg. unfold batch_stop_time.
  destruct (r_started (run_batch false sv cs)).
  - apply stop_time_bounded; [exact Hg|apply aborts_le_2].
  - exists 0. split; [reflexivity|lia].
Qed.

(* ... with the durations the compiled code uses.  This is the statement that stops being
   provable when runCommand no longer sets a WaitDelay (c11_wait_delay_ms = 0) or sets one
   longer than the two waits of abort's goroutine. *)
Lemma code_durations : 0 < c11_wait_delay_ms /\ c11_wait_delay_ms <= c11_grace_ms + c11_grace2_ms.
Proof. split; [reflexivity|discriminate]. Qed.

Lemma abort_bounded_code_proof : forall ch,
  let r := cmd_stop (code_params c11_wait_delay_ms) ch in
  returns_by (pr_ret r) (c11_grace_ms + c11_grace2_ms) /\
  (pr_dead r = true \/ pr_killed r = true) /\
  (ch_killable ch = true -> pr_dead r = true).
Proof.
  intros ch. destruct code_durations as [A B].
  destruct (abort_bounded_proof (code_params c11_wait_delay_ms) ch eq_refl A) as (R & _ & _ & D & K & _).
  split; [exact R|]. split; [exact (D B)|exact (K B)].
Qed.

(* whether the server exits with status 0 or with an error makes no difference at all *)
Lemma flavour_irrelevant_proof : forall er st wf rp tls dd rs rc se cl cs,
  run_batch er (mkServer st wf rp tls dd rs rc se cl) cs =
  run_batch er (mkServer st wf rp tls dd rs rc se (negb cl)) cs.
Proof. reflexivity. Qed.
