(* C14_ServerProofs.v — proofs about the glue around the body tracers:
     the exact end-stream content for every length (no bound on what is captured),
     the handler chain of createServer (tracing outside rawResponder: the trace describes the wire),
     responses without a body (one body-end event, the trace is completed). *)
From Coq Require Import Lia.
From V Require Import C14_Spec C14_Proofs.
Open Scope N_scope.

(* ---------- end-stream content, every length ---------- *)
Lemma end_stream_content_exact_proof : forall decompress c, c_stream c = true -> forall msgs fl p chunks,
  c_req c = false -> Forall fits msgs -> fits (fl, p) -> p <> [] -> is_end_stream fl = true ->
  concat chunks = encode_all msgs ++ encode fl p ->
  raw_events decompress c chunks =
  number false 0 (flat_map (msg_events decompress c) msgs) ++
  EvData false (N.of_nat (length msgs)) (Some (mk_env fl (blen p))) (blen p) ::
  match (if is_compressed fl && c_dec c then decompress p else Some p) with
  | Some (x :: r) => [EvEos (x :: r)]
  | _ => []
  end ++ [EvEnd false ENil].
Proof.
  intros decompress c Hs msgs fl p chunks R F Fp NE ES E.
  rewrite (end_stream_general decompress c Hs msgs fl p chunks F Fp E). rewrite R.
  unfold end_stream_events, shown_content. rewrite R, ES. cbn [negb andb].
  destruct p as [|x p]; [congruence|].
  destruct (is_compressed fl && c_dec c); [destruct (decompress (x :: p)) as [[|y out]|]|]; reflexivity.
Qed.

(* ---------- the handler chain ---------- *)
Lemma through_not_raw raw l r : l <> LRawResponder -> through raw l r = r.
Proof. destruct l; intros H; try reflexivity. congruence. Qed.

Lemma tracing_outside_sees_wire_proof : forall chain raw inner,
  traced_outside_raw chain = true ->
  snd (wire_and_seen raw chain inner) = Some (fst (wire_and_seen raw chain inner)).
Proof.
  induction chain as [|l rest IH]; intros raw inner H; [discriminate H|].
  cbn [wire_and_seen]. destruct (wire_and_seen raw rest inner) as [r seen] eqn:W.
  destruct l; cbn [traced_outside_raw] in H; try discriminate H;
    try (specialize (IH raw inner H); rewrite W in IH; cbn [fst snd through] in *; exact IH).
  reflexivity.
Qed.

Lemma create_server_chain_traced_outside : forall reference h2c,
  traced_outside_raw (create_server_chain reference true h2c) = true.
Proof. intros [] []; reflexivity. Qed.

Lemma trace_sees_wire_bytes_proof : forall reference h2c raw inner,
  snd (wire_and_seen raw (create_server_chain reference true h2c) inner) =
  Some (fst (wire_and_seen raw (create_server_chain reference true h2c) inner)).
Proof. intros. apply tracing_outside_sees_wire_proof, create_server_chain_traced_outside. Qed.

(* in reference mode a noted raw response IS the response on the wire, whatever the handler inside produced *)
Lemma raw_response_reaches_wire_proof : forall traced h2c r inner,
  fst (wire_and_seen (Some r) (create_server_chain true traced h2c) inner) = r.
Proof. intros [] [] r inner; reflexivity. Qed.

(* without one, the handler's response *)
Lemma ordinary_response_reaches_wire_proof : forall reference traced h2c inner,
  fst (wire_and_seen None (create_server_chain reference traced h2c) inner) = inner.
Proof. intros [] [] [] inner; reflexivity. Qed.

(* the events of the server's trace = the declarative parse of the body on the wire, however the layers
   inside cut that body into Write calls *)
Lemma server_trace_is_parse_of_wire_proof : forall decompress c reference h2c raw inner seen l,
  snd (wire_and_seen raw (create_server_chain reference true h2c) inner) = Some seen ->
  concat (accepted l) = snd seen ->
  writer_events decompress c (writes l) =
  expected_events decompress c (snd (fst (wire_and_seen raw (create_server_chain reference true h2c) inner))) ENil.
Proof.
  intros decompress c reference h2c raw inner seen l S A.
  rewrite trace_sees_wire_bytes_proof in S. injection S as S. rewrite S, <- A.
  apply writer_ok_proof.
Qed.

(* ---------- a response without a body ---------- *)
Lemma empty_body_proof : forall decompress c fl,
  let s := fst (reader_run decompress c ws_init (RRead [] IoEOF :: closes fl)) in
  b_events (w_b s) = [EvEnd (c_req c) ENil] /\ b_live (w_b s) = c_req c.
Proof.
  intros decompress c fl.
  set (s1 := try_finish c (do_trace decompress c ws_init []) ENil).
  assert (E : fst (reader_run decompress c ws_init (RRead [] IoEOF :: closes fl)) = s1).
  { cbn [reader_run reader_step]. fold s1.
    pose proof (reader_closes decompress c fl s1 (try_finish_closes c _ _)) as R.
    destruct (reader_run decompress c s1 (closes fl)). exact R. }
  cbv zeta. rewrite E. subst s1.
  destruct c as [rq st dc]. destruct rq, st; cbn; split; reflexivity.
Qed.
