(* C20_Model.v — executable model of what THIS repository owns of compression:
     internal/compression/compression.go  GetCompressor / GetDecompressor, noOp{Compressor,Decompressor}
     internal/compression/gzip.go         gzipDecompressor   (the repaired code, see KNOWN_FINDINGS)
     internal/compression/zstd.go         zstdDecompressor   (closed decoder is discarded, lazily re-created)
     internal/compression/deflate.go      deflateDecompressor (new zlib reader per Reset, parks a sentinel)
     internal/compression/brotli.go       brotliDecompressor (the repaired code: a new Reader per Reset)
     internal/compression/snappy.go       (forwarding wrapper; Close is a no-op)
     internal/compression/sentinel.go     errorDecompressor / errorCompressor
   and of the five places that map encoding names / enum values to algorithms.
   The codecs themselves (gzip, zlib, brotli, snappy, zstd) are third-party code: they
   appear as Section variables — an abstract reader object and an abstract writer
   object — and the hypotheses about them live in C20_Spec.v.  A nil dereference is
   the explicit outcome `crash`.  No proofs here. *)
From V Require Export Base.
Open Scope N_scope.

(* ====================================================================== *)
(* outcomes                                                               *)
(* ====================================================================== *)
Inductive rres := ROk (y : bytes) | RErr | RCrash.      (* a read loop: bytes delivered / error / panic *)
Inductive ures := UOk | UErr | UCrash.                   (* Reset, Close, Write *)
(* ONE call Read(p): the bytes put into p and the error value returned with them
   (nil / io.EOF / anything else), or a panic *)
Inductive pstat := SNil | SEof | SErr.
Inductive pres := PRes (z : bytes) (st : pstat) | PCrash.
Inductive dout := OU (u : ures) | OR (r : rres) | OP (p : pres).   (* outcome of one decompressor step *)

Definition is_crash (o : dout) : bool :=
  match o with OU UCrash | OR RCrash | OP PCrash => true | _ => false end.
Definition u_of_ok (b : bool) : ures := if b then UOk else UErr.

(* operations a caller performs on a connect.Decompressor; DRead is a read LOOP: io.ReadAll (None)
   or io.ReadAll(io.LimitReader(d, n)) (Some n); DReadN n is ONE call Read(p) with len(p) = n
   (n = 0 included) *)
Inductive dop := DReset (s : bytes) | DRead (n : option N) | DClose | DReadN (n : N).
(* ... and on a connect.Compressor *)
Inductive cop := CReset | CWrite (b : bytes) | CClose.

(* the six encodings *)
Inductive wkind := KIdent | KGzip | KBrotli | KZstd | KDeflate | KSnappy.

Definition take (n : option N) (y : bytes) : bytes :=
  match n with None => y | Some k => firstn (N.to_nat k) y end.
Definition drop (n : option N) (y : bytes) : bytes :=
  match n with None => [] | Some k => skipn (N.to_nat k) y end.

Section Wrappers.
  (* ---- a third-party reader object (gzip.Reader, zlib reader, brotli.Reader,
          snappy.Reader, zstd.Decoder) ---- *)
  Variable inst : Type.
  Variable l_zero : inst.                               (* constructed without a source: NewReader(nil) *)
  Variable l_new : bytes -> option inst * ures.         (* NewReader(src) *)
  Variable l_reset : inst -> bytes -> inst * ures.      (* Reset(src) *)
  Variable l_read : inst -> option N -> inst * rres.
  Variable l_readn : inst -> N -> inst * pres.          (* one Read(p), len(p) = n *)
  Variable l_close : inst -> inst * ures.
  (* ---- a third-party writer object; writes and Close emit bytes to the destination ---- *)
  Variable winst : Type.
  Variable w_zero : winst.                              (* NewWriter(nil) *)
  Variable w_reset : winst -> winst * ures.             (* Reset(dst), dst empty *)
  Variable w_write : winst -> bytes -> winst * ures * bytes.
  Variable w_close : winst -> winst * ures * bytes.

  (* ------------------------------------------------------------------ *)
  (* decompressors                                                      *)
  (* ------------------------------------------------------------------ *)
  (* deflateDecompressor.reader : io.ReadCloser — nil, a zlib reader, or an errorDecompressor *)
  Inductive deflate_rd := RNil | RZlib (i : inst) | RSent.

  Inductive dstate :=
  | DIdent (r : option bytes)     (* noOpDecompressor: embedded ReadCloser nil / what the source still holds *)
  | DGzip (r : option inst)       (* gzipDecompressor.reader, nil until a Reset has succeeded *)
  | DBrotli (r : option inst)     (* brotliDecompressor.reader (a *brotli.Reader) *)
  | DZstd (d : option inst)       (* zstdDecompressor.decoder, nil after Close *)
  | DDeflate (r : deflate_rd)
  | DSnappy (i : inst)
  | DSentinel.                    (* errorDecompressor *)

  (* GetDecompressor / New*Decompressor *)
  Definition d_init (k : wkind) : dstate :=
    match k with
    | KIdent => DIdent None
    | KGzip => DGzip None
    | KBrotli => DBrotli (Some l_zero)
    | KZstd => DZstd (Some l_zero)
    | KDeflate => DDeflate RNil
    | KSnappy => DSnappy l_zero
    end.

  Definition d_step (st : dstate) (op : dop) : dstate * dout :=
    match st, op with
    (* ---- identity: Reset stores the reader (NopCloser unless it already is a ReadCloser;
            the sources here are plain readers); Read / Close on the nil embedded interface panic *)
    | DIdent _, DReset s => (DIdent (Some s), OU UOk)
    | DIdent None, DRead _ => (st, OR RCrash)
    | DIdent (Some rem), DRead n => (DIdent (Some (drop n rem)), OR (ROk (take n rem)))
    | DIdent None, DClose => (st, OU UCrash)
    | DIdent (Some _), DClose => (st, OU UOk)
    (* ---- gzip (repaired): reader == nil => gzip.NewReader(src), kept only on success *)
    | DGzip None, DReset s =>
      let '(o, u) := l_new s in
      match u with UOk => (DGzip o, OU UOk) | _ => (DGzip None, OU u) end
    | DGzip (Some i), DReset s => let '(i', u) := l_reset i s in (DGzip (Some i'), OU u)
    | DGzip None, DRead _ => (st, OR (ROk []))                       (* io.EOF *)
    | DGzip (Some i), DRead n => let '(i', r) := l_read i n in (DGzip (Some i'), OR r)
    | DGzip None, DClose => (st, OU UOk)
    | DGzip (Some i), DClose => let '(i', u) := l_close i in (DGzip (Some i'), OU u)
    (* ---- brotli (repaired): every Reset makes a new Reader — the library's own Reset keeps
            unconsumed input of the previous source; NewReader cannot report an error; Close does nothing *)
    | DBrotli _, DReset s =>
      let '(o, u) := l_new s in
      (DBrotli o, OU match u with UCrash => UCrash | _ => UOk end)
    | DBrotli None, DRead _ => (st, OR RCrash)
    | DBrotli (Some i), DRead n => let '(i', r) := l_read i n in (DBrotli (Some i'), OR r)
    | DBrotli _, DClose => (st, OU UOk)
    (* ---- snappy: forwards; Reset cannot report an error; Close does nothing *)
    | DSnappy i, DReset s =>
      let '(i', u) := l_reset i s in
      (DSnappy i', OU match u with UCrash => UCrash | _ => UOk end)
    | DSnappy i, DRead n => let '(i', r) := l_read i n in (DSnappy i', OR r)
    | DSnappy _, DClose => (st, OU UOk)
    (* ---- zstd: Close closes and DROPS the decoder; Reset re-creates it; Read on nil is EOF *)
    | DZstd None, DReset s => let '(o, u) := l_new s in (DZstd o, OU u)
    | DZstd (Some i), DReset s => let '(i', u) := l_reset i s in (DZstd (Some i'), OU u)
    | DZstd None, DRead _ => (st, OR (ROk []))
    | DZstd (Some i), DRead n => let '(i', r) := l_read i n in (DZstd (Some i'), OR r)
    | DZstd None, DClose => (st, OU UOk)
    | DZstd (Some i), DClose =>
      let '(_, u) := l_close i in
      (DZstd None, OU match u with UCrash => UCrash | _ => UOk end)   (* Decoder.Close returns nothing *)
    (* ---- deflate: every Reset makes a new zlib reader or parks the sentinel *)
    | DDeflate _, DReset s =>
      let '(o, u) := l_new s in
      match u with
      | UOk => (DDeflate match o with Some i => RZlib i | None => RNil end, OU UOk)
      | _ => (DDeflate RSent, OU u)
      end
    | DDeflate RNil, DRead _ => (st, OR (ROk []))
    | DDeflate (RZlib i), DRead n => let '(i', r) := l_read i n in (DDeflate (RZlib i'), OR r)
    | DDeflate RSent, DRead _ => (st, OR RErr)
    | DDeflate RNil, DClose => (st, OU UOk)
    | DDeflate (RZlib i), DClose => let '(i', u) := l_close i in (DDeflate (RZlib i'), OU u)
    | DDeflate RSent, DClose => (st, OU UErr)
    (* ---- errorDecompressor *)
    | DSentinel, DReset _ => (st, OU UErr)
    | DSentinel, DRead _ => (st, OR RErr)
    | DSentinel, DClose => (st, OU UErr)
    (* ---- ONE Read(p), len(p) = n.  identity: the source is a buffer (bytes.Buffer: io.EOF only
            when it is empty and len(p) > 0); the wrappers with a nil check answer (0, io.EOF);
            brotli / snappy forward; the sentinel answers (0, err) *)
    | DIdent None, DReadN _ => (st, OP PCrash)
    | DIdent (Some rem), DReadN n =>
      (DIdent (Some (skipn (N.to_nat n) rem)),
       OP (PRes (firstn (N.to_nat n) rem)
                (match rem with [] => if 0 <? n then SEof else SNil | _ => SNil end)))
    | DGzip None, DReadN _ => (st, OP (PRes [] SEof))
    | DGzip (Some i), DReadN n => let '(i', r) := l_readn i n in (DGzip (Some i'), OP r)
    | DBrotli None, DReadN _ => (st, OP PCrash)
    | DBrotli (Some i), DReadN n => let '(i', r) := l_readn i n in (DBrotli (Some i'), OP r)
    | DSnappy i, DReadN n => let '(i', r) := l_readn i n in (DSnappy i', OP r)
    | DZstd None, DReadN _ => (st, OP (PRes [] SEof))
    | DZstd (Some i), DReadN n => let '(i', r) := l_readn i n in (DZstd (Some i'), OP r)
    | DDeflate RNil, DReadN _ => (st, OP (PRes [] SEof))
    | DDeflate (RZlib i), DReadN n => let '(i', r) := l_readn i n in (DDeflate (RZlib i'), OP r)
    | DDeflate RSent, DReadN _ => (st, OP (PRes [] SErr))
    | DSentinel, DReadN _ => (st, OP (PRes [] SErr))
    end.

  (* a history on one instance; a panic ends it *)
  Fixpoint d_run (st : dstate) (h : list dop) : list dout :=
    match h with
    | [] => []
    | op :: h' =>
      let '(st', o) := d_step st op in
      o :: (if is_crash o then [] else d_run st' h')
    end.

  Fixpoint d_after (st : dstate) (h : list dop) : option dstate :=   (* None: panicked on the way *)
    match h with
    | [] => Some st
    | op :: h' => let '(st', o) := d_step st op in if is_crash o then None else d_after st' h'
    end.

  (* ------------------------------------------------------------------ *)
  (* compressors: GetCompressor hands out the library writers themselves,
     except for identity (noOpCompressor) and the error sentinel          *)
  (* ------------------------------------------------------------------ *)
  Inductive cstate :=
  | CIdent (set : bool)          (* noOpCompressor: embedded WriteCloser nil / set *)
  | CLib (w : winst)
  | CSentinel.

  Definition c_init (k : wkind) : cstate :=
    match k with KIdent => CIdent false | _ => CLib w_zero end.

  (* result: new state, outcome, bytes that reached the destination *)
  Definition c_step (st : cstate) (op : cop) : cstate * ures * bytes :=
    match st, op with
    | CIdent _, CReset => (CIdent true, UOk, [])
    | CIdent false, CWrite _ => (st, UCrash, [])
    | CIdent true, CWrite b => (st, UOk, b)
    | CIdent false, CClose => (st, UCrash, [])
    | CIdent true, CClose => (st, UOk, [])             (* noOpCloser: the destination is never closed *)
    | CLib w, CReset => let '(w', u) := w_reset w in (CLib w', u, [])
    | CLib w, CWrite b => let '(w', u, out) := w_write w b in (CLib w', u, out)
    | CLib w, CClose => let '(w', u, out) := w_close w in (CLib w', u, out)
    | CSentinel, CReset => (st, UOk, [])
    | CSentinel, CWrite _ => (st, UErr, [])
    | CSentinel, CClose => (st, UErr, [])
    end.

  (* a compressor history: outcomes, and what each destination received.  `cur` is the
     content of the current destination (since the last Reset), `done` the destinations
     left behind by earlier Resets, oldest first. *)
  Fixpoint c_run (st : cstate) (cur : bytes) (h : list cop) : list ures * list bytes :=
    match h with
    | [] => ([], [cur])
    | op :: h' =>
      let '(st', u, out) := c_step st op in
      match u with
      | UCrash => ([u], [cur])
      | _ =>
        match op with
        | CReset => let '(us, ds) := c_run st' [] h' in (u :: us, cur :: ds)
        | _ => let '(us, ds) := c_run st' (cur ++ out) h' in (u :: us, ds)
        end
      end
    end.
End Wrappers.
Arguments DIdent {inst} r.
Arguments DGzip {inst} r.
Arguments DBrotli {inst} r.
Arguments DZstd {inst} d.
Arguments DDeflate {inst} r.
Arguments DSnappy {inst} i.
Arguments DSentinel {inst}.
Arguments RNil {inst}.
Arguments RZlib {inst} i.
Arguments RSent {inst}.
Arguments CIdent {winst} set.
Arguments CLib {winst} w.
Arguments CSentinel {winst}.

(* ====================================================================== *)
(* enum and name tables (the five places)                                 *)
(* ====================================================================== *)
(* algorithm tags are the numbers of the Compression enum: 1 identity, 2 gzip, 3 br,
   4 zstd, 5 deflate, 6 snappy *)
Definition alg_of_kind (k : wkind) : Z :=
  match k with KIdent => 1 | KGzip => 2 | KBrotli => 3 | KZstd => 4 | KDeflate => 5 | KSnappy => 6 end%Z.

(* compression.go GetCompressor / GetDecompressor: the same switch *)
Definition get_kind (e : Z) : option wkind :=
  match e with
  | 0 | 1 => Some KIdent | 2 => Some KGzip | 3 => Some KBrotli
  | 4 => Some KZstd | 5 => Some KDeflate | 6 => Some KSnappy
  | _ => None
  end%Z.
Definition alg_of_enum (e : Z) : Z := match get_kind e with Some k => alg_of_kind k | None => (-1)%Z end.

(* compression.go: the name constants Identity .. Zstd, by the enum value of their identifier *)
Definition name_consts : list (Z * bytes) :=
  [ (1, bs "identity"); (2, bs "gzip"); (3, bs "br"); (4, bs "zstd"); (5, bs "deflate"); (6, bs "snappy") ]%Z.

Fixpoint assoc_z {A} (k : Z) (l : list (Z * A)) : option A :=
  match l with [] => None | (k', v) :: l' => if Z.eqb k k' then Some v else assoc_z k l' end.
Fixpoint assoc_b {A} (k : bytes) (l : list (bytes * A)) : option A :=
  match l with [] => None | (k', v) :: l' => if bytes_eqb k k' then Some v else assoc_b k l' end.

(* tracer.go GetDecompressor(encoding): strings.ToLower, then a switch on literals; 0 = brokenDecompressor *)
Definition tracer_table : list (bytes * Z) :=
  [ ([], 1); (bs "identity", 1); (bs "gzip", 2); (bs "br", 3); (bs "zstd", 4); (bs "deflate", 5); (bs "snappy", 6) ]%Z.
Definition tracer_alg (name : bytes) : Z :=
  match assoc_b (lower name) tracer_table with
  | Some e => match alg_of_enum e with (-1)%Z => 0%Z | a => a end
  | None => 0%Z
  end.

(* checks.go checkCompression: the expected name for an enum value (None: "invalid expected compression") *)
Definition check_expect (e : Z) : option bytes :=
  if ((1 <=? e) && (e <=? 6))%Z then assoc_z e name_consts else None.
(* does checkCompression complain?  `actual`: the header / query value if present *)
Definition check_complains (e : Z) (actual : option bytes) : bool :=
  match check_expect e with
  | None => true
  | Some n => negb (bytes_eqb n match actual with Some a => a | None => bs "identity" end)
  end.

(* server.go createServer registers br, deflate, snappy, zstd with connect.WithCompression(name,
   New<X>Decompressor, New<X>Compressor); gzip and identity are connect-go's own.  Observed on the
   live server: for an encoding name, the algorithm a request body must be compressed with to be
   accepted (0: rejected) and the algorithm of the response when the name is offered (an unknown
   name is ignored: identity). *)
Definition server_regs : list (bytes * Z) :=
  [ (bs "identity", 1); (bs "gzip", 2);
    (bs "br", 3); (bs "deflate", 5); (bs "snappy", 6); (bs "zstd", 4) ]%Z.
Definition server_algs (name : bytes) : Z * Z :=
  match assoc_b name server_regs with Some a => (a, a) | None => (0, 1) end%Z.

(* client.go: per requested compression, observed on the live client: the Content-Encoding it
   announces (empty: none), the algorithm of the request body, the names offered in Accept-Encoding.
   Gzip is connect-go's default and is switched off unless requested; br/deflate/snappy/zstd are
   registered with WithAcceptCompression + WithSendCompression only when requested. *)
Definition client_obs (e : Z) : bytes * Z * list bytes :=
  match e with
  | 2 | 3 | 4 | 5 | 6 =>
    match assoc_z e name_consts with
    | Some n => (n, e, [n])
    | None => ([], 1, [])
    end
  | _ => ([], 1, [])
  end%Z.

(* ====================================================================== *)
(* a computable stand-in for the libraries (extraction only)              *)
(* ====================================================================== *)
(* What a fresh library reader makes of a source *)
Inductive dres := HdrErr | Body (y : bytes) (e : bool).   (* cannot be positioned / delivers y, then fails iff e *)

(* How much the library contract fixes about a reader object (C20_Spec.v) — also the
   state of the stand-in reader. *)
Inductive lview := NoSrc | At (y : bytes) (e : bool) | Failed | Closed.

(* toy format: 1 :: x decodes to x; 2 :: x delivers x and then fails; anything else has a bad header *)
Definition toy_enc (x : bytes) : bytes := 1 :: x.
Definition toy_dec (s : bytes) : dres :=
  match s with
  | 1 :: y => Body y false
  | 2 :: y => Body y true
  | _ => HdrErr
  end.
Definition toy_position (s : bytes) : lview * ures :=
  match toy_dec s with HdrErr => (Failed, UErr) | Body y e => (At y e, UOk) end.

(* `loud`: does a read on an object that never had a source panic (brotli, snappy: nil
   io.Reader) or report an error (zstd: ErrDecoderNilInput)?  Everything else the
   contract leaves open is answered with an error. *)
Definition toy_new (s : bytes) : option lview * ures :=
  let '(v, u) := toy_position s in (Some v, u).
Definition toy_reset (closed_ok : bool) (i : lview) (s : bytes) : lview * ures :=
  match i with
  | Closed => if closed_ok then toy_position s else (Closed, UErr)
  | _ => toy_position s
  end.
Definition toy_read (loud : bool) (i : lview) (n : option N) : lview * rres :=
  match i with
  | NoSrc => (NoSrc, if loud then RCrash else RErr)
  | At y false => (At (drop n y) false, ROk (take n y))
  | At y true =>
    match n with
    | None => (Failed, RErr)
    | Some k => if k <? N.of_nat (length y) then (At (drop n y) true, ROk (take n y)) else (Failed, RErr)
    end
  | Failed => (Failed, RErr)
  | Closed => (Closed, RErr)
  end.
(* one Read(p): the stand-in fills p as far as it can; `eager`: io.EOF comes together with the
   last bytes (true) or with the next, empty, read (false) — both are allowed by io.Reader *)
Definition toy_readn (loud eager : bool) (i : lview) (n : N) : lview * pres :=
  match i with
  | NoSrc => (NoSrc, if loud then PCrash else PRes [] SErr)
  | At y false =>
    let z := firstn (N.to_nat n) y in
    let y' := skipn (N.to_nat n) y in
    (At y' false,
     PRes z (match y' with
             | [] => if (0 <? n) && (eager || match y with [] => true | _ => false end) then SEof else SNil
             | _ => SNil end))
  | At y true =>
    if n <? N.of_nat (length y) then (At (skipn (N.to_nat n) y) true, PRes (firstn (N.to_nat n) y) SNil)
    else (Failed, PRes [] SErr)
  | Failed => (Failed, PRes [] SErr)
  | Closed => (Closed, PRes [] SErr)
  end.
Definition toy_close (i : lview) : lview * ures :=
  match i with
  | NoSrc => (Closed, UOk)
  | At _ false => (Closed, UOk)
  | At _ true => (Closed, UOk)
  | Failed => (Closed, UErr)
  | Closed => (Closed, UOk)
  end.

Inductive wview := WNoDst | WOpen (acc em : bytes) | WClosed.
Definition toy_wreset (w : wview) : wview * ures := (WOpen [] [], UOk).
Definition toy_wwrite (w : wview) (b : bytes) : wview * ures * bytes :=
  match w with
  | WOpen acc em => (WOpen (acc ++ b) em, UOk, [])
  | WNoDst => (w, UCrash, [])
  | WClosed => (w, UErr, [])
  end.
Definition toy_wclose (w : wview) : wview * ures * bytes :=
  match w with
  | WOpen acc em => (WClosed, UOk, toy_enc acc)
  | WNoDst => (w, UCrash, [])
  | WClosed => (w, UErr, [])
  end.

Definition kind_loud (k : wkind) : bool := match k with KZstd => false | _ => true end.
Definition kind_closed_ok (k : wkind) : bool := match k with KZstd => false | _ => true end.
Definition kind_eager (k : wkind) : bool := match k with KBrotli | KSnappy => true | _ => false end.

Definition toy_d_init (k : wkind) := d_init lview NoSrc k.
Definition toy_d_step (k : wkind) :=
  d_step lview toy_new (toy_reset (kind_closed_ok k)) (toy_read (kind_loud k))
         (toy_readn (kind_loud k) (kind_eager k)) toy_close.
Definition toy_c_init (k : wkind) := c_init wview WNoDst k.
Definition toy_c_step := c_step wview toy_wreset toy_wwrite toy_wclose.

(* ====================================================================== *)
(* case decoding / result encoding (extracted glue)                       *)
(* ====================================================================== *)
(* The harness reports a step in full only where the wrapper logic together with the
   library contract fixes the result (see C20_Spec.v): every Reset; reads and Close of a
   decompressor positioned on a source whose class is known; Write / Close of a
   compressor between Reset and Close.  Elsewhere only "panicked or not" is reported. *)
Inductive dpos := DFresh | DP1 | DP2 | DU.
Inductive cpos := CFresh | COpen | CDone.

(* ---- the projection applied to the outcomes of a decompressor history (by this glue and, with the
   same rule, by the Go harness).  It follows the instance with what a FRESH reader makes of each
   source (d s): DFresh no Reset yet; DP1 positioned on a source that decodes, `rem` still to come;
   DP2 positioned on a source that fails after some bytes; DU anything else.  Reported:
     every Reset in full; in DP1 every read as "did it deliver what was to come" (a read loop: exactly
     the next bytes; ONE Read(p): some prefix of them, at most len(p), no error, io.EOF only together
     with or after the last byte — how many bytes one Read delivers is the library's choice) and Close in
     full; in DP2 the unlimited read loop (it must fail); everything else only as panicked / did not. *)
Inductive pobs := PFullU (u : ures) | PFlag (b : bool) | PErrR | PAny | PPanic.

Definition chunk_ok (n : N) (rem z : bytes) (st : pstat) : bool :=
  has_prefix z rem && (N.of_nat (length z) <=? n) &&
  match st with SErr => false | SEof => (length rem <=? length z)%nat | SNil => true end.

Definition obs_step (d : bytes -> dres) (ps : dpos * bytes) (op : dop) (o : dout) : (dpos * bytes) * pobs :=
  let '(pos, rem) := ps in
  if is_crash o then ((DU, []), PPanic) else
  match op, o with
  | DReset s, OU u =>
    (match u, d s with
     | UOk, Body y false => (DP1, y)
     | UOk, Body y true => (DP2, y)
     | _, _ => (DU, [])
     end, PFullU u)
  | DRead n, OR r =>
    let full := match pos, n with DP1, _ => true | DP2, None => true | _, _ => false end in
    let pos' := match pos, r with DP1, ROk _ => DP1 | DFresh, _ => DFresh | _, _ => DU end in
    let rem' := match r with ROk y => skipn (length y) rem | _ => rem end in
    ((pos', rem'),
     if full then match r with ROk y => PFlag (bytes_eqb y (take n rem)) | _ => PErrR end else PAny)
  | DReadN n, OP (PRes z st) =>
    let pos' := match pos, st with DP1, (SNil | SEof) => DP1 | DFresh, _ => DFresh | _, _ => DU end in
    ((pos', skipn (length z) rem),
     match pos with DP1 => PFlag (chunk_ok n rem z st) | _ => PAny end)
  | DClose, OU u =>
    ((match pos with DFresh => DFresh | _ => DU end, rem),
     match pos with DP1 => PFullU u | _ => PAny end)
  | _, _ => ((DU, []), PPanic)          (* an outcome of the wrong sort: d_step never produces one *)
  end.

Fixpoint observe (d : bytes -> dres) (ps : dpos * bytes) (h : list dop) (outs : list dout) : list pobs :=
  match h, outs with
  | op :: h', o :: outs' => let '(ps', ob) := obs_step d ps op o in ob :: observe d ps' h' outs'
  | _, _ => []
  end.

Record hstate := mkH {
  h_c : cstate wview; h_d : dstate lview;
  h_cpos : cpos; h_cur : N; h_sink : bytes; h_acc : bytes;
  h_sinks : list (N * (bytes * bytes));      (* closed destinations: id -> (content, what was written) *)
  h_dpos : dpos; h_rem : bytes }.

Inductive hop :=
| HCReset (k : N) | HCWrite (b : bytes) | HCClose
| HDResetSink (k : N) | HDResetLit (src : bytes) (cls : N) (y : bytes)
| HDRead (n : option N) | HDClose | HDReadN (n : N).

Definition sx_ok : sx := L [B (bs "ok")].
Definition sx_any : sx := L [B (bs "any")].
Definition sx_okflag (b : bool) : sx := L [B (bs "ok"); sx_bool b].
Definition sx_ures (u : ures) : sx :=
  match u with UOk => sx_ok | UErr => sx_err "e" | UCrash => sx_crash end.
Definition sx_any_u (u : ures) : sx := match u with UCrash => sx_crash | _ => sx_any end.
Definition sx_pobs (ob : pobs) : sx :=
  match ob with
  | PFullU u => sx_ures u
  | PFlag b => sx_okflag b
  | PErrR => sx_err "e"
  | PAny => sx_any
  | PPanic => sx_crash
  end.

Fixpoint find_sink (k : N) (l : list (N * (bytes * bytes))) : option (bytes * bytes) :=
  match l with [] => None | (k', v) :: l' => if k =? k' then Some v else find_sink k l' end.

(* the source the stand-in sees for a literal source of class cls / expected content y *)
Definition toy_src (k : wkind) (src : bytes) (cls : N) (y : bytes) : bytes :=
  match k with
  | KIdent => src
  | _ => match cls with 1 => 1 :: y | 2 => 2 :: y | _ => [0] end
  end.

(* what a fresh reader of encoding k makes of a destination's content *)
Definition toy_dec_of (k : wkind) (s : bytes) : dres :=
  match k with KIdent => Body s false | _ => toy_dec s end.

(* one decompressor operation on the stand-in, projected *)
Definition h_dop (k : wkind) (st : hstate) (op : dop) : hstate * sx * bool :=
  let '(d', o) := toy_d_step k st.(h_d) op in
  let '((pos', rem'), ob) := obs_step (toy_dec_of k) (st.(h_dpos), st.(h_rem)) op o in
  (mkH st.(h_c) d' st.(h_cpos) st.(h_cur) st.(h_sink) st.(h_acc) st.(h_sinks) pos' rem',
   sx_pobs ob, is_crash o).

(* Write / Close on a library writer that never had a destination: left open by the contract,
   not a case (the identity compressor is this repository's code and is covered) *)
Definition unsourced_writer (k : wkind) (p : cpos) : bool :=
  match k, p with KIdent, _ => false | _, CFresh => true | _, _ => false end.

Definition h_step (k : wkind) (st : hstate) (op : hop) : option (hstate * sx * bool) :=
  match op with
  | HCReset id =>
    let '(c', u, _) := toy_c_step st.(h_c) CReset in
    Some (mkH c' st.(h_d) COpen id [] [] st.(h_sinks) st.(h_dpos) st.(h_rem),
          sx_ures u, match u with UCrash => true | _ => false end)
  | HCWrite b =>
    if unsourced_writer k st.(h_cpos) then None else
    let '(c', u, out) := toy_c_step st.(h_c) (CWrite b) in
    let open := match st.(h_cpos) with COpen => true | _ => false end in
    Some (mkH c' st.(h_d) st.(h_cpos) st.(h_cur) (st.(h_sink) ++ out)
              (match u with UOk => if open then st.(h_acc) ++ b else st.(h_acc) | _ => st.(h_acc) end)
              st.(h_sinks) st.(h_dpos) st.(h_rem),
          (if open then sx_ures u else sx_any_u u), match u with UCrash => true | _ => false end)
  | HCClose =>
    if unsourced_writer k st.(h_cpos) then None else
    let '(c', u, out) := toy_c_step st.(h_c) CClose in
    let content := st.(h_sink) ++ out in
    match st.(h_cpos) with
    | COpen =>
      let good := match toy_dec_of k content with
                  | Body y false => bytes_eqb y st.(h_acc) | _ => false end in
      Some (mkH c' st.(h_d) (match u with UOk => CDone | _ => COpen end) st.(h_cur) content st.(h_acc)
                (match u with UOk => (st.(h_cur), (content, st.(h_acc))) :: st.(h_sinks) | _ => st.(h_sinks) end)
                st.(h_dpos) st.(h_rem),
            match u with UOk => sx_okflag good | _ => sx_ures u end,
            match u with UCrash => true | _ => false end)
    | _ =>
      Some (mkH c' st.(h_d) st.(h_cpos) st.(h_cur) content st.(h_acc) st.(h_sinks) st.(h_dpos) st.(h_rem),
            sx_any_u u, match u with UCrash => true | _ => false end)
    end
  | HDResetSink id =>
    match find_sink id st.(h_sinks) with
    | None => None
    | Some (content, _) => Some (h_dop k st (DReset content))
    end
  | HDResetLit src cls y => Some (h_dop k st (DReset (toy_src k src cls y)))
  | HDRead n => Some (h_dop k st (DRead n))
  | HDClose => Some (h_dop k st DClose)
  | HDReadN n => Some (h_dop k st (DReadN n))
  end.

Definition h_init (k : wkind) : hstate :=
  mkH (toy_c_init k) (toy_d_init k) CFresh 0 [] [] [] DFresh [].

Fixpoint h_run (k : wkind) (st : hstate) (ops : list hop) : option (list sx) :=
  match ops with
  | [] => Some []
  | op :: ops' =>
    match h_step k st op with
    | None => None
    | Some (st', out, crashed) =>
      if crashed then Some [out]
      else match h_run k st' ops' with Some r => Some (out :: r) | None => None end
    end
  end.

Definition un_hop (s : sx) : option hop :=
  match s with
  | L [I 0%Z; I k] => Some (HCReset (Z.to_N k))
  | L [I 1%Z; B b] => Some (HCWrite b)
  | L [I 2%Z] => Some HCClose
  | L [I 3%Z; I k; I _] => Some (HDResetSink (Z.to_N k))
  | L [I 4%Z; I _; B src; I cls; B y] => Some (HDResetLit src (Z.to_N cls) y)
  | L [I 5%Z] => Some (HDRead None)
  | L [I 6%Z; I n] => Some (HDRead (Some (Z.to_N n)))
  | L [I 7%Z] => Some HDClose
  | L [I 8%Z; I n] => Some (HDReadN (Z.to_N n))
  | _ => None
  end.

(* enc ctor (ops): ctor 0 = GetCompressor / GetDecompressor, 1 = the New* constructors
   (which exist for br, zstd, deflate, snappy) *)
Definition run_c20_hist (args : list sx) : sx :=
  or_bad (match args with
  | [I enc; I ctor; ops] =>
    do ops <- un_listof un_hop ops;
    if ((enc <? 1) || (6 <? enc))%Z then None
    else if negb (Z.eqb ctor 0) && ((enc <? 3) || negb (Z.eqb ctor 1))%Z then None
    else
      do k <- get_kind enc;
      do r <- h_run k (h_init k) ops;
      ret (L r)
  | _ => None end).

(* the same history on the decompressor the wire tracer hands out for the NAME of the encoding
   (tracer.GetDecompressor: 2 = the name as registered, 3 = in upper case) — same wrappers *)
Definition run_c20_trhist (args : list sx) : sx :=
  or_bad (match args with
  | [I enc; I ctor; ops] =>
    do ops <- un_listof un_hop ops;
    if ((enc <? 1) || (6 <? enc))%Z then None
    else if negb (Z.eqb ctor 2 || Z.eqb ctor 3) then None
    else
      do k <- get_kind enc;
      do r <- h_run k (h_init k) ops;
      ret (L r)
  | _ => None end).

(* raw_http_body.go WriteRawMessageContents / WriteRawStreamContents: GetCompressor(e); Reset(w);
   Write(payload); Close — for a payload that is present, the empty one included.  Reported: an
   error for an unknown enum value, else "a fresh reader decodes the output to the payload". *)
Definition run_c20_rawrt (args : list sx) : sx :=
  or_bad (match args with
  | [I e; I _; B payload] =>
    match get_kind e with
    | None => ret (sx_err "e")
    | Some k =>
      do r <- h_run k (h_init k) [HCReset 0; HCWrite payload; HCClose];
      ret (nth 2 r sx_crash)
    end
  | _ => None end).

(* LIVE sequences through connect-go's pools (reference server: request bodies; reference client:
   response bodies): each item is one message handled with the pool protocol on the reused
   instances — valid: compressed by the pooled compressor, Reset / ReadAll / Close / Reset(NoBody) on
   the pooled decompressor; corrupted (one bit flipped, or cut): a source that cannot be positioned
   or fails in the body, same protocol.  Reported per item: valid -> the projected ReadAll ("decoded
   equals what was sent"); corrupted -> (any) unless something panicked.  By session_independent /
   library_independent the result does not depend on which class the corruption falls in. *)
Definition live_payload (n idx : Z) : bytes := repeat (Z.to_N (idx mod 251)) (Z.to_nat (n mod 40)).
Definition nobody : hop := HDResetLit [] 0 [].
Definition live_item (idx : Z) (it : sx) : option (list hop * bool) :=
  match it with
  | L [I 0%Z; I n] =>
    Some ([HCReset (Z.to_N idx); HCWrite (live_payload n idx); HCClose;
           HDResetSink (Z.to_N idx); HDRead None; HDClose; nobody], true)
  | L [I 1%Z; I _; I c] | L [I 2%Z; I _; I c] =>
    if Z.even c then Some ([HDResetLit [] 0 []; nobody], false)
    else Some ([HDResetLit [] 2 [7]; HDRead None; HDClose; nobody], false)
  | _ => None
  end.
Fixpoint live_run (k : wkind) (st : hstate) (idx : Z) (items : list sx) : option (list sx) :=
  match items with
  | [] => Some []
  | it :: items' =>
    do oi <- live_item idx it;
    let '(ops, valid) := oi in
    (fix go (st : hstate) (ops : list hop) (flag : sx) {struct ops} : option (list sx) :=
       match ops with
       | [] => do r <- live_run k st (idx + 1)%Z items'; ret ((if valid then flag else sx_any) :: r)
       | op :: ops' =>
         do x <- h_step k st op;
         let '(st', out, crashed) := x in
         if crashed then ret [sx_crash]
         else go st' ops' (match op with HDRead None => out | _ => flag end)
       end) st ops sx_any
  end.
Definition run_c20_live (args : list sx) : sx :=
  or_bad (match args with
  | [I alg; L items] =>
    if ((alg <? 2) || (6 <? alg))%Z then None
    else
      do k <- get_kind alg;
      do r <- live_run k (h_init k) 0 items;
      ret (L r)
  | _ => None end).
(* one server stream: valid messages n1 n2 ..., then possibly one corrupted *)
Definition run_c20_cstream (args : list sx) : sx :=
  match args with
  | [I alg; L ns; L bad] =>
    run_c20_live [I alg; L (map (fun n => L [I 0%Z; n]) ns ++ match bad with [] => [] | _ => [L bad] end)]
  | _ => sx_bad
  end.

Definition run_c20_enum (args : list sx) : sx :=
  or_bad (match args with
  | [vs] =>
    do vs <- un_listof un_I vs;
    ret (L (map (fun v => L [I v; I (alg_of_enum v); I (alg_of_enum v)]) vs))
  | _ => None end).

Definition run_c20_names (args : list sx) : sx :=
  L (map (fun p => L [I (fst p); B (snd p)]) name_consts).

Definition run_c20_tracer (args : list sx) : sx :=
  or_bad (match args with
  | [ns] => do ns <- un_listof un_B ns; ret (L (map (fun n => I (tracer_alg n)) ns))
  | _ => None end).

(* enum, which header / query variant (not looked at: all four behave alike), actual value if present *)
Definition run_c20_check (args : list sx) : sx :=
  or_bad (match args with
  | [I e; I _; a] => do a <- un_opt un_B a; ret (sx_bool (check_complains e a))
  | _ => None end).

Definition run_c20_server (args : list sx) : sx :=
  or_bad (match args with
  | [ns] =>
    do ns <- un_listof un_B ns;
    ret (L (map (fun n => let '(r, p) := server_algs n in L [B n; I r; I p]) ns))
  | _ => None end).

Definition run_c20_client (args : list sx) : sx :=
  or_bad (match args with
  | [I e] =>
    let '(ce, a, acc) := client_obs e in
    ret (L [B ce; I a; L (map B acc)])
  | _ => None end).

(* raw_http_body.go WriteRawMessageContents compresses with GetCompressor(contents.Compression) *)
Definition run_c20_raw (args : list sx) : sx :=
  or_bad (match args with
  | [I e] => ret (I (alg_of_enum e))
  | _ => None end).

(* ---------- two instances from the same constructor, their histories interleaved ---------- *)
(* Every place that hands out instances (GetCompressor / GetDecompressor, the New* constructors the reference
   peers register with the RPC library, tracer.GetDecompressor) gives each caller an instance of its OWN: the
   state of two users is a PAIR of states and an operation of one user is a step on its component.  Generic
   in the step function; instances_independent (C20_Pair.v) says what that buys. *)
Section Pair.
  Variables (pst pop pout : Type) (pstep : pst -> pop -> pst * list pout).
  Fixpoint inst_run1 (s : pst) (ops : list pop) : list pout :=
    match ops with
    | [] => []
    | o :: r => let '(s', x) := pstep s o in x ++ inst_run1 s' r
    end.
  (* false = an operation of user A, true = of user B *)
  Fixpoint inst_run2 (sa sb : pst) (h : list (bool * pop)) : list (bool * pout) :=
    match h with
    | [] => []
    | (false, o) :: r => let '(sa', x) := pstep sa o in map (pair false) x ++ inst_run2 sa' sb r
    | (true, o) :: r => let '(sb', x) := pstep sb o in map (pair true) x ++ inst_run2 sa sb' r
    end.
End Pair.
Definition of_inst {X : Type} (b : bool) (l : list (bool * X)) : list X :=
  map snd (filter (fun p => Bool.eqb (fst p) b) l).

(* the scripted history machine as a total step function: None = the history is over (an operation panicked),
   HBad = not a case *)
Inductive hout := HBad | HOut (o : sx).
Definition h_step1 (k : wkind) (s : option hstate) (op : hop) : option hstate * list hout :=
  match s with
  | None => (None, [])
  | Some st =>
    match h_step k st op with
    | None => (None, [HBad])
    | Some (st', out, crashed) => (if crashed then None else Some st', [HOut out])
    end
  end.
Fixpoint houts (l : list hout) : option (list sx) :=
  match l with
  | [] => Some []
  | HBad :: _ => None
  | HOut o :: r => do t <- houts r; ret (o :: t)
  end.
Fixpoint merge_sched (sched : list Z) (a b : list hop) : option (list (bool * hop)) :=
  match sched with
  | [] => match a, b with [], [] => Some [] | _, _ => None end
  | t :: r =>
    if (t =? 0)%Z then match a with x :: a' => do m <- merge_sched r a' b; ret ((false, x) :: m) | [] => None end
    else if (t =? 1)%Z then match b with x :: b' => do m <- merge_sched r a b'; ret ((true, x) :: m) | [] => None end
    else None
  end.

(* enc ctor (opsA) (opsB) (schedule): ctor as for c20.hist (0, 1) / c20.trhist (2, 3) *)
Definition run_pair (tracer : bool) (args : list sx) : sx :=
  or_bad (match args with
  | [I enc; I ctor; a; b; sched] =>
    do a <- un_listof un_hop a; do b <- un_listof un_hop b; do sched <- un_listof un_I sched;
    if ((enc <? 1) || (6 <? enc))%Z then None
    else if tracer && negb (Z.eqb ctor 2 || Z.eqb ctor 3) then None
    else if negb tracer && (negb (Z.eqb ctor 0) && ((enc <? 3) || negb (Z.eqb ctor 1))%Z) then None
    else
      do k <- get_kind enc;
      do h <- merge_sched sched a b;
      let r := inst_run2 _ _ _ (h_step1 k) (Some (h_init k)) (Some (h_init k)) h in
      do ra <- houts (of_inst false r); do rb <- houts (of_inst true r);
      ret (L [L ra; L rb])
  | _ => None end).
Definition run_c20_pair := run_pair false.
Definition run_c20_trpair := run_pair true.

Definition c20_table : list (bytes * (list sx -> sx)) :=
  [ (bs "c20.hist", run_c20_hist);
    (bs "c20.enum", run_c20_enum);
    (bs "c20.names", run_c20_names);
    (bs "c20.tracer", run_c20_tracer);
    (bs "c20.check", run_c20_check);
    (bs "c20.server", run_c20_server);
    (bs "c20.client", run_c20_client);
    (bs "c20.raw", run_c20_raw);
    (bs "c20.trhist", run_c20_trhist);
    (bs "c20.pair", run_c20_pair);
    (bs "c20.trpair", run_c20_trpair);
    (bs "c20.rawrt", run_c20_rawrt);
    (bs "c20.live", run_c20_live);
    (bs "c20.clive", run_c20_live);
    (bs "c20.cstream", run_c20_cstream) ].
