(* C13_Model.v — executable model of the wire-format examiners of
     internal/app/referenceclient/wire_details.go
       examineGRPCEndStream, isValidHTTPFieldName/Value, checkGRPCStatus, checkBinaryMetadata,
       examineJSON, checkNoDuplicateKeys, examineConnectError, examineConnectErrorDetail,
       examineConnectEndStream, and the dispatch of examineWireDetails,
   and of the encoders that must satisfy them
     internal/app/referenceserver/impl.go   grpcStatusTrailers, grpcWebStatusEndStream
     internal/grpcutil/metadata.go          PercentEncodeMessage, ShouldEscapeByteInMessage
   as they are coded.  Go operations that can panic (index, slice) are explicit: the
   examiners return an [outcome], Crash standing for a Go panic.
   Library behaviour that is not repository code is a Section variable:
     proto.Marshal / proto.Unmarshal of google.rpc.Status, and encoding/json (the examiners
     start from the duplicate-preserving value tree that the Go harness obtains from the real
     json.Decoder; [None] = encoding/json rejects the text).
   No proofs here. *)
From V Require Export Base.
From V Require Import C13_Consts.
Open Scope N_scope.

Inductive outcome (A : Type) := Done (a : A) | Crash.
Arguments Done {A} a.
Arguments Crash {A}.

Definition is_nil {A} (l : list A) : bool := match l with [] => true | _ => false end.

(* ====================================================================== *)
(* feedback classes (one per Printf site, or per group of sites)           *)
(* ====================================================================== *)
Inductive fb :=
(* examineGRPCEndStream *)
| EosNoColon | EosName | EosUpper | EosValue | EosObsFold | EosBlankEnd | EosBlank | EosLF | EosNoCRLF
(* checkGRPCStatus *)
| StMulti | StMissing | StParse | StRange
| MsgMulti | MsgHex | MsgRaw | MsgIncomplete | MsgWithOk
| DetMulti | DetB64 | DetPadded | DetProto | DetCode | DetOkDetails | DetMsg
(* checkBinaryMetadata *)
| BinB64 | BinPadded
(* examineWireDetails *)
| HttpTrailers
(* examineJSON (ctx: 0 connect error, 1 detail, 2 end stream) *)
| JSyntax (ctx : N) | JType (ctx : N) | JNullTop (ctx : N) | JDup (ctx : N) | JKey (ctx : N)
(* examineConnectError *)
| CeCodeKind | CeCodeName | CeMessageKind | CeDetailsKind | CeNoCode
(* examineConnectErrorDetail *)
| CdTypeKind | CdTypeName | CdValueKind | CdValueB64 | CdNoType | CdNoValue
(* examineConnectEndStream *)
| EsErrorKind | EsMetaKind | EsMetaName | EsMetaValKind | EsMetaElemKind | EsMetaValue.

Definition ctx_tag (c : N) : bytes := if c =? 0 then bs "ce" else if c =? 1 then bs "cd" else bs "es".

Definition fb_tag (f : fb) : bytes :=
  match f with
  | EosNoColon => bs "eos-nocolon" | EosName => bs "eos-name" | EosUpper => bs "eos-upper"
  | EosValue => bs "eos-value" | EosObsFold => bs "eos-obsfold" | EosBlankEnd => bs "eos-blank-end"
  | EosBlank => bs "eos-blank" | EosLF => bs "eos-lf" | EosNoCRLF => bs "eos-nocrlf"
  | StMulti => bs "st-multi" | StMissing => bs "st-missing" | StParse => bs "st-parse" | StRange => bs "st-range"
  | MsgMulti => bs "msg-multi" | MsgHex => bs "msg-hex" | MsgRaw => bs "msg-raw"
  | MsgIncomplete => bs "msg-incomplete" | MsgWithOk => bs "msg-with-ok"
  | DetMulti => bs "det-multi" | DetB64 => bs "det-b64" | DetPadded => bs "det-padded" | DetProto => bs "det-proto"
  | DetCode => bs "det-code" | DetOkDetails => bs "det-okdetails" | DetMsg => bs "det-msg"
  | BinB64 => bs "bin-b64" | BinPadded => bs "bin-padded"
  | HttpTrailers => bs "http-trailers"
  | JSyntax c => ctx_tag c ++ bs "-syntax" | JType c => ctx_tag c ++ bs "-type" | JNullTop c => ctx_tag c ++ bs "-null"
  | JDup c => ctx_tag c ++ bs "-dup" | JKey c => ctx_tag c ++ bs "-key"
  | CeCodeKind => bs "ce-code-kind" | CeCodeName => bs "ce-code-name" | CeMessageKind => bs "ce-message-kind"
  | CeDetailsKind => bs "ce-details-kind" | CeNoCode => bs "ce-nocode"
  | CdTypeKind => bs "cd-type-kind" | CdTypeName => bs "cd-type-name" | CdValueKind => bs "cd-value-kind"
  | CdValueB64 => bs "cd-value-b64" | CdNoType => bs "cd-notype" | CdNoValue => bs "cd-novalue"
  | EsErrorKind => bs "es-error-kind" | EsMetaKind => bs "es-meta-kind" | EsMetaName => bs "es-meta-name"
  | EsMetaValKind => bs "es-meta-val-kind" | EsMetaElemKind => bs "es-meta-elem-kind" | EsMetaValue => bs "es-meta-value"
  end.

(* ====================================================================== *)
(* byte classes                                                            *)
(* ====================================================================== *)
(* isValidHTTPFieldName: the listed specials, digits, letters *)
Definition is_token_char (c : N) : bool :=
  existsb (N.eqb c) [33; 35; 36; 37; 38; 39; 42; 43; 45; 46; 94; 95; 96; 124; 126]
  || ((48 <=? c) && (c <=? 57)) || ((97 <=? c) && (c <=? 122)) || ((65 <=? c) && (c <=? 90)).
Definition valid_field_name (s : bytes) : bool := forallb is_token_char s.

(* isValidHTTPFieldValue: not (char != '\t' && (char < 32 || char == 127)) *)
Definition is_value_char (c : N) : bool := negb (negb (c =? 9) && ((c <? 32) || (c =? 127))).
Definition valid_field_value (s : bytes) : bool := forallb is_value_char s.

Definition is_upper (c : N) : bool := (65 <=? c) && (c <=? 90).
Definition is_ascii (c : N) : bool := c <? 128.
(* key != strings.ToLower(key), observed for ASCII keys only (strings.ToLower is Unicode-aware;
   a key with a byte >= 0x80 is an invalid field name anyway and the harness drops the
   lower-case message for such keys on the Go side as well) *)
Definition not_lower (key : bytes) : bool := forallb is_ascii key && existsb is_upper key.

Definition upper_byte (c : N) : N := if (97 <=? c) && (c <=? 122) then c - 32 else c.
(* textproto.CanonicalMIMEHeaderKey *)
Fixpoint canon_go (up : bool) (s : bytes) : bytes :=
  match s with
  | [] => []
  | c :: r => let c' := if up then upper_byte c else lower_byte c in c' :: canon_go (c' =? 45) r
  end.
Definition canonical_key (s : bytes) : bytes :=
  if forallb is_token_char s then canon_go true s else s.

(* ShouldEscapeByteInMessage *)
Definition should_escape (c : N) : bool := (c <? 32) || (126 <? c) || (c =? 37).
Definition is_hex (c : N) : bool :=
  ((97 <=? c) && (c <=? 102)) || ((65 <=? c) && (c <=? 70)) || ((48 <=? c) && (c <=? 57)).

(* ====================================================================== *)
(* PercentEncodeMessage                                                    *)
(* ====================================================================== *)
Definition upperhex : bytes := bs "0123456789ABCDEF".
(* upperhex[n]: a Go index expression *)
Definition hex_at (n : N) : outcome N :=
  match nth_error upperhex (N.to_nat n) with Some c => Done c | None => Crash end.

Fixpoint pe_loop (m : bytes) : outcome bytes :=
  match m with
  | [] => Done []
  | c :: r =>
    match pe_loop r with
    | Crash => Crash
    | Done t =>
      if should_escape c then
        match hex_at (c / 16), hex_at (c mod 16) with     (* char>>4, char&15 *)
        | Done h, Done l => Done (37 :: h :: l :: t)
        | _, _ => Crash
        end
      else Done (c :: t)
    end
  end.
(* count first; the message itself when nothing needs escaping *)
Definition percent_encode (m : bytes) : outcome bytes :=
  if N.of_nat (length (filter should_escape m)) =? 0 then Done m else pe_loop m.

(* The grpc-message value the reference server puts into its status trailers:
   PercentEncodeMessage, and a space at either end of the result written as %20 (optional
   whitespace around a field value does not survive the trailer block of gRPC-Web or an
   HTTP/1.1 hop, and the message has to agree with grpc-status-details-bin).  A space at an
   end of the encoding is a space at that end of the message (escapes begin with '%' and end
   with a hex digit), so this is computed per message byte. *)
Fixpoint tm_loop (first : bool) (m : bytes) : outcome bytes :=
  match m with
  | [] => Done []
  | c :: r =>
    match tm_loop false r with
    | Crash => Crash
    | Done t =>
      if should_escape c then
        match hex_at (c / 16), hex_at (c mod 16) with
        | Done h, Done l => Done (37 :: h :: l :: t)
        | _, _ => Crash
        end
      else if (first || is_nil r) && (c =? 32) then Done (37 :: 50 :: 48 :: t)
      else Done (c :: t)
    end
  end.
Definition trailer_message (m : bytes) : outcome bytes := tm_loop true m.

(* url.PathUnescape *)
Definition unhex (c : N) : option N :=
  if (48 <=? c) && (c <=? 57) then Some (c - 48)
  else if (97 <=? c) && (c <=? 102) then Some (c - 87)
  else if (65 <=? c) && (c <=? 70) then Some (c - 55)
  else None.
Fixpoint percent_decode (s : bytes) : option bytes :=
  match s with
  | [] => Some []
  | c :: r =>
    if c =? 37 then
      match r with
      | a :: b :: r' =>
        match unhex a, unhex b, percent_decode r' with
        | Some x, Some y, Some d => Some ((x * 16 + y) :: d)
        | _, _, _ => None
        end
      | _ => None
      end
    else match percent_decode r with Some d => Some (c :: d) | None => None end
  end.

(* ====================================================================== *)
(* encoding/base64 (Std alphabet): '\r' '\n' skipped, trailing bits not checked *)
(* ====================================================================== *)
Definition b64_char (n : N) : N :=
  if n <? 26 then 65 + n else if n <? 52 then 71 + n else if n <? 62 then n - 4
  else if n =? 62 then 43 else 47.
Fixpoint b64_encode (s : bytes) : bytes :=
  match s with
  | a :: b :: c :: r =>
    b64_char (a / 4) :: b64_char ((a mod 4) * 16 + b / 16) :: b64_char ((b mod 16) * 4 + c / 64)
      :: b64_char (c mod 64) :: b64_encode r
  | [a; b] => [b64_char (a / 4); b64_char ((a mod 4) * 16 + b / 16); b64_char ((b mod 16) * 4)]
  | [a] => [b64_char (a / 4); b64_char ((a mod 4) * 16)]
  | [] => []
  end.
Definition b64_val (c : N) : option N :=
  if (65 <=? c) && (c <=? 90) then Some (c - 65)
  else if (97 <=? c) && (c <=? 122) then Some (c - 71)
  else if (48 <=? c) && (c <=? 57) then Some (c + 4)
  else if c =? 43 then Some 62 else if c =? 47 then Some 63 else None.
Fixpoint b64_vals (s : bytes) : option (list N) :=
  match s with
  | [] => Some []
  | c :: r => match b64_val c, b64_vals r with Some v, Some l => Some (v :: l) | _, _ => None end
  end.
Fixpoint b64_groups (l : list N) : option bytes :=
  match l with
  | a :: b :: c :: d :: r =>
    match b64_groups r with
    | Some t => Some ((a * 4 + b / 16) :: ((b mod 16) * 16 + c / 4) :: ((c mod 4) * 64 + d) :: t)
    | None => None
    end
  | [a; b; c] => Some [a * 4 + b / 16; (b mod 16) * 16 + c / 4]
  | [a; b] => Some [a * 4 + b / 16]
  | [_] => None
  | [] => Some []
  end.
Definition b64_raw_nonl (s : bytes) : option bytes :=
  match b64_vals s with Some l => b64_groups l | None => None end.
Definition pad : N := 61.
Definition b64_std_nonl (s : bytes) : option bytes :=
  let n := N.of_nat (length s) in
  if negb (n mod 4 =? 0) then None
  else match rev s with
       | p1 :: p2 :: body =>
         if (p1 =? pad) && (p2 =? pad) then b64_raw_nonl (rev body)
         else if p1 =? pad then b64_raw_nonl (rev (p2 :: body))
         else b64_raw_nonl s
       | _ => b64_raw_nonl s
       end.
Definition is_newline (c : N) : bool := (c =? 10) || (c =? 13).
Definition strip_nl (s : bytes) : bytes := filter (fun c => negb (is_newline c)) s.
(* base64.RawStdEncoding.DecodeString / base64.StdEncoding.DecodeString *)
Definition b64_decode_raw (s : bytes) : option bytes := b64_raw_nonl (strip_nl s).
Definition b64_decode_std (s : bytes) : option bytes := b64_std_nonl (strip_nl s).

(* ====================================================================== *)
(* http.Header as an association list (keys unique, insertion order)        *)
(* ====================================================================== *)
Definition hmap := list (bytes * list bytes).
Fixpoint hget (m : hmap) (k : bytes) : list bytes :=
  match m with
  | [] => []
  | (k', vs) :: m' => if bytes_eqb k k' then vs else hget m' k
  end.
Fixpoint hput (m : hmap) (k : bytes) (vs : list bytes) : hmap :=
  match m with
  | [] => [(k, vs)]
  | (k', vs') :: m' => if bytes_eqb k k' then (k', vs) :: m' else (k', vs') :: hput m' k vs
  end.
Definition happend (m : hmap) (k : bytes) (v : bytes) : hmap := hput m k (hget m k ++ [v]).

(* ====================================================================== *)
(* examineGRPCEndStream                                                    *)
(* ====================================================================== *)
Definition is_ws (c : N) : bool := (c =? 32) || (c =? 9).
Fixpoint trim_left_ws (s : bytes) : bytes :=
  match s with
  | c :: r => if is_ws c then trim_left_ws r else s
  | [] => []
  end.
(* list reversal in linear time (the standard library's [rev] appends at every step; trailer lines and
   values can be megabytes long); [rev_lin l = rev l], C13_Proofs.rev_lin_rev *)
Definition rev_lin {A} (l : list A) : list A := rev_append l [].

(* strings.Trim(s, " \t") *)
Definition trim_ws (s : bytes) : bytes := rev_lin (trim_left_ws (rev_lin (trim_left_ws s))).

Definition ends_cr (s : bytes) : bool := match rev_lin s with 13 :: _ => true | _ => false end.
Definition strip_cr (s : bytes) : bytes := match rev_lin s with 13 :: r => rev_lin r | _ => s end.

(* strings.SplitN(line, ":", 2) *)
Fixpoint cut_colon (s : bytes) : option (bytes * bytes) :=
  match s with
  | [] => None
  | c :: r =>
    if c =? 58 then Some ([], r)
    else match cut_colon r with Some (a, b) => Some (c :: a, b) | None => None end
  end.
Definition split_n2 (s : bytes) : list bytes :=
  match cut_colon s with Some (a, b) => [a; b] | None => [s] end.

Definition starts_ws (key : bytes) : bool := match key with c :: _ => is_ws c | [] => false end.

Record est := mk_est {
  e_tr : hmap; e_nocr : N; e_blanks : nat; e_crlf : bool; e_blank_end : bool;
  e_folds : N; e_prev : bytes; e_out : list fb }.

Definition est0 : est := mk_est [] 0 0%nat false false 0 [] [].

(* the per-line checks of a "name: value" line; returns feedback and the trimmed value *)
Definition field_fb (key v line : bytes) : list fb * bytes :=
  let val := trim_ws v in
  ((if valid_field_name key then [] else [EosName]) ++
   (if not_lower key then [EosUpper] else []) ++
   (if valid_field_value val then [] else [EosValue]), val).

(* one iteration of the loop over endStreamLines; n = len(endStreamLines) *)
Definition eos_step (n i : nat) (line0 : bytes) (s : est) : outcome est :=
  let is_last := Nat.eqb (i + 1) n in
  if is_last && is_nil line0 then
    Done (mk_est (e_tr s) (e_nocr s) (e_blanks s) true (e_blank_end s) (e_folds s) (e_prev s) (e_out s))
  else
    let line := if is_last then line0 else if ends_cr line0 then strip_cr line0 else line0 in
    let nocr := if is_last then e_nocr s else if ends_cr line0 then e_nocr s else e_nocr s + 1 in
    if is_nil line then
      Done (mk_est (e_tr s) nocr (S (e_blanks s)) (e_crlf s)
                   (if Nat.eqb (i + 2) n then true else e_blank_end s) (e_folds s) (e_prev s) (e_out s))
    else
      match split_n2 line with
      | [] => Crash                                   (* parts[0] *)
      | key :: rest =>
        if Nat.ltb (e_blanks s) i && starts_ws key then
          (* obsolete line folding *)
          let vals := hget (e_tr s) (e_prev s) in
          let t := trim_ws line in
          let tr' := match vals with
                     | [] => hput (e_tr s) (canonical_key (e_prev s)) [t]          (* trailers.Set *)
                     | _ => hput (e_tr s) (e_prev s) (removelast vals ++ [last vals [] ++ 32 :: t])
                     end in
          Done (mk_est tr' nocr (e_blanks s) (e_crlf s) (e_blank_end s) (e_folds s + 1) (e_prev s) (e_out s))
        else
          let ck := canonical_key key in
          match rest with
          | [v] =>
            let '(fbs, val) := field_fb key v line in
            Done (mk_est (happend (e_tr s) ck val) nocr (e_blanks s) (e_crlf s) (e_blank_end s) (e_folds s)
                         ck (e_out s ++ fbs))
          | _ =>                                        (* len(parts) != 2 *)
            Done (mk_est (happend (e_tr s) ck []) nocr (e_blanks s) (e_crlf s) (e_blank_end s) (e_folds s)
                         ck (e_out s ++ [EosNoColon]))
          end
      end.

Fixpoint eos_loop (n i : nat) (lines : list bytes) (s : est) : outcome est :=
  match lines with
  | [] => Done s
  | l :: rest =>
    match eos_step n i l s with
    | Crash => Crash
    | Done s' => eos_loop n (S i) rest s'
    end
  end.

Definition eos_tail (s : est) : list fb :=
  (if 0 <? e_folds s then [EosObsFold] else []) ++
  (if Nat.ltb 0 (e_blanks s) then
     (if Nat.eqb (e_blanks s) 1 && e_blank_end s then [EosBlankEnd] else [EosBlank]) else []) ++
  (if 0 <? e_nocr s then [EosLF] else []) ++
  (if e_crlf s then [] else [EosNoCRLF]).

Definition examine_grpc_end_stream (content : bytes) : outcome (list fb * hmap) :=
  let lines := split_on 10 content in
  match eos_loop (length lines) 0 lines est0 with
  | Crash => Crash
  | Done s => Done (e_out s ++ eos_tail s, e_tr s)
  end.

(* ====================================================================== *)
(* checkGRPCStatus                                                         *)
(* ====================================================================== *)
Definition k_status : bytes := bs "Grpc-Status".
Definition k_message : bytes := bs "Grpc-Message".
Definition k_details : bytes := bs "Grpc-Status-Details-Bin".

Fixpoint digits_val (s : bytes) (acc : Z) : option Z :=
  match s with
  | [] => Some acc
  | c :: r => if is_digit c then digits_val r (acc * 10 + Z.of_N (c - 48))%Z else None
  end.
(* strconv.Atoi on a 64-bit platform *)
Definition atoi (s : bytes) : option Z :=
  let '(neg, body) := match s with
                      | 45 :: r => (true, r)
                      | 43 :: r => (false, r)
                      | _ => (false, s)
                      end in
  match body with
  | [] => None
  | _ => match digits_val body 0%Z with
         | None => None
         | Some v => let v' := if neg then Z.opp v else v in
                     if ((-9223372036854775808 <=? v') && (v' <=? 9223372036854775807))%Z then Some v' else None
         end
  end.

Definition two32 : Z := 4294967296.
Definition two31 : Z := 2147483648.
Definition to_i32 (z : Z) : Z :=
  let m := (z mod two32)%Z in if (m <? two31)%Z then m else (m - two32)%Z.

(* the scanner over grpc-message *)
Fixpoint scan_msg (s : bytes) (expect : N) : list fb :=
  match s with
  | [] => if 0 <? expect then [MsgIncomplete] else []
  | c :: r =>
    if 0 <? expect then (if is_hex c then scan_msg r (expect - 1) else [MsgHex])
    else if c =? 37 then scan_msg r 2
    else if should_escape c then [MsgRaw]
    else scan_msg r 0
  end.

(* google.rpc.Status as far as the check looks at it: code, message, len(details) *)
Inductive ustatus := UOk (code : Z) (msg : bytes) (ndetails : nat) | UBad.

Section Status.
  Variable unmarshal : bytes -> ustatus.               (* proto.Unmarshal(data, &status.Status{}) *)

  Definition check_details (code : option Z) (msg : option bytes) (detailsBin : bytes) : list fb :=
    let after (data : bytes) : list fb :=
      match unmarshal data with
      | UBad => [DetProto]
      | UOk pc pm nd =>
        (match code with Some c => if (pc =? to_i32 c)%Z then [] else [DetCode] | None => [] end) ++
        (if (pc =? 0)%Z && Nat.ltb 0 nd then [DetOkDetails] else []) ++
        (match msg with Some m => if bytes_eqb pm m then [] else [DetMsg] | None => [] end)
      end in
    match b64_decode_raw detailsBin with
    | Some data => after data
    | None =>
      match b64_decode_std detailsBin with
      | None => [DetB64]
      | Some data => DetPadded :: after data
      end
    end.

  Definition check_grpc_status (h : hmap) : outcome (list fb) :=
    let statusVals := hget h k_status in
    let st : outcome (list fb * option Z) :=
      if Nat.ltb 1 (length statusVals) then Done ([StMulti], None)
      else if Nat.eqb (length statusVals) 0 then Done ([StMissing], None)
      else match statusVals with
           | [] => Crash                                     (* statusVals[0] *)
           | s :: _ =>
             match atoi s with
             | None => Done ([StParse], None)
             | Some c => Done ((if (c <? 0)%Z || (16 <? c)%Z then [StRange] else []), Some c)
             end
           end in
    match st with
    | Crash => Crash
    | Done (fb1, code) =>
      let msgVals := hget h k_message in
      let fb2 := if Nat.ltb 1 (length msgVals) then [MsgMulti] else [] in
      let m : outcome (list fb * option bytes) :=
        if Nat.ltb 0 (length msgVals) then
          match msgVals with
          | [] => Crash                                      (* msgVals[0] *)
          | msgStr :: _ =>
            Done (scan_msg msgStr 0 ++
                  (match code with
                   | Some c => if (c =? 0)%Z && negb (is_nil msgStr) then [MsgWithOk] else []
                   | None => []
                   end),
                  percent_decode msgStr)
          end
        else Done ([], None) in
      match m with
      | Crash => Crash
      | Done (fb3, msg) =>
        let detVals := hget h k_details in
        let fb4 := if Nat.ltb 1 (length detVals) then [DetMulti] else [] in
        if Nat.eqb (length detVals) 0 then Done (fb1 ++ fb2 ++ fb3 ++ fb4)
        else match detVals with
             | [] => Crash                                   (* detailsBinVals[0] *)
             | d :: _ => Done (fb1 ++ fb2 ++ fb3 ++ fb4 ++ check_details code msg d)
             end
      end
    end.
End Status.

(* ====================================================================== *)
(* checkBinaryMetadata (header names taken as ASCII: strings.ToLower)       *)
(* ====================================================================== *)
Definition header := (bytes * list bytes)%type.          (* conformancev1.Header *)
Definition has_suffix (suf s : bytes) : bool := has_prefix (rev suf) (rev s).

(* the loop over entry.Value; bool = the function returned *)
Fixpoint bin_vals (vs : list bytes) : list fb * bool :=
  match vs with
  | [] => ([], false)
  | v :: r =>
    match b64_decode_raw v with
    | Some _ => bin_vals r
    | None =>
      match b64_decode_std v with
      | None => ([BinB64], true)
      | Some _ => let '(f, stop) := bin_vals r in (BinPadded :: f, stop)
      end
    end
  end.
Fixpoint check_binary_metadata (md : list header) : list fb :=
  match md with
  | [] => []
  | (name, vals) :: r =>
    let ln := lower name in
    if negb (has_suffix (bs "-bin") ln) || bytes_eqb ln (bs "grpc-status-details-bin")
    then check_binary_metadata r
    else let '(f, stop) := bin_vals vals in
         if stop then f else f ++ check_binary_metadata r
  end.

(* ====================================================================== *)
(* the encoders: grpcStatusTrailers, grpcWebStatusEndStream                *)
(* ====================================================================== *)
Fixpoint dec_fuel (fuel : nat) (n : N) (acc : bytes) : bytes :=
  match fuel with
  | O => acc
  | S f => if n <? 10 then (48 + n) :: acc else dec_fuel f (n / 10) ((48 + n mod 10) :: acc)
  end.
(* fmt.Sprintf("%d", code) for a uint32 *)
Definition dec_of_N (n : N) : bytes := dec_fuel (S (N.size_nat n)) n [].

Definition detail := (bytes * bytes)%type.              (* connect.ErrorDetail: Type(), Bytes() *)

Section Encoders.
  (* proto.Marshal(&status.Status{Code, Message, Details: [Any{TypeUrl, Value}]}) *)
  Variable marshal : Z -> bytes -> list (bytes * bytes) -> option bytes.

  Definition grpc_status_trailers (code : N) (msg : bytes) (details : list detail) : outcome (list header) :=
    match trailer_message msg with
    | Crash => Crash
    | Done pm =>
      Done ([ (bs "grpc-status", [dec_of_N code]); (bs "grpc-message", [pm]) ] ++
            (if Nat.ltb 0 (length details) then
               match marshal (to_i32 (Z.of_N code)) msg
                             (map (fun d => (c13_any_prefix ++ fst d, snd d)) details) with
               | Some data => [ (bs "grpc-status-details-bin", [b64_encode data]) ]
               | None => []
               end
             else []))
    end.

  Definition render_line (name v : bytes) : bytes := lower name ++ [58; 32] ++ v ++ [13; 10].
  Definition render_header (h : header) : bytes := flat_map (render_line (fst h)) (snd h).
  Definition render_block (hs : list header) : bytes := flat_map render_header hs.

  Definition grpc_web_end_stream (code : N) (msg : bytes) (details : list detail) (trailers : list header)
    : outcome bytes :=
    match grpc_status_trailers code msg details with
    | Crash => Crash
    | Done st => Done (render_block (st ++ trailers))
    end.
End Encoders.

(* what net/http makes of a list of trailers written with Header.Add *)
Definition to_map (hs : list header) : hmap :=
  fold_left (fun m h => fold_left (fun m v => happend m (canonical_key (fst h)) v) (snd h) m) hs [].

(* ====================================================================== *)
(* JSON value trees as encoding/json sees them (duplicates and order kept)  *)
(* ====================================================================== *)
Inductive json :=
| JNull
| JBool (b : bool)
| JNum (finite : bool)         (* false: the literal does not convert to float64 *)
| JStr (s : bytes)
| JArr (l : list json)
| JObj (l : list (bytes * json)).

(* checkNoDuplicateKeys: Decoder.Token walk in document order; the first problem wins *)
Inductive dup_err := DupKey | BadNumber.

Fixpoint check_dup (t : json) : option dup_err :=
  match t with
  | JNum false => Some BadNumber
  | JArr l =>
    (fix go (l : list json) : option dup_err :=
       match l with
       | [] => None
       | x :: r => match check_dup x with Some e => Some e | None => go r end
       end) l
  | JObj ms =>
    (fix go (seen : list bytes) (l : list (bytes * json)) : option dup_err :=
       match l with
       | [] => None
       | (k, v) :: r =>
         if mem_bytes k seen then Some DupKey
         else match check_dup v with Some e => Some e | None => go (k :: seen) r end
       end) [] ms
  | _ => None
  end.

(* encoding/json struct-field matching: exact name, else the folded name
   (ASCII upper-casing; U+017F and U+212A fold to 'S' and 'K') *)
Fixpoint fold_key (k : bytes) : bytes :=
  match k with
  | 197 :: 191 :: r => 83 :: fold_key r
  | 226 :: 132 :: 170 :: r => 75 :: fold_key r
  | c :: r => upper_byte c :: fold_key r
  | [] => []
  end.
Definition field_match (name k : bytes) : bool := bytes_eqb (fold_key k) (fold_key name).

Inductive fkind := FStrPtr | FRaw | FRawList | FStrListMap.

Definition is_str_or_null (v : json) : bool := match v with JStr _ | JNull => true | _ => false end.
(* can encoding/json store value v into a field of this kind without an UnmarshalTypeError? *)
Definition kind_ok (k : fkind) (v : json) : bool :=
  match k with
  | FStrPtr => is_str_or_null v
  | FRaw => true
  | FRawList => match v with JArr _ | JNull => true | _ => false end
  | FStrListMap =>
    match v with
    | JNull => true
    | JObj ms => forallb (fun kv => match snd kv with
                                    | JNull => true
                                    | JArr l => forallb is_str_or_null l
                                    | _ => false
                                    end) ms
    | _ => false
    end
  end.

Definition fields := list (bytes * fkind).
Fixpoint find_field (fs : fields) (k : bytes) : option fkind :=
  match fs with
  | [] => None
  | (n, kd) :: r => if field_match n k then Some kd else find_field r k
  end.
Definition typed_ok (fs : fields) (ms : list (bytes * json)) : bool :=
  forallb (fun kv => match find_field fs (fst kv) with Some kd => kind_ok kd (snd kv) | None => true end) ms.

(* the value the typed struct ends up with for a field: the last matching member *)
Fixpoint last_field (name : bytes) (ms : list (bytes * json)) (acc : option json) : option json :=
  match ms with
  | [] => acc
  | (k, v) :: r => last_field name r (if field_match name k then Some v else acc)
  end.

(* sortedKeys(asAny) *)
Fixpoint insert_member (x : bytes * json) (l : list (bytes * json)) : list (bytes * json) :=
  match l with
  | [] => [x]
  | y :: l' => if bytes_leb (fst x) (fst y) then x :: l else y :: insert_member x l'
  end.
Definition sort_members (l : list (bytes * json)) : list (bytes * json) := fold_right insert_member [] l.

Fixpoint has_key (k : bytes) (ms : list (bytes * json)) : bool :=
  match ms with [] => false | (k', _) :: r => bytes_eqb k k' || has_key k r end.

(* examineJSON: Err = one message printed and false returned; Ok = the members handed to
   forEachKey in sorted order (document order kept alongside for the typed view) *)
Inductive jres := JErr (f : fb) | JOk (ms : list (bytes * json)).

Definition examine_json (ctx : N) (fs : fields) (t : option json) : jres :=
  match t with
  | None => JErr (JSyntax ctx)
  | Some JNull => JErr (JNullTop ctx)
  | Some (JObj ms) =>
    if typed_ok fs ms then
      match check_dup (JObj ms) with
      | Some DupKey => JErr (JDup ctx)
      | Some BadNumber => JErr (JType ctx)
      | None => JOk ms
      end
    else JErr (JType ctx)
  | Some _ => JErr (JType ctx)
  end.

(* protoreflect.FullName.IsValid *)
Definition is_letter (c : N) : bool := (c =? 95) || ((97 <=? c) && (c <=? 122)) || ((65 <=? c) && (c <=? 90)).
Definition is_letter_digit (c : N) : bool := is_letter c || is_digit c.
Definition ident_ok (s : bytes) : bool :=
  match s with c :: r => is_letter c && forallb is_letter_digit r | [] => false end.
Definition fullname_valid (s : bytes) : bool := forallb ident_ok (split_on 46 s).

Definition ce_fields : fields := [(bs "code", FStrPtr); (bs "message", FStrPtr); (bs "details", FRawList)].
Definition cd_fields : fields := [(bs "type", FStrPtr); (bs "value", FStrPtr); (bs "debug", FRaw)].
Definition es_fields : fields := [(bs "error", FRaw); (bs "metadata", FStrListMap)].

(* examineConnectErrorDetail (the comparison of "debug" with "value" is protojson/registry
   territory and is projected away on both sides) *)
Definition cd_key_fb (kv : bytes * json) : list fb :=
  let '(k, v) := kv in
  if bytes_eqb k (bs "type") then
    match v with JStr s => if fullname_valid s then [] else [CdTypeName] | _ => [CdTypeKind] end
  else if bytes_eqb k (bs "value") then
    match v with
    | JStr s => match b64_decode_raw s with Some _ => [] | None => [CdValueB64] end
    | _ => [CdValueKind]
    end
  else if bytes_eqb k (bs "debug") then []
  else [JKey 1].

Definition examine_connect_error_detail (t : option json) : list fb :=
  match examine_json 1 cd_fields t with
  | JErr f => [f]
  | JOk ms =>
    flat_map cd_key_fb (sort_members ms) ++
    (if has_key (bs "type") ms then [] else [CdNoType]) ++
    (if has_key (bs "value") ms then [] else [CdNoValue])
  end.

(* examineConnectError *)
Definition ce_key_fb (kv : bytes * json) : list fb :=
  let '(k, v) := kv in
  if bytes_eqb k (bs "code") then
    match v with JStr s => if mem_bytes s c13_code_names then [] else [CeCodeName] | _ => [CeCodeKind] end
  else if bytes_eqb k (bs "message") then
    match v with JStr _ => [] | _ => [CeMessageKind] end
  else if bytes_eqb k (bs "details") then
    match v with JArr _ => [] | _ => [CeDetailsKind] end
  else [JKey 0].

Definition examine_connect_error (t : option json) : list fb :=
  match examine_json 0 ce_fields t with
  | JErr f => [f]
  | JOk ms =>
    flat_map ce_key_fb (sort_members ms) ++
    (if has_key (bs "code") ms then [] else [CeNoCode]) ++
    (if has_key (bs "details") ms then
       (* connErr.Details: the typed view *)
       match last_field (bs "details") ms None with
       | Some (JArr l) => flat_map (fun d => examine_connect_error_detail (Some d)) l
       | _ => []
       end
     else [])
  end.

(* examineConnectEndStream *)
Definition es_meta_fb (kv : bytes * json) : list fb :=
  let '(name, values) := kv in
  (if valid_field_name name then [] else [EsMetaName]) ++
  match values with
  | JArr l =>
    flat_map (fun v => match v with
                       | JStr s => if valid_field_value s then [] else [EsMetaValue]
                       | _ => [EsMetaElemKind]
                       end) l
  | _ => [EsMetaValKind]
  end.

Definition es_key_fb (kv : bytes * json) : list fb :=
  let '(k, v) := kv in
  if bytes_eqb k (bs "error") then
    match v with JObj _ => [] | _ => [EsErrorKind] end
  else if bytes_eqb k (bs "metadata") then
    match v with
    | JObj ms => flat_map es_meta_fb ms          (* range over a Go map: order not observable *)
    | _ => [EsMetaKind]
    end
  else [JKey 2].

Definition is_obj (v : json) : bool := match v with JObj _ => true | _ => false end.
Fixpoint get_key (k : bytes) (ms : list (bytes * json)) : option json :=
  match ms with [] => None | (k', v) :: r => if bytes_eqb k k' then Some v else get_key k r end.

Definition examine_connect_end_stream (t : option json) : list fb :=
  match examine_json 2 es_fields t with
  | JErr f => [f]
  | JOk ms =>
    flat_map es_key_fb (sort_members ms) ++
    (match get_key (bs "error") ms with
     | Some v => if is_obj v then examine_connect_error (last_field (bs "error") ms None) else []
     | None => []
     end)
  end.

(* ====================================================================== *)
(* examineWireDetails: the dispatch on the response's content type          *)
(* ====================================================================== *)
Record wire := mk_wire {
  w_ctype : bytes; w_status : Z;
  w_body : option json;          (* the (identity-encoded) body as encoding/json parses it *)
  w_eos : option bytes;          (* content of the first ResponseBodyEndStream event *)
  w_eos_json : option json;      (* ... as encoding/json parses it *)
  w_headers : hmap; w_trailers : hmap;
  w_has_data : bool;             (* a ResponseBodyData event exists *)
  w_err : bool }.                (* trace.Err != nil *)

Definition is_trailers_only (w : wire) : bool :=
  negb (w_err w) && forallb (fun kv => is_nil (snd kv)) (w_trailers w) && negb (w_has_data w).

Section Wire.
  Variable unmarshal : bytes -> ustatus.

  Definition lift (o : outcome (list fb)) (k : list fb -> outcome (list fb)) : outcome (list fb) :=
    match o with Crash => Crash | Done f => k f end.

  Definition examine_wire (w : wire) : outcome (list fb) :=
    let ct := w_ctype w in
    let part1 : outcome (list fb) :=
      if bytes_eqb ct (bs "application/json") && negb (w_status w =? 200)%Z then
        Done (examine_connect_error (w_body w))
      else if has_prefix (bs "application/connect+") ct then
        match w_eos w with Some _ => Done (examine_connect_end_stream (w_eos_json w)) | None => Done [] end
      else if has_prefix (bs "application/grpc-web") ct then
        match w_eos w with
        | Some c =>
          match examine_grpc_end_stream c with
          | Crash => Crash
          | Done (f, hs) => lift (check_grpc_status unmarshal hs) (fun g => Done (f ++ g))
          end
        | None => if is_trailers_only w then check_grpc_status unmarshal (w_headers w) else Done []
        end
      else if has_prefix (bs "application/grpc") ct then
        if is_trailers_only w then check_grpc_status unmarshal (w_headers w)
        else if Nat.ltb 0 (length (w_trailers w)) then check_grpc_status unmarshal (w_trailers w)
        else Done []
      else Done [] in
    lift part1 (fun f =>
      Done (f ++ if negb (bytes_eqb ct (bs "application/grpc")) && negb (has_prefix (bs "application/grpc+") ct)
                    && Nat.ltb 0 (length (w_trailers w))
                 then [HttpTrailers] else [])).
End Wire.

(* ====================================================================== *)
(* case decoding / result encoding (extracted glue)                         *)
(* ====================================================================== *)
Fixpoint insert_tag (x : bytes) (l : list bytes) : list bytes :=
  match l with
  | [] => [x]
  | y :: l' => if bytes_leb x y then x :: l else y :: insert_tag x l'
  end.
(* feedback is compared as a multiset of classes *)
Definition sx_fbs (l : list fb) : sx := L (map B (fold_right insert_tag [] (map fb_tag l))).

Fixpoint insert_hdr (h : bytes * list bytes) (l : hmap) : hmap :=
  match l with
  | [] => [h]
  | y :: l' => if bytes_leb (fst h) (fst y) then h :: l else y :: insert_hdr h l'
  end.
Definition sx_hmap (m : hmap) : sx :=
  L (map (fun kv => L [B (fst kv); L (map B (snd kv))]) (fold_right insert_hdr [] m)).
Definition sx_headers (hs : list header) : sx :=
  L (map (fun kv => L [B (fst kv); L (map B (snd kv))]) hs).

(* ====================================================================== *)
(* what the reference server puts on the wire for a Connect error: the JSON  *)
(* that connect-go's connectWireError / connectWireDetail /                  *)
(* connectEndStreamMessage marshal to, as a value tree                       *)
(* ====================================================================== *)
(* connect.Code.String(): the 16 names, "code_<n>" otherwise *)
Definition code_name (c : N) : bytes :=
  if (1 <=? c) && (c <=? N.of_nat (length c13_code_names))
  then nth (N.to_nat (c - 1)) c13_code_names []
  else bs "code_" ++ dec_of_N c.

(* an error detail: type name, value bytes, and the "debug" rendering when the type resolves
   (protojson: carried by the case as a value tree) *)
Definition wdetail := (bytes * bytes * option json)%type.
Definition wire_detail (d : wdetail) : json :=
  let '(ty, v, dbg) := d in
  JObj ([(bs "type", JStr ty); (bs "value", JStr (b64_encode v))] ++
        match dbg with Some j => [(bs "debug", j)] | None => [] end).

(* message: omitempty; details: omitempty *)
Definition wire_error (code : N) (msg : bytes) (details : list wdetail) : json :=
  JObj ([(bs "code", JStr (code_name code))] ++
        (if is_nil msg then [] else [(bs "message", JStr msg)]) ++
        (if is_nil details then [] else [(bs "details", JArr (map wire_detail details))])).

(* metadata: the response trailers as an http.Header (Header.Add of every value: canonical keys,
   values appended), marshalled as a map (keys sorted); omitempty *)
Definition sort_hmap (m : hmap) : hmap := fold_right insert_hdr [] m.
Definition wire_metadata (trailers : list header) : list (bytes * json) :=
  map (fun kv => (fst kv, JArr (map JStr (snd kv)))) (sort_hmap (to_map trailers)).
Definition wire_end_stream (err : option (N * bytes * list wdetail)) (trailers : list header) : json :=
  JObj ((match err with Some (c, m, ds) => [(bs "error", wire_error c m ds)] | None => [] end) ++
        (if is_nil (wire_metadata trailers) then [] else [(bs "metadata", JObj (wire_metadata trailers))])).

Definition un_header (s : sx) : option header :=
  match s with L [B n; L vs] => do vs <- un_list un_B vs; ret (n, vs) | _ => None end.
Definition un_headers (s : sx) : option (list header) := un_listof un_header s.
Definition un_detail (s : sx) : option detail :=
  match s with L [B t; B v] => Some (t, v) | _ => None end.

(* the proto.Unmarshal oracle of a case: ((data (code msg ndetails)) | (data ()) ...) *)
Definition un_ustatus (s : sx) : option ustatus :=
  match s with
  | L [] => Some UBad
  | L [I c; B m; I n] => Some (UOk c m (Z.to_nat n))
  | _ => None
  end.
Definition un_utable (s : sx) : option (list (bytes * ustatus)) :=
  un_listof (fun e => match e with L [B d; r] => do r <- un_ustatus r; ret (d, r) | _ => None end) s.
Fixpoint utable_lookup (t : list (bytes * ustatus)) (d : bytes) : ustatus :=
  match t with
  | [] => UBad
  | (d', r) :: t' => if bytes_eqb d d' then r else utable_lookup t' d
  end.

(* the proto.Marshal oracle of a case: () = error, (data) = bytes; it answers for the one status
   the case renders *)
Definition marshal_of (o : option bytes) : Z -> bytes -> list (bytes * bytes) -> option bytes :=
  fun _ _ _ => o.

Fixpoint un_json (s : sx) : option json :=
  match s with
  | L [I 0%Z] => Some JNull
  | L [I 1%Z; I b] => Some (JBool (negb (Z.eqb b 0)))
  | L [I 2%Z; I ok] => Some (JNum (negb (Z.eqb ok 0)))
  | L [I 3%Z; B str] => Some (JStr str)
  | L [I 4%Z; L elems] =>
    match (fix go (l : list sx) : option (list json) :=
             match l with
             | [] => Some []
             | x :: r => match un_json x, go r with Some a, Some t => Some (a :: t) | _, _ => None end
             end) elems with
    | Some l => Some (JArr l)
    | None => None
    end
  | L [I 5%Z; L members] =>
    match (fix go (l : list sx) : option (list (bytes * json)) :=
             match l with
             | [] => Some []
             | L [B k; v] :: r => match un_json v, go r with Some a, Some t => Some ((k, a) :: t) | _, _ => None end
             | _ => None
             end) members with
    | Some l => Some (JObj l)
    | None => None
    end
  | _ => None
  end.
(* () = encoding/json rejects the text; (tree) otherwise *)
Definition un_json_opt (s : sx) : option (option json) := un_opt un_json s.

Definition sx_outcome {A} (f : A -> sx) (o : outcome A) : sx :=
  match o with Crash => sx_crash | Done a => f a end.

(* c13.eos: block text, oracle table -> (feedback of examineGRPCEndStream, trailer map, feedback of checkGRPCStatus) *)
Definition run_c13_eos (args : list sx) : sx :=
  or_bad (match args with
  | [B content; tbl] =>
    do tbl <- un_utable tbl;
    ret (sx_outcome (fun '(f, hs) =>
           sx_outcome (fun g => L [sx_fbs f; sx_hmap hs; sx_fbs g]) (check_grpc_status (utable_lookup tbl) hs))
         (examine_grpc_end_stream content))
  | _ => None end).

(* c13.status: header map (canonical keys as given), oracle table -> feedback of checkGRPCStatus *)
Definition run_c13_status (args : list sx) : sx :=
  or_bad (match args with
  | [hs; tbl] =>
    do hs <- un_headers hs; do tbl <- un_utable tbl;
    ret (sx_outcome sx_fbs (check_grpc_status (utable_lookup tbl) hs))
  | _ => None end).

(* c13.binmeta: headers -> feedback of checkBinaryMetadata *)
Definition run_c13_binmeta (args : list sx) : sx :=
  or_bad (match args with
  | [hs] => do hs <- un_headers hs; ret (sx_fbs (check_binary_metadata hs))
  | _ => None end).

(* c13.percent: message -> PercentEncodeMessage, then the scanner and url.PathUnescape on it *)
Definition run_c13_percent (args : list sx) : sx :=
  or_bad (match args with
  | [B m] =>
    ret (sx_outcome (fun e => L [B e; sx_fbs (scan_msg e 0); sx_opt B (percent_decode e)]) (percent_encode m))
  | _ => None end).

(* c13.classes: one byte -> (ShouldEscapeByteInMessage, isValidHTTPFieldName, isValidHTTPFieldValue) *)
Definition run_c13_classes (args : list sx) : sx :=
  or_bad (match args with
  | [I c] => let c := Z.to_N c in
             ret (L [sx_bool (should_escape c); sx_bool (valid_field_name [c]); sx_bool (valid_field_value [c])])
  | _ => None end).

(* c13.enc: code msg details trailers marshal-oracle -> (grpcStatusTrailers, grpcWebStatusEndStream) *)
Definition run_c13_enc (args : list sx) : sx :=
  or_bad (match args with
  | [I code; B msg; ds; trs; mo] =>
    do ds <- un_listof un_detail ds; do trs <- un_headers trs; do mo <- un_opt un_B mo;
    let code := Z.to_N code in
    ret (sx_outcome (fun st =>
           sx_outcome (fun blk => L [sx_headers st; B blk]) (grpc_web_end_stream (marshal_of mo) code msg ds trs))
         (grpc_status_trailers (marshal_of mo) code msg ds))
  | _ => None end).

(* c13.webrt: the reference server's gRPC-Web end-stream for an error, examined: must be silent.
   code msg details trailers marshal-oracle unmarshal-table block(real encoder's; Go side) digest(ties the block to the structured input; Go side)
   -> (block, feedback, feedback) *)
Definition run_c13_webrt (args : list sx) : sx :=
  or_bad (match args with
  | [I code; B msg; ds; trs; mo; tbl; B _; B _] =>
    do ds <- un_listof un_detail ds; do trs <- un_headers trs; do mo <- un_opt un_B mo; do tbl <- un_utable tbl;
    let code := Z.to_N code in
    ret (sx_outcome (fun blk =>
           sx_outcome (fun '(f, hs) =>
             sx_outcome (fun g => L [B blk; sx_fbs f; sx_fbs g]) (check_grpc_status (utable_lookup tbl) hs))
           (examine_grpc_end_stream blk))
         (grpc_web_end_stream (marshal_of mo) code msg ds trs))
  | _ => None end).

(* c13.grpcrt: the reference server's gRPC trailers for an error as net/http delivers them, examined *)
Definition run_c13_grpcrt (args : list sx) : sx :=
  or_bad (match args with
  | [I code; B msg; ds; mo; tbl; L _; B _] =>
    do ds <- un_listof un_detail ds; do mo <- un_opt un_B mo; do tbl <- un_utable tbl;
    let code := Z.to_N code in
    ret (sx_outcome (fun st =>
           sx_outcome (fun g => L [sx_hmap (to_map st); sx_fbs g]) (check_grpc_status (utable_lookup tbl) (to_map st)))
         (grpc_status_trailers (marshal_of mo) code msg ds))
  | _ => None end).

(* c13.cerr / c13.ces: JSON text (for the Go side), its tree, strict flag (Go side only) *)
Definition run_c13_cerr (args : list sx) : sx :=
  or_bad (match args with
  | [B _; t; I _] => do t <- un_json_opt t; ret (sx_fbs (examine_connect_error t))
  | _ => None end).
Definition run_c13_ces (args : list sx) : sx :=
  or_bad (match args with
  | [B _; t; I _] => do t <- un_json_opt t; ret (sx_fbs (examine_connect_end_stream t))
  | _ => None end).

(* value trees printed the way the Go harness prints what json.Decoder reads *)
Fixpoint sx_json (t : json) : sx :=
  match t with
  | JNull => L [I 0%Z]
  | JBool b => L [I 1%Z; sx_bool b]
  | JNum ok => L [I 2%Z; sx_bool ok]
  | JStr s => L [I 3%Z; B s]
  | JArr l => L [I 4%Z; L ((fix go (l : list json) : list sx :=
                              match l with [] => [] | x :: r => sx_json x :: go r end) l)]
  | JObj ms => L [I 5%Z; L ((fix go (l : list (bytes * json)) : list sx :=
                               match l with [] => [] | (k, v) :: r => L [B k; sx_json v] :: go r end) ms)]
  end.

Definition un_wdetail (s : sx) : option wdetail :=
  match s with
  | L [B t; B v; d] => do d <- un_opt un_json d; ret (t, v, d)
  | _ => None
  end.

(* c13.cerrrt: the body of the reference server's unary Connect error response, examined: must be silent.
   code msg details(type value debug-tree?) text(Go side) digest(Go side) -> (tree, feedback) *)
Definition run_c13_cerrrt (args : list sx) : sx :=
  or_bad (match args with
  | [I code; B msg; ds; B _; B _] =>
    do ds <- un_listof un_wdetail ds;
    let t := wire_error (Z.to_N code) msg ds in
    ret (L [sx_json t; sx_fbs (examine_connect_error (Some t))])
  | _ => None end).

(* c13.cesrt: the reference server's Connect end-of-stream message for a streaming response.
   has-error code msg details trailers text digest -> (tree, feedback) *)
Definition run_c13_cesrt (args : list sx) : sx :=
  or_bad (match args with
  | [I he; I code; B msg; ds; trs; B _; B _] =>
    do ds <- un_listof un_wdetail ds; do trs <- un_headers trs;
    let t := wire_end_stream (if Z.eqb he 0 then None else Some (Z.to_N code, msg, ds)) trs in
    ret (L [sx_json t; sx_fbs (examine_connect_end_stream (Some t))])
  | _ => None end).

(* c13.wire: ctype status body-text body-tree eos(opt text) eos-tree headers trailers hasData err table *)
Definition run_c13_wire (args : list sx) : sx :=
  or_bad (match args with
  | [B ct; I status; B _; bt; eos; et; hs; ts; I hd; I er; tbl] =>
    do bt <- un_json_opt bt; do eos <- un_opt un_B eos; do et <- un_json_opt et;
    do hs <- un_headers hs; do ts <- un_headers ts; do tbl <- un_utable tbl;
    ret (sx_outcome sx_fbs
           (examine_wire (utable_lookup tbl)
              (mk_wire ct status bt eos et hs ts (negb (Z.eqb hd 0)) (negb (Z.eqb er 0)))))
  | _ => None end).

(* c13.nocrash: arbitrary bytes through every examiner on the Go side; the model's examiners
   are total and never yield Crash (C13_Props: *_total), so the model answers "ok" *)
Definition run_c13_nocrash (args : list sx) : sx :=
  or_bad (match args with
  | [B _] => ret (B (bs "ok"))
  | _ => None end).

Definition c13_table : list (bytes * (list sx -> sx)) :=
  [ (bs "c13.eos", run_c13_eos);
    (bs "c13.status", run_c13_status);
    (bs "c13.binmeta", run_c13_binmeta);
    (bs "c13.percent", run_c13_percent);
    (bs "c13.classes", run_c13_classes);
    (bs "c13.enc", run_c13_enc);
    (bs "c13.webrt", run_c13_webrt);
    (bs "c13.grpcrt", run_c13_grpcrt);
    (bs "c13.cerr", run_c13_cerr);
    (bs "c13.ces", run_c13_ces);
    (bs "c13.cerrrt", run_c13_cerrrt);
    (bs "c13.cesrt", run_c13_cesrt);
    (bs "c13.wire", run_c13_wire);
    (bs "c13.nocrash", run_c13_nocrash) ].
