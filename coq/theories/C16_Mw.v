(* C16_Mw.v — the call sites and the consumers of the trace hand-off.

   (1) internal/tracer/middleware.go + reader.go: which builder operations each wrapper
       performs for ONE HTTP exchange, in order, as a function from a description of the
       exchange (what the handler / the transport and the body consumer do) to a list of
       `mwact`: builder.add, builder.build and the writes to the Trailer map of the
       http.Response the trace POINTS to (that map is not guarded by the builder: the
       trace holds the *http.Response, so a write after completion changes what was
       delivered).  `mwrun` runs such a list on the builder of C16_Model and records the
       Trailer map as it is at the moment of every collector call (a snapshot).
   (2) internal/app/connectconformance/results.go fetchTrace: one goroutine per outcome:
       Await, Clear, store the trace (only when Await succeeded and the outcome wants it).
   (3) internal/app/referenceclient/wire_details.go: setWireTrace / wireTracer.Complete /
       examineWireDetails: the per-call wrapper that receives the trace exactly once
       (a second hand-over closes a closed channel: a crash) and forwards to the Tracer.
   No proofs here (C16_MwProofs.v). *)
From V Require Export C16_Conc.
Open Scope N_scope.

(* ====================================================================== *)
(* (1) middleware                                                         *)
(* ====================================================================== *)
(* http.Header restricted to what matters: key -> values.  A key present with [] is
   Go's `m[k] = nil`. *)
Definition trailers := list (N * list N).

Fixpoint tr_get (m : trailers) (k : N) : list N :=
  match m with
  | [] => []
  | (k', v) :: r => if k' =? k then v else tr_get r k
  end.
Fixpoint tr_has (m : trailers) (k : N) : bool :=
  match m with
  | [] => false
  | (k', _) :: r => (k' =? k) || tr_has r k
  end.
Fixpoint tr_set (m : trailers) (k : N) (v : list N) : trailers :=
  match m with
  | [] => [(k, v)]
  | (k', v') :: r => if k' =? k then (k, v) :: r else (k', v') :: tr_set r k v
  end.

Inductive mwact :=
| MAdd (e : bev)            (* builder.add(event) *)
| MBuild                    (* builder.build() *)
| MCell (tr : trailers).    (* the Trailer map of the trace's http.Response now holds tr *)

Record mwst := mkM {
  m_b : builder;
  m_cell : trailers;              (* Response.Trailer, shared by pointer with the trace *)
  m_snaps : list trailers }.      (* m_cell at the moment of each collector call *)

Definition grow (old new : list btrace) (cell : trailers) : list trailers :=
  repeat cell (length new - length old).

Definition mwstep (s : mwst) (a : mwact) : mwst :=
  match a with
  | MCell tr => mkM s.(m_b) tr s.(m_snaps)
  | MAdd e =>
    let b' := bstep s.(m_b) (Add e) in
    mkM b' s.(m_cell) (s.(m_snaps) ++ grow s.(m_b).(b_calls) b'.(b_calls) s.(m_cell))
  | MBuild =>
    let b' := bstep s.(m_b) Build in
    mkM b' s.(m_cell) (s.(m_snaps) ++ grow s.(m_b).(b_calls) b'.(b_calls) s.(m_cell))
  end.

Definition mwrun (nm : bytes) (l : list mwact) : mwst :=
  fold_left mwstep l (mkM (new_builder nm) [] []).

Definition bacts_of (l : list mwact) : list bact :=
  flat_map (fun a => match a with MAdd e => [Add e] | MBuild => [Build] | MCell _ => [] end) l.

(* ---- a body (request or response) as the reader sees it ---- *)
(* bd_chunks: what each successful Read returns: n whole enveloped messages (stream
   protocol) or n bytes (anything else); then the terminal result bd_err (0 = io.EOF) *)
Record body := mkBody { bd_stream : bool; bd_chunks : list N; bd_err : N }.

Definition data_acts (req stream : bool) (n : N) : list mwact :=
  if stream then repeat (MAdd (if req then EReqData else ERespData)) (N.to_nat n) else [].
Definition pend_add (stream : bool) (p n : N) : N := if stream then p else p + n.
(* dataTracer.emitUnfinished with no partial message: the bytes of a non-stream body *)
Definition unfinished (req : bool) (p : N) : list mwact :=
  if p =? 0 then [] else [MAdd (if req then EReqData else ERespData)].

(* a body read to its end through tracingReader (request side) *)
Definition read_all_req (b : body) : list mwact :=
  flat_map (data_acts true b.(bd_stream)) b.(bd_chunks)
  ++ unfinished true (fold_left (pend_add b.(bd_stream)) b.(bd_chunks) 0)
  ++ [MAdd (EReqEnd b.(bd_err))].

Definition err_panic_or_close : N := 99.   (* an error the harness has no tag for *)
Definition err_write : N := 5.
Definition err_closed_read : N := 6.

(* ---- server: TracingHandler + tracingResponseWriter ---- *)
Inductive hop :=
| HDeclare (k : N)                       (* Header().Add("Trailer", key k) *)
| HSet (pref add : bool) (k v : N)       (* Header().Set/Add(key k or TrailerPrefix+key k, v) *)
| HWriteHeader
| HWrite (n : N) (fail : bool)           (* Write; the underlying writer fails having written nothing *)
| HReadReq                               (* the handler reads the request body to its end *)
| HCancel                                (* the request context ends; the cancel goroutine's add lands here *)
| HPanic.                                (* the handler panics *)

Record sexch := mkSX { sx_req : body; sx_stream : bool; sx_ops : list hop }.

Record swr := mkSW {
  w_started : bool; w_finished : bool; w_canceled : bool; w_reqdone : bool;
  w_decl : list N; w_plain : trailers; w_pref : trailers;
  w_pend : N;                 (* dataTracer.actual of a non-stream response *)
  w_cell : trailers }.        (* t.resp.Trailer *)

Definition sw0 : swr := mkSW false false false false [] [] [] 0 [].

Definition hdr_put (add : bool) (m : trailers) (k v : N) : trailers :=
  tr_set m k (if add then tr_get m k ++ [v] else [v]).

(* WriteHeader: seeds the Trailer map with the declared names, then add(ResponseStart) *)
Definition write_header (w : swr) : swr * list mwact :=
  if w.(w_started) then (w, []) else
  let seeds := fold_left (fun m k => tr_set m k []) w.(w_decl) [] in
  (mkSW true w.(w_finished) w.(w_canceled) w.(w_reqdone) w.(w_decl) w.(w_plain) w.(w_pref) w.(w_pend) seeds,
   [MCell seeds; MAdd ERespStart]).

(* setTrailers *)
Definition set_trailers (w : swr) : trailers :=
  let known := map (fun kv => (fst kv, tr_get w.(w_plain) (fst kv))) w.(w_cell) in
  fold_left (fun m kv => tr_set m (fst kv) (tr_get m (fst kv) ++ snd kv)) w.(w_pref) known.

(* tryFinish(err) *)
Definition try_finish (w : swr) (e : N) : swr * list mwact :=
  if w.(w_finished) then (w, []) else
  let (w1, a1) := write_header w in
  let cell := set_trailers w1 in
  (mkSW true true w1.(w_canceled) w1.(w_reqdone) w1.(w_decl) w1.(w_plain) w1.(w_pref) 0 cell,
   a1 ++ unfinished false w1.(w_pend) ++ [MCell cell; MAdd (ERespEnd e)]).

Definition hop_step (x : sexch) (w : swr) (o : hop) : swr * list mwact :=
  match o with
  | HDeclare k =>
    (mkSW w.(w_started) w.(w_finished) w.(w_canceled) w.(w_reqdone) (w.(w_decl) ++ [k]) w.(w_plain) w.(w_pref)
          w.(w_pend) w.(w_cell), [])
  | HSet pref add k v =>
    if pref then
      (mkSW w.(w_started) w.(w_finished) w.(w_canceled) w.(w_reqdone) w.(w_decl) w.(w_plain)
            (hdr_put add w.(w_pref) k v) w.(w_pend) w.(w_cell), [])
    else
      (mkSW w.(w_started) w.(w_finished) w.(w_canceled) w.(w_reqdone) w.(w_decl)
            (hdr_put add w.(w_plain) k v) w.(w_pref) w.(w_pend) w.(w_cell), [])
  | HWriteHeader => write_header w
  | HWrite n fail =>
    let (w1, a1) := write_header w in
    if fail then let (w2, a2) := try_finish w1 err_write in (w2, a1 ++ a2)
    else
      (mkSW w1.(w_started) w1.(w_finished) w1.(w_canceled) w1.(w_reqdone) w1.(w_decl) w1.(w_plain) w1.(w_pref)
            (pend_add x.(sx_stream) w1.(w_pend) n) w1.(w_cell),
       a1 ++ data_acts false x.(sx_stream) n)
  | HReadReq =>
    if w.(w_reqdone) then (w, []) else
    (mkSW w.(w_started) w.(w_finished) w.(w_canceled) true w.(w_decl) w.(w_plain) w.(w_pref) w.(w_pend) w.(w_cell),
     read_all_req x.(sx_req))
  | HCancel =>
    if w.(w_canceled) then (w, []) else
    (mkSW w.(w_started) w.(w_finished) true w.(w_reqdone) w.(w_decl) w.(w_plain) w.(w_pref) w.(w_pend) w.(w_cell),
     [MAdd ECanceled])
  | HPanic => (w, [])
  end.

Definition is_panic (o : hop) : bool := match o with HPanic => true | _ => false end.

(* the handler runs its operations up to a panic (if any) *)
Fixpoint hrun (x : sexch) (w : swr) (ops : list hop) (acc : list mwact) : swr * list mwact * bool :=
  match ops with
  | [] => (w, acc, false)
  | o :: r =>
    if is_panic o then (w, acc, true)
    else let (w', a) := hop_step x w o in hrun x w' r (acc ++ a)
  end.

(* everything TracingHandler does for one exchange: the handler, then the deferred
   tryFinish, cancel() (the cancel goroutine's add, a no-op by then) and build() *)
Definition server_script (x : sexch) : list mwact :=
  let '(w, acts, panicked) := hrun x sw0 x.(sx_ops) [] in
  let (w', fin) := try_finish w (if panicked then err_panic_or_close else 0) in
  acts ++ fin ++ (if w'.(w_canceled) then [] else [MAdd ECanceled]) ++ [MBuild].

(* ---- client: TracingRoundTripper + tracingReader on the response body ---- *)
Inductive cop := CRead | CClose | CCancel.

Record cexch := mkCX {
  c_req : body;
  c_treq : N;            (* what the transport does with the request body: 0 nothing, 1 read to the end, 2 close unread *)
  c_tfail : N;           (* RoundTrip's error (0 = a response) *)
  c_resp : body;         (* the response body *)
  c_trailers : trailers; (* what the transport puts into resp.Trailer before it reports io.EOF *)
  c_ops : list cop }.    (* what the caller does with the response body *)

Record crd := mkCR {
  r_left : list N; r_closed : bool; r_uclosed : bool; r_canceled : bool; r_tset : bool; r_pend : N }.

(* tracingReader.tryFinish on the response body; whenDone = cancel *)
Definition c_try_finish (r : crd) (e : N) : crd * list mwact :=
  if r.(r_closed) then (r, []) else
  (mkCR r.(r_left) true r.(r_uclosed) true r.(r_tset) 0,
   unfinished false r.(r_pend) ++ [MAdd (ERespEnd e)] ++ (if r.(r_canceled) then [] else [MAdd ECanceled])).

Definition cop_step (y : cexch) (r : crd) (o : cop) : crd * list mwact :=
  match o with
  | CCancel =>
    if r.(r_canceled) then (r, []) else
    (mkCR r.(r_left) r.(r_closed) r.(r_uclosed) true r.(r_tset) r.(r_pend), [MAdd ECanceled])
  | CClose =>
    c_try_finish (mkCR r.(r_left) r.(r_closed) true r.(r_canceled) r.(r_tset) r.(r_pend)) err_panic_or_close
  | CRead =>
    if r.(r_canceled) then c_try_finish r err_canceled
    else if r.(r_uclosed) then c_try_finish r err_closed_read
    else match r.(r_left) with
    | n :: rest =>
      (mkCR rest r.(r_closed) r.(r_uclosed) r.(r_canceled) r.(r_tset) (pend_add y.(c_resp).(bd_stream) r.(r_pend) n),
       data_acts false y.(c_resp).(bd_stream) n)
    | [] =>
      if y.(c_resp).(bd_err) =? 0 then
        let a := if r.(r_tset) then [] else [MCell y.(c_trailers)] in
        let (r', f) := c_try_finish (mkCR [] r.(r_closed) r.(r_uclosed) r.(r_canceled) true r.(r_pend)) 0 in
        (r', a ++ f)
      else c_try_finish r y.(c_resp).(bd_err)
    end
  end.

Fixpoint crun (y : cexch) (r : crd) (ops : list cop) (acc : list mwact) : list mwact :=
  match ops with
  | [] => acc
  | o :: rest => let (r', a) := cop_step y r o in crun y r' rest (acc ++ a)
  end.

Definition treq_acts (y : cexch) : list mwact :=
  if y.(c_treq) =? 1 then read_all_req y.(c_req)
  else if y.(c_treq) =? 2 then [MAdd (EReqEnd err_panic_or_close)]
  else [].

Definition client_script (y : cexch) : list mwact :=
  treq_acts y ++
  (if y.(c_tfail) =? 0
   then crun y (mkCR y.(c_resp).(bd_chunks) false false false false 0) y.(c_ops) [MCell []; MAdd ERespStart]
   else [MAdd (ERespError y.(c_tfail)); MAdd ECanceled]).

(* ====================================================================== *)
(* (2) results.go fetchTrace                                              *)
(* ====================================================================== *)
Inductive faction :=
| FInit (n : name) | FComplete (n : name) (t : trace) | FClear (n : name)
| FOutcome (n : name) (wants : bool)   (* setOutcome: records the outcome, starts a fetch goroutine *)
| FTimeout.                            (* TraceTimeout passes for every fetch goroutine still waiting *)

Record fstate := mkF {
  f_tr : tracer;
  f_stored : name -> option trace;     (* r.traces *)
  f_wants : name -> bool;              (* the latest outcome is a plain failure *)
  f_live : list (N * name);            (* fetch goroutines that have not returned: waiter id, test name *)
  f_next : N }.

Definition fstate0 : fstate := mkF init_tracer (fun _ => None) (fun _ => false) [] 0.

(* a fetch goroutine whose Await returned: Clear, then store if it got a trace and the
   outcome (as it is NOW) is a plain failure *)
Definition settle_one (s : fstate) (wn : N * name) : fstate :=
  let (w, n) := wn in
  match s.(f_tr).(waiters) w with
  | Waiting _ | NotStarted => mkF s.(f_tr) s.(f_stored) s.(f_wants) (s.(f_live) ++ [wn]) s.(f_next)
  | Got t =>
    mkF (step s.(f_tr) (Clear n))
        (if s.(f_wants) n then upd s.(f_stored) n (Some t) else s.(f_stored))
        s.(f_wants) s.(f_live) s.(f_next)
  | Failed | CtxErr => mkF (step s.(f_tr) (Clear n)) s.(f_stored) s.(f_wants) s.(f_live) s.(f_next)
  end.

(* every goroutine whose Await has returned runs to its end before the next action *)
Definition settle (s : fstate) : fstate :=
  fold_left settle_one s.(f_live) (mkF s.(f_tr) s.(f_stored) s.(f_wants) [] s.(f_next)).

Definition fapply (s : fstate) (a : faction) : fstate :=
  match a with
  | FInit n => mkF (step s.(f_tr) (Init n)) s.(f_stored) s.(f_wants) s.(f_live) s.(f_next)
  | FComplete n t => mkF (step s.(f_tr) (Complete n t)) s.(f_stored) s.(f_wants) s.(f_live) s.(f_next)
  | FClear n => mkF (step s.(f_tr) (Clear n)) s.(f_stored) s.(f_wants) s.(f_live) s.(f_next)
  | FOutcome n wt =>
    mkF (step s.(f_tr) (AwaitBegin s.(f_next) n)) s.(f_stored) (upd s.(f_wants) n wt)
        (s.(f_live) ++ [(s.(f_next), n)]) (s.(f_next) + 1)
  | FTimeout =>
    mkF (fold_left (fun t wn => step t (CtxDone (fst wn))) s.(f_live) s.(f_tr))
        s.(f_stored) s.(f_wants) s.(f_live) s.(f_next)
  end.

Definition fstep (s : fstate) (a : faction) : fstate := settle (fapply s a).
Definition frunf (h : list faction) : fstate := fold_left fstep h fstate0.

(* ====================================================================== *)
(* (3) wire_details.go                                                    *)
(* ====================================================================== *)
Inductive wact :=
| WNew (c : N) (wrapped : bool)                       (* a call context, with or without withWireCapture *)
| WComplete (c : N) (n : name) (t : trace) (status : N)   (* wireTracer.Complete; status 0 = no response *)
| WSet (c : N) (t : trace) (status : N)               (* setWireTrace *)
| WInit (n : name) | WClear (n : name)
| WExamine (c : N).                                   (* examineWireDetails *)

Record wst := mkW {
  (* None: the context has no wrapper; Some None: wrapper, trace not yet available;
     Some (Some (t, status)): traceAvailable closed *)
  wr : N -> option (option (trace * N));
  w_tr : tracer;
  w_seen : list (N * bool) }.     (* results of examineWireDetails, oldest first *)

Definition wst0 : wst := mkW (fun _ => None) init_tracer [].

(* setWireTrace; None = close of a closed channel *)
Definition set_wire (s : wst) (c : N) (t : trace) (status : N) : option wst :=
  match s.(wr) c with
  | None => Some s
  | Some None => Some (mkW (updw s.(wr) c (Some (Some (t, status)))) s.(w_tr) s.(w_seen))
  | Some (Some _) => None
  end.

Definition examine (s : wst) (c : N) : N * bool :=
  match s.(wr) c with
  | Some (Some (_, status)) => if status =? 0 then (0, false) else (status, true)
  | _ => (0, false)
  end.

Definition wstep (fwd : bool) (s : wst) (a : wact) : option wst :=
  match a with
  | WNew c b => Some (mkW (updw s.(wr) c (if b then Some None else None)) s.(w_tr) s.(w_seen))
  | WSet c t st => set_wire s c t st
  | WComplete c n t st =>
    match set_wire s c t st with
    | None => None
    | Some s' => Some (if fwd then mkW s'.(wr) (step s'.(w_tr) (Complete n t)) s'.(w_seen) else s')
    end
  | WInit n => Some (mkW s.(wr) (step s.(w_tr) (Init n)) s.(w_seen))
  | WClear n => Some (mkW s.(wr) (step s.(w_tr) (Clear n)) s.(w_seen))
  | WExamine c => Some (mkW s.(wr) s.(w_tr) (s.(w_seen) ++ [examine s c]))
  end.

Fixpoint wrun_from (fwd : bool) (s : wst) (h : list wact) : option wst :=
  match h with
  | [] => Some s
  | a :: r => match wstep fwd s a with None => None | Some s' => wrun_from fwd s' r end
  end.
Definition wrun (fwd : bool) (h : list wact) : option wst := wrun_from fwd wst0 h.

(* the collector calls of one operation handed to the wrapper of context c *)
Definition deliver_wire (fwd : bool) (s : wst) (c : N) (calls : list btrace) (t : trace) (status : N) : option wst :=
  wrun_from fwd s (map (fun b => WComplete c b.(t_name) t status) calls).

(* ====================================================================== *)
(* case decoding / result encoding                                        *)
(* ====================================================================== *)
Fixpoint insert_kv (x : N * list N) (l : trailers) : trailers :=
  match l with
  | [] => [x]
  | y :: r => if fst x <=? fst y then x :: l else y :: insert_kv x r
  end.
Definition sort_kv (l : trailers) : trailers := fold_right insert_kv [] l.

Definition sx_trailers (m : trailers) : sx :=
  L (map (fun kv => L [sx_N (fst kv); L (map sx_N (snd kv))]) (sort_kv m)).

(* a delivered trace together with the Trailer map of its response (if it has one) *)
Definition sx_delivery (t : btrace) (cell : trailers) : sx :=
  L [sx_btrace t; if t.(t_resp) then L [I 1%Z; sx_trailers cell] else L [I 0%Z]].

Definition un_body (s : sx) : option body :=
  match s with
  | L [I st; ch; I e] => do ch <- un_listof un_N ch; ret (mkBody (negb (st =? 0)%Z) ch (Z.to_N e))
  | _ => None
  end.

Definition un_hop (s : sx) : option hop :=
  match s with
  | L [I 0%Z; I k] => Some (HDeclare (Z.to_N k))
  | L [I 1%Z; I p; I a; I k; I v] => Some (HSet (negb (p =? 0)%Z) (negb (a =? 0)%Z) (Z.to_N k) (Z.to_N v))
  | L [I 2%Z] => Some HWriteHeader
  | L [I 3%Z; I n; I f] => Some (HWrite (Z.to_N n) (negb (f =? 0)%Z))
  | L [I 4%Z] => Some HReadReq
  | L [I 5%Z] => Some HCancel
  | L [I 6%Z] => Some HPanic
  | _ => None
  end.

Definition un_cop (s : sx) : option cop :=
  match s with
  | L [I 0%Z] => Some CRead
  | L [I 1%Z] => Some CClose
  | L [I 2%Z] => Some CCancel
  | _ => None
  end.

Definition un_kv (s : sx) : option (N * list N) :=
  match s with
  | L [I k; vs] => do vs <- un_listof un_N vs; ret (Z.to_N k, vs)
  | _ => None
  end.

(* what the harness reports for one exchange: the collector calls as they were AT the
   call (snapshot) and as the same trace objects look when the exchange is over *)
Definition mw_result (nm : bytes) (acts : list mwact) : sx :=
  let s := mwrun nm acts in
  L [ L (map (fun ts => sx_delivery (fst ts) (snd ts)) (combine s.(m_b).(b_calls) s.(m_snaps)));
      L (map (fun t => sx_delivery t s.(m_cell)) s.(m_b).(b_calls)) ].

(* name 0 (request body) stream? (handler ops)        -> server exchange
   name 1 (request body) treq tfail (response body) (trailers) (consumer ops) -> client exchange *)
Definition run_c16_mw (args : list sx) : sx :=
  or_bad (match args with
  | [B nm; I 0%Z; rq; I st; ops] =>
    do rq <- un_body rq; do ops <- un_listof un_hop ops;
    ret (mw_result nm (server_script (mkSX rq (negb (st =? 0)%Z) ops)))
  | [B nm; I 1%Z; rq; I treq; I tfail; rs; trl; ops] =>
    do rq <- un_body rq; do rs <- un_body rs; do trl <- un_listof un_kv trl; do ops <- un_listof un_cop ops;
    ret (mw_result nm (client_script (mkCX rq (Z.to_N treq) (Z.to_N tfail) rs trl ops)))
  | _ => None end).

Definition un_faction (s : sx) : option faction :=
  match s with
  | L [I 0%Z; B n] => Some (FInit n)
  | L [I 1%Z; B n; I t] => Some (FComplete n (Z.to_N t))
  | L [I 2%Z; B n] => Some (FClear n)
  | L [I 3%Z; B n; I w] => Some (FOutcome n (negb (w =? 0)%Z))
  | L [I 4%Z] => Some FTimeout
  | _ => None
  end.

Definition sx_stored (o : option trace) : sx :=
  match o with None => L [I 0%Z] | Some t => L [I 1%Z; sx_N t] end.

(* (actions) (names) -> ((stored per name) (tracer view per name) waiting-goroutines traces-in-report) *)
Definition run_c16_fetch (args : list sx) : sx :=
  or_bad (match args with
  | [acts; ns] =>
    do acts <- un_listof un_faction acts; do ns <- un_listof un_B ns;
    let s := frunf acts in
    let shown := filter (fun n => s.(f_wants) n && match s.(f_stored) n with Some _ => true | None => false end) ns in
    ret (L [ L (map (fun n => sx_stored (s.(f_stored) n)) ns);
             L (map (fun n => sx_slot (s.(f_tr).(slots) n)) ns);
             sx_nat (length s.(f_live));
             if is_nil s.(f_live) then sx_nat (length shown) else I (-1)%Z ])
  | _ => None end).

Definition un_wact (s : sx) : option wact :=
  match s with
  | L [I 0%Z; I c; I b] => Some (WNew (Z.to_N c) (negb (b =? 0)%Z))
  | L [I 1%Z; I c; B n; I t; I st] => Some (WComplete (Z.to_N c) n (Z.to_N t) (Z.to_N st))
  | L [I 2%Z; I c; I t; I st] => Some (WSet (Z.to_N c) (Z.to_N t) (Z.to_N st))
  | L [I 3%Z; B n] => Some (WInit n)
  | L [I 4%Z; B n] => Some (WClear n)
  | L [I 5%Z; I c] => Some (WExamine (Z.to_N c))
  | _ => None
  end.

Definition sx_wrapper (o : option (option (trace * N))) : sx :=
  match o with
  | None => L [I 0%Z]
  | Some None => L [I 1%Z]
  | Some (Some (t, st)) => L [I 2%Z; sx_N t; sx_N st]
  end.

(* forward? (actions) (contexts) (names) -> ((examine results) (wrapper per context) (tracer view per name)) *)
Definition run_c16_wire (args : list sx) : sx :=
  or_bad (match args with
  | [I fwd; acts; cs; ns] =>
    do acts <- un_listof un_wact acts; do cs <- un_listof un_N cs; do ns <- un_listof un_B ns;
    ret (match wrun (negb (fwd =? 0)%Z) acts with
         | None => sx_crash
         | Some s =>
           L [ L (map (fun r => L [sx_N (fst r); sx_bool (snd r)]) s.(w_seen));
               L (map (fun c => sx_wrapper (s.(wr) c)) cs);
               L (map (fun n => sx_slot (s.(w_tr).(slots) n)) ns) ]
         end)
  | _ => None end).

(* a client exchange through newWireCaptureTransport: wrapped? forward? init? + the client
   exchange -> (wrapper: 0 none / 1 open / (2 the trace it holds, as it is after the exchange))
   (tracer view of the name) (examine) *)
Definition run_c16_wiremw (args : list sx) : sx :=
  or_bad (match args with
  | [B nm; I wrapped; I fwd; I ini; I status; rq; I treq; I tfail; rs; trl; ops] =>
    do rq <- un_body rq; do rs <- un_body rs; do trl <- un_listof un_kv trl; do ops <- un_listof un_cop ops;
    let m := mwrun nm (client_script (mkCX rq (Z.to_N treq) (Z.to_N tfail) rs trl ops)) in
    let s0 := mkW (updw wst0.(wr) 0 (if (wrapped =? 0)%Z then None else Some None))
                  (if (ini =? 0)%Z then init_tracer else step init_tracer (Init nm)) [] in
    ret (match deliver_wire (negb (fwd =? 0)%Z) s0 0 m.(m_b).(b_calls) 1 (Z.to_N status) with
         | None => sx_crash
         | Some s =>
           let st := match m.(m_b).(b_calls) with
                     | t :: _ => if t.(t_resp) then Z.to_N status else 0
                     | [] => 0 end in
           L [ match s.(wr) 0, combine m.(m_b).(b_calls) m.(m_snaps) with
               | Some (Some _), ts :: _ => L [I 2%Z; sx_delivery (fst ts) m.(m_cell)]
               | Some _, _ => L [I 1%Z]
               | None, _ => L [I 0%Z]
               end;
               sx_slot (s.(w_tr).(slots) nm);
               match s.(wr) 0 with
               | Some (Some _) => if st =? 0 then L [I 0%Z; I 0%Z] else L [sx_N st; I 1%Z]
               | _ => L [I 0%Z; I 0%Z]
               end ]
         end)
  | _ => None end).

Definition c16_table : list (bytes * (list sx -> sx)) :=
  c16_conc_table ++
  [ (bs "c16.mw", run_c16_mw);
    (bs "c16.fetch", run_c16_fetch);
    (bs "c16.wire", run_c16_wire);
    (bs "c16.wiremw", run_c16_wiremw) ].
