(* C11_InProcProofs.v — proofs about the goroutine of runInProcess (C11_InProc.v): the error an
   in-process server returned is written to its stderr BEFORE the pipes are closed, so it reaches
   the runner's stderr reader and is passed through to the error printer. *)
From Coq Require Import Lia.
From V Require Import C11_Spec C11_Proofs C11_PrinterProofs.
Open Scope N_scope.

Definition whole_lines (bodies : list bytes) : bytes := concat (map (fun b => b ++ [10]) bodies).
Definition no_nl (b : bytes) : Prop := ~ In 10 b.

Lemma lines_keep_whole bodies : forall rest, Forall no_nl bodies ->
  lines_keep (whole_lines bodies ++ rest) = map (fun b => b ++ [10]) bodies ++ lines_keep rest.
Proof.
  induction bodies as [|b bodies IH]; intros rest H; [reflexivity|].
  inversion H as [|? ? Hb Hr]; subst. unfold whole_lines in *. simpl.
  rewrite <- !app_assoc. simpl. rewrite lines_keep_line by exact Hb. rewrite IH by exact Hr. reflexivity.
Qed.

(* ---------- invariants of the action list ---------- *)
Lemma closed_stays im order : forall s, ip_open s = false ->
  ip_stream (fold_left (ip_step im) order s) = ip_stream s /\ ip_open (fold_left (ip_step im) order s) = false.
Proof.
  induction order as [|a order IH]; intros s H; simpl; [split; [reflexivity|exact H]|].
  assert (E : ip_stream (ip_step im s a) = ip_stream s /\ ip_open (ip_step im s a) = false).
  { destruct a; unfold ip_step, ip_write; rewrite ?H; simpl; auto.
    destruct (if ip_ran s then im_err im else None); rewrite ?H; auto. }
  destruct E as (E1 & E2). destruct (IH _ E2) as (I1 & I2). rewrite I1, E1. split; [reflexivity|exact I2].
Qed.

Lemma open_stays im order : forall s, ~ In AClosePipes order -> ip_open s = true ->
  ip_open (fold_left (ip_step im) order s) = true.
Proof.
  induction order as [|a order IH]; intros s Hn H; simpl; [exact H|].
  apply IH; [intro X; apply Hn; right; exact X|].
  destruct a; unfold ip_step, ip_write; rewrite ?H; simpl; auto.
  - destruct (if ip_ran s then im_err im else None); rewrite ?H; auto.
  - exfalso. apply Hn. left. reflexivity.
Qed.

Lemma ran_stays im order : forall s, ip_ran s = true -> ip_ran (fold_left (ip_step im) order s) = true.
Proof.
  induction order as [|a order IH]; intros s H; simpl; [exact H|]. apply IH.
  destruct a; unfold ip_step, ip_write; simpl; auto.
  - destruct (if ip_ran s then im_err im else None); destruct (ip_open s); simpl; auto.
Qed.

Lemma ran_after im order : forall s, In ARunImpl order -> ip_ran (fold_left (ip_step im) order s) = true.
Proof.
  intros s H. destruct (in_split _ _ H) as (a & b & ->). rewrite fold_left_app. simpl.
  apply ran_stays. unfold ip_step, ip_write. destruct (ip_open (fold_left (ip_step im) a s)); reflexivity.
Qed.

Lemma closed_after im order : forall s, In AClosePipes order -> ip_open (fold_left (ip_step im) order s) = false.
Proof.
  intros s H. destruct (in_split _ _ H) as (a & b & ->). rewrite fold_left_app. simpl.
  apply closed_stays. reflexivity.
Qed.

Lemma print_step im e s : ip_ran s = true -> ip_open s = true -> im_err im = Some e ->
  ip_stream (ip_step im s APrintErr) = ip_stream s ++ err_line e.
Proof. intros Hr Ho He. unfold ip_step, ip_write. rewrite Hr, He, Ho. reflexivity. Qed.

(* ---------- the theorems ---------- *)
(* the order of the goroutine's actions decides: printed after the function returned and before the
   pipes are closed, the error line is appended to what the reader gets; printed after they were
   closed it is lost, and nothing is ever added to the stream again *)
Theorem inprocess_print_order_proof : forall im e pre post,
  im_err im = Some e ->
  (In ARunImpl pre -> ~ In AClosePipes pre ->
     ip_stream (ip_run im (pre ++ [APrintErr])) = ip_stream (ip_run im pre) ++ err_line e) /\
  (In AClosePipes pre ->
     ip_stream (ip_run im (pre ++ APrintErr :: post)) = ip_stream (ip_run im pre)).
Proof.
  intros im e pre post He. unfold ip_run. split.
  - intros Hr Hc. rewrite fold_left_app. cbn [fold_left].
    apply print_step; [apply ran_after; exact Hr|apply open_stays; [exact Hc|reflexivity]|exact He].
  - intros Hc. rewrite fold_left_app.
    exact (proj1 (closed_stays im (APrintErr :: post) _ (closed_after im pre ip_init Hc))).
Qed.

(* process.go as it is: the reader gets everything the server wrote itself and then the line with the
   error it returned; the pipes are closed (the reader reaches the end) and `done` is closed afterwards *)
Theorem inprocess_stream_proof : forall own err,
  inproc_stream (mkImpl own err) = own ++ match err with Some e => err_line e | None => [] end /\
  ip_open (ip_run (mkImpl own err) code_order) = false /\
  ip_done (ip_run (mkImpl own err) code_order) = true.
Proof.
  intros own [e|]; unfold inproc_stream, ip_run, code_order; simpl; rewrite ?app_nil_r; auto.
Qed.

(* ... and that line is handed to the error printer by runTestCasesForServer (whatever else happens to
   the batch), unless it is blank or looks like feedback for a case of the batch *)
Theorem inprocess_error_is_printed_proof : forall er sv cs bodies e,
  s_start sv = true -> s_refsrv sv = true ->
  s_stderr sv = inproc_stream (mkImpl (whole_lines bodies) (Some e)) ->
  Forall no_nl bodies -> no_nl e ->
  ~ blank (err_line e) -> ~ attributed (names cs) (err_line e) ->
  lines_keep (s_stderr sv) = map (fun b => b ++ [10]) bodies ++ [err_line e; []] /\
  In (err_line e) (r_fwd (run_batch er sv cs)).
Proof.
  intros er sv cs bodies e Hs Hr Hst Hb He Hnb Hna.
  assert (L : lines_keep (s_stderr sv) = map (fun b => b ++ [10]) bodies ++ [err_line e; []]).
  { rewrite Hst, (proj1 (inprocess_stream_proof _ _)). rewrite lines_keep_whole by exact Hb.
    unfold err_line. replace (e ++ [10]) with (e ++ 10 :: []) by reflexivity.
    rewrite lines_keep_line by exact He. reflexivity. }
  split; [exact L|].
  destruct (sideband_attribution_proof er sv cs) as (A & _). destruct (A (conj Hs Hr)) as (_ & F & _).
  apply F. split; [|split; assumption]. rewrite L. apply in_or_app. right. left. reflexivity.
Qed.

(* whenDone as it is: every end of the server process is noticed, with status 0 / nil or not *)
Theorem clean_exit_is_noticed_proof : forall clean dead, noticed_dead WdAlways clean dead = dead.
Proof. reflexivity. Qed.
