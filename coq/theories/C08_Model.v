(* C08_Model.v — executable model of
     internal/app/connectconformance/test_trie.go  (add, match, allUnmatched)
     internal/app/connectconformance/test_case_library.go (testCaseFilter.accept)
     internal/app/connectconformance/connectconformance.go (pattern validation in run, tryMatchPatterns)
     cmd/connectconformance/main.go (argsToPatterns, parsePatternFile)
   No proofs here: the model must keep running when a proof breaks. *)
From V Require Export Base.
Open Scope N_scope.

Definition comp := bytes.
Definition slash : N := 47.
Definition star : comp := [42].
Definition dstar : comp := [42; 42].

(* Go: map[string]*testTrie — an association list with first-match lookup;
   `add` keeps keys unique, so iteration order is the only thing lost. *)
Inductive trie := Node (present : bool) (children : list (comp * trie)).
Definition empty_trie : trie := Node false [].

Fixpoint lookup (l : list (comp * trie)) (k : comp) : option trie :=
  match l with
  | [] => None
  | (k', c) :: l' => if bytes_eqb k k' then Some c else lookup l' k
  end.

(* tt.add(components) *)
Fixpoint add (cs : list comp) (t : trie) {struct cs} : trie :=
  match cs with
  | [] => match t with Node _ ch => Node true ch end
  | c :: rest =>
    match t with
    | Node p ch =>
      Node p ((fix upd (l : list (comp * trie)) : list (comp * trie) :=
                 match l with
                 | [] => [(c, add rest empty_trie)]
                 | (k, t') :: l' =>
                   if bytes_eqb c k then (k, add rest t') :: l' else (k, t') :: upd l'
                 end) ch)
    end
  end.

Definition split_name (s : bytes) : list comp := split_on slash s.
Definition add_pattern (t : trie) (p : bytes) : trie := add (split_name p) t.
Definition build (ps : list bytes) : trie := fold_left add_pattern ps empty_trie.

(* tt.match(components).  Returns the path of the trie node whose `matched`
   counter Go increments (None = no match).  Order of attempts as in the code:
   literal child, then "*", then "**" on every suffix. *)
Fixpoint tmatch (t : trie) (cs : list comp) {struct t} : option (list comp) :=
  match t with
  | Node present children =>
    let find := fix find (l : list (comp * trie)) (k : comp)
                  : option (list comp -> option (list comp)) :=
      match l with
      | [] => None
      | (k', c) :: l' => if bytes_eqb k k' then Some (tmatch c) else find l' k
      end in
    let via (k : comp) (rest : list comp) : option (list comp) :=
      match find children k with
      | Some m => option_map (cons k) (m rest)
      | None => None
      end in
    match cs with
    | [] => if present then Some [] else via dstar []
    | first :: rest =>
      match via first rest with
      | Some p => Some p
      | None =>
        match via star rest with
        | Some p => Some p
        | None =>
          match find children dstar with
          | None => None
          | Some m =>
            option_map (cons dstar)
              ((fix loop (l : list comp) : option (list comp) :=
                  match m l with
                  | Some p => Some p
                  | None => match l with [] => None | _ :: l' => loop l' end
                  end) cs)
          end
        end
      end
    end
  end.

Definition match_pattern (t : trie) (name : bytes) : bool :=
  match tmatch t (split_name name) with Some _ => true | None => false end.

(* all patterns stored in a trie (the nodes with present = true) *)
Fixpoint stored_list (t : trie) : list (list comp) :=
  match t with
  | Node present children =>
    (if present then [[]] else []) ++
    (fix go (l : list (comp * trie)) : list (list comp) :=
       match l with
       | [] => []
       | (k, c) :: l' => map (cons k) (stored_list c) ++ go l'
       end) children
  end.

Definition trie_length (t : trie) : nat := length (stored_list t).

(* findUnmatched builds the reported name as  prefix == "" ? next : prefix + "/" + next,
   so leading empty components are swallowed ("/" is reported as ""). *)
Definition path_str (p : list comp) : bytes :=
  fold_left (fun prefix next => match prefix with [] => next | _ => prefix ++ slash :: next end) p [].

(* matchPattern on every name in order (counters accumulate), then allUnmatched *)
Definition hits (t : trie) (names : list bytes) : list (list comp) :=
  flat_map (fun n => match tmatch t (split_name n) with Some p => [p] | None => [] end) names.

Definition unmatched (t : trie) (names : list bytes) : list bytes :=
  let hs := hits t names in
  sort_bytes (dedup (map path_str
    (filter (fun p => negb (existsb (lbytes_eqb p) hs)) (stored_list t)))).

(* testCaseFilter.accept, with parsePatterns returning nil for an empty list *)
Definition accept (run skip : list bytes) (name : bytes) : bool :=
  (match run with [] => true | _ => match_pattern (build run) name end)
  && (match skip with [] => true | _ => negb (match_pattern (build skip) name) end).

(* the validation block of run(): which error, if any, is returned *)
Inductive pat_err :=
| UnmatchedFailing | UnmatchedFlaky | UnmatchedRun | UnmatchedSkip | Ambiguous.

Definition has_unmatched (ps names : list bytes) : bool :=
  match unmatched (build ps) names with [] => false | _ => true end.

Definition conflicts (failing flaky names : list bytes) : list bytes :=
  filter (fun n => match_pattern (build failing) n && match_pattern (build flaky) n) names.

Definition run_checks (failing flaky run skip names : list bytes) : option pat_err :=
  if (0 <? trie_length (build failing))%nat && has_unmatched failing names then Some UnmatchedFailing
  else if (0 <? trie_length (build flaky))%nat && has_unmatched flaky names then Some UnmatchedFlaky
  else if (match run with [] => false | _ => has_unmatched run names end) then Some UnmatchedRun
  else if (match skip with [] => false | _ => has_unmatched skip names end) then Some UnmatchedSkip
  else if (0 <? trie_length (build failing))%nat && (0 <? trie_length (build flaky))%nat
          && (match conflicts failing flaky names with [] => false | _ => true end)
       then Some Ambiguous
  else None.

(* ---- the name set the validation block of run() works on (allPermutations) ----
   The library names every case <suite>/<permutation components>/<simple name>; the extra
   permutations run against the gRPC reference peers carry a marker component in front of the
   simple name (addGRPCMarkerToName) and exist only for cases those peers support
   (filterGRPCImplTestCases: the gRPC client speaks only gRPC, the gRPC server gRPC and gRPC-Web,
   neither speaks Connect).  A suite here is (suite name, protocol 1=Connect 2=gRPC 3=gRPC-Web,
   simple case names); every suite has one relevant HTTP version / codec / compression, so the
   only permutation component is TLS:false. *)
Definition suite_d := (bytes * N * list bytes)%type.

Definition grpc_marker (cg sg : bool) : bytes :=
  if cg && sg then bs "(grpc impls)" else if cg then bs "(grpc client impl)" else bs "(grpc server impl)".

Definition name_prefix (su : bytes) : bytes := su ++ slash :: bs "TLS:false" ++ [slash].
Definition base_name (su simple : bytes) : bytes := name_prefix su ++ simple.
Definition marked_name (cg sg : bool) (su simple : bytes) : bytes :=
  name_prefix su ++ grpc_marker cg sg ++ slash :: simple.

Definition grpc_supported (proto : N) (cg sg : bool) : bool :=
  if cg && negb (proto =? 2) then false else negb (proto =? 1).

Definition base_names (suites : list suite_d) : list bytes :=
  flat_map (fun s : suite_d => let '(su, _, cs) := s in map (base_name su) cs) suites.
Definition marked_names (cg sg : bool) (suites : list suite_d) : list bytes :=
  flat_map (fun s : suite_d => let '(su, proto, cs) := s in
              if grpc_supported proto cg sg then map (marked_name cg sg su) cs else []) suites.

(* testCaseLib.allPermutations(useReferenceClient, useReferenceServer) *)
Definition perm_names (suites : list suite_d) (refc refs : bool) : list bytes :=
  base_names suites
  ++ (if refc then marked_names true false suites else [])
  ++ (if refs then marked_names false true suites else [])
  ++ (if refc && refs then marked_names true true suites else []).

Definition run_checks_perms (failing flaky run skip : list bytes) (suites : list suite_d) (refc refs : bool)
  : option pat_err :=
  run_checks failing flaky run skip (perm_names suites refc refs).

(* cmd/connectconformance: parsePatternFile and argsToPatterns *)
(* bytes.TrimSpace; the same function as Base.trim_space (C08_Proofs.trim_space_lin_eq) with the two
   reversals done by rev_append, so that a line of several hundred KiB costs linear time in the
   extracted model too *)
Definition trim_space_lin (s : bytes) : bytes :=
  rev_append (trim_left (rev_append (trim_left s) [])) [].

Definition parse_pattern_file (data : bytes) : list bytes :=
  filter (fun l => match l with [] => false | c :: _ => negb (N.eqb c 35) end)
         (map trim_space_lin (split_on 10 data)).

Inductive arg := Lit (s : bytes) | AtFile (contents : bytes).
Definition expand_arg (a : arg) : list bytes :=
  match a with Lit s => [s] | AtFile d => parse_pattern_file d end.
Definition args_to_patterns (args : list arg) : list bytes :=
  fold_left (fun acc a => acc ++ expand_arg a) args [].

(* ---------- case decoding / result encoding (extracted glue) ---------- *)
Definition sx_bytes_list (l : list bytes) : sx := L (map B l).
Definition un_bytes_list (s : sx) : option (list bytes) := un_listof un_B s.

Definition run_c08_trie (args : list sx) : sx :=
  or_bad (match args with
  | [ps; ns] =>
    do ps <- un_bytes_list ps; do ns <- un_bytes_list ns;
    let t := build ps in
    ret (L [ L (map (fun n => sx_bool (match_pattern t n)) ns); sx_bytes_list (unmatched t ns);
             sx_nat (length (filter (match_pattern t) ns)) ])
  | _ => None end).

Definition run_c08_accept (args : list sx) : sx :=
  or_bad (match args with
  | [r; s; ns] =>
    do r <- un_bytes_list r; do s <- un_bytes_list s; do ns <- un_bytes_list ns;
    ret (L (map (fun n => sx_bool (accept r s n)) ns))
  | _ => None end).

Definition sx_pat_err (e : option pat_err) : sx :=
  match e with
  | None => B (bs "ok")
  | Some UnmatchedFailing => B (bs "unmatched-failing")
  | Some UnmatchedFlaky => B (bs "unmatched-flaky")
  | Some UnmatchedRun => B (bs "unmatched-run")
  | Some UnmatchedSkip => B (bs "unmatched-skip")
  | Some Ambiguous => B (bs "ambiguous")
  end.

Definition run_c08_checks (args : list sx) : sx :=
  or_bad (match args with
  | [f; k; r; s; ns] =>
    do f <- un_bytes_list f; do k <- un_bytes_list k; do r <- un_bytes_list r;
    do s <- un_bytes_list s; do ns <- un_bytes_list ns;
    ret (sx_pat_err (run_checks f k r s ns))
  | _ => None end).

Definition un_suite_d (s : sx) : option suite_d :=
  match s with
  | L [B su; I p; cs] => do cs <- un_bytes_list cs; ret (su, Z.to_N p, cs)
  | _ => None
  end.

Definition run_c08_checks2 (args : list sx) : sx :=
  or_bad (match args with
  | [f; k; r; s; sus; I refc; I refs] =>
    do f <- un_bytes_list f; do k <- un_bytes_list k; do r <- un_bytes_list r;
    do s <- un_bytes_list s; do sus <- un_listof un_suite_d sus;
    ret (sx_pat_err (run_checks_perms f k r s sus (negb (Z.eqb refc 0)) (negb (Z.eqb refs 0))))
  | _ => None end).

Definition un_arg (s : sx) : option arg :=
  match s with
  | L [I 0%Z; B b] => Some (Lit b)
  | L [I 1%Z; B b] => Some (AtFile b)
  | _ => None
  end.

Definition run_c08_args (args : list sx) : sx :=
  or_bad (match args with
  | [a] => do a <- un_listof un_arg a; ret (sx_bytes_list (args_to_patterns a))
  | _ => None end).

Definition run_c08_file (args : list sx) : sx :=
  or_bad (match args with
  | [B d] => ret (sx_bytes_list (parse_pattern_file d))
  | _ => None end).

Definition c08_table : list (bytes * (list sx -> sx)) :=
  [ (bs "c08.trie", run_c08_trie);
    (bs "c08.accept", run_c08_accept);
    (bs "c08.checks", run_c08_checks);
    (bs "c08.checks2", run_c08_checks2);
    (bs "c08.args", run_c08_args);
    (bs "c08.file", run_c08_file) ].
