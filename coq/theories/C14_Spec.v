(* C14_Spec.v — the declarative side: what the trace of a body must contain, as a function of
   the WHOLE byte string that went through (and of how the body ended).  No chunks, no tracer
   state, no counters appear here.  Written from the property text:
     one data event per enveloped message with its exact flags and declared length, numbered
     consecutively in order; the end-of-stream content, decompressed exactly when the message's
     compressed flag is set; a single body-end event; a body cut part-way through a prefix or a
     payload gives a final partial event with the byte count actually seen. *)
From V Require Export C14_Model.
Open Scope N_scope.

(* an enveloped message on the wire: flags, 4-byte big-endian length, payload *)
Definition encode (flags : N) (payload : bytes) : bytes := flags :: be32 (blen payload) ++ payload.

(* Connect's end-stream flag is 0x02, gRPC-Web's trailers flag 0x80; compressed is bit 0 *)
Definition is_end_stream (flags : N) : bool := N.testbit flags 1 || N.testbit flags 7.
Definition is_compressed (flags : N) : bool := N.testbit flags 0.

Section Spec.
  Variable decompress : bytes -> option bytes.   (* the negotiated decompressor, run to completion *)
  Variable c : cfg.

  (* the content shown for an end-stream message: its payload, decompressed exactly when the
     compressed flag is set (and a decompressor was negotiated); empty or undecodable content
     is not shown *)
  Definition shown_content (flags : N) (payload : bytes) : option bytes :=
    if is_compressed flags && c_dec c then decompress payload else Some payload.

  Definition end_stream_events (flags : N) (payload : bytes) : list tev :=
    if negb (c_req c) && is_end_stream flags then
      match payload with
      | [] => []
      | _ :: _ => match shown_content flags payload with
                  | Some (x :: r) => [TEnd (x :: r)]
                  | _ => []
                  end
      end
    else [].

  (* greedy parse of the whole body *)
  Fixpoint parse (fuel : nat) (body : bytes) : list tev :=
    match fuel with
    | O => []
    | S f =>
      match body with
      | [] => []
      | flags :: b1 :: b2 :: b3 :: b4 :: rest =>
        let len := be_decode [b1; b2; b3; b4] 0 in
        let e := mk_env flags len in
        if len <=? blen rest then
          let payload := firstn (N.to_nat len) rest in
          TData (Some e) len :: end_stream_events flags payload ++ parse f (skipn (N.to_nat len) rest)
        else
          match rest with
          | [] => []                                   (* cut exactly after a prefix: nothing seen of the payload *)
          | _ :: _ => [TData (Some e) (blen rest)]     (* cut inside the payload *)
          end
      | _ => [TData None (blen body)]                  (* cut inside a prefix *)
      end
    end.

  Definition parse_body (body : bytes) : list tev :=
    if c_stream c then parse (S (length body)) body
    else match body with [] => [] | _ :: _ => [TData None (blen body)] end.
End Spec.

(* consecutive numbering of the data events, from k *)
Fixpoint number (req : bool) (k : N) (evs : list tev) : list event :=
  match evs with
  | [] => []
  | TData e len :: r => EvData req k e len :: number req (k + 1) r
  | TEnd content :: r => EvEos content :: number req k r
  end.

(* the whole trace of a body: numbered events of the parse, then ONE body-end event *)
Definition expected_events (decompress : bytes -> option bytes) (c : cfg) (body : bytes) (err : errk) : list event :=
  number (c_req c) 0 (parse_body decompress c body) ++ [EvEnd (c_req c) err].

Definition count_end (evs : list event) : nat :=
  length (filter (fun e => match e with EvEnd _ _ => true | _ => false end) evs).

(* ---------- vocabulary for well-formed streams ---------- *)
(* a message = (flags, payload) *)
Definition encode_all (msgs : list (N * bytes)) : bytes :=
  concat (map (fun m => encode (fst m) (snd m)) msgs).

Definition fits (m : N * bytes) : Prop := blen (snd m) < 4294967296.

(* what one complete message contributes *)
Definition msg_events (decompress : bytes -> option bytes) (c : cfg) (m : N * bytes) : list tev :=
  TData (Some (mk_env (fst m) (blen (snd m)))) (blen (snd m)) :: end_stream_events decompress c (fst m) (snd m).

(* what the first j bytes (0 < j < whole length) of a message with these flags and this declared
   length contribute: inside the prefix - no envelope, j bytes; inside the payload - the envelope
   and the payload bytes seen; exactly at the end of the prefix - nothing (no payload byte seen) *)
Definition partial_events (flags len : N) (j : nat) : list tev :=
  if (j <? 5)%nat then [TData None (N.of_nat j)]
  else if (j =? 5)%nat then []
  else [TData (Some (mk_env flags len)) (N.of_nat (j - 5))].

Fixpoint data_indices (evs : list event) : list N :=
  match evs with
  | [] => []
  | EvData _ i _ _ :: r => i :: data_indices r
  | _ :: r => data_indices r
  end.
Fixpoint seqN (k : N) (n : nat) : list N :=
  match n with O => [] | S n' => k :: seqN (k + 1) n' end.
Definition count_data (ts : list tev) : nat :=
  length (filter (fun t => match t with TData _ _ => true | TEnd _ => false end) ts).
