(* C11_InProc.v — executable model of the goroutine that runInProcess (process.go) starts around
   an in-process server function:

       go func() {
           defer close(proc.done)
           defer func() { close stdin, stdout, stderr }()
           proc.err = impl(ctx, args, stdin, stdout, stderr)
           if proc.err != nil { fmt.Fprintf(stderr, "%v\n", proc.err) }
       }()

   as the LIST OF ACTIONS it performs, in the order in which they run (deferred functions run
   last-registered first, after the body).  The server function is a script: what it wrote to its
   stderr itself while it ran (`im_own`), and the error it returned, if any (`im_err`, the text of
   "%v", no newline).  The stderr is an io.Pipe: what is written before the writing end is closed
   reaches the reader (the stderr goroutine of runTestCasesForServer), what is written afterwards
   is lost (io.ErrClosedPipe, ignored).  `proc.done` is what result() / whenDone wait for.
   `seeded_order` prints the error from a deferred function registered BEFORE the one that closes
   the pipes, i.e. it runs AFTER them (kept for the counter-example only).  No proofs here. *)
From V Require Export Base.
Open Scope N_scope.

Inductive ipact :=
| ARunImpl      (* the server function runs and returns *)
| APrintErr     (* if proc.err != nil: Fprintf(stderr, "%v\n", proc.err) *)
| AClosePipes   (* stdin, stdout, stderr are closed *)
| ACloseDone.   (* close(proc.done) *)

Definition ipact_eqb (a b : ipact) : bool :=
  match a, b with
  | ARunImpl, ARunImpl | APrintErr, APrintErr | AClosePipes, AClosePipes | ACloseDone, ACloseDone => true
  | _, _ => false
  end.

(* process.go as it is *)
Definition code_order : list ipact := [ARunImpl; APrintErr; AClosePipes; ACloseDone].
Definition seeded_order : list ipact := [ARunImpl; AClosePipes; APrintErr; ACloseDone].

Record impl := mkImpl { im_own : bytes; im_err : option bytes }.

Record ipstate := mkIp {
  ip_stream : bytes;      (* what has reached the reader of the stderr pipe *)
  ip_open : bool;         (* the writing end is open *)
  ip_ran : bool;          (* the server function has returned: proc.err is set *)
  ip_done : bool }.       (* proc.done is closed *)

Definition ip_init : ipstate := mkIp [] true false false.

Definition err_line (e : bytes) : bytes := e ++ [10].

Definition ip_write (s : ipstate) (b : bytes) : ipstate :=
  if s.(ip_open) then mkIp (s.(ip_stream) ++ b) true s.(ip_ran) s.(ip_done) else s.

Definition ip_step (im : impl) (s : ipstate) (a : ipact) : ipstate :=
  match a with
  | ARunImpl => let s' := ip_write s im.(im_own) in mkIp s'.(ip_stream) s'.(ip_open) true s'.(ip_done)
  | APrintErr =>
    (* proc.err is nil until the function has returned *)
    match (if s.(ip_ran) then im.(im_err) else None) with
    | Some e => ip_write s (err_line e)
    | None => s
    end
  | AClosePipes => mkIp s.(ip_stream) false s.(ip_ran) s.(ip_done)
  | ACloseDone => mkIp s.(ip_stream) s.(ip_open) s.(ip_ran) true
  end.

Definition ip_run (im : impl) (order : list ipact) : ipstate := fold_left (ip_step im) order ip_init.

(* the stderr stream the runner reads from an in-process server *)
Definition inproc_stream (im : impl) : bytes := (ip_run im code_order).(ip_stream).

(* ---------- whenDone (cmdProcess and localProcess alike) ---------- *)
(* whenDone(action): a goroutine waits for the process to be done and then calls action(result()) -
   WHATEVER the result is (WdAlways, the code).  WdOnError is the variant that calls it only for a
   non-nil result (kept for the counter-example only).  runTestCasesForServer's action cancels
   procCtx: that is how the send loop notices that the server is gone. *)
Inductive wd_variant := WdAlways | WdOnError.
Definition whendone_invokes (v : wd_variant) (clean : bool) : bool :=
  match v with WdAlways => true | WdOnError => negb clean end.
(* the end of the process after `dead` requests, as far as the runner notices it *)
Definition noticed_dead (v : wd_variant) (clean : bool) (dead : option nat) : option nat :=
  if whendone_invokes v clean then dead else None.

(* ---------- the scripted servers of the harness (mode 6 of c11.proc) ---------- *)
(* the i-th line a scripted server writes to its stderr itself: "verif: own line <i>\n" *)
Definition own_line (i : nat) : bytes :=
  [118;101;114;105;102;58;32;111;119;110;32;108;105;110;101;32] ++ [48 + N.of_nat i] ++ [10].
Fixpoint own_lines (n : nat) : bytes :=
  match n with O => [] | S m => own_lines m ++ own_line m end.
(* errVerifC11Local: "verif: scripted in-process error" *)
Definition scripted_error : bytes :=
  [118;101;114;105;102;58;32;115;99;114;105;112;116;101;100;32;105;110;45;112;114;111;99;101;115;115;32;
   101;114;114;111;114].
