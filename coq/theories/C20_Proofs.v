(* C20_Proofs.v — lemmas and proofs for C20. *)
From Coq Require Import Lia.
From V Require Import C20_Spec.
Open Scope N_scope.

Ltac fin := simpl in *; intros; try discriminate; try contradiction; try congruence; try tauto; auto.

Lemma take_None y : take None y = y. Proof. reflexivity. Qed.
Lemma drop_None y : drop None y = []. Proof. reflexivity. Qed.

Section Decompressors.
  Variable inst : Type.
  Variable dec : bytes -> dres.
  Variable view : inst -> lview.
  Variable l_zero : inst.
  Variable l_new : bytes -> option inst * ures.
  Variable l_reset : inst -> bytes -> inst * ures.
  Variable l_read : inst -> option N -> inst * rres.
  Variable l_readn : inst -> N -> inst * pres.
  Variable l_close : inst -> inst * ures.
  Hypothesis C : lib_contract inst dec view l_zero l_new l_reset l_read l_readn l_close.

  Notation step := (d_step inst l_new l_reset l_read l_readn l_close).
  Notation init := (d_init inst l_zero).
  Notation run := (d_run inst l_new l_reset l_read l_readn l_close).
  Notation after := (d_after inst l_new l_reset l_read l_readn l_close).

  (* ---------- the library, as far as the wrappers need it ---------- *)
  Definition sourced (i : inst) : Prop := view i <> NoSrc.
  Definition open (i : inst) : Prop := view i <> Closed.

  Lemma lib_read i n :
    sourced i ->
    snd (l_read i n) <> RCrash /\ sourced (fst (l_read i n)) /\ (open i -> open (fst (l_read i n))).
  Proof.
    unfold sourced, open. intros S. destruct (view i) as [|y e| |] eqn:V; [congruence| | |].
    - destruct e.
      + destruct n as [k|].
        * destruct (lc_read_err_n _ _ _ _ _ _ _ _ _ C i y k V) as (H1 & [H2|(y' & H2)]); rewrite H2;
            repeat split; try assumption; congruence.
        * destruct (lc_read_err _ _ _ _ _ _ _ _ _ C i y V) as (H1 & H2). rewrite H1, H2.
          repeat split; congruence.
      + destruct (lc_read _ _ _ _ _ _ _ _ _ C i y n V) as (H1 & H2). rewrite H1, H2. repeat split; congruence.
    - destruct (lc_failed_read _ _ _ _ _ _ _ _ _ C i n V) as (H1 & H2). rewrite H2. repeat split; congruence.
    - destruct (lc_closed_read _ _ _ _ _ _ _ _ _ C i n V) as (H1 & H2). rewrite H2. repeat split; congruence.
  Qed.

  Lemma lib_read_nosrc i n :
    open i -> snd (l_read i n) = RCrash \/ open (fst (l_read i n)).
  Proof.
    unfold open. intros O. destruct (view i) eqn:V.
    - destruct (lc_nosrc_read _ _ _ _ _ _ _ _ _ C i n V) as [H|H]; [left; exact H|right; congruence].
    - right. apply lib_read; unfold sourced, open; congruence.
    - right. apply lib_read; unfold sourced, open; congruence.
    - congruence.
  Qed.

  Lemma lib_readn i n :
    sourced i ->
    snd (l_readn i n) <> PCrash /\ sourced (fst (l_readn i n)) /\ (open i -> open (fst (l_readn i n))).
  Proof.
    unfold sourced, open. intros S. destruct (view i) as [|y e| |] eqn:V; [congruence| | |].
    - destruct e.
      + destruct (lc_readn_err _ _ _ _ _ _ _ _ _ C i y n V) as (H1 & [H2|(y' & H2)]); rewrite H2;
          repeat split; try assumption; congruence.
      + destruct (lc_readn _ _ _ _ _ _ _ _ _ C i y n V) as (z & y' & st & H1 & _ & _ & H2 & _).
        rewrite H1, H2. repeat split; congruence.
    - destruct (lc_failed_readn _ _ _ _ _ _ _ _ _ C i n V) as (H1 & H2). rewrite H2. repeat split; congruence.
    - destruct (lc_closed_readn _ _ _ _ _ _ _ _ _ C i n V) as (H1 & H2). rewrite H2. repeat split; congruence.
  Qed.

  Lemma lib_readn_nosrc i n :
    open i -> snd (l_readn i n) = PCrash \/ open (fst (l_readn i n)).
  Proof.
    unfold open. intros O. destruct (view i) eqn:V.
    - destruct (lc_nosrc_readn _ _ _ _ _ _ _ _ _ C i n V) as [H|H]; [left; exact H|right; congruence].
    - right. apply lib_readn; unfold sourced, open; congruence.
    - right. apply lib_readn; unfold sourced, open; congruence.
    - congruence.
  Qed.

  Lemma lib_close i :
    sourced i -> snd (l_close i) <> UCrash /\ view (fst (l_close i)) = Closed.
  Proof.
    unfold sourced. intros S. destruct (view i) as [|y e| |] eqn:V; [congruence| | |].
    - destruct (lc_close _ _ _ _ _ _ _ _ _ C i y e V) as (H1 & _ & H2). auto.
    - apply (lc_failed_close _ _ _ _ _ _ _ _ _ C i V).
    - apply (lc_closed_close _ _ _ _ _ _ _ _ _ C i V).
  Qed.

  Lemma positions_props r s :
    positions inst dec view r s ->
    snd r <> UCrash /\ sourced (fst r) /\ open (fst r) /\
    snd r = match dec s with HdrErr => UErr | Body _ _ => UOk end /\
    match dec s with HdrErr => True | Body y e => view (fst r) = At y e end.
  Proof.
    unfold positions, sourced, open. destruct (dec s); intros (H1 & H2); rewrite H1, H2;
      repeat split; congruence.
  Qed.

  Lemma lib_new s :
    snd (l_new s) = match dec s with HdrErr => UErr | Body _ _ => UOk end /\
    (forall i, fst (l_new s) = Some i -> sourced i /\ open i) /\
    match dec s with HdrErr => True | Body y e => exists i, fst (l_new s) = Some i /\ view i = At y e end.
  Proof.
    pose proof (lc_new _ _ _ _ _ _ _ _ _ C s) as H. unfold sourced, open. destruct (dec s).
    - destruct H as (H1 & H2). split; [exact H1|]. split; [|exact Logic.I].
      intros i E. rewrite (H2 i E). split; congruence.
    - destruct H as (i & E & V). rewrite E. simpl. split; [reflexivity|]. split.
      + intros i' E'. inversion E'; subst. rewrite V. split; congruence.
      + exists i. auto.
  Qed.

  (* ---------- the wrappers ---------- *)
  Notation needs k := (kind_needs k dec view l_new l_reset).

  (* what holds of a wrapper of kind k at any time (b = false) and once a Reset was
     called (b = true) *)
  Definition inv (k : wkind) (b : bool) (st : dstate inst) : Prop :=
    match k, st with
    | KIdent, DIdent r => b = true -> r <> None
    | KGzip, DGzip None => True
    | KGzip, DGzip (Some i) => sourced i
    | KBrotli, DBrotli (Some i) => b = true -> sourced i
    | KSnappy, DSnappy i => open i /\ (b = true -> sourced i)
    | KZstd, DZstd None => True
    | KZstd, DZstd (Some i) => open i /\ (b = true -> sourced i)
    | KDeflate, DDeflate (RZlib i) => sourced i
    | KDeflate, DDeflate _ => True
    | _, _ => False
    end.

  Lemma inv_init k : inv k false (init k).
  Proof.
    destruct k; simpl; try exact Logic.I; try (intros; congruence);
      (split; [unfold open; rewrite (lc_zero _ _ _ _ _ _ _ _ _ C); congruence | intros; congruence]).
  Qed.

  Lemma inv_weaken k st : inv k true st -> inv k false st.
  Proof. unfold inv. destruct k, st; try tauto; try (destruct r; tauto); try (destruct d; tauto);
         try congruence. Qed.

  (* the instance reads are routed to delivers y and then EOF / an error *)
  Definition reads_at (st : dstate inst) (y : bytes) (e : bool) : Prop :=
    match st with
    | DIdent (Some r) => r = y /\ e = false
    | DGzip (Some i) | DBrotli (Some i) | DSnappy i | DZstd (Some i) | DDeflate (RZlib i) => view i = At y e
    | _ => False
    end.
  Definition positioned (st : dstate inst) (d : dres) : Prop :=
    match d with HdrErr => True | Body y e => reads_at st y e end.

  Lemma reset_any_view i s : needs KGzip -> positions inst dec view (l_reset i s) s.
  Proof.
    intros Hk. simpl in Hk. destruct (view i) eqn:V.
    - apply (lc_reset _ _ _ _ _ _ _ _ _ C); congruence.
    - apply (lc_reset _ _ _ _ _ _ _ _ _ C); congruence.
    - apply (lc_reset _ _ _ _ _ _ _ _ _ C); congruence.
    - apply Hk; exact V.
  Qed.

  (* Reset, from ANY state the wrapper can be in *)
  Lemma step_reset k b st s :
    needs k -> inv k b st ->
    snd (step st (DReset s)) = OU (reset_result k (dec_of k dec s)) /\
    inv k true (fst (step st (DReset s))) /\
    positioned (fst (step st (DReset s))) (dec_of k dec s).
  Proof.
    unfold inv. intros Hk I.
    destruct k, st as [r|r|r|d|r|i|]; try contradiction; cbn [d_step dec_of].
    - (* identity *) destruct r; simpl; repeat split; congruence.
    - (* gzip *)
      destruct r as [i|].
      + pose proof (reset_any_view i s Hk) as P.
        apply positions_props in P. destruct P as (P1 & P2 & P3 & P4 & P5).
        destruct (l_reset i s) as [i' u]. simpl in *. subst u.
        destruct (dec s); simpl; repeat split; auto.
      + destruct (lib_new s) as (N1 & N2 & N3). destruct (l_new s) as [o u]. simpl in *. subst u.
        destruct (dec s) as [|y e]; simpl; [repeat split; auto|].
        destruct N3 as (i & -> & V). simpl. repeat split; auto. apply (N2 i eq_refl).
    - (* brotli *)
      destruct r as [i0|]; [|contradiction].
      destruct (lib_new s) as (N1 & N2 & N3). simpl in Hk. pose proof (Hk s) as T.
      destruct (l_new s) as [o u]. simpl in *. subst u.
      destruct o as [i|]; [|congruence].
      destruct (dec s) as [|y e]; simpl.
      + repeat split; auto. intros _. apply (N2 i eq_refl).
      + destruct N3 as (i' & E & V). inversion E; subst. repeat split; auto. intros _. apply (N2 i' eq_refl).
    - (* zstd *)
      destruct d as [i|].
      + destruct I as (O & _).
        pose proof (lc_reset _ _ _ _ _ _ _ _ _ C i s O) as P. apply positions_props in P.
        destruct P as (P1 & P2 & P3 & P4 & P5).
        destruct (l_reset i s) as [i' u]. simpl in *. subst u.
        destruct (dec s); simpl; repeat split; auto.
      + destruct (lib_new s) as (N1 & N2 & N3). destruct (l_new s) as [o u]. simpl in *. subst u.
        destruct (dec s) as [|y e]; simpl.
        * split; [reflexivity|]. split; [|exact I]. destruct o as [i|]; [|exact I].
          destruct (N2 i eq_refl). split; auto.
        * destruct N3 as (i & -> & V). simpl. destruct (N2 i eq_refl). repeat split; auto.
    - (* deflate *)
      destruct (lib_new s) as (N1 & N2 & N3). destruct (l_new s) as [o u]. simpl in *. subst u.
      destruct r as [|i0|];
        (destruct (dec s) as [|y e]; simpl;
         [repeat split; auto
         |destruct N3 as (i & -> & V); simpl; repeat split; auto; apply (N2 i eq_refl)]).
    - (* snappy *)
      destruct I as (O & _).
      pose proof (lc_reset _ _ _ _ _ _ _ _ _ C i s O) as P. apply positions_props in P.
      destruct P as (P1 & P2 & P3 & P4 & P5).
      destruct (l_reset i s) as [i' u]. simpl in *. subst u.
      destruct (dec s); simpl; repeat split; auto.
  Qed.

  (* any step that does not panic keeps the invariant *)
  Lemma step_inv k b st op :
    needs k -> inv k b st -> is_crash (snd (step st op)) = false -> inv k b (fst (step st op)).
  Proof.
    intros Hk I NC. destruct op as [s|n| |n].
    - destruct (step_reset k b st s Hk I) as (_ & I' & _). destruct b; [exact I'|apply inv_weaken; exact I'].
    - revert I NC. unfold inv.
      destruct k, st as [r|r|r|d|r|i|]; try contradiction; cbn [d_step].
      + destruct r; fin.
      + destruct r as [i|]; [|fin]. simpl. intros S _.
        destruct (lib_read i n S) as (_ & S' & _). destruct (l_read i n); simpl in *. exact S'.
      + destruct r as [i|]; [|fin]. simpl. intros S NC.
        destruct (l_read i n) as [i' r'] eqn:E. simpl in *. intros b1.
        pose proof (lib_read i n (S b1)) as L. rewrite E in L. simpl in L. tauto.
      + destruct d as [i|]; [|fin]. simpl. intros (O & S) NC.
        pose proof (lib_read_nosrc i n O) as L1.
        destruct (l_read i n) as [i' r'] eqn:E. simpl in *.
        destruct L1 as [X|O']; [subst r'; discriminate|]. split; [exact O'|]. intros b1.
        pose proof (lib_read i n (S b1)) as L. rewrite E in L. simpl in L. tauto.
      + destruct r as [|i|]; [fin| |fin]. simpl. intros S _.
        destruct (lib_read i n S) as (_ & S' & _). destruct (l_read i n); simpl in *. exact S'.
      + simpl. intros (O & S) NC.
        pose proof (lib_read_nosrc i n O) as L1.
        destruct (l_read i n) as [i' r'] eqn:E. simpl in *.
        destruct L1 as [X|O']; [subst r'; discriminate|]. split; [exact O'|]. intros b1.
        pose proof (lib_read i n (S b1)) as L. rewrite E in L. simpl in L. tauto.
    - revert I NC. unfold inv.
      destruct k, st as [r|r|r|d|r|i|]; try contradiction; cbn [d_step].
      + destruct r; fin.
      + destruct r as [i|]; [|fin]. simpl. intros S _.
        destruct (lib_close i S) as (_ & V). destruct (l_close i); simpl in *.
        unfold sourced. rewrite V. congruence.
      + destruct r as [i|]; fin.
      + destruct d as [i|]; [|fin]. destruct (l_close i); fin.
      + destruct r as [|i|]; [fin| |fin]. simpl. intros S _.
        destruct (lib_close i S) as (_ & V). destruct (l_close i); simpl in *.
        unfold sourced. rewrite V. congruence.
      + fin.
    - revert I NC. unfold inv.
      destruct k, st as [r|r|r|d|r|i|]; try contradiction; cbn [d_step].
      + destruct r; fin.
      + destruct r as [i|]; [|fin]. simpl. intros S _.
        destruct (lib_readn i n S) as (_ & S' & _). destruct (l_readn i n); simpl in *. exact S'.
      + destruct r as [i|]; [|fin]. simpl. intros S NC.
        destruct (l_readn i n) as [i' r'] eqn:E. simpl in *. intros b1.
        pose proof (lib_readn i n (S b1)) as L. rewrite E in L. simpl in L. tauto.
      + destruct d as [i|]; [|fin]. simpl. intros (O & S) NC.
        pose proof (lib_readn_nosrc i n O) as L1.
        destruct (l_readn i n) as [i' r'] eqn:E. simpl in *.
        destruct L1 as [X|O']; [subst r'; discriminate|]. split; [exact O'|]. intros b1.
        pose proof (lib_readn i n (S b1)) as L. rewrite E in L. simpl in L. tauto.
      + destruct r as [|i|]; [fin| |fin]. simpl. intros S _.
        destruct (lib_readn i n S) as (_ & S' & _). destruct (l_readn i n); simpl in *. exact S'.
      + simpl. intros (O & S) NC.
        pose proof (lib_readn_nosrc i n O) as L1.
        destruct (l_readn i n) as [i' r'] eqn:E. simpl in *.
        destruct L1 as [X|O']; [subst r'; discriminate|]. split; [exact O'|]. intros b1.
        pose proof (lib_readn i n (S b1)) as L. rewrite E in L. simpl in L. tauto.
  Qed.

  (* once a Reset was called, nothing panics *)
  Lemma step_no_crash k st op : needs k -> inv k true st -> is_crash (snd (step st op)) = false.
  Proof.
    intros Hk I. destruct op as [s|n| |n].
    - destruct (step_reset k true st s Hk I) as (E & _). rewrite E. destruct (dec_of k dec s), k; reflexivity.
    - revert I. unfold inv.
      destruct k, st as [r|r|r|d|r|i|]; try contradiction; cbn [d_step].
      + destruct r as [r|]; simpl; intros H; [reflexivity|exfalso; apply H; reflexivity].
      + destruct r as [i|]; [|fin]. simpl. intros S.
        destruct (lib_read i n S) as (NC & _). destruct (l_read i n) as [i' r]; simpl in *.
        destruct r; congruence.
      + destruct r as [i|]; [|fin]. simpl. intros S. specialize (S eq_refl).
        destruct (lib_read i n S) as (NC & _). destruct (l_read i n) as [i' r]; simpl in *.
        destruct r; congruence.
      + destruct d as [i|]; [|fin]. simpl. intros (_ & S). specialize (S eq_refl).
        destruct (lib_read i n S) as (NC & _). destruct (l_read i n) as [i' r]; simpl in *.
        destruct r; congruence.
      + destruct r as [|i|]; [fin| |fin]. simpl. intros S.
        destruct (lib_read i n S) as (NC & _). destruct (l_read i n) as [i' r]; simpl in *.
        destruct r; congruence.
      + intros (_ & S). specialize (S eq_refl).
        destruct (lib_read i n S) as (NC & _). destruct (l_read i n) as [i' r]; simpl in *.
        destruct r; congruence.
    - revert I. unfold inv.
      destruct k, st as [r|r|r|d|r|i|]; try contradiction; cbn [d_step].
      + destruct r as [r|]; simpl; intros H; [reflexivity|exfalso; apply H; reflexivity].
      + destruct r as [i|]; [|fin]. simpl. intros S.
        destruct (lib_close i S) as (NC & _). destruct (l_close i) as [i' u]; simpl in *.
        destruct u; congruence.
      + destruct r as [i|]; fin.
      + destruct d as [i|]; [|fin]. simpl. intros (_ & S). specialize (S eq_refl).
        destruct (lib_close i S) as (NC & _). destruct (l_close i) as [i' u]; simpl in *.
        destruct u; congruence.
      + destruct r as [|i|]; [fin| |fin]. simpl. intros S.
        destruct (lib_close i S) as (NC & _). destruct (l_close i) as [i' u]; simpl in *.
        destruct u; congruence.
      + fin.
    - revert I. unfold inv.
      destruct k, st as [r|r|r|d|r|i|]; try contradiction; cbn [d_step].
      + destruct r as [r|]; simpl; intros H; [reflexivity|exfalso; apply H; reflexivity].
      + destruct r as [i|]; [|fin]. simpl. intros S.
        destruct (lib_readn i n S) as (NC & _). destruct (l_readn i n) as [i' r]; simpl in *.
        destruct r; congruence.
      + destruct r as [i|]; [|fin]. simpl. intros S. specialize (S eq_refl).
        destruct (lib_readn i n S) as (NC & _). destruct (l_readn i n) as [i' r]; simpl in *.
        destruct r; congruence.
      + destruct d as [i|]; [|fin]. simpl. intros (_ & S). specialize (S eq_refl).
        destruct (lib_readn i n S) as (NC & _). destruct (l_readn i n) as [i' r]; simpl in *.
        destruct r; congruence.
      + destruct r as [|i|]; [fin| |fin]. simpl. intros S.
        destruct (lib_readn i n S) as (NC & _). destruct (l_readn i n) as [i' r]; simpl in *.
        destruct r; congruence.
      + intros (_ & S). specialize (S eq_refl).
        destruct (lib_readn i n S) as (NC & _). destruct (l_readn i n) as [i' r]; simpl in *.
        destruct r; congruence.
  Qed.

  Lemma read_is_OR st n : exists r, snd (step st (DRead n)) = OR r.
  Proof.
    destruct st as [a|a|a|a|a|a|]; cbn [d_step]; try destruct a;
      try (destruct (l_read _ _)); simpl; eexists; reflexivity.
  Qed.

  (* the ReadAll of a positioned wrapper returns what a fresh reader returns *)
  Lemma step_read_positioned k st d :
    needs k -> inv k true st -> positioned st d ->
    exists r, snd (step st (DRead None)) = OR r /\ fresh_read d r.
  Proof.
    intros Hk I P. destruct d as [|y e].
    - (* header error: only "no panic" is promised *)
      pose proof (step_no_crash k st (DRead None) Hk I) as NC.
      destruct (read_is_OR st None) as (r & E). exists r. split; [exact E|].
      rewrite E in NC. simpl. destruct r; simpl in NC; congruence.
    - unfold positioned, reads_at in P. unfold inv in I.
      assert (L : forall i, view i = At y e ->
                  snd (l_read i None) = if e then RErr else ROk y).
      { intros i V. destruct e.
        - apply (lc_read_err _ _ _ _ _ _ _ _ _ C i y V).
        - apply (lc_read _ _ _ _ _ _ _ _ _ C i y None V). }
      destruct k, st as [r|r|r|dd|r|i|]; try contradiction; cbn [d_step].
      + destruct r as [r|]; [|contradiction]. destruct P as (-> & ->). simpl. eexists; split; reflexivity.
      + destruct r as [i|]; [|contradiction]. specialize (L i P). destruct (l_read i None) as [i' r]. simpl in *.
        subst r. eexists; split; [reflexivity|]. destruct e; reflexivity.
      + destruct r as [i|]; [|contradiction]. specialize (L i P). destruct (l_read i None) as [i' r]. simpl in *.
        subst r. eexists; split; [reflexivity|]. destruct e; reflexivity.
      + destruct dd as [i|]; [|contradiction]. specialize (L i P). destruct (l_read i None) as [i' r]. simpl in *.
        subst r. eexists; split; [reflexivity|]. destruct e; reflexivity.
      + destruct r as [|i|]; try contradiction. specialize (L i P). destruct (l_read i None) as [i' r]. simpl in *.
        subst r. eexists; split; [reflexivity|]. destruct e; reflexivity.
      + specialize (L i P). destruct (l_read i None) as [i' r]. simpl in *.
        subst r. eexists; split; [reflexivity|]. destruct e; reflexivity.
  Qed.

  (* ---------- histories ---------- *)
  Lemma run_app st h1 h2 :
    run st (h1 ++ h2) = run st h1 ++ match after st h1 with Some st' => run st' h2 | None => [] end.
  Proof.
    revert st. induction h1 as [|op h1 IH]; intros st; simpl; [reflexivity|].
    destruct (step st op) as [st' o]. destruct (is_crash o); simpl; [reflexivity|].
    rewrite IH. reflexivity.
  Qed.

  Lemma no_crash_after st h : no_crash (run st h) -> exists st', after st h = Some st'.
  Proof.
    revert st. induction h as [|op h IH]; intros st NC; simpl; [eauto|].
    simpl in NC. destruct (step st op) as [st' o] eqn:E.
    destruct (is_crash o) eqn:X.
    - exfalso. specialize (NC o (or_introl eq_refl)). congruence.
    - apply IH. intros o' Ho'. apply NC. right. exact Ho'.
  Qed.

  Lemma after_inv k b st h st' : needs k -> inv k b st -> after st h = Some st' -> inv k b st'.
  Proof.
    intros Hk. revert st. induction h as [|op h IH]; intros st I A; simpl in A.
    - inversion A; subst; exact I.
    - destruct (step st op) as [st1 o] eqn:E. destruct (is_crash o) eqn:X; [discriminate|].
      apply (IH st1); [|exact A].
      pose proof (step_inv k b st op Hk I) as S. rewrite E in S. simpl in S. apply S. exact X.
  Qed.

  Lemma run_no_crash k st h : needs k -> inv k true st -> no_crash (run st h).
  Proof.
    intros Hk. revert st. induction h as [|op h IH]; intros st I o Ho; simpl in Ho; [contradiction|].
    pose proof (step_no_crash k st op Hk I) as NC. pose proof (step_inv k true st op Hk I) as S.
    destruct (step st op) as [st' o']. simpl in *. rewrite NC in Ho.
    destruct Ho as [<-|Ho]; [exact NC|]. apply (IH st' (S NC)). exact Ho.
  Qed.

  (* === session independence: whatever happened before (failed sessions, Close, Close twice,
         reads without Reset, abandoned reads), Reset s followed by ReadAll returns exactly what
         a fresh reader returns on s === *)
  Lemma session_independent_proof k :
    needs k -> forall h s, no_crash (run (init k) h) ->
    exists r,
      run (init k) (h ++ [DReset s; DRead None])
      = run (init k) h ++ [OU (reset_result k (dec_of k dec s)); OR r]
      /\ fresh_read (dec_of k dec s) r.
  Proof.
    intros Hk h s NC. destruct (no_crash_after _ _ NC) as (st & A).
    pose proof (after_inv k false _ _ _ Hk (inv_init k) A) as I.
    destruct (step_reset k false st s Hk I) as (E1 & I1 & P1).
    destruct (step_read_positioned k _ _ Hk I1 P1) as (r & E2 & F).
    exists r. split; [|exact F]. rewrite run_app, A. f_equal. simpl.
    destruct (step st (DReset s)) as [st1 o1]. simpl in *. subst o1.
    assert (X : is_crash (OU (reset_result k (dec_of k dec s))) = false)
      by (destruct (dec_of k dec s), k; reflexivity).
    rewrite X. destruct (step st1 (DRead None)) as [st2 o2]. simpl in *. subst o2.
    destruct (is_crash (OR r)); reflexivity.
  Qed.

  (* === nothing panics once the first operation is a Reset === *)
  Lemma no_crash_proof k : needs k -> forall h, starts_with_reset h -> no_crash (run (init k) h).
  Proof.
    intros Hk h (s & h' & ->). simpl.
    destruct (step_reset k false (init k) s Hk (inv_init k)) as (E & I & _).
    destruct (step (init k) (DReset s)) as [st o]. simpl in *. subst o.
    assert (X : is_crash (OU (reset_result k (dec_of k dec s))) = false)
      by (destruct (dec_of k dec s), k; reflexivity).
    rewrite X. intros o [<-|Ho]; [exact X|]. apply (run_no_crash k st h' Hk I o Ho).
  Qed.
End Decompressors.

(* ====================================================================== *)
(* compressors                                                            *)
(* ====================================================================== *)
Section Compressors.
  Variable winst : Type.
  Variable dec : bytes -> dres.
  Variable wv : winst -> wview.
  Variable w_zero : winst.
  Variable w_reset : winst -> winst * ures.
  Variable w_write : winst -> bytes -> winst * ures * bytes.
  Variable w_close : winst -> winst * ures * bytes.
  Hypothesis W : wlib_contract dec winst wv w_reset w_write w_close.

  Notation cstep := (c_step winst w_reset w_write w_close).
  Notation crun := (c_run winst w_reset w_write w_close).
  Notation cinit := (c_init winst w_zero).

  Definition cshape (k : wkind) (st : cstate winst) : Prop :=
    match k, st with
    | KIdent, CIdent _ => True
    | KIdent, _ => False
    | _, CLib _ => True
    | _, _ => False
    end.

  Lemma cshape_init k : cshape k (cinit k).
  Proof. destruct k; exact Logic.I. Qed.

  Lemma cshape_step k st op : cshape k st -> cshape k (fst (fst (cstep st op))).
  Proof.
    destruct k, st as [b|w|], op as [|x|]; simpl; try tauto; try (destruct b; simpl; tauto);
      try (destruct (w_reset w)); try (destruct (w_write w x) as [[? ?] ?]);
      try (destruct (w_close w) as [[? ?] ?]); simpl; tauto.
  Qed.

  Lemma crun_dests_nonempty st cur h : snd (crun st cur h) <> [].
  Proof.
    revert st cur. induction h as [|op h IH]; intros st cur; simpl; [discriminate|].
    destruct (cstep st op) as [[st' u] out]. destruct u; try discriminate.
    - destruct op; [specialize (IH st' [])|specialize (IH st' (cur ++ out))|specialize (IH st' (cur ++ out))];
        destruct (crun st' _ h); simpl in *; try discriminate; exact IH.
    - destruct op; [specialize (IH st' [])|specialize (IH st' (cur ++ out))|specialize (IH st' (cur ++ out))];
        destruct (crun st' _ h); simpl in *; try discriminate; exact IH.
  Qed.

  (* writes and the Close of one session, on a library writer that is open *)
  Lemma lib_session ws :
    Forall is_write ws -> forall w acc em,
    wv w = WOpen acc em ->
    exists c, crun (CLib w) em (ws ++ [CClose]) = (repeat UOk (length ws) ++ [UOk], [c]) /\
              dec c = Body (acc ++ written ws) false.
  Proof.
    induction 1 as [|op ws (b & ->) _ IH]; intros w acc em V.
    - simpl. destruct (wc_close _ _ _ _ _ _ W w acc em V) as (H1 & H2 & H3).
      destruct (w_close w) as [[w' u] out]. simpl in *. subst u.
      exists (em ++ out). rewrite app_nil_r. split; [reflexivity|exact H3].
    - simpl. destruct (wc_write _ _ _ _ _ _ W w acc em b V) as (H1 & H2).
      destruct (w_write w b) as [[w' u] out]. simpl in *. subst u.
      destruct (IH w' (acc ++ b) (em ++ out) H2) as (c & E & D).
      rewrite E. exists c. split; [reflexivity|]. rewrite <- app_assoc in D. exact D.
  Qed.

  Lemma ident_session ws :
    Forall is_write ws -> forall cur,
    crun (CIdent true) cur (ws ++ [CClose]) = (repeat UOk (length ws) ++ [UOk], [cur ++ written ws]).
  Proof.
    induction 1 as [|op ws (b & ->) _ IH]; intros cur.
    - simpl. rewrite !app_nil_r. reflexivity.
    - simpl. rewrite IH. rewrite <- app_assoc. reflexivity.
  Qed.

  (* one session from ANY state of a compressor of kind k *)
  Lemma session_from k st cur ws :
    cshape k st -> Forall is_write ws ->
    exists c, crun st cur (CReset :: ws ++ [CClose]) = (UOk :: repeat UOk (length ws) ++ [UOk], [cur; c]) /\
              dec_of k dec c = Body (written ws) false.
  Proof.
    intros S F. destruct k, st as [b|w|]; try contradiction; cbn [c_run c_step dec_of].
    1: { destruct b; rewrite (ident_session ws F []); eexists; split; reflexivity. }
    all: destruct (wc_reset _ _ _ _ _ _ W w) as (H1 & H2);
      destruct (w_reset w) as [w' u]; simpl in H1, H2; subst u;
      destruct (lib_session ws F w' [] [] H2) as (c & E & D); rewrite E; exists c; split; [reflexivity|exact D].
  Qed.

  Definition cno_crash (us : list ures) : Prop := forall u, In u us -> u <> UCrash.

  (* === a session after ANY history: Reset d; Write*; Close makes d decode to what was written === *)
  Lemma compress_session_gen k ws h1 :
    Forall is_write ws -> forall st cur, cshape k st ->
    cno_crash (fst (crun st cur h1)) ->
    let r := crun st cur (h1 ++ CReset :: ws ++ [CClose]) in
    fst r = fst (crun st cur h1) ++ UOk :: repeat UOk (length ws) ++ [UOk] /\
    dec_of k dec (last (snd r) []) = Body (written ws) false.
  Proof.
    intros F. induction h1 as [|op h1 IH]; intros st cur S NC.
    - cbn [app]. destruct (session_from k st cur ws S F) as (c & E & D). cbv zeta. rewrite E. simpl.
      split; [reflexivity|exact D].
    - cbv zeta. cbn [app c_run] in *. pose proof (cshape_step k st op S) as S'.
      destruct (cstep st op) as [[st' u] out]. simpl in S'.
      destruct u.
      + destruct op.
        * specialize (IH st' [] S'). pose proof (crun_dests_nonempty st' [] (h1 ++ CReset :: ws ++ [CClose])) as NE.
          destruct (crun st' [] h1) as [us ds] eqn:E1.
          destruct (crun st' [] (h1 ++ CReset :: ws ++ [CClose])) as [us2 ds2] eqn:E2. simpl in *.
          destruct IH as (I1 & I2); [intros x Hx; apply NC; right; exact Hx|].
          split; [rewrite I1; reflexivity|]. destruct ds2; [congruence|exact I2].
        * specialize (IH st' (cur ++ out) S').
          destruct (crun st' (cur ++ out) h1) as [us ds] eqn:E1.
          destruct (crun st' (cur ++ out) (h1 ++ CReset :: ws ++ [CClose])) as [us2 ds2] eqn:E2. simpl in *.
          destruct IH as (I1 & I2); [intros x Hx; apply NC; right; exact Hx|].
          split; [rewrite I1; reflexivity|exact I2].
        * specialize (IH st' (cur ++ out) S').
          destruct (crun st' (cur ++ out) h1) as [us ds] eqn:E1.
          destruct (crun st' (cur ++ out) (h1 ++ CReset :: ws ++ [CClose])) as [us2 ds2] eqn:E2. simpl in *.
          destruct IH as (I1 & I2); [intros x Hx; apply NC; right; exact Hx|].
          split; [rewrite I1; reflexivity|exact I2].
      + destruct op.
        * specialize (IH st' [] S'). pose proof (crun_dests_nonempty st' [] (h1 ++ CReset :: ws ++ [CClose])) as NE.
          destruct (crun st' [] h1) as [us ds] eqn:E1.
          destruct (crun st' [] (h1 ++ CReset :: ws ++ [CClose])) as [us2 ds2] eqn:E2. simpl in *.
          destruct IH as (I1 & I2); [intros x Hx; apply NC; right; exact Hx|].
          split; [rewrite I1; reflexivity|]. destruct ds2; [congruence|exact I2].
        * specialize (IH st' (cur ++ out) S').
          destruct (crun st' (cur ++ out) h1) as [us ds] eqn:E1.
          destruct (crun st' (cur ++ out) (h1 ++ CReset :: ws ++ [CClose])) as [us2 ds2] eqn:E2. simpl in *.
          destruct IH as (I1 & I2); [intros x Hx; apply NC; right; exact Hx|].
          split; [rewrite I1; reflexivity|exact I2].
        * specialize (IH st' (cur ++ out) S').
          destruct (crun st' (cur ++ out) h1) as [us ds] eqn:E1.
          destruct (crun st' (cur ++ out) (h1 ++ CReset :: ws ++ [CClose])) as [us2 ds2] eqn:E2. simpl in *.
          destruct IH as (I1 & I2); [intros x Hx; apply NC; right; exact Hx|].
          split; [rewrite I1; reflexivity|exact I2].
      + exfalso. apply (NC UCrash); [left; reflexivity|reflexivity].
  Qed.

  Lemma compress_session_proof k ws h1 :
    Forall is_write ws ->
    cno_crash (fst (crun (cinit k) [] h1)) ->
    let r := crun (cinit k) [] (h1 ++ CReset :: ws ++ [CClose]) in
    fst r = fst (crun (cinit k) [] h1) ++ UOk :: repeat UOk (length ws) ++ [UOk] /\
    dec_of k dec (last (snd r) []) = Body (written ws) false.
  Proof. intros F NC. apply compress_session_gen; [exact F|apply cshape_init|exact NC]. Qed.

  (* === a compressor whose first operation is a Reset never panics === *)
  Definition wopen_or_closed (st : cstate winst) : Prop :=
    match st with
    | CIdent b => b = true
    | CLib w => wv w = WClosed \/ exists acc em, wv w = WOpen acc em
    | CSentinel => True
    end.

  Lemma cstep_safe st op :
    wopen_or_closed st -> snd (fst (cstep st op)) <> UCrash /\ wopen_or_closed (fst (fst (cstep st op))).
  Proof.
    destruct st as [b|w|], op as [|x|]; simpl; intros H; try (subst b; simpl; split; [discriminate|reflexivity]);
      try (split; [discriminate|exact Logic.I]).
    - destruct (wc_reset _ _ _ _ _ _ W w) as (H1 & H2). destruct (w_reset w) as [w' u]. simpl in *.
      split; [congruence|]. right. eauto.
    - destruct H as [V|(acc & em & V)].
      + destruct (wc_closed_write _ _ _ _ _ _ W w x V) as (H1 & H2). destruct (w_write w x) as [[w' u] out].
        simpl in *. split; [exact H1|left; exact H2].
      + destruct (wc_write _ _ _ _ _ _ W w acc em x V) as (H1 & H2). destruct (w_write w x) as [[w' u] out].
        simpl in *. split; [congruence|right; eauto].
    - destruct H as [V|(acc & em & V)].
      + destruct (wc_closed_close _ _ _ _ _ _ W w V) as (H1 & H2). destruct (w_close w) as [[w' u] out].
        simpl in *. split; [exact H1|left; exact H2].
      + destruct (wc_close _ _ _ _ _ _ W w acc em V) as (H1 & H2 & _). destruct (w_close w) as [[w' u] out].
        simpl in *. split; [congruence|left; exact H2].
  Qed.

  Lemma crun_safe h : forall st cur, wopen_or_closed st -> cno_crash (fst (crun st cur h)).
  Proof.
    induction h as [|op h IH]; intros st cur H u Hu; simpl in Hu; [contradiction|].
    destruct (cstep_safe st op H) as (NC & H'). destruct (cstep st op) as [[st' u'] out]. simpl in *.
    destruct u'; try congruence.
    - destruct op; [pose proof (IH st' [] H') as R; destruct (crun st' [] h)
                   |pose proof (IH st' (cur ++ out) H') as R; destruct (crun st' (cur ++ out) h)
                   |pose proof (IH st' (cur ++ out) H') as R; destruct (crun st' (cur ++ out) h)];
        simpl in *; (destruct Hu as [<-|Hu]; [discriminate|apply R; exact Hu]).
    - destruct op; [pose proof (IH st' [] H') as R; destruct (crun st' [] h)
                   |pose proof (IH st' (cur ++ out) H') as R; destruct (crun st' (cur ++ out) h)
                   |pose proof (IH st' (cur ++ out) H') as R; destruct (crun st' (cur ++ out) h)];
        simpl in *; (destruct Hu as [<-|Hu]; [discriminate|apply R; exact Hu]).
  Qed.

  Lemma compress_no_crash_proof k h : cno_crash (fst (crun (cinit k) [] (CReset :: h))).
  Proof.
    intros u Hu. cbn [c_run] in Hu.
    assert (X : snd (fst (cstep (cinit k) CReset)) = UOk /\ wopen_or_closed (fst (fst (cstep (cinit k) CReset)))).
    { destruct k; simpl; try (split; reflexivity);
        destruct (wc_reset _ _ _ _ _ _ W w_zero) as (H1 & H2); destruct (w_reset w_zero) as [w' u'];
        simpl in *; (split; [exact H1|right; eauto]). }
    destruct (cstep (cinit k) CReset) as [[st' u'] out]. simpl in X. destruct X as (-> & H').
    pose proof (crun_safe h st' [] H') as R. destruct (crun st' [] h). simpl in *.
    destruct Hu as [<-|Hu]; [discriminate|apply R; exact Hu].
  Qed.
End Compressors.

(* ====================================================================== *)
(* the pool protocol                                                      *)
(* ====================================================================== *)
Lemma pool_starts_with_reset h : pool_history h -> h = [] \/ starts_with_reset h.
Proof. destruct 1; [left; reflexivity|right..]; eexists; eexists; reflexivity. Qed.

(* ====================================================================== *)
(* the stand-in codec satisfies the contract (the hypotheses are inhabited) *)
(* ====================================================================== *)
Lemma toy_contract loud eager closed_ok :
  lib_contract lview toy_dec (fun v => v) NoSrc toy_new (toy_reset closed_ok) (toy_read loud)
               (toy_readn loud eager) toy_close.
Proof.
  constructor.
  - reflexivity.
  - intros s. unfold toy_new, toy_position. destruct (toy_dec s) as [|y e]; simpl.
    + split; [reflexivity|]. intros i E. inversion E; reflexivity.
    + eexists; split; reflexivity.
  - intros i s V. unfold positions, toy_reset, toy_position.
    destruct i; try congruence; destruct (toy_dec s); simpl; split; reflexivity.
  - intros i y n ->. simpl. split; reflexivity.
  - intros i y ->. simpl. split; reflexivity.
  - intros i y k ->. simpl. destruct (k <? N.of_nat (length y)); simpl.
    + split; [discriminate|]. right. eexists; reflexivity.
    + split; [discriminate|]. left; reflexivity.
  - intros i y e ->. simpl. destruct e; simpl; repeat split; discriminate.
  - intros i n ->. simpl. split; [discriminate|reflexivity].
  - intros i ->. simpl. split; [discriminate|reflexivity].
  - intros i n ->. simpl. split; [discriminate|reflexivity].
  - intros i ->. simpl. split; [discriminate|reflexivity].
  - intros i n ->. simpl. right; reflexivity.
  - intros i y n ->. simpl.
    exists (firstn (N.to_nat n) y), (skipn (N.to_nat n) y).
    eexists. split; [reflexivity|]. split; [symmetry; apply firstn_skipn|]. split.
    { pose proof (firstn_le_length (N.to_nat n) y). lia. }
    split; [reflexivity|]. destruct (skipn (N.to_nat n) y) eqn:E.
    + split; [|reflexivity]. destruct ((0 <? n) && _); discriminate.
    + split; discriminate.
  - intros i y n ->. simpl. destruct (n <? N.of_nat (length y)); simpl.
    + split; [discriminate|]. right. eexists; reflexivity.
    + split; [discriminate|]. left; reflexivity.
  - intros i n ->. simpl. split; [discriminate|reflexivity].
  - intros i n ->. simpl. split; [discriminate|reflexivity].
  - intros i n ->. simpl. destruct loud; [left|right]; reflexivity.
Qed.

Lemma toy_progress loud eager : lib_progress lview (fun v => v) (toy_readn loud eager).
Proof.
  intros i y n z st -> Hn E.
  assert (Hn' : (0 <? n) = true) by (apply N.ltb_lt; exact Hn).
  destruct y as [|a y].
  - simpl in E. rewrite firstn_nil, skipn_nil, Hn', Bool.orb_true_r in E. simpl in E.
    inversion E; subst. split; [congruence|reflexivity].
  - split; [|discriminate]. intros _. simpl in E.
    destruct (N.to_nat n) eqn:En; [lia|]. simpl in E. inversion E; subst. discriminate.
Qed.

Lemma toy_reset_after_close : reset_after_close lview toy_dec (fun v => v) (toy_reset true).
Proof.
  intros i s ->. unfold positions, toy_reset, toy_position. destruct (toy_dec s); simpl; split; reflexivity.
Qed.

Lemma toy_new_total : new_total lview toy_new.
Proof. intros s. unfold toy_new. destruct (toy_position s). simpl. discriminate. Qed.

(* the stand-in writer buffers everything until Close: nothing has reached the destination before *)
Definition toy_wv (w : wview) : wview := match w with WOpen acc _ => WOpen acc [] | _ => w end.
Lemma toy_wcontract : wlib_contract toy_dec wview toy_wv toy_wreset toy_wwrite toy_wclose.
Proof.
  constructor.
  - intros w. split; reflexivity.
  - intros w acc em b V. destruct w; simpl in V; try discriminate. inversion V; subst. simpl. split; reflexivity.
  - intros w acc em V. destruct w; simpl in V; try discriminate. inversion V; subst. simpl. repeat split.
  - intros w b V. destruct w; simpl in V; try discriminate. simpl. split; [discriminate|reflexivity].
  - intros w V. destruct w; simpl in V; try discriminate. simpl. split; [discriminate|reflexivity].
Qed.

Lemma toy_needs k : kind_needs k toy_dec (fun v : lview => v) toy_new (toy_reset (kind_closed_ok k)).
Proof.
  destruct k; simpl; try exact Logic.I.
  - apply toy_reset_after_close.
  - apply toy_new_total.
Qed.
