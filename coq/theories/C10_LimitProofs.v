(* C10_LimitProofs.v — the wiring of the two response-size limits (C10_Model: reader_kind, limit_of,
   reader_accepts) and what the property needs of it: the reader of the client's output lets through
   every answer up to the CLIENT limit (in particular every size between the server limit and the client
   limit) and delivers it to its own test's callback, once; above it the reader stops at the prefix.
   All statements are over all sizes / all messages / all states; the constants are the ones regenerated
   from the compiled Go code (C10_Consts.v), so these proofs are re-checked against them on every run. *)
From Coq Require Import Lia.
From V Require Import C10_Consts C10_Spec C10_Proofs.
Open Scope N_scope.

(* ---------- facts about the regenerated constants ---------- *)
Lemma client_limit_fits_prefix : limit_of ClientOutputReader < 4294967296.
Proof. reflexivity. Qed.
Lemma server_limit_below_client_limit : limit_of ServerResponseReader < limit_of ClientOutputReader.
Proof. reflexivity. Qed.
Lemma prefix_is_4 : c10_prefix_len = 4.
Proof. reflexivity. Qed.

Lemma be_decode4 a b c d : be_decode [a; b; c; d] 0 = ((a * 256 + b) * 256 + c) * 256 + d.
Proof. reflexivity. Qed.

Lemma be_decode_be32 n : n < 4294967296 -> be_decode (be32 n) 0 = n.
Proof.
  intros H. unfold be32. rewrite be_decode4.
  pose proof (N.div_mod n 256 ltac:(discriminate)) as E0.
  pose proof (N.div_mod (n / 256) 256 ltac:(discriminate)) as E1.
  pose proof (N.div_mod (n / 256 / 256) 256 ltac:(discriminate)) as E2.
  replace (n / 65536) with (n / 256 / 256) by (rewrite N.div_div by discriminate; reflexivity).
  replace (n / 16777216) with (n / 256 / 256 / 256) by (rewrite !N.div_div by discriminate; reflexivity).
  assert (Hs : n / 256 / 256 / 256 < 256).
  { apply N.div_lt_upper_bound; [discriminate|]. apply N.div_lt_upper_bound; [discriminate|].
    apply N.div_lt_upper_bound; [discriminate|]. exact H. }
  rewrite (N.mod_small _ _ Hs). lia.
Qed.

Lemma firstn_len_app {A} (a b : list A) : firstn (length a) (a ++ b) = a.
Proof. induction a; simpl; [destruct b|]; congruence. Qed.
Lemma skipn_len_app {A} (a b : list A) : skipn (length a) (a ++ b) = b.
Proof. induction a; simpl; auto. Qed.

(* ---------- the reader at a frame boundary ---------- *)
Lemma next_item_frame m rest :
  reader_accepts ClientOutputReader (N.of_nat (length m)) = true ->
  next_item (frame m ++ rest) = IMsg m rest.
Proof.
  intros Acc. unfold next_item, frame.
  assert (Hx : N.of_nat (length m) < 4294967296).
  { unfold reader_accepts in Acc. apply N.leb_le in Acc. pose proof client_limit_fits_prefix. lia. }
  remember (be32 (N.of_nat (length m))) as pfx eqn:Ep.
  assert (Hd : be_decode pfx 0 = N.of_nat (length m)) by (subst pfx; apply be_decode_be32; exact Hx).
  assert (Lp : exists a b c d, pfx = [a; b; c; d]) by (subst pfx; unfold be32; eauto).
  destruct Lp as (a & b & c & d & ->). clear Ep.
  change (([a; b; c; d] ++ m) ++ rest) with (a :: b :: c :: d :: m ++ rest).
  assert (L : N.of_nat (length (a :: b :: c :: d :: m ++ rest)) <? c10_prefix_len = false).
  { apply N.ltb_ge. rewrite prefix_is_4. cbn [length]. lia. }
  rewrite L. cbn [firstn skipn]. rewrite Hd. rewrite Acc. cbn [negb].
  assert (L2 : N.of_nat (length (m ++ rest)) <? N.of_nat (length m) = false).
  { apply N.ltb_ge. rewrite app_length. lia. }
  rewrite L2. rewrite Nat2N.id. rewrite firstn_len_app, skipn_len_app. reflexivity.
Qed.

Lemma next_item_over_limit size body :
  size < 4294967296 -> reader_accepts ClientOutputReader size = false ->
  next_item (be32 size ++ body) = IOver body.
Proof.
  intros Hs Rej. unfold next_item.
  remember (be32 size) as pfx eqn:Ep.
  assert (Hd : be_decode pfx 0 = size) by (subst pfx; apply be_decode_be32; exact Hs).
  assert (Lp : exists a b c d, pfx = [a; b; c; d]) by (subst pfx; unfold be32; eauto).
  destruct Lp as (a & b & c & d & ->). clear Ep.
  change ([a; b; c; d] ++ body) with (a :: b :: c :: d :: body).
  assert (L : N.of_nat (length (a :: b :: c :: d :: body)) <? c10_prefix_len = false).
  { apply N.ltb_ge. rewrite prefix_is_4. cbn [length]. lia. }
  rewrite L. cbn [firstn skipn]. rewrite Hd. rewrite Rej. reflexivity.
Qed.

(* the callbacks fired so far stay fired *)
Lemma fired_grows X s a : exists l, (step_with X s a).(fired) = s.(fired) ++ l.
Proof.
  assert (Z0 : exists l, fired s = fired s ++ l) by (exists []; rewrite app_nil_r; reflexivity).
  destruct a; unfold step_with; try exact Z0;
    repeat match goal with
           | |- context [match ?x with _ => _ end] => destruct x
           end; try exact Z0; try (eexists; reflexivity).
  (* RStep with the reader running *)
  all: unfold reader_step, reader_stops;
    repeat match goal with
           | |- context [match ?x with _ => _ end] => destruct x
           end; try exact Z0; try (eexists; reflexivity).
Qed.

Lemma fired_grows_run X s h : exists l, (fold_left (step_with X) h s).(fired) = s.(fired) ++ l.
Proof.
  revert s. induction h as [|a h IH]; intros s; simpl.
  - exists []. rewrite app_nil_r. reflexivity.
  - destruct (IH (step_with X s a)) as [l1 E1]. destruct (fired_grows X s a) as [l2 E2].
    exists (l2 ++ l1). rewrite E1, E2, app_assoc. reflexivity.
Qed.

(* ---------- the theorem ---------- *)
Theorem limits_wired_proof :
  (* which constant goes to which reader *)
  (limit_of ClientOutputReader = c10_max_response /\ limit_of ServerResponseReader = c10_max_server_response) /\
  (* the window between the two limits exists *)
  c10_max_server_response < c10_max_response /\
  (* acceptance is decided by the client limit alone, for every size *)
  (forall size, reader_accepts ClientOutputReader size = true <-> size <= c10_max_response) /\
  (* every answer whose encoded size is at most the client limit - whatever it is compared with the
     server limit - is delivered to its own test's callback; the failure flags and all other pending
     tests are untouched *)
  (forall s m rest n tag i,
     s.(rd) = RRun -> s.(buf) = frame m ++ rest -> decode m = Some (n, tag) -> lookup n s.(pending) = Some i ->
     N.of_nat (length m) <= c10_max_response ->
     delivered_to s (step s RStep) i n tag rest) /\
  (* ... exactly once, whatever happens later *)
  (forall h m rest n tag i h',
     (run h).(rd) = RRun -> (run h).(buf) = frame m ++ rest -> decode m = Some (n, tag) ->
     lookup n (run h).(pending) = Some i -> N.of_nat (length m) <= c10_max_response ->
     let s := run (h ++ RStep :: h') in
     times_fired i s = 1%nat /\ In (i, OResp n tag) s.(fired)) /\
  (* an answer above the client limit is refused right after its 4-byte prefix: nothing is delivered *)
  (forall s size body,
     s.(rd) = RRun -> s.(buf) = be32 size ++ body -> c10_max_response < size < 4294967296 ->
     let s' := step s RStep in
     s'.(rd) = RStop1 ROversize /\ s'.(fired) = s.(fired) /\ s'.(pending) = s.(pending) /\ s'.(term) = true).
Proof.
  assert (Deliver : forall s m rest n tag i,
     s.(rd) = RRun -> s.(buf) = frame m ++ rest -> decode m = Some (n, tag) -> lookup n s.(pending) = Some i ->
     N.of_nat (length m) <= c10_max_response ->
     delivered_to s (step s RStep) i n tag rest).
  { intros s m rest n tag i Rd Bf Dm Lk Le.
    assert (Acc : reader_accepts ClientOutputReader (N.of_nat (length m)) = true) by (apply N.leb_le; exact Le).
    unfold step, step_with. rewrite Rd. unfold reader_step. rewrite Bf, (next_item_frame _ _ Acc), Dm, Lk.
    unfold delivered_to. cbn. repeat split; reflexivity. }
  split; [split; reflexivity|]. split; [exact server_limit_below_client_limit|].
  split; [intros size; unfold reader_accepts; apply N.leb_le|].
  split; [exact Deliver|]. split.
  - intros h m rest n tag i h' Rd Bf Dm Lk Le s.
    destruct (Deliver _ _ _ _ _ _ Rd Bf Dm Lk Le) as (F & _).
    assert (Hin : In (i, OResp n tag) (fired s)).
    { destruct (fired_grows_run true (step (run h) RStep) h') as [l El].
      unfold s. rewrite run_app. unfold run_from. cbn [fold_left].
      change (fold_left step h' (step (run h) RStep)) with (fold_left (step_with true) h' (step (run h) RStep)).
      rewrite El. apply in_or_app. left. rewrite F. apply in_or_app. right. left. reflexivity. }
    split; [|exact Hin].
    pose proof (at_most_once_proof (h ++ RStep :: h') i) as U. fold s in U.
    pose proof (in_fired_cnt _ _ _ Hin) as L. rewrite times_fired_cnt in *. lia.
  - intros s size body Rd Bf [Lo Hi] s'.
    assert (Rej : reader_accepts ClientOutputReader size = false) by (apply N.leb_gt; exact Lo).
    unfold s', step, step_with. rewrite Rd. unfold reader_step. rewrite Bf, (next_item_over_limit _ _ Hi Rej).
    cbn. repeat split; reflexivity.
Qed.

(* a frame whose message decodes like another one is read like it (both sizes let through) *)
Theorem equal_decode_read_alike_proof : forall s m1 m2 rest,
  decode m1 = decode m2 ->
  reader_accepts ClientOutputReader (N.of_nat (length m1)) = true ->
  reader_accepts ClientOutputReader (N.of_nat (length m2)) = true ->
  reader_step (with_buf s (frame m1 ++ rest)) = reader_step (with_buf s (frame m2 ++ rest)).
Proof.
  intros s m1 m2 rest D A1 A2. unfold reader_step, with_buf. cbn [buf].
  rewrite (next_item_frame _ _ A1), (next_item_frame _ _ A2), D. reflexivity.
Qed.

(* ---------- padded answers decode like the plain ones ---------- *)
Fixpoint vbound (f : nat) : N := match f with O => 128 | S f => 128 * vbound f end.

Lemma dec_enc_varint f v body : v < vbound f -> dec_varint f (enc_varint f v ++ body) = Some (v, body).
Proof.
  revert v; induction f as [|f IH]; intros v H; cbn [enc_varint vbound] in *.
  - rewrite N.mod_small by exact H. cbn [app dec_varint]. destruct (N.ltb_spec v 128); [reflexivity|lia].
  - destruct (N.ltb_spec v 128) as [Sm|Bg].
    + cbn [app dec_varint]. destruct (N.ltb_spec v 128); [reflexivity|lia].
    + cbn [app dec_varint].
      rewrite IH by (apply N.div_lt_upper_bound; [discriminate|exact H]).
      pose proof (N.div_mod v 128 ltac:(discriminate)) as E. revert E.
      generalize (v mod 128) as r. generalize (v / 128) as q. intros q r E.
      destruct (N.ltb_spec (128 + r) 128); [lia|].
      replace (128 + r - 128 + 128 * q) with v by lia. reflexivity.
Qed.

Lemma is_pad_pad_field p : p < vbound 4 -> is_pad (pad_field p) = true.
Proof.
  intros H. unfold pad_field, is_pad. rewrite (dec_enc_varint 4 p _ H).
  rewrite repeat_length, N2Nat.id. apply N.eqb_refl.
Qed.

Lemma decode_with_pad n tag padl :
  (length n < 128)%nat -> (length tag < 126)%nat ->
  is_pad padl = true -> (padl = [] \/ exists t, padl = 122 :: t) ->
  decode (encode n tag ++ padl) = Some (n, tag).
Proof.
  intros Ln Lt Ip Shape. unfold encode.
  set (X := (match tag with [] => [] | _ :: _ => 26 :: N.of_nat (length tag) + 2 :: 10 :: N.of_nat (length tag) :: tag end) ++ padl).
  replace ((10 :: N.of_nat (length n) :: n ++ match tag with [] => [] | _ :: _ => 26 :: N.of_nat (length tag) + 2 :: 10 :: N.of_nat (length tag) :: tag end) ++ padl)
    with (10 :: N.of_nat (length n) :: n ++ X) by (unfold X; cbn [app]; rewrite <- app_assoc; reflexivity).
  unfold decode.
  assert (C1 : (N.of_nat (length n) <? 128) && (N.of_nat (length n) <=? N.of_nat (length (n ++ X))) = true).
  { apply andb_true_intro. split; [apply N.ltb_lt; lia|apply N.leb_le; rewrite app_length; lia]. }
  rewrite C1. rewrite Nat2N.id, firstn_len_app, skipn_len_app.
  unfold X. destruct tag as [|x tg].
  - cbn [app]. destruct Shape as [->|[t ->]]; [reflexivity|]. rewrite Ip. reflexivity.
  - set (tag := x :: tg) in *. cbn [app].
    assert (C2 : (N.of_nat (length tag) <? 126) && (N.of_nat (length tag) + 2 =? N.of_nat (length tag) + 2)
                 && (N.of_nat (length tag) <=? N.of_nat (length (tag ++ padl)))
                 && is_pad (skipn (N.to_nat (N.of_nat (length tag))) (tag ++ padl)) = true).
    { rewrite Nat2N.id, skipn_len_app, Ip, N.eqb_refl.
      replace (N.of_nat (length tag) <? 126) with true by (symmetry; apply N.ltb_lt; lia).
      replace (N.of_nat (length tag) <=? N.of_nat (length (tag ++ padl))) with true
        by (symmetry; apply N.leb_le; rewrite app_length; lia).
      reflexivity. }
    rewrite C2. rewrite Nat2N.id, firstn_len_app. reflexivity.
Qed.

Theorem padded_decodes_like_plain_proof : forall n tag p,
  (length n < 128)%nat -> (length tag < 126)%nat -> p < 34359738368 ->
  decode (encode_padded n tag p) = Some (n, tag) /\ decode (encode n tag) = Some (n, tag).
Proof.
  intros n tag p Ln Lt Hp. split.
  - unfold encode_padded. apply decode_with_pad; auto.
    + apply is_pad_pad_field. exact Hp.
    + right. unfold pad_field. eauto.
  - rewrite <- (app_nil_r (encode n tag)). apply decode_with_pad; auto.
Qed.

Lemma accepts_shorter k (a b : bytes) :
  reader_accepts k (N.of_nat (length (a ++ b))) = true -> reader_accepts k (N.of_nat (length a)) = true.
Proof.
  unfold reader_accepts. generalize (limit_of k) as lim. intros lim Acc.
  apply N.leb_le in Acc. apply N.leb_le. rewrite app_length in Acc. lia.
Qed.

(* the justification of the model's treatment of action code 15 (C10_Model.padded_out): a reader at a
   frame boundary does with the frame of a padded answer that the wiring lets through exactly what it
   does with the frame of the plain answer *)
Theorem padded_answer_read_like_plain_proof : forall s n tag p rest,
  (length n < 128)%nat -> (length tag < 126)%nat -> p < 34359738368 ->
  reader_accepts ClientOutputReader (N.of_nat (length (encode_padded n tag p))) = true ->
  reader_step (with_buf s (frame (encode_padded n tag p) ++ rest)) = reader_step (with_buf s (frame (encode n tag) ++ rest)).
Proof.
  intros s n tag p rest Ln Lt Hp Acc. destruct (padded_decodes_like_plain_proof n tag p Ln Lt Hp) as [D1 D2].
  apply equal_decode_read_alike_proof; [congruence|exact Acc|].
  exact (accepts_shorter _ _ _ Acc).
Qed.

(* the size of a padded answer, as C10_Model.pad_for computes it *)
Lemma enc_varint_len f v : (length (enc_varint f v) <= S f)%nat.
Proof. revert v; induction f as [|f IH]; intros v; cbn [enc_varint]; [simpl; lia|]. destruct (v <? 128); simpl; [lia|]. specialize (IH (v / 128)). lia. Qed.

(* ---------- whenDone of localProcess: the exit notice reaches every registered callback exactly once,
   whether the registration precedes or follows the exit ---------- *)
Lemma wd_run_snoc acts a : wd_run (acts ++ [a]) = wd_step (wd_run acts) a.
Proof. unfold wd_run. rewrite fold_left_app. reflexivity. Qed.

Lemma wd_count_app k l1 l2 : wd_count k (l1 ++ l2) = (wd_count k l1 + wd_count k l2)%nat.
Proof. unfold wd_count. rewrite filter_app, app_length. reflexivity. Qed.

Lemma wd_regs_snoc k acts a :
  wd_regs k (acts ++ [a]) = (wd_regs k acts + (if wd_is_reg k a then 1 else 0))%nat.
Proof. unfold wd_regs. rewrite filter_app, app_length. simpl. destruct (wd_is_reg k a); reflexivity. Qed.

Definition wd_inv (acts : list wd_action) : Prop :=
  let s := wd_run acts in
  (forall k, (wd_count k (wd_fired s) + wd_count k (wd_waiting s))%nat = wd_regs k acts) /\
  (wd_exited s = true -> wd_waiting s = []) /\
  (wd_exited s = false -> wd_fired s = []) /\
  (wd_exited s = existsb wd_is_exit acts).

Lemma wd_inv_all : forall acts, wd_inv acts.
Proof.
  induction acts as [|a acts IH] using rev_ind.
  - unfold wd_inv. simpl. repeat split; auto.
  - destruct IH as (Hc & Hw & Hf & He). unfold wd_inv. rewrite wd_run_snoc.
    destruct (wd_run acts) as [ex wt fd] eqn:E. simpl in *.
    destruct a as [j|]; destruct ex; simpl.
    + rewrite (Hw eq_refl) in *. repeat split; auto; try discriminate.
      * intro k. rewrite wd_regs_snoc, <- Hc, wd_count_app. simpl.
        unfold wd_count. simpl. destruct (N.eqb k j); simpl; lia.
      * rewrite existsb_app. simpl. rewrite <- He. reflexivity.
    + repeat split; auto; try discriminate.
      * intro k. rewrite wd_regs_snoc, <- Hc, wd_count_app. simpl.
        unfold wd_count. simpl. destruct (N.eqb k j); simpl; lia.
      * rewrite existsb_app. simpl. rewrite <- He. reflexivity.
    + repeat split; auto; try discriminate.
      * intro k. rewrite wd_regs_snoc, <- Hc. simpl. lia.
      * rewrite existsb_app. simpl. rewrite <- He. reflexivity.
    + repeat split; auto; try discriminate.
      * intro k. rewrite wd_regs_snoc, <- Hc, wd_count_app. simpl. unfold wd_count. simpl. lia.
      * rewrite existsb_app. simpl. rewrite Bool.orb_true_r. reflexivity.
Qed.

(* for EVERY interleaving of registrations and the exit: once the exit has happened every callback has run
   exactly as often as it was registered (once per registration) and none is left parked; before the exit
   none has run *)
Lemma exit_notice_any_order_proof : forall acts,
  (In WdExit acts ->
     (forall k, wd_count k (wd_fired (wd_run acts)) = wd_regs k acts) /\ wd_waiting (wd_run acts) = []) /\
  (~ In WdExit acts -> wd_fired (wd_run acts) = []).
Proof.
  intro acts. destruct (wd_inv_all acts) as (Hc & Hw & Hf & He). split.
  - intro Hin. assert (Hx : wd_exited (wd_run acts) = true).
    { rewrite He. apply existsb_exists. exists WdExit. split; auto. }
    specialize (Hw Hx). split; auto. intro k. rewrite <- Hc, Hw. unfold wd_count. simpl. lia.
  - intro Hn. apply Hf. rewrite He. destruct (existsb wd_is_exit acts) eqn:Ex; auto.
    apply existsb_exists in Ex. destruct Ex as (x & Hin & Hx). destruct x; try discriminate. contradiction.
Qed.

(* the two orders of runClient: its callback (registration 0) runs, so the exit notice is part of both schedules *)
Lemma runner_notice_both_orders_proof : forall early, runner_notice early = [ExitNotice].
Proof. intros []; reflexivity. Qed.
