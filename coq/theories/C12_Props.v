(* C12_Props.v — the property theorems of C12 and nothing else.
   Each is closed by `exact <lemma>` and followed by Print Assumptions.
   Vocabulary: C12_Spec (deviates, aspect_of, expected_feedback, seen_before, begun_before, written,
   handler_version, connect_grammar, grpc_timeout_is, timeout_is, float_quot_ok); `checks fq calls request`
   is the model of referenceServerChecks (= `enter`, the wrapped handler, `leave`), `server fq calls
   procedure request` the model of the handler chain createServer builds around it (reference mode),
   `run_events` the model of overlapping requests; fq is the float64 conversion of package time (any
   function satisfying float_quot_ok; the extracted model and the differential run use the exact quotient). *)
From Coq Require Import Lia.
From V Require Import C12_Spec C12_Proofs C12_ProofsR.
Open Scope Z_scope.

(* ---- the matrix: every announced set-up (648) x every client rendering (756), every test name ---- *)

(* the feedback on a fresh handler is exactly one line per deviating aspect, naming what was announced
   and what was seen; no timeout is recorded and the request is handed on unchanged *)
Theorem matrix_feedback_exact : forall fq name (e : axes) (a : actual), name <> [] ->
  checks fq [] (with_expect name e (render a)) =
  ([(name, 1)], Served name (expected_feedback e (project a)) None (with_expect name e (render a))).
Proof. exact matrix_feedback_exact_proof. Qed.
Print Assumptions matrix_feedback_exact.

(* ---- the assembled server: five procedures, the HTTP/1.1-bidi workaround, the checks, the RPC handler ---- *)

(* through the handler chain of createServer, for every procedure: the same exact feedback; the RPC handler
   gets the request unchanged except that it is told `handler_version` (HTTP/2 for BidiStream over HTTP/1.1) *)
Theorem server_feedback_exact : forall fq name (e : axes) (a : actual) (p : procedure), name <> [] ->
  server fq [] p (with_expect name e (render a)) =
  ([(name, 1)], Served name (expected_feedback e (project a)) None
                       (set_proto_major (with_expect name e (render a)) (handler_version p (version_num (c_version a))))).
Proof. exact server_feedback_exact_proof. Qed.
Print Assumptions server_feedback_exact.

(* silent exactly on matching pairs - for all five procedures, with NO exemption: the documented exemption
   (C12_Spec 2b) is about what the RPC handler is told, and the unchanged code applies it after the checks,
   so BidiStream over HTTP/1.1 is silent iff HTTP/1.1 was announced (and everything else matches) *)
Theorem silent_iff_match : forall fq name (e : axes) (a : actual) (p : procedure), name <> [] ->
  feedback_of (snd (server fq [] p (with_expect name e (render a)))) = [] <-> project a = e.
Proof. exact server_silent_iff_match_proof. Qed.
Print Assumptions silent_iff_match.

(* an aspect deviates exactly when a line about that aspect is written ... *)
Theorem names_each_aspect : forall fq name (e : axes) (a : actual) (p : procedure), name <> [] -> forall A,
  deviates A e (project a) <->
  exists k, In k (feedback_of (snd (server fq [] p (with_expect name e (render a))))) /\ aspect_of k = Some A.
Proof. exact server_names_each_aspect_proof. Qed.
Print Assumptions names_each_aspect.

(* ... and nothing else is written *)
Theorem only_deviations_named : forall fq name (e : axes) (a : actual) (p : procedure), name <> [] -> forall k,
  In k (feedback_of (snd (server fq [] p (with_expect name e (render a))))) ->
  exists A, aspect_of k = Some A /\ deviates A e (project a).
Proof. exact server_only_deviations_named_proof. Qed.
Print Assumptions only_deviations_named.

(* the scope of the exemption, for ANY request and history: the procedure has no influence on counters,
   feedback, timeout; the RPC handler's request differs from the checked one in the HTTP version only *)
Theorem bidi_exemption_scope : forall fq c p r,
  fst (server fq c p r) = fst (checks fq c r) /\
  match snd (checks fq c r) with
  | Rejected => snd (server fq c p r) = Rejected
  | Served n f t r' => snd (server fq c p r) = Served n f t (set_proto_major r' (handler_version p (proto_major r)))
  end.
Proof. exact bidi_exemption_scope_proof. Qed.
Print Assumptions bidi_exemption_scope.

(* what the workaround is for: no served request is refused by the RPC handler because of its HTTP version *)
Theorem bidi_served_over_http1 : forall fq c p r n f t seen,
  1 <= proto_major r -> snd (server fq c p r) = Served n f t seen -> handler_refuses p seen = false.
Proof. exact bidi_served_over_http1_proof. Qed.
Print Assumptions bidi_served_over_http1.

(* the order of composition is essential: with the workaround applied BEFORE the checks a matching
   BidiStream-over-HTTP/1.1 request is flagged and a deviating one is not *)
Theorem workaround_outside_refuted : forall fq,
  (exists e a, project a = e /\
     feedback_of (snd (checks fq [] (bidi_workaround ProcBidiStream (with_expect (lit "t") e (render a))))) <> []) /\
  (exists e a, project a <> e /\
     feedback_of (snd (checks fq [] (bidi_workaround ProcBidiStream (with_expect (lit "t") e (render a))))) = []).
Proof. exact workaround_outside_refuted_proof. Qed.
Print Assumptions workaround_outside_refuted.

(* ---- arbitrary requests, arbitrary histories ---- *)

(* no test name: rejected outright (no feedback, handler not called, counters untouched);
   otherwise the handler is called and every line is prefixed with the test name *)
Theorem no_name_rejected : forall fq c r,
  (name_of r = [] -> checks fq c r = (c, Rejected)) /\
  (name_of r <> [] -> exists f t r', checks fq c r = (bump c (name_of r), Served (name_of r) f t r')).
Proof. exact no_name_rejected_proof. Qed.
Print Assumptions no_name_rejected.

(* overlapping requests: after ANY history of BEGIN and END events on one handler (requests of the same and of
   other tests beginning and ending in any interleaving), a beginning request is flagged as repeat #m exactly
   when a request of the same test BEGAN before it - whether or not that one has ended -, m being one more
   than the number of such earlier requests *)
Theorem repeat_flagged : forall fq history r later m,
  name_of r <> [] ->
  In (KRepeat m) (written (nth (length history) (run_events fq h_init (history ++ EvBegin r :: later)) OIdle)) <->
  0 < begun_before (name_of r) history /\ m = begun_before (name_of r) history + 1.
Proof. exact repeat_flagged_proof. Qed.
Print Assumptions repeat_flagged.

(* when a request ends, nothing but its trailers line is written (in particular no repeat line) *)
Theorem end_writes_trailers_only : forall fq history i later k,
  In k (written (nth (length history) (run_events fq h_init (history ++ EvEnd i :: later)) OIdle)) ->
  exists n, k = KTrailers n /\ 0 < n.
Proof. exact end_writes_trailers_only_proof. Qed.
Print Assumptions end_writes_trailers_only.

(* a request that begins and ends with nothing in between writes exactly what `checks` says ... *)
Theorem begin_end_is_checks : forall fq s r,
  concat (map written (run_events fq s [EvBegin r; EvEnd (length (h_open s))])) =
  feedback_of (snd (checks fq (h_calls s) r)).
Proof. exact begin_end_is_checks_proof. Qed.
Print Assumptions begin_end_is_checks.

(* ... so that for sequential histories: repeat #m iff the test was seen before, m = earlier requests + 1 *)
Theorem repeat_flagged_sequential : forall fq history r later m,
  name_of r <> [] ->
  In (KRepeat m) (feedback_of (nth (length history) (run_seq fq [] (history ++ r :: later)) Rejected)) <->
  0 < seen_before (name_of r) history /\ m = seen_before (name_of r) history + 1.
Proof. exact repeat_flagged_sequential_proof. Qed.
Print Assumptions repeat_flagged_sequential.

(* request trailers are flagged, with their number, and only they *)
Theorem trailers_flagged : forall fq c r n,
  In (KTrailers n) (feedback_of (snd (checks fq c r))) <->
  name_of r <> [] /\ 0 < trailer_keys r /\ n = trailer_keys r.
Proof. exact trailers_flagged_proof. Qed.
Print Assumptions trailers_flagged.

(* ---- the timeout grammars, for ALL byte strings ---- *)

Theorem timeout_connect : forall s d,
  extract_connect s = (Some d, []) <-> connect_grammar s /\ d = connect_duration s.
Proof. exact timeout_connect_proof. Qed.
Print Assumptions timeout_connect.

Theorem timeout_connect_rejected : forall s,
  ~ connect_grammar s <-> exists k, is_timeout_kind k = true /\ extract_connect s = (None, [k]).
Proof. exact timeout_connect_rejected_proof. Qed.
Print Assumptions timeout_connect_rejected.

Theorem timeout_grpc : forall fq, float_quot_ok fq -> forall s d,
  extract_grpc fq s = (Some d, []) <-> grpc_timeout_is s d.
Proof. exact timeout_grpc_proof. Qed.
Print Assumptions timeout_grpc.

Theorem timeout_grpc_rejected : forall fq, float_quot_ok fq -> forall s,
  ~ grpc_grammar s <-> exists k, is_timeout_kind k = true /\ extract_grpc fq s = (None, [k]).
Proof. exact timeout_grpc_rejected_proof. Qed.
Print Assumptions timeout_grpc_rejected.

(* through referenceServerChecks, for any request announcing protocol p (any other headers, any
   history): the timeout header is removed whether or not it is accepted; it is accepted (a duration is
   stored for the handler) exactly when it follows p's grammar, with exactly the duration it stands
   for (saturating); a feedback line about the timeout is written exactly when it does not; the
   handler's request info echoes the whole milliseconds of the accepted duration *)
Theorem timeout_handled : forall fq, float_quot_ok fq -> forall c r p,
  name_of r <> [] -> announces r p ->
  exists f t r',
    snd (checks fq c r) = Served (name_of r) f t r' /\
    match timeout_header p r with
    | [] => t = None /\ r' = r /\ (forall k, In k f -> is_timeout_kind k = false)
    | s :: _ =>
      r' = without_timeout p r /\ timeout_header p r' = [] /\
      (forall d, t = Some d <-> timeout_is p s d) /\
      ((exists k, In k f /\ is_timeout_kind k = true) <-> ~ exists d, timeout_is p s d)
    end /\
    echo_ms (Served (name_of r) f t r') = option_map (fun d => d / 1000000) t.
Proof. exact timeout_handled_proof. Qed.
Print Assumptions timeout_handled.

(* ---- non-vacuity ---- *)
(* the hypothesis about package time is inhabited (by what the extracted model uses) *)
Example ex_float_quot : float_quot_ok Z.quot.
Proof. exact float_quot_ok_exact. Qed.

Definition ex_setup := {| a_version := V2; a_get := false; a_protocol := PGrpc; a_codec := CProto;
                          a_compression := ZGzip; a_tls := TlsCert |}.
Definition ex_client (s : shape) (z : compression) (t : tlsmode) :=
  {| c_version := V2; c_shape := s; c_codec := CProto; c_compression := z; c_tls := t |}.
(* both sides of silent_iff_match occur *)
Example ex_silent :
  feedback_of (snd (checks Z.quot [] (with_expect (bs "t") ex_setup (render (ex_client GrpcBare ZGzip TlsCert))))) = [].
Proof. vm_compute. reflexivity. Qed.
Example ex_three_deviations :
  feedback_of (snd (checks Z.quot [] (with_expect (bs "t") ex_setup (render (ex_client ConnectGet ZIdentity Tls))))) =
  [KProtocol 2 1; KCompression (bs "gzip") (bs "identity"); KCert (bs "Conformance Client") []; KMethod (bs "POST") (bs "GET")].
Proof. vm_compute. reflexivity. Qed.
Example ex_deviates : deviates ACert ex_setup (project (ex_client ConnectGet ZIdentity Tls)) /\
                      ~ deviates ATls ex_setup (project (ex_client ConnectGet ZIdentity Tls)).
Proof. cbn. repeat split; try congruence; try (intros H; apply H; reflexivity). Qed.

(* grammar: members and non-members *)
Example ex_connect_in : connect_grammar (bs "0000000005") /\ connect_duration (bs "0000000005") = 5000000.
Proof. split; [split; [split; [discriminate|repeat constructor; cbv; congruence]|cbn; lia]|reflexivity]. Qed.
Example ex_connect_out : ~ connect_grammar (bs "+5") /\ ~ connect_grammar (bs "00000000005") /\ ~ connect_grammar [].
Proof.
  repeat split.
  - intros [[_ D] _]. inversion D as [|? ? H _]; subst. cbv in H. destruct H as [H _]. apply H. reflexivity.
  - intros [_ L]. cbn in L. lia.
  - intros [[H _] _]. congruence.
Qed.
Example ex_connect_run :
  map extract_connect [bs "5"; bs "9999999999"; bs "+5"; bs "-0"; bs "00000000001"; bs ""] =
  [(Some 5000000, []); (Some 9999999999000000, []); (None, [KTimeoutConnectInvalid]);
   (None, [KTimeoutConnectInvalid]); (None, [KTimeoutConnectLong]); (None, [KTimeoutConnectInvalid])].
Proof. vm_compute. reflexivity. Qed.
Example ex_grpc_in : grpc_timeout_is (bs "99999999H") (2 ^ 63 - 1) /\ grpc_timeout_is (bs "2562047H") 9223369200000000000.
Proof.
  split.
  - exists (bs "99999999"), 72%N, 3600000000000. repeat split; try discriminate; try (cbn; lia).
    repeat constructor; cbv; congruence.
  - exists (bs "2562047"), 72%N, 3600000000000. repeat split; try discriminate; try (cbn; lia).
    repeat constructor; cbv; congruence.
Qed.
Example ex_grpc_run :
  map (extract_grpc Z.quot) [bs "5S"; bs "99999999H"; bs "2562047H"; bs "2562048H"; bs "+5S"; bs "-0m";
                             bs "000000001H"; bs "5"; bs "S"; bs ""; bs "5s"] =
  [(Some 5000000000, []); (Some 9223372036854775807, []); (Some 9223369200000000000, []);
   (Some 9223372036854775807, []); (None, [KTimeoutGrpcInvalid]); (None, [KTimeoutGrpcInvalid]);
   (None, [KTimeoutGrpcLong]); (None, [KTimeoutGrpcUnit]); (None, [KTimeoutGrpcInvalid]);
   (None, [KTimeoutGrpcEmpty]); (None, [KTimeoutGrpcUnit])].
Proof. vm_compute. reflexivity. Qed.
(* repeats through a history *)
Example ex_repeat :
  let r n := with_expect n ex_setup (render (ex_client GrpcPost ZGzip TlsCert)) in
  map feedback_of (run_seq Z.quot [] [r (bs "a"); r (bs "b"); r (bs "a"); r (bs "a")]) =
  [[]; []; [KRepeat 2]; [KRepeat 3]].
Proof. vm_compute. reflexivity. Qed.
(* overlapping requests: the second `a` begins while the first is in flight, the third after both ended *)
Example ex_overlap :
  let r n := with_expect n ex_setup (render (ex_client GrpcPost ZGzip TlsCert)) in
  map written (run_events Z.quot h_init
    [EvBegin (r (bs "a")); EvBegin (r (bs "a")); EvBegin (r (bs "b")); EvEnd 0; EvEnd 1; EvBegin (r (bs "a")); EvEnd 3; EvEnd 2]) =
  [[]; [KRepeat 2]; []; []; []; [KRepeat 3]; []; []].
Proof. vm_compute. reflexivity. Qed.
(* BidiStream over HTTP/1.1, HTTP/1.1 announced: silent, and the RPC handler is told HTTP/2;
   HTTP/2 announced: flagged *)
Definition ex_h1 (v : version) := {| a_version := v; a_get := false; a_protocol := PConnect; a_codec := CProto;
                                     a_compression := ZIdentity; a_tls := Plain |}.
Definition ex_h1_client := {| c_version := V1; c_shape := ConnectStream; c_codec := CProto;
                              c_compression := ZIdentity; c_tls := Plain |}.
Example ex_bidi_h1 :
  match snd (server Z.quot [] ProcBidiStream (with_expect (bs "t") (ex_h1 V1) (render ex_h1_client))) with
  | Served _ f _ seen => f = [] /\ proto_major seen = 2 | Rejected => False end /\
  match snd (server Z.quot [] ProcClientStream (with_expect (bs "t") (ex_h1 V1) (render ex_h1_client))) with
  | Served _ f _ seen => f = [] /\ proto_major seen = 1 | Rejected => False end /\
  feedback_of (snd (server Z.quot [] ProcBidiStream (with_expect (bs "t") (ex_h1 V2) (render ex_h1_client)))) = [KVersion 2 1].
Proof. vm_compute. repeat split. Qed.

(* ---- the runner's side (server_runner.go runTestCasesForServer): the headers each request is sent with ---- *)

(* For every batch on every server instance that starts, whatever comes before and after a case in the batch:
   the request handed to the client for that case carries the case's own headers followed by exactly the headers
   computed from THAT case (added_headers i c = x-test-case-name, then expectation_headers i c for a reference
   server) - in the request headers and in the raw request's headers alike - and, read back the way they arrive
   (names case-insensitive), these describe that case's set-up: its name, HTTP version, method, protocol, codec,
   compression, and TLS / client certificate as the connection will be. *)
Theorem expect_headers_per_case : forall i pre c post,
  starts i = true ->
  exists s, nth_error (run_batch i (pre ++ c :: post)) (length pre) = Some s /\
    s_name s = rc_name c /\
    s_headers s = rc_headers c ++ added_headers i c /\
    s_raw s = option_map (fun h => h ++ added_headers i c) (rc_raw c) /\
    (ri_ref i = true -> certs_need_tls i -> own_headers_ok c ->
       describes (s_headers s) (rc_name c) (case_axes i c) /\
       (forall raw, s_raw s = Some raw -> describes raw (rc_name c) (case_axes i c))).
Proof. exact expect_headers_per_case_proof. Qed.
Print Assumptions expect_headers_per_case.

(* one request per case, in order; an instance that does not start (TLS wanted, no certificate named) sends nothing *)
Theorem batch_positional : forall i cs,
  (starts i = true -> length (run_batch i cs) = length cs /\ map s_name (run_batch i cs) = map rc_name cs) /\
  (starts i = false -> run_batch i cs = []).
Proof. exact batch_positional_proof. Qed.
Print Assumptions batch_positional.

(* composition with silent_iff_match: the reference server (any procedure, fresh counters) that receives the
   runner's headers for a case on a client's rendering `a` writes no feedback exactly when the client rendered
   that case's set-up - at every position of every batch *)
Theorem runner_request_silent : forall fq i pre c post s (a : actual) p,
  ri_ref i = true -> starts i = true -> certs_need_tls i -> own_headers_ok c -> rc_name c <> [] ->
  nth_error (run_batch i (pre ++ c :: post)) (length pre) = Some s ->
  (feedback_of (snd (server fq [] p (put_headers (s_headers s) (render a)))) = [] <-> project a = case_axes i c).
Proof. exact runner_request_silent_proof. Qed.
Print Assumptions runner_request_silent.

(* in particular the correct reference client (client_rendering: wire shape by protocol, stream type and GET;
   the case's codec and compression; the instance's TLS) is never flagged *)
Theorem reference_client_silent : forall fq i pre c post s,
  ri_ref i = true -> starts i = true -> certs_need_tls i -> own_headers_ok c -> rc_name c <> [] -> get_ok c ->
  nth_error (run_batch i (pre ++ c :: post)) (length pre) = Some s ->
  feedback_of (snd (server fq [] (case_procedure c) (put_headers (s_headers s) (render (client_rendering i c))))) = [].
Proof. exact reference_client_silent_proof. Qed.
Print Assumptions reference_client_silent.

(* the loop that builds the expectation headers once per batch and refreshes only the method (seeded C12-19)
   does not have the property: a second case with another codec is described wrongly and the correct client is flagged *)
Theorem shared_headers_refuted : forall fq,
  exists i c1 c2 s,
    ri_ref i = true /\ starts i = true /\ certs_need_tls i /\ own_headers_ok c2 /\ rc_name c2 <> [] /\ get_ok c2 /\
    nth_error (batch_loop_shared i [c1; c2] None []) 1 = Some s /\
    ~ describes (s_headers s) (rc_name c2) (case_axes i c2) /\
    feedback_of (snd (server fq [] (case_procedure c2) (put_headers (s_headers s) (render (client_rendering i c2))))) <> [].
Proof. exact shared_headers_refuted_proof. Qed.
Print Assumptions shared_headers_refuted.

(* a batch of four on a TLS instance with client certificates: codec, compression, GET and a raw request differ;
   the hypotheses of the theorems above hold of it *)
Definition ex_tls_inst := {| ri_ref := true; ri_use_tls := true; ri_use_certs := true; ri_pem := true; ri_creds := true |}.
Definition ex_rcase n c z st g raw :=
  {| rc_name := n; rc_version := V2; rc_protocol := PConnect; rc_codec := c; rc_compression := z; rc_stream := st;
     rc_get := g; rc_headers := [(bs "X-Own", [bs "v"])]; rc_raw := raw |}.
Definition ex_batch :=
  [ ex_rcase (bs "s/a") CProto ZIdentity StUnary false None; ex_rcase (bs "s/b") CJson ZIdentity StUnary true None;
    ex_rcase (bs "s/c") CProto ZZstd StUnary false (Some [(bs "x-raw", [])]); ex_rcase (bs "s/d") CJson ZIdentity StFullDuplex false None ].
Example ex_batch_headers :
  map (fun s => (values_of (bs "x-expect-codec") (s_headers s), values_of (bs "x-expect-compression") (s_headers s),
                 values_of (bs "x-expect-http-method") (s_headers s), values_of (bs "x-expect-client-cert") (s_headers s)))
      (run_batch ex_tls_inst ex_batch) =
  [ ([bs "1"], [bs "1"], [bs "POST"], [c12_client_cert_name]); ([bs "2"], [bs "1"], [bs "GET"], [c12_client_cert_name]);
    ([bs "1"], [bs "4"], [bs "POST"], [c12_client_cert_name]); ([bs "2"], [bs "1"], [bs "POST"], [c12_client_cert_name]) ].
Proof. vm_compute. reflexivity. Qed.
Example ex_batch_ok :
  starts ex_tls_inst = true /\ certs_need_tls ex_tls_inst /\
  Forall (fun c => own_headers_ok c /\ get_ok c /\ rc_name c <> []) ex_batch.
Proof.
  split; [reflexivity|]. split; [intros _; reflexivity|].
  repeat constructor; try discriminate; cbn.
  all: try (intros h [<-|[]]; intros [E|E]; vm_compute in E; discriminate).
  all: try (intros raw h E; inversion E; subst; intros [<-|[]]; intros [F|F]; vm_compute in F; discriminate).
  all: try (intros raw h E; discriminate E).
Qed.
(* both sides of runner_request_silent at the second position: the GET rendering of the case is silent, a POST is flagged *)
Example ex_batch_second :
  let s := nth 1 (run_batch ex_tls_inst ex_batch) {| s_name := []; s_headers := []; s_raw := None |} in
  let a sh := {| c_version := V2; c_shape := sh; c_codec := CJson; c_compression := ZIdentity; c_tls := TlsCert |} in
  feedback_of (snd (server Z.quot [] ProcIdempotentUnary (put_headers (s_headers s) (render (a ConnectGet))))) = [] /\
  feedback_of (snd (server Z.quot [] ProcIdempotentUnary (put_headers (s_headers s) (render (a ConnectUnary))))) = [KMethod (bs "GET") (bs "POST")].
Proof. vm_compute. split; reflexivity. Qed.

(* ---------- the line that reaches stderr (internal/printer.go as wired by run(): NewPrinter over the
   server's stderr -> createServer -> referenceServerChecks -> feedbackPrinter) ---------- *)
(* for EVERY test name - any bytes: '%', "%s", "%d", "%%", a trailing '%' - and every formatted message, in
   every state of the writer: the printer adds exactly `name ++ ": " ++ message ++ newline` (no second newline
   when the message ends in one): the name is copied, never read as a format, and the rest is the message *)
Theorem feedback_line_names_test_verbatim : forall w name msg,
  pw_out (prefix_printf w name msg) = pw_out w ++ feedback_line name msg /\
  pw_last (prefix_printf w name msg) = 10%N.
Proof. exact feedback_line_names_test_verbatim_proof. Qed.
Print Assumptions feedback_line_names_test_verbatim.

(* read back the way the runner reads the server's stderr (trim, split at the first ": ", look the first part
   up among the batch's test names): the line is attributed to exactly that test, with exactly that message *)
Theorem feedback_line_attributed : forall names name msg,
  In name names -> no_colon_space name -> starts_visibly name -> trim_right msg <> [] ->
  sideband names (feedback_line name msg) = Some (name, trim_right msg).
Proof. exact feedback_line_attributed_proof. Qed.
Print Assumptions feedback_line_attributed.

(* the feedback of the model (`Served name f ..`: what every theorem above speaks about) IS what reaches
   stderr: one such line per feedback kind, in order, for every wording `text` of the kinds; nothing for a
   rejected request *)
Theorem stderr_is_feedback_lines : forall text w o,
  pw_out (stderr_of text w o) =
  pw_out w ++ match o with
              | Served name f _ _ => concat (map (fun k => feedback_line name (text k)) f)
              | Rejected => []
              end.
Proof. exact stderr_is_feedback_lines_proof. Qed.
Print Assumptions stderr_is_feedback_lines.

(* composed with server_feedback_exact / silent_iff_match: the bytes on stderr for a request of the matrix,
   and stderr stays empty exactly on matching pairs - for every test name *)
Theorem server_stderr_exact : forall text fq name (e : axes) (a : actual) (p : procedure), name <> [] ->
  pw_out (stderr_of text pw_init (snd (server fq [] p (with_expect name e (render a))))) =
  concat (map (fun k => feedback_line name (text k)) (expected_feedback e (project a))).
Proof. exact server_stderr_exact_proof. Qed.
Print Assumptions server_stderr_exact.

Theorem stderr_silent_iff_match : forall text fq name (e : axes) (a : actual) (p : procedure), name <> [] ->
  pw_out (stderr_of text pw_init (snd (server fq [] p (with_expect name e (render a))))) = [] <-> project a = e.
Proof. exact stderr_silent_iff_match_proof. Qed.
Print Assumptions stderr_silent_iff_match.

(* names full of verbs come out untouched, and are told apart by the runner; a name containing ": " is
   outside `no_colon_space` and indeed is not attributed (the runner splits at the FIRST ": ") *)
Example ex_percent_line :
  pw_out (prefix_printf pw_init (bs "Percent/100%d %s%%") (bs "expected HTTP version 1; instead got 2")) =
  bs "Percent/100%d %s%%: expected HTTP version 1; instead got 2" ++ [10%N].
Proof. vm_compute. reflexivity. Qed.
Example ex_percent_attributed :
  sideband [bs "a"; bs "50%"; bs "50%d"] (feedback_line (bs "50%") (bs "x: %v y")) = Some (bs "50%", bs "x: %v y") /\
  no_colon_space (bs "50%") /\ starts_visibly (bs "50%") /\
  sideband [bs "a: b"] (feedback_line (bs "a: b") (bs "m")) = None.
Proof.
  split; [vm_compute; reflexivity|]. split; [|split; [|vm_compute; reflexivity]].
  - apply no_colon_is_no_colon_space. vm_compute. intuition discriminate.
  - eexists _, _. split; [vm_compute; reflexivity|reflexivity].
Qed.
