(* C12_Props.v — the property theorems of C12 and nothing else.
   Each is closed by `exact <lemma>` and followed by Print Assumptions.
   Vocabulary: C12_Spec (deviates, aspect_of, expected_feedback, seen_before, connect_grammar,
   grpc_timeout_is, timeout_is, float_quot_ok); `checks fq calls request` is the model of
   referenceServerChecks, fq the float64 conversion of package time (any function satisfying
   float_quot_ok; the extracted model and the differential run use the exact quotient). *)
From Coq Require Import Lia.
From V Require Import C12_Spec C12_Proofs.
Open Scope Z_scope.

(* ---- the matrix: every announced set-up (648) x every client rendering (756), every test name ---- *)

(* the feedback on a fresh handler is exactly one line per deviating aspect, naming what was announced
   and what was seen; no timeout is recorded and the request is handed on unchanged *)
Theorem matrix_feedback_exact : forall fq name (e : axes) (a : actual), name <> [] ->
  checks fq [] (with_expect name e (render a)) =
  ([(name, 1)], Served name (expected_feedback e (project a)) None (with_expect name e (render a))).
Proof. exact matrix_feedback_exact_proof. Qed.
Print Assumptions matrix_feedback_exact.

(* silent exactly on matching pairs *)
Theorem silent_iff_match : forall fq name (e : axes) (a : actual), name <> [] ->
  feedback_of (snd (checks fq [] (with_expect name e (render a)))) = [] <-> project a = e.
Proof. exact silent_iff_match_proof. Qed.
Print Assumptions silent_iff_match.

(* an aspect deviates exactly when a line about that aspect is written ... *)
Theorem names_each_aspect : forall fq name (e : axes) (a : actual), name <> [] -> forall A,
  deviates A e (project a) <->
  exists k, In k (feedback_of (snd (checks fq [] (with_expect name e (render a))))) /\ aspect_of k = Some A.
Proof. exact names_each_aspect_proof. Qed.
Print Assumptions names_each_aspect.

(* ... and nothing else is written *)
Theorem only_deviations_named : forall fq name (e : axes) (a : actual), name <> [] -> forall k,
  In k (feedback_of (snd (checks fq [] (with_expect name e (render a))))) ->
  exists A, aspect_of k = Some A /\ deviates A e (project a).
Proof. exact only_deviations_named_proof. Qed.
Print Assumptions only_deviations_named.

(* ---- arbitrary requests, arbitrary histories ---- *)

(* no test name: rejected outright (no feedback, handler not called, counters untouched);
   otherwise the handler is called and every line is prefixed with the test name *)
Theorem no_name_rejected : forall fq c r,
  (name_of r = [] -> checks fq c r = (c, Rejected)) /\
  (name_of r <> [] -> exists f t r', checks fq c r = (bump c (name_of r), Served (name_of r) f t r')).
Proof. exact no_name_rejected_proof. Qed.
Print Assumptions no_name_rejected.

(* after any history on one handler, a request is flagged as repeat #m exactly when its test was
   seen before, m being one more than the number of earlier requests of that test *)
Theorem repeat_flagged : forall fq history r later m,
  name_of r <> [] ->
  In (KRepeat m) (feedback_of (nth (length history) (run_seq fq [] (history ++ r :: later)) Rejected)) <->
  0 < seen_before (name_of r) history /\ m = seen_before (name_of r) history + 1.
Proof. exact repeat_flagged_proof. Qed.
Print Assumptions repeat_flagged.

(* request trailers are flagged, with their number, and only they *)
Theorem trailers_flagged : forall fq c r n,
  In (KTrailers n) (feedback_of (snd (checks fq c r))) <->
  name_of r <> [] /\ 0 < trailer_keys r /\ n = trailer_keys r.
Proof. exact trailers_flagged_proof. Qed.
Print Assumptions trailers_flagged.

(* ---- the timeout grammars, for ALL byte strings ---- *)

Theorem timeout_connect : forall s d,
  extract_connect s = (Some d, []) <-> connect_grammar s /\ d = connect_duration s.
Proof. exact timeout_connect_proof. Qed.
Print Assumptions timeout_connect.

Theorem timeout_connect_rejected : forall s,
  ~ connect_grammar s <-> exists k, is_timeout_kind k = true /\ extract_connect s = (None, [k]).
Proof. exact timeout_connect_rejected_proof. Qed.
Print Assumptions timeout_connect_rejected.

Theorem timeout_grpc : forall fq, float_quot_ok fq -> forall s d,
  extract_grpc fq s = (Some d, []) <-> grpc_timeout_is s d.
Proof. exact timeout_grpc_proof. Qed.
Print Assumptions timeout_grpc.

Theorem timeout_grpc_rejected : forall fq, float_quot_ok fq -> forall s,
  ~ grpc_grammar s <-> exists k, is_timeout_kind k = true /\ extract_grpc fq s = (None, [k]).
Proof. exact timeout_grpc_rejected_proof. Qed.
Print Assumptions timeout_grpc_rejected.

(* through referenceServerChecks, for any request announcing protocol p (any other headers, any
   history): the timeout header is removed whether or not it is accepted; it is accepted (a duration is
   stored for the handler) exactly when it follows p's grammar, with exactly the duration it stands
   for (saturating); a feedback line about the timeout is written exactly when it does not; the
   handler's request info echoes the whole milliseconds of the accepted duration *)
Theorem timeout_handled : forall fq, float_quot_ok fq -> forall c r p,
  name_of r <> [] -> announces r p ->
  exists f t r',
    snd (checks fq c r) = Served (name_of r) f t r' /\
    match timeout_header p r with
    | [] => t = None /\ r' = r /\ (forall k, In k f -> is_timeout_kind k = false)
    | s :: _ =>
      r' = without_timeout p r /\ timeout_header p r' = [] /\
      (forall d, t = Some d <-> timeout_is p s d) /\
      ((exists k, In k f /\ is_timeout_kind k = true) <-> ~ exists d, timeout_is p s d)
    end /\
    echo_ms (Served (name_of r) f t r') = option_map (fun d => d / 1000000) t.
Proof. exact timeout_handled_proof. Qed.
Print Assumptions timeout_handled.

(* ---- non-vacuity ---- *)
(* the hypothesis about package time is inhabited (by what the extracted model uses) *)
Example ex_float_quot : float_quot_ok Z.quot.
Proof. exact float_quot_ok_exact. Qed.

Definition ex_setup := {| a_version := V2; a_get := false; a_protocol := PGrpc; a_codec := CProto;
                          a_compression := ZGzip; a_tls := TlsCert |}.
Definition ex_client (s : shape) (z : compression) (t : tlsmode) :=
  {| c_version := V2; c_shape := s; c_codec := CProto; c_compression := z; c_tls := t |}.
(* both sides of silent_iff_match occur *)
Example ex_silent :
  feedback_of (snd (checks Z.quot [] (with_expect (bs "t") ex_setup (render (ex_client GrpcBare ZGzip TlsCert))))) = [].
Proof. vm_compute. reflexivity. Qed.
Example ex_three_deviations :
  feedback_of (snd (checks Z.quot [] (with_expect (bs "t") ex_setup (render (ex_client ConnectGet ZIdentity Tls))))) =
  [KProtocol 2 1; KCompression (bs "gzip") (bs "identity"); KCert (bs "Conformance Client") []; KMethod (bs "POST") (bs "GET")].
Proof. vm_compute. reflexivity. Qed.
Example ex_deviates : deviates ACert ex_setup (project (ex_client ConnectGet ZIdentity Tls)) /\
                      ~ deviates ATls ex_setup (project (ex_client ConnectGet ZIdentity Tls)).
Proof. cbn. repeat split; try congruence; try (intros H; apply H; reflexivity). Qed.

(* grammar: members and non-members *)
Example ex_connect_in : connect_grammar (bs "0000000005") /\ connect_duration (bs "0000000005") = 5000000.
Proof. split; [split; [split; [discriminate|repeat constructor; cbv; congruence]|cbn; lia]|reflexivity]. Qed.
Example ex_connect_out : ~ connect_grammar (bs "+5") /\ ~ connect_grammar (bs "00000000005") /\ ~ connect_grammar [].
Proof.
  repeat split.
  - intros [[_ D] _]. inversion D as [|? ? H _]; subst. cbv in H. destruct H as [H _]. apply H. reflexivity.
  - intros [_ L]. cbn in L. lia.
  - intros [[H _] _]. congruence.
Qed.
Example ex_connect_run :
  map extract_connect [bs "5"; bs "9999999999"; bs "+5"; bs "-0"; bs "00000000001"; bs ""] =
  [(Some 5000000, []); (Some 9999999999000000, []); (None, [KTimeoutConnectInvalid]);
   (None, [KTimeoutConnectInvalid]); (None, [KTimeoutConnectLong]); (None, [KTimeoutConnectInvalid])].
Proof. vm_compute. reflexivity. Qed.
Example ex_grpc_in : grpc_timeout_is (bs "99999999H") (2 ^ 63 - 1) /\ grpc_timeout_is (bs "2562047H") 9223369200000000000.
Proof.
  split.
  - exists (bs "99999999"), 72%N, 3600000000000. repeat split; try discriminate; try (cbn; lia).
    repeat constructor; cbv; congruence.
  - exists (bs "2562047"), 72%N, 3600000000000. repeat split; try discriminate; try (cbn; lia).
    repeat constructor; cbv; congruence.
Qed.
Example ex_grpc_run :
  map (extract_grpc Z.quot) [bs "5S"; bs "99999999H"; bs "2562047H"; bs "2562048H"; bs "+5S"; bs "-0m";
                             bs "000000001H"; bs "5"; bs "S"; bs ""; bs "5s"] =
  [(Some 5000000000, []); (Some 9223372036854775807, []); (Some 9223369200000000000, []);
   (Some 9223372036854775807, []); (None, [KTimeoutGrpcInvalid]); (None, [KTimeoutGrpcInvalid]);
   (None, [KTimeoutGrpcLong]); (None, [KTimeoutGrpcUnit]); (None, [KTimeoutGrpcInvalid]);
   (None, [KTimeoutGrpcEmpty]); (None, [KTimeoutGrpcUnit])].
Proof. vm_compute. reflexivity. Qed.
(* repeats through a history *)
Example ex_repeat :
  let r n := with_expect n ex_setup (render (ex_client GrpcPost ZGzip TlsCert)) in
  map feedback_of (run_seq Z.quot [] [r (bs "a"); r (bs "b"); r (bs "a"); r (bs "a")]) =
  [[]; []; [KRepeat 2]; [KRepeat 3]].
Proof. vm_compute. reflexivity. Qed.
