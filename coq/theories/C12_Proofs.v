(* C12_Proofs.v — proofs that the model of checks.go (C12_Model) meets C12_Spec. *)
From Coq Require Import Lia.
From V Require Export C12_Spec.
Open Scope Z_scope.

(* ====================================================================== *)
(* A. digit strings                                                       *)
(* ====================================================================== *)
Lemma is_digit_digit c : is_digit c = true <-> digit c.
Proof. unfold is_digit, digit. rewrite andb_true_iff, !N.leb_le. tauto. Qed.

Lemma all_digits_Forall s : all_digits s = true <-> Forall digit s.
Proof.
  unfold all_digits. rewrite forallb_forall, Forall_forall.
  split; intros H x Hx; apply is_digit_digit; auto.
Qed.

Lemma nonempty_digits_iff s : nonempty_digits s = true <-> digits s.
Proof.
  unfold digits. destruct s as [|c s].
  - simpl. split; [discriminate|intros [H _]; congruence].
  - change (nonempty_digits (c :: s)) with (all_digits (c :: s)). rewrite all_digits_Forall.
    split; [intros H; split; [discriminate|exact H]|tauto].
Qed.

Lemma dec_value_app s c : dec_value (s ++ [c]) = dec_value s * 10 + digit_val c.
Proof. unfold dec_value. rewrite fold_left_app. reflexivity. Qed.

Lemma value_app s c : value (s ++ [c]) = (Z.of_N c - 48) + 10 * value s.
Proof. unfold value. rewrite rev_unit. reflexivity. Qed.

Lemma dec_value_value s : dec_value s = value s.
Proof.
  induction s as [|c s IH] using rev_ind; [reflexivity|].
  rewrite dec_value_app, value_app, IH. unfold digit_val. lia.
Qed.

Lemma value_bounds s : Forall digit s -> 0 <= value s < 10 ^ Z.of_nat (length s).
Proof.
  induction s as [|c s IH] using rev_ind; intros H.
  - cbn. lia.
  - apply Forall_app in H as [H1 H2]. inversion H2 as [|? ? Hc _]; subst.
    rewrite value_app, app_length. cbn [length]. rewrite Nat.add_1_r, Nat2Z.inj_succ, Z.pow_succ_r by lia.
    specialize (IH H1). unfold digit in Hc. lia.
Qed.

Lemma value_lt_pow s n : Forall digit s -> (length s <= n)%nat -> 0 <= value s < 10 ^ Z.of_nat n.
Proof.
  intros H L. pose proof (value_bounds s H) as B.
  assert (10 ^ Z.of_nat (length s) <= 10 ^ Z.of_nat n) by (apply Z.pow_le_mono_r; lia). lia.
Qed.

Lemma zlen_nat {A} (l : list A) : zlen l = Z.of_nat (length l).
Proof. reflexivity. Qed.

(* strconv.ParseInt on a string of digits *)
Lemma parse_int_digits bits s : digits s ->
  parse_int bits s =
  if (- int_bound bits <=? value s) && (value s <? int_bound bits) then Some (value s) else None.
Proof.
  intros [NE D]. destruct s as [|c r]; [congruence|].
  pose proof D as D'. inversion D as [|? ? Hc _]; subst. unfold digit in Hc.
  unfold parse_int.
  replace (c =? 43)%N with false by (symmetry; apply N.eqb_neq; lia).
  replace (c =? 45)%N with false by (symmetry; apply N.eqb_neq; lia).
  apply all_digits_Forall in D'. rewrite D', dec_value_value. reflexivity.
Qed.

Lemma parse_int64_small s : digits s -> (length s <= 10)%nat -> parse_int 64 s = Some (value s).
Proof.
  intros D L. rewrite parse_int_digits by exact D.
  destruct D as [_ D]. pose proof (value_lt_pow s 10 D L) as B.
  change (10 ^ Z.of_nat 10) with 10000000000 in B.
  change (int_bound 64) with 9223372036854775808.
  rewrite (proj2 (Z.leb_le _ _)) by lia. rewrite (proj2 (Z.ltb_lt _ _)) by lia. reflexivity.
Qed.

(* ====================================================================== *)
(* B. int64 arithmetic                                                    *)
(* ====================================================================== *)
Lemma wrap64_small z : - 9223372036854775808 <= z < 9223372036854775808 -> wrap64 z = z.
Proof. intros H. unfold wrap64. rewrite Z.mod_small by lia. lia. Qed.

Lemma wrap64_range z : - 9223372036854775808 <= wrap64 z < 9223372036854775808.
Proof.
  unfold wrap64.
  pose proof (Z.mod_pos_bound (z + 9223372036854775808) 18446744073709551616 ltac:(lia)). lia.
Qed.

(* one or more whole turns are lost when the product does not fit *)
Lemma wrap64_overflow z : 9223372036854775808 <= z -> wrap64 z <= z - 18446744073709551616.
Proof.
  intros H. unfold wrap64.
  pose proof (Z.div_mod (z + 9223372036854775808) 18446744073709551616 ltac:(lia)) as E.
  pose proof (Z.mod_pos_bound (z + 9223372036854775808) 18446744073709551616 ltac:(lia)) as B.
  assert (1 <= (z + 9223372036854775808) / 18446744073709551616)
    by (apply Z.div_le_lower_bound; lia).
  lia.
Qed.

Lemma max_duration_eq : max_duration = max_int64.
Proof. reflexivity. Qed.

Lemma saturate_small z : z <= 9223372036854775807 -> saturate z = z.
Proof. intros H. unfold saturate. rewrite max_duration_eq. unfold max_int64. lia. Qed.

Lemma saturate_big z : 9223372036854775807 <= z -> saturate z = max_int64.
Proof. intros H. unfold saturate. rewrite max_duration_eq. unfold max_int64 in *. lia. Qed.

(* ====================================================================== *)
(* C. extractTimeout, Connect                                             *)
(* ====================================================================== *)
Lemma extract_connect_ok s :
  connect_grammar s -> extract_connect s = (Some (connect_duration s), []).
Proof.
  intros [D L]. unfold extract_connect.
  pose proof D as D'. apply nonempty_digits_iff in D'. rewrite D'. cbn [negb].
  change c12_connect_max_digits with 10. rewrite zlen_nat.
  replace (10 <? Z.of_nat (length s)) with false by (symmetry; apply Z.ltb_ge; lia).
  rewrite parse_int64_small by assumption.
  destruct D as [_ D]. pose proof (value_lt_pow s 10 D L) as B.
  change (10 ^ Z.of_nat 10) with 10000000000 in B.
  replace (value s <? 0) with false by (symmetry; apply Z.ltb_ge; lia).
  unfold ms_ns. rewrite wrap64_small by lia.
  rewrite Z.quot_mul by lia. rewrite Z.eqb_refl.
  unfold connect_duration. rewrite saturate_small by lia. reflexivity.
Qed.

Lemma extract_connect_bad s :
  ~ connect_grammar s -> exists k, is_timeout_kind k = true /\ extract_connect s = (None, [k]).
Proof.
  intros NG. unfold extract_connect.
  destruct (nonempty_digits s) eqn:ND; cbn [negb].
  - apply nonempty_digits_iff in ND.
    change c12_connect_max_digits with 10. rewrite zlen_nat.
    destruct (10 <? Z.of_nat (length s)) eqn:LL.
    + exists KTimeoutConnectLong. split; reflexivity.
    + exfalso. apply NG. split; [exact ND|]. apply Z.ltb_ge in LL. lia.
  - exists KTimeoutConnectInvalid. split; reflexivity.
Qed.

Lemma timeout_connect_proof : forall s d,
  extract_connect s = (Some d, []) <-> connect_grammar s /\ d = connect_duration s.
Proof.
  intros s d. split.
  - intros E. assert (G : connect_grammar s).
    { destruct (nonempty_digits s) eqn:ND.
      - apply nonempty_digits_iff in ND. split; [exact ND|].
        destruct (Nat.le_gt_cases (length s) 10) as [L|L]; [exact L|exfalso].
        destruct (extract_connect_bad s) as (k & _ & E'); [|congruence].
        intros [_ L']. lia.
      - exfalso. destruct (extract_connect_bad s) as (k & _ & E'); [|congruence].
        intros [D _]. apply nonempty_digits_iff in D. congruence. }
    split; [exact G|]. rewrite (extract_connect_ok s G) in E. congruence.
  - intros [G ->]. apply extract_connect_ok; exact G.
Qed.

Lemma timeout_connect_rejected_proof : forall s,
  ~ connect_grammar s <-> exists k, is_timeout_kind k = true /\ extract_connect s = (None, [k]).
Proof.
  intros s. split; [apply extract_connect_bad|].
  intros (k & _ & E) G. rewrite (extract_connect_ok s G) in E. discriminate.
Qed.

(* ====================================================================== *)
(* D. extractTimeout, gRPC                                                *)
(* ====================================================================== *)
Lemma split_last_app ds u : split_last (ds ++ [u]) = Some (ds, u).
Proof.
  induction ds as [|c ds IH]; [reflexivity|].
  cbn [app split_last]. rewrite IH. destruct (ds ++ [u]) eqn:E; [destruct ds; discriminate|reflexivity].
Qed.

Lemma split_last_some s : forall ds u, split_last s = Some (ds, u) -> s = ds ++ [u].
Proof.
  induction s as [|c s IH]; intros ds u H; [discriminate|].
  destruct s as [|c' s'].
  - cbn in H. inversion H; subst. reflexivity.
  - change (split_last (c :: c' :: s')) with
      (match split_last (c' :: s') with Some (i, l) => Some (c :: i, l) | None => None end) in H.
    destruct (split_last (c' :: s')) as [[i l]|] eqn:E; [|discriminate].
    inversion H; subst. cbn [app]. f_equal. apply IH. reflexivity.
Qed.

Lemma split_last_none s : split_last s = None -> s = [].
Proof.
  destruct s as [|c s]; [reflexivity|]. intros H. exfalso.
  destruct (exists_last (l := c :: s) ltac:(discriminate)) as (ds & u & E).
  rewrite E, split_last_app in H. discriminate.
Qed.

Lemma units_agree u : assoc_N u c12_grpc_units = unit_ns u.
Proof.
  unfold c12_grpc_units, unit_ns. cbn [assoc_N].
  repeat match goal with
         | |- context [(u =? ?k)%N] => destruct (N.eqb_spec u k); [subst; reflexivity|]
         end.
  reflexivity.
Qed.

Lemma unit_ns_cases u ns : unit_ns u = Some ns ->
  (u = 72%N /\ ns = 3600000000000) \/ (u = 77%N /\ ns = 60000000000) \/ (u = 83%N /\ ns = 1000000000) \/
  (u = 109%N /\ ns = 1000000) \/ (u = 117%N /\ ns = 1000) \/ (u = 110%N /\ ns = 1).
Proof.
  unfold unit_ns.
  repeat match goal with
         | |- context [(u =? ?k)%N] => destruct (N.eqb_spec u k); [intros H; inversion H; subst; tauto|]
         end.
  discriminate.
Qed.

Section Grpc.
Variable fq : Z -> Z -> Z.
Hypothesis fq_ok : float_quot_ok fq.

(* the round trip through float64 recognises overflow: exact when the product fits,
   several units away from v when it does not *)
Lemma float_roundtrip v ns :
  0 <= v -> 0 < ns <= 3600000000000 ->
  (fq (wrap64 (v * ns)) ns =? v) = (v * ns <=? 9223372036854775807).
Proof.
  intros Hv Hns. destruct (Z.leb_spec (v * ns) 9223372036854775807) as [Fit|Over].
  - rewrite wrap64_small by nia.
    destruct (fq_ok (v * ns) ns ltac:(lia)) as [_ Ex]. rewrite Ex by (apply Z.rem_mul; lia).
    rewrite Z.quot_mul by lia. apply Z.eqb_refl.
  - apply Z.eqb_neq. intros E.
    destruct (fq_ok (wrap64 (v * ns)) ns ltac:(lia)) as [Near _]. rewrite E in Near.
    pose proof (wrap64_overflow (v * ns) ltac:(lia)) as W.
    pose proof (wrap64_range (v * ns)) as R.
    set (t := wrap64 (v * ns)) in *.
    (* t <= v*ns - 2^64 and 2^64 > 3*ns: the truncated quotient is at most v - 3 *)
    assert (Q : Z.quot t ns <= v - 3).
    { destruct (Z.le_gt_cases 0 t) as [P|N].
      - rewrite Z.quot_div_nonneg by lia. apply Z.lt_succ_r. apply Z.div_lt_upper_bound; nia.
      - assert (Z.quot t ns <= 0).
        { replace t with (- (- t)) by lia. rewrite Z.quot_opp_l by lia.
          pose proof (Z.quot_pos (- t) ns ltac:(lia) ltac:(lia)). lia. }
        assert (3 <= v) by nia. lia. }
    lia.
Qed.
End Grpc.

Section Grpc2.
Variable fq : Z -> Z -> Z.
Hypothesis fq_ok : float_quot_ok fq.

Lemma extract_grpc_ok ds u ns :
  digits ds -> (length ds <= 8)%nat -> unit_ns u = Some ns ->
  extract_grpc fq (ds ++ [u]) = (Some (saturate (value ds * ns)), []).
Proof.
  intros D L U. unfold extract_grpc.
  rewrite split_last_app, units_agree, U.
  pose proof D as D'. apply nonempty_digits_iff in D'. rewrite D'. cbn [negb].
  change c12_grpc_max_digits with 8. rewrite zlen_nat.
  rewrite (proj2 (Z.ltb_ge _ _)) by lia.
  rewrite parse_int64_small by (try assumption; lia).
  destruct D as [_ D]. pose proof (value_lt_pow ds 8 D L) as B.
  change (10 ^ Z.of_nat 8) with 100000000 in B.
  rewrite (proj2 (Z.ltb_ge _ _)) by lia.
  set (v := value ds) in *.
  destruct (unit_ns_cases u ns U) as [[-> ->]|[[-> ->]|[[-> ->]|[[-> ->]|[[-> ->]|[-> ->]]]]]];
    cbn [unit_is_float N.eqb Pos.eqb orb].
  - (* H: the only unit whose product can leave int64 *)
    rewrite (float_roundtrip fq fq_ok) by lia.
    destruct (Z.leb_spec (v * 3600000000000) 9223372036854775807).
    + rewrite wrap64_small by lia. rewrite saturate_small by lia. reflexivity.
    + rewrite saturate_big by lia. reflexivity.
  - rewrite (float_roundtrip fq fq_ok) by lia.
    rewrite (proj2 (Z.leb_le _ _)) by lia.
    rewrite wrap64_small by lia. rewrite saturate_small by lia. reflexivity.
  - rewrite (float_roundtrip fq fq_ok) by lia.
    rewrite (proj2 (Z.leb_le _ _)) by lia.
    rewrite wrap64_small by lia. rewrite saturate_small by lia. reflexivity.
  - rewrite wrap64_small by lia. rewrite Z.quot_mul by lia. rewrite Z.eqb_refl.
    rewrite saturate_small by lia. reflexivity.
  - rewrite wrap64_small by lia. rewrite Z.quot_mul by lia. rewrite Z.eqb_refl.
    rewrite saturate_small by lia. reflexivity.
  - rewrite wrap64_small by lia. rewrite Z.quot_mul by lia. rewrite Z.eqb_refl.
    rewrite saturate_small by lia. reflexivity.
Qed.

Lemma grpc_timeout_is_fun s d d' : grpc_timeout_is s d -> grpc_timeout_is s d' -> d = d'.
Proof.
  intros (ds & u & ns & -> & _ & _ & U & ->) (ds' & u' & ns' & E & _ & _ & U' & ->).
  apply app_inj_tail in E as [-> ->]. congruence.
Qed.

(* every byte string is either a timeout of the grammar, accepted with exactly its duration and
   no feedback, or rejected with one feedback line *)
Lemma extract_grpc_total s :
  (exists d, grpc_timeout_is s d /\ extract_grpc fq s = (Some d, [])) \/
  (~ grpc_grammar s /\ exists k, is_timeout_kind k = true /\ extract_grpc fq s = (None, [k])).
Proof.
  destruct (split_last s) as [[ds u]|] eqn:SL.
  - apply split_last_some in SL. subst s.
    destruct (unit_ns u) as [ns|] eqn:U.
    + destruct (nonempty_digits ds) eqn:ND.
      * apply nonempty_digits_iff in ND.
        destruct (Nat.le_gt_cases (length ds) 8) as [L|L].
        -- left. exists (saturate (value ds * ns)). split.
           ++ exists ds, u, ns. repeat split; auto; apply ND.
           ++ apply extract_grpc_ok; assumption.
        -- right. split.
           ++ intros (d & ds' & u' & ns' & E & _ & L' & _). apply app_inj_tail in E as [-> ->]. lia.
           ++ exists KTimeoutGrpcLong. split; [reflexivity|].
              unfold extract_grpc. rewrite split_last_app, units_agree, U.
              apply nonempty_digits_iff in ND. rewrite ND. cbn [negb].
              change c12_grpc_max_digits with 8. rewrite zlen_nat.
              rewrite (proj2 (Z.ltb_lt _ _)) by lia. reflexivity.
      * right. split.
        -- intros (d & ds' & u' & ns' & E & D' & _). apply app_inj_tail in E as [-> ->].
           apply nonempty_digits_iff in D'. congruence.
        -- exists KTimeoutGrpcInvalid. split; [reflexivity|].
           unfold extract_grpc. rewrite split_last_app, units_agree, U, ND. reflexivity.
    + right. split.
      * intros (d & ds' & u' & ns' & E & _ & _ & U' & _). apply app_inj_tail in E as [-> ->]. congruence.
      * exists KTimeoutGrpcUnit. split; [reflexivity|].
        unfold extract_grpc. rewrite split_last_app, units_agree, U. reflexivity.
  - apply split_last_none in SL. subst s. right. split.
    + intros (d & ds' & u' & ns' & E & _). destruct ds'; discriminate.
    + exists KTimeoutGrpcEmpty. split; reflexivity.
Qed.

Lemma timeout_grpc_proof : forall s d, extract_grpc fq s = (Some d, []) <-> grpc_timeout_is s d.
Proof.
  intros s d. destruct (extract_grpc_total s) as [(d' & G & E)|(NG & k & _ & E)]; rewrite E.
  - split.
    + intros H. inversion H; subst. exact G.
    + intros G'. rewrite (grpc_timeout_is_fun s d d' G' G). reflexivity.
  - split; [discriminate|]. intros G. exfalso. apply NG. exists d. exact G.
Qed.

Lemma timeout_grpc_rejected_proof : forall s,
  ~ grpc_grammar s <-> exists k, is_timeout_kind k = true /\ extract_grpc fq s = (None, [k]).
Proof.
  intros s. destruct (extract_grpc_total s) as [(d' & G & E)|(NG & k & K & E)].
  - split.
    + intros NG. exfalso. apply NG. exists d'. exact G.
    + intros (k & _ & E'). rewrite E in E'. discriminate.
  - split; [intros _; exists k; auto|intros _; exact NG].
Qed.
End Grpc2.

(* ====================================================================== *)
(* E. referenceServerChecks as the concatenation of its parts             *)
(* ====================================================================== *)
Definition rep_part (c : calls) (name : bytes) : fb :=
  if 0 <? count_of c name then [KRepeat (count_of c name + 1)] else [].
Definition ver_part (r : request) : fb :=
  match enum_value (lit "x-expect-http-version") (x_version r) c12_http_versions with
  | (Some v, f) => f ++ check_http_version v r
  | (None, f) => f
  end.
Definition pro_part (fq : Z -> Z -> Z) (r : request) : option Z * fb * request :=
  match enum_value (lit "x-expect-protocol") (x_protocol r) c12_protocols with
  | (Some p, f) => let '(t, ft, r') := extract_timeout fq p r in (t, f ++ check_protocol p r ++ ft, r')
  | (None, f) => (None, f, r)
  end.
Definition cod_part (r : request) : fb :=
  match enum_value (lit "x-expect-codec") (x_codec r) c12_codecs with
  | (Some v, f) => f ++ check_codec v r
  | (None, f) => f
  end.
Definition cmp_part (r : request) : fb :=
  match enum_value (lit "x-expect-compression") (x_compression r) c12_compressions with
  | (Some v, f) => f ++ check_compression v r
  | (None, f) => f
  end.
Definition trl_part (r : request) : fb :=
  if 0 <? trailer_keys r then [KTrailers (trailer_keys r)] else [].

Definition served (fq : Z -> Z -> Z) (c : calls) (name : bytes) (r : request) : calls * outcome :=
  let '(t, fp, r') := pro_part fq r in
  (bump c name,
   Served name (rep_part c name ++ ver_part r ++ fp ++ cod_part r' ++ cmp_part r' ++ check_tls r' ++
                check_method r' ++ trl_part r') t r').

(* the entry phase alone: everything but the trailers line *)
Definition entered (fq : Z -> Z -> Z) (c : calls) (name : bytes) (r : request) : calls * outcome :=
  let '(t, fp, r') := pro_part fq r in
  (bump c name,
   Served name (rep_part c name ++ ver_part r ++ fp ++ cod_part r' ++ cmp_part r' ++ check_tls r' ++
                check_method r') t r').

Lemma enter_eq fq c r :
  enter fq c r = match name_of r with [] => (c, Rejected) | _ => entered fq c (name_of r) r end.
Proof.
  unfold enter, entered, pro_part, name_of, first.
  destruct (hd [] (x_name r)) as [|n nm]; [reflexivity|].
  unfold rep_part, ver_part, cod_part, cmp_part.
  destruct (enum_value _ (x_protocol r) c12_protocols) as [[p|] f]; [|reflexivity].
  destruct (extract_timeout fq p r) as [[t ft] r']. reflexivity.
Qed.

Lemma served_entered fq c name r :
  served fq c name r =
  match entered fq c name r with
  | (c', Served n f t r') => (c', Served n (f ++ leave r') t r')
  | (c', Rejected) => (c', Rejected)
  end.
Proof.
  unfold served, entered. destruct (pro_part fq r) as [[t fp] r'].
  unfold leave, trl_part. rewrite <- !app_assoc. reflexivity.
Qed.

Lemma checks_eq fq c r :
  checks fq c r = match name_of r with [] => (c, Rejected) | _ => served fq c (name_of r) r end.
Proof.
  unfold checks. rewrite enter_eq. destruct (name_of r) as [|n nm]; [reflexivity|].
  rewrite served_entered. reflexivity.
Qed.

(* ---------- where each kind of line can come from ---------- *)
Definition plain (k : kind) : bool :=
  match k with
  | KRepeat _ | KTrailers _ => false
  | _ => negb (is_timeout_kind k)
  end.
Definition all_plain (f : fb) : Prop := forallb plain f = true.

Lemma plain_nil : all_plain []. Proof. reflexivity. Qed.
Lemma plain_app a b : all_plain a -> all_plain b -> all_plain (a ++ b).
Proof. unfold all_plain. intros A B. rewrite forallb_app, A, B. reflexivity. Qed.
Lemma plain_if (c : bool) a b : all_plain a -> all_plain b -> all_plain (if c then a else b).
Proof. destruct c; auto. Qed.
Lemma plain_dup_header n v : all_plain (dup_header n v).
Proof. unfold dup_header. destruct (1 <? zlen v); reflexivity. Qed.
Lemma plain_dup_query n v : all_plain (dup_query n v).
Proof. unfold dup_query. destruct (1 <? zlen v); reflexivity. Qed.

Ltac plain_tac :=
  repeat first
    [ apply plain_nil
    | apply plain_dup_header
    | apply plain_dup_query
    | apply plain_app
    | apply plain_if
    | reflexivity
    | match goal with
      | |- all_plain (match ?x with _ => _ end) => destruct x
      | |- all_plain (let '(_, _) := ?x in _) => destruct x
      end ].

Lemma plain_enum n vals valid : all_plain (snd (enum_value n vals valid)).
Proof.
  unfold enum_value. destruct (parse_int 32 (first vals)) as [i|]; cbn [snd].
  - destruct (mem_Z i valid); cbn [snd]; plain_tac.
  - plain_tac.
Qed.
Lemma plain_version e r : all_plain (check_http_version e r).
Proof. unfold check_http_version. plain_tac. Qed.
Lemma plain_protocol e r : all_plain (check_protocol e r).
Proof. unfold check_protocol. plain_tac. Qed.
Lemma plain_codec e r : all_plain (check_codec e r).
Proof. unfold check_codec. plain_tac. Qed.
Lemma plain_compression e r : all_plain (check_compression e r).
Proof. unfold check_compression. plain_tac. Qed.
Lemma plain_tls r : all_plain (check_tls r).
Proof. unfold check_tls. plain_tac. Qed.
Lemma plain_method r : all_plain (check_method r).
Proof. unfold check_method. plain_tac. Qed.

Lemma plain_enum_part n vals valid (k : Z -> fb) :
  (forall v, all_plain (k v)) ->
  all_plain (match enum_value n vals valid with (Some v, f) => f ++ k v | (None, f) => f end).
Proof.
  intros H. pose proof (plain_enum n vals valid) as P.
  destruct (enum_value n vals valid) as [[v|] f]; cbn [snd] in P; [apply plain_app; auto|exact P].
Qed.

Lemma plain_ver_part r : all_plain (ver_part r).
Proof. unfold ver_part. apply plain_enum_part. intros; apply plain_version. Qed.
Lemma plain_cod_part r : all_plain (cod_part r).
Proof. unfold cod_part. apply plain_enum_part. intros; apply plain_codec. Qed.
Lemma plain_cmp_part r : all_plain (cmp_part r).
Proof. unfold cmp_part. apply plain_enum_part. intros; apply plain_compression. Qed.

Lemma plain_in f k : all_plain f -> In k f -> plain k = true.
Proof. unfold all_plain. rewrite forallb_forall. auto. Qed.

(* ---------- the protocol part: plain lines, then at most one line about the timeout ---------- *)
Definition timeout_line (f : fb) : Prop := f = [] \/ exists k, is_timeout_kind k = true /\ f = [k].

Lemma extract_connect_line s : timeout_line (snd (extract_connect s)).
Proof.
  unfold extract_connect, timeout_line.
  repeat match goal with |- context [match ?x with _ => _ end] => destruct x end;
    cbn [snd]; try (left; reflexivity); (right; eexists; split; [|reflexivity]; reflexivity).
Qed.

Lemma extract_grpc_line fq s : timeout_line (snd (extract_grpc fq s)).
Proof.
  unfold extract_grpc, timeout_line.
  repeat match goal with |- context [match ?x with _ => _ end] => destruct x end;
    cbn [snd]; try (left; reflexivity); (right; eexists; split; [|reflexivity]; reflexivity).
Qed.

Definition same_but_timeout (r r' : request) : Prop :=
  r' = r \/ r' = set_connect_timeout r [] \/ r' = set_grpc_timeout r [].

Lemma extract_timeout_shape fq p r :
  exists t fa ft r', extract_timeout fq p r = (t, fa ++ ft, r') /\ all_plain fa /\ timeout_line ft /\
                     same_but_timeout r r'.
Proof.
  unfold extract_timeout, same_but_timeout.
  destruct (p =? 1).
  - destruct (present (connect_timeout r)).
    + pose proof (extract_connect_line (first (connect_timeout r))) as TL.
      destruct (extract_connect (first (connect_timeout r))) as [t f]. cbn [snd] in TL.
      exists t, (dup_header (lit "connect-timeout-ms") (connect_timeout r)), f, (set_connect_timeout r []).
      repeat split; auto. apply plain_dup_header.
    + exists None, [], [], r. repeat split; auto. left; reflexivity.
  - destruct ((p =? 2) || (p =? 3)).
    + destruct (present (grpc_timeout r)).
      * pose proof (extract_grpc_line fq (first (grpc_timeout r))) as TL.
        destruct (extract_grpc fq (first (grpc_timeout r))) as [t f]. cbn [snd] in TL.
        exists t, (dup_header (lit "grpc-timeout") (grpc_timeout r)), f, (set_grpc_timeout r []).
        repeat split; auto. apply plain_dup_header.
      * exists None, [], [], r. repeat split; auto. left; reflexivity.
    + exists None, [], [], r. repeat split; auto. left; reflexivity.
Qed.

Lemma pro_part_shape fq r :
  exists t fa ft r', pro_part fq r = (t, fa ++ ft, r') /\ all_plain fa /\ timeout_line ft /\
                     same_but_timeout r r'.
Proof.
  unfold pro_part.
  pose proof (plain_enum (lit "x-expect-protocol") (x_protocol r) c12_protocols) as PE.
  destruct (enum_value _ (x_protocol r) c12_protocols) as [[p|] f]; cbn [snd] in PE.
  - destruct (extract_timeout_shape fq p r) as (t & fa & ft & r' & E & PA & TL & SB). rewrite E.
    exists t, (f ++ check_protocol p r ++ fa), ft, r'. repeat split; auto.
    + rewrite <- !app_assoc. reflexivity.
    + apply plain_app; [exact PE|]. apply plain_app; [apply plain_protocol|exact PA].
  - exists None, f, [], r. rewrite app_nil_r. repeat split; auto. left; reflexivity. left; reflexivity.
Qed.

Lemma same_trailers r r' : same_but_timeout r r' -> trailer_keys r' = trailer_keys r.
Proof. intros [->|[->| ->]]; reflexivity. Qed.

(* the whole feedback of a served request: repeat line, lines that are neither about repeats,
   trailers nor the timeout, at most one timeout line in between, trailers line *)
Lemma served_shape fq c name r :
  exists t fa ft fb' r',
    served fq c name r = (bump c name, Served name (rep_part c name ++ fa ++ ft ++ fb' ++ trl_part r) t r') /\
    all_plain fa /\ timeout_line ft /\ all_plain fb' /\ same_but_timeout r r'.
Proof.
  unfold served.
  destruct (pro_part_shape fq r) as (t & fa & ft & r' & E & PA & TL & SB). rewrite E.
  exists t, (ver_part r ++ fa), ft, (cod_part r' ++ cmp_part r' ++ check_tls r' ++ check_method r'), r'.
  repeat split; auto.
  - unfold trl_part. rewrite (same_trailers r r' SB). rewrite <- !app_assoc. reflexivity.
  - apply plain_app; [apply plain_ver_part|exact PA].
  - apply plain_app; [apply plain_cod_part|]. apply plain_app; [apply plain_cmp_part|].
    apply plain_app; [apply plain_tls|apply plain_method].
Qed.

Lemma timeout_line_in f k : timeout_line f -> In k f -> is_timeout_kind k = true.
Proof. intros [->|(k' & K & ->)] H; [destruct H|]. destruct H as [<-|[]]. exact K. Qed.

(* ====================================================================== *)
(* F. no test name / repeats / trailers                                   *)
(* ====================================================================== *)
Lemma no_name_rejected_proof : forall fq c r,
  (name_of r = [] -> checks fq c r = (c, Rejected)) /\
  (name_of r <> [] -> exists f t r', checks fq c r = (bump c (name_of r), Served (name_of r) f t r')).
Proof.
  intros fq c r. rewrite checks_eq. split.
  - intros ->. reflexivity.
  - intros NE. destruct (name_of r) as [|n nm] eqn:E; [congruence|].
    destruct (served_shape fq c (n :: nm) r) as (t & fa & ft & fb' & r' & S & _). rewrite S. eauto.
Qed.

Lemma checks_served fq c r : name_of r <> [] -> checks fq c r = served fq c (name_of r) r.
Proof. intros NE. rewrite checks_eq. destruct (name_of r); [congruence|reflexivity]. Qed.

Lemma count_bump c n m : count_of (bump c n) m = count_of c m + (if bytes_eqb m n then 1 else 0).
Proof.
  induction c as [|[k v] c IH]; cbn [bump count_of].
  - destruct (bytes_eqb m n); lia.
  - destruct (bytes_eqb_spec n k) as [->|NK]; cbn [count_of].
    + destruct (bytes_eqb m k); lia.
    + destruct (bytes_eqb_spec m k) as [->|MK].
      * destruct (bytes_eqb_spec k n); [congruence|lia].
      * exact IH.
Qed.

Fixpoint calls_after (fq : Z -> Z -> Z) (c : calls) (rs : list request) : calls :=
  match rs with [] => c | r :: rs' => calls_after fq (fst (checks fq c r)) rs' end.

Lemma run_seq_nth fq : forall history c r later,
  nth (length history) (run_seq fq c (history ++ r :: later)) Rejected = snd (checks fq (calls_after fq c history) r).
Proof.
  induction history as [|h hs IH]; intros c r later; cbn [app run_seq calls_after length nth].
  - destruct (checks fq c r). reflexivity.
  - destruct (checks fq c h) as [c' o] eqn:E. cbn [nth fst]. apply IH.
Qed.

Lemma calls_after_count fq name : name <> [] -> forall history c,
  count_of (calls_after fq c history) name = count_of c name + seen_before name history.
Proof.
  intros NE. induction history as [|h hs IH]; intros c; cbn [calls_after seen_before]; [lia|].
  rewrite IH. destruct (no_name_rejected_proof fq c h) as [N S].
  destruct (name_of h) as [|n nm] eqn:E.
  - rewrite N by reflexivity. cbn [fst]. destruct (bytes_eqb_spec name []); [congruence|lia].
  - destruct S as (f & t & r' & ->); [discriminate|]. cbn [fst]. rewrite count_bump. lia.
Qed.

Lemma count_nonneg : forall c name, (forall k v, In (k, v) c -> 0 <= v) -> 0 <= count_of c name.
Proof.
  induction c as [|[k v] c IH]; intros name H; cbn [count_of]; [lia|].
  destruct (bytes_eqb name k).
  - apply (H k v). left; reflexivity.
  - apply IH. intros k' v' I. apply (H k' v'). right; exact I.
Qed.

Lemma repeat_in_checks fq c r m : name_of r <> [] ->
  In (KRepeat m) (feedback_of (snd (checks fq c r))) <->
  0 < count_of c (name_of r) /\ m = count_of c (name_of r) + 1.
Proof.
  intros NE. rewrite checks_served by exact NE.
  destruct (served_shape fq c (name_of r) r) as (t & fa & ft & fb' & r' & S & PA & TL & PB & SB).
  rewrite S. cbn [snd feedback_of]. rewrite !in_app_iff. unfold rep_part, trl_part.
  split.
  - intros [H|[H|[H|[H|H]]]].
    + destruct (Z.ltb_spec 0 (count_of c (name_of r))); [|destruct H].
      destruct H as [H|[]]. inversion H. split; [assumption|reflexivity].
    + apply (plain_in _ _ PA) in H. discriminate.
    + apply (timeout_line_in _ _ TL) in H. discriminate.
    + apply (plain_in _ _ PB) in H. discriminate.
    + destruct (0 <? trailer_keys r); [destruct H as [H|[]]; discriminate|destruct H].
  - intros [P ->]. left. rewrite (proj2 (Z.ltb_lt _ _)) by exact P. left. reflexivity.
Qed.

Lemma repeat_flagged_sequential_proof : forall fq history r later m,
  name_of r <> [] ->
  In (KRepeat m) (feedback_of (nth (length history) (run_seq fq [] (history ++ r :: later)) Rejected)) <->
  0 < seen_before (name_of r) history /\ m = seen_before (name_of r) history + 1.
Proof.
  intros fq history r later m NE. rewrite run_seq_nth, repeat_in_checks by exact NE.
  rewrite calls_after_count by exact NE. cbn [count_of]. rewrite Z.add_0_l. reflexivity.
Qed.

Lemma trailers_flagged_proof : forall fq c r n,
  In (KTrailers n) (feedback_of (snd (checks fq c r))) <->
  name_of r <> [] /\ 0 < trailer_keys r /\ n = trailer_keys r.
Proof.
  intros fq c r n. destruct (name_of r) as [|x nm] eqn:E.
  - destruct (no_name_rejected_proof fq c r) as [N _]. rewrite N by exact E. cbn. split; [tauto|].
    intros [H _]; congruence.
  - assert (NE : name_of r <> []) by congruence. rewrite checks_served by exact NE.
    destruct (served_shape fq c (name_of r) r) as (t & fa & ft & fb' & r' & S & PA & TL & PB & SB).
    rewrite S. cbn [snd feedback_of]. rewrite !in_app_iff. unfold rep_part, trl_part. split.
    + intros [H|[H|[H|[H|H]]]].
      * destruct (0 <? count_of c (name_of r)); [destruct H as [H|[]]; discriminate|destruct H].
      * apply (plain_in _ _ PA) in H. discriminate.
      * apply (timeout_line_in _ _ TL) in H. discriminate.
      * apply (plain_in _ _ PB) in H. discriminate.
      * destruct (Z.ltb_spec 0 (trailer_keys r)); [|destruct H].
        destruct H as [H|[]]. inversion H. repeat split; try assumption. discriminate.
    + intros (_ & P & ->). do 4 right. rewrite (proj2 (Z.ltb_lt _ _)) by exact P. left. reflexivity.
Qed.

(* ====================================================================== *)
(* G. the matrix: announced set-up x client rendering                     *)
(* ====================================================================== *)
(* Each part of the feedback reads a few coordinates only; the case analysis is over those
   coordinates (9 + 42 + 28 + 504 + 9 + 14 cases), the others stay symbolic. *)
Section Matrix.
Variables (fq : Z -> Z -> Z) (name : bytes).

Lemma m_ver e a : ver_part (with_expect name e (render a)) = fb_version e (project a).
Proof.
  destruct e as [ev eg ep ec ez et], a as [av ash ac az at_].
  destruct ev, av; vm_compute; reflexivity.
Qed.

Lemma m_pro e a :
  pro_part fq (with_expect name e (render a)) =
  (None, fb_protocol e (project a), with_expect name e (render a)).
Proof.
  destruct e as [ev eg ep ec ez et], a as [av ash ac az at_].
  destruct ep, ash, ac; vm_compute; reflexivity.
Qed.

Lemma m_cod e a : cod_part (with_expect name e (render a)) = fb_codec e (project a).
Proof.
  destruct e as [ev eg ep ec ez et], a as [av ash ac az at_].
  destruct ec, ash, ac; vm_compute; reflexivity.
Qed.

Lemma m_cmp e a : cmp_part (with_expect name e (render a)) = fb_compression e (project a).
Proof.
  destruct e as [ev eg ep ec ez et], a as [av ash ac az at_].
  destruct ez, ash, ac, az; vm_compute; reflexivity.
Qed.

Lemma m_tls e a : check_tls (with_expect name e (render a)) = fb_tls e (project a).
Proof.
  destruct e as [ev eg ep ec ez et], a as [av ash ac az at_].
  destruct et, at_; vm_compute; reflexivity.
Qed.

Lemma m_met e a : check_method (with_expect name e (render a)) = fb_method e (project a).
Proof.
  destruct e as [ev eg ep ec ez et], a as [av ash ac az at_].
  destruct eg, ash; vm_compute; reflexivity.
Qed.

Lemma m_trl e a : trl_part (with_expect name e (render a)) = [].
Proof. reflexivity. Qed.

Lemma matrix_feedback_exact_proof e a : name <> [] ->
  checks fq [] (with_expect name e (render a)) =
  ([(name, 1)], Served name (expected_feedback e (project a)) None (with_expect name e (render a))).
Proof.
  intros NE. rewrite checks_served by (cbn; exact NE).
  change (name_of (with_expect name e (render a))) with name.
  unfold served. rewrite m_pro, m_ver, m_cod, m_cmp, m_tls, m_met, m_trl.
  unfold expected_feedback. rewrite app_nil_r. reflexivity.
Qed.
End Matrix.

(* ---------- what the exact lines say, aspect by aspect ---------- *)
Lemma fb_version_nil e a : fb_version e a = [] <-> a_version e = a_version a.
Proof. unfold fb_version. destruct (a_version e), (a_version a); cbn; split; congruence. Qed.
Lemma fb_protocol_nil e a : fb_protocol e a = [] <-> a_protocol e = a_protocol a.
Proof. unfold fb_protocol. destruct (a_protocol e), (a_protocol a); cbn; split; congruence. Qed.
Lemma fb_codec_nil e a : fb_codec e a = [] <-> a_codec e = a_codec a.
Proof. unfold fb_codec. destruct (a_codec e), (a_codec a); cbn; split; congruence. Qed.
Lemma fb_compression_nil e a : fb_compression e a = [] <-> a_compression e = a_compression a.
Proof. unfold fb_compression. destruct (a_compression e), (a_compression a); cbn; split; congruence. Qed.
Lemma fb_tls_nil e a : fb_tls e a = [] <-> a_tls e = a_tls a.
Proof. unfold fb_tls. destruct (a_tls e), (a_tls a); vm_compute; split; congruence. Qed.
Lemma fb_method_nil e a : fb_method e a = [] <-> a_get e = a_get a.
Proof. unfold fb_method. destruct (a_get e), (a_get a); cbn; split; congruence. Qed.

Lemma expected_feedback_nil e a : expected_feedback e a = [] <-> a = e.
Proof.
  unfold expected_feedback. split.
  - intros H.
    apply app_eq_nil in H as [H1 H]. apply app_eq_nil in H as [H2 H]. apply app_eq_nil in H as [H3 H].
    apply app_eq_nil in H as [H4 H]. apply app_eq_nil in H as [H5 H6].
    apply fb_version_nil in H1. apply fb_protocol_nil in H2. apply fb_codec_nil in H3.
    apply fb_compression_nil in H4. apply fb_tls_nil in H5. apply fb_method_nil in H6.
    destruct e, a; cbn in *; congruence.
  - intros ->.
    rewrite (proj2 (fb_version_nil e e)), (proj2 (fb_protocol_nil e e)), (proj2 (fb_codec_nil e e)),
      (proj2 (fb_compression_nil e e)), (proj2 (fb_tls_nil e e)), (proj2 (fb_method_nil e e)); reflexivity.
Qed.

(* each part only carries lines of its own aspect(s), and carries one exactly when that aspect deviates *)
Lemma nil_asp A : (exists k, In k [] /\ aspect_of k = Some A) <-> False.
Proof. split; [intros (k & [] & _)|tauto]. Qed.
Lemma single_asp K A : (exists k, In k [K] /\ aspect_of k = Some A) <-> aspect_of K = Some A.
Proof. split; [intros (k & [<-|[]] & H); exact H|intros H; exists K; split; [left; reflexivity|exact H]]. Qed.
Lemma single_if (c : bool) K A :
  (exists k, In k (if c then [] else [K]) /\ aspect_of k = Some A) <-> c = false /\ aspect_of K = Some A.
Proof.
  destruct c; [rewrite nil_asp|rewrite single_asp]; split; try tauto. intros [H _]; discriminate.
Qed.

Lemma fb_version_asp e a A :
  (exists k, In k (fb_version e a) /\ aspect_of k = Some A) <-> A = AVersion /\ deviates AVersion e a.
Proof.
  unfold fb_version, deviates. rewrite single_if. cbn [aspect_of].
  destruct (a_version e), (a_version a); cbn; split; intros [H1 H2]; split; congruence.
Qed.
Lemma fb_protocol_asp e a A :
  (exists k, In k (fb_protocol e a) /\ aspect_of k = Some A) <-> A = AProtocol /\ deviates AProtocol e a.
Proof.
  unfold fb_protocol, deviates. rewrite single_if. cbn [aspect_of].
  destruct (a_protocol e), (a_protocol a); cbn; split; intros [H1 H2]; split; congruence.
Qed.
Lemma fb_codec_asp e a A :
  (exists k, In k (fb_codec e a) /\ aspect_of k = Some A) <-> A = ACodec /\ deviates ACodec e a.
Proof.
  unfold fb_codec, deviates. rewrite single_if. cbn [aspect_of].
  destruct (a_codec e), (a_codec a); cbn; split; intros [H1 H2]; split; congruence.
Qed.
Lemma fb_compression_asp e a A :
  (exists k, In k (fb_compression e a) /\ aspect_of k = Some A) <-> A = ACompression /\ deviates ACompression e a.
Proof.
  unfold fb_compression, deviates. rewrite single_if. cbn [aspect_of].
  destruct (a_compression e), (a_compression a); cbn; split; intros [H1 H2]; split; congruence.
Qed.
Lemma fb_method_asp e a A :
  (exists k, In k (fb_method e a) /\ aspect_of k = Some A) <-> A = AMethod /\ deviates AMethod e a.
Proof.
  unfold fb_method, deviates. rewrite single_if. cbn [aspect_of].
  destruct (a_get e), (a_get a); cbn; split; intros [H1 H2]; split; congruence.
Qed.
Lemma fb_tls_asp e a A :
  (exists k, In k (fb_tls e a) /\ aspect_of k = Some A) <->
  (A = ATls /\ deviates ATls e a) \/ (A = ACert /\ deviates ACert e a).
Proof.
  unfold fb_tls, deviates.
  destruct (a_tls e), (a_tls a); cbn -[In]; rewrite ?nil_asp, ?single_asp; cbn [aspect_of];
    (split; [intros H; try contradiction; inversion H; subst;
             first [left; split; congruence | right; repeat split; congruence]
            |intros [[-> H]|[-> (H1 & H2 & H3)]]; congruence]).
Qed.

Lemma ex_in_app (P : kind -> Prop) x y :
  (exists k, In k (x ++ y) /\ P k) <-> (exists k, In k x /\ P k) \/ (exists k, In k y /\ P k).
Proof.
  split.
  - intros (k & I & H). apply in_app_or in I as [I|I]; [left|right]; exists k; auto.
  - intros [(k & I & H)|(k & I & H)]; exists k; split; auto; apply in_or_app; auto.
Qed.

Lemma expected_asp e a A :
  (exists k, In k (expected_feedback e a) /\ aspect_of k = Some A) <-> deviates A e a.
Proof.
  unfold expected_feedback. rewrite !ex_in_app.
  rewrite fb_version_asp, fb_protocol_asp, fb_codec_asp, fb_compression_asp, fb_tls_asp, fb_method_asp.
  destruct A; split; intros H; try tauto;
    repeat match goal with
           | H : _ \/ _ |- _ => destruct H as [H|H]
           | H : _ = _ /\ _ |- _ => destruct H as [? H]
           end; try discriminate; try assumption.
Qed.

Definition has_aspect (k : kind) : bool := match aspect_of k with Some _ => true | None => false end.
Lemma expected_all_aspect e a : forallb has_aspect (expected_feedback e a) = true.
Proof.
  unfold expected_feedback. rewrite !forallb_app.
  unfold fb_version, fb_protocol, fb_codec, fb_compression, fb_tls, fb_method.
  repeat (apply andb_true_intro; split).
  - destruct (_ =? _); reflexivity.
  - destruct (_ =? _); reflexivity.
  - destruct (_ =? _); reflexivity.
  - destruct (_ =? _); reflexivity.
  - destruct (tls_on (a_tls e)), (tls_on (a_tls a)); try reflexivity. destruct (bytes_eqb _ _); reflexivity.
  - destruct (Bool.eqb _ _); reflexivity.
Qed.

Section MatrixTheorems.
Variables (fq : Z -> Z -> Z) (name : bytes) (e : axes) (a : actual).
Hypothesis name_given : name <> [].
Let feedback := feedback_of (snd (checks fq [] (with_expect name e (render a)))).

Lemma feedback_is : feedback = expected_feedback e (project a).
Proof. unfold feedback. rewrite matrix_feedback_exact_proof by exact name_given. reflexivity. Qed.

Lemma silent_iff_match_proof : feedback = [] <-> project a = e.
Proof. rewrite feedback_is. apply expected_feedback_nil. Qed.

Lemma names_each_aspect_proof : forall A,
  deviates A e (project a) <-> exists k, In k feedback /\ aspect_of k = Some A.
Proof. intros A. rewrite feedback_is. symmetry. apply expected_asp. Qed.

Lemma only_deviations_named_proof : forall k,
  In k feedback -> exists A, aspect_of k = Some A /\ deviates A e (project a).
Proof.
  intros k. rewrite feedback_is. intros I.
  pose proof (expected_all_aspect e (project a)) as H. rewrite forallb_forall in H.
  specialize (H k I). unfold has_aspect in H. destruct (aspect_of k) as [A|] eqn:E; [|discriminate].
  exists A. split; [reflexivity|]. apply expected_asp. exists k. auto.
Qed.
End MatrixTheorems.

(* ====================================================================== *)
(* H. the timeout header through referenceServerChecks                    *)
(* ====================================================================== *)
Definition no_timeout (f : fb) : Prop := forall k, In k f -> is_timeout_kind k = false.

Lemma no_timeout_plain f : all_plain f -> no_timeout f.
Proof.
  intros P k I. apply (plain_in _ _ P) in I. destruct k; try reflexivity; discriminate.
Qed.
Lemma no_timeout_app a b : no_timeout a -> no_timeout b -> no_timeout (a ++ b).
Proof. intros A B k I. apply in_app_or in I as [I|I]; auto. Qed.
Lemma no_timeout_rep c n : no_timeout (rep_part c n).
Proof. unfold rep_part. intros k I. destruct (0 <? count_of c n); [destruct I as [<-|[]]; reflexivity|destruct I]. Qed.
Lemma no_timeout_trl r : no_timeout (trl_part r).
Proof. unfold trl_part. intros k I. destruct (0 <? trailer_keys r); [destruct I as [<-|[]]; reflexivity|destruct I]. Qed.

Lemma timeout_in_middle a ft b : no_timeout a -> no_timeout b ->
  ((exists k, In k (a ++ ft ++ b) /\ is_timeout_kind k = true) <-> (exists k, In k ft /\ is_timeout_kind k = true)).
Proof.
  intros A B. split.
  - intros (k & I & K). exists k. split; [|exact K].
    apply in_app_or in I as [I|I]; [apply A in I; congruence|].
    apply in_app_or in I as [I|I]; [exact I|apply B in I; congruence].
  - intros (k & I & K). exists k. split; [|exact K]. apply in_or_app. right. apply in_or_app. left. exact I.
Qed.

Lemma value_nonneg ds : digits ds -> 0 <= value ds.
Proof. intros [_ D]. apply (value_bounds ds D). Qed.

Lemma saturate_nonneg z : 0 <= z -> 0 <= saturate z.
Proof. unfold saturate, max_duration. intros H. apply Z.min_glb; [exact H|]. cbn. lia. Qed.

Lemma timeout_is_nonneg p s d : timeout_is p s d -> 0 <= d.
Proof.
  assert (G : grpc_timeout_is s d -> 0 <= d).
  { intros (ds & u & ns & -> & D & _ & U & ->). apply saturate_nonneg.
    pose proof (value_nonneg ds D).
    destruct (unit_ns_cases u ns U) as [[_ ->]|[[_ ->]|[[_ ->]|[[_ ->]|[[_ ->]|[_ ->]]]]]]; lia. }
  destruct p; cbn [timeout_is]; auto.
  intros [[D _] ->]. apply saturate_nonneg. pose proof (value_nonneg s D). lia.
Qed.

Lemma timeout_is_fun p s d d' : timeout_is p s d -> timeout_is p s d' -> d = d'.
Proof.
  destruct p; cbn [timeout_is]; try apply grpc_timeout_is_fun. intros [_ ->] [_ ->]. reflexivity.
Qed.

Lemma enum_announced r p : announces r p ->
  enum_value (lit "x-expect-protocol") (x_protocol r) c12_protocols =
  (Some (protocol_num p), dup_header (lit "x-expect-protocol") (x_protocol r)).
Proof. unfold announces, enum_value, first. intros ->. destruct p; reflexivity. Qed.

Section Handled.
Variable fq : Z -> Z -> Z.
Hypothesis fq_ok : float_quot_ok fq.

Definition extract_one (p : protocol) (s : bytes) : option Z * fb :=
  match p with PConnect => extract_connect s | _ => extract_grpc fq s end.
Definition header_name (p : protocol) : bytes :=
  match p with PConnect => lit "connect-timeout-ms" | _ => lit "grpc-timeout" end.

Lemma extract_timeout_uniform p r :
  extract_timeout fq (protocol_num p) r =
  match timeout_header p r with
  | [] => (None, [], r)
  | s :: _ => (fst (extract_one p s), dup_header (header_name p) (timeout_header p r) ++ snd (extract_one p s),
               without_timeout p r)
  end.
Proof.
  destruct p; cbn [protocol_num timeout_header extract_one header_name without_timeout]; unfold extract_timeout;
    cbn [Z.eqb Pos.eqb orb].
  - destruct (connect_timeout r) as [|s rest]; [reflexivity|]. cbn [present first hd].
    destruct (extract_connect s). reflexivity.
  - destruct (grpc_timeout r) as [|s rest]; [reflexivity|]. cbn [present first hd].
    destruct (extract_grpc fq s). reflexivity.
  - destruct (grpc_timeout r) as [|s rest]; [reflexivity|]. cbn [present first hd].
    destruct (extract_grpc fq s). reflexivity.
Qed.

Lemma extract_one_total p s :
  (exists d, timeout_is p s d /\ extract_one p s = (Some d, [])) \/
  ((~ exists d, timeout_is p s d) /\ exists k, is_timeout_kind k = true /\ extract_one p s = (None, [k])).
Proof.
  destruct p; cbn [extract_one timeout_is]; try apply (extract_grpc_total fq fq_ok).
  destruct (nonempty_digits s) eqn:ND.
  - destruct (Nat.le_gt_cases (length s) 10) as [L|L].
    + left. exists (connect_duration s). apply nonempty_digits_iff in ND.
      split; [split; [split; assumption|reflexivity]|]. apply extract_connect_ok. split; assumption.
    + right. split; [intros (d & [[_ L'] _]); lia|]. apply extract_connect_bad. intros [_ L']. lia.
  - right. split.
    + intros (d & [[D _] _]). apply nonempty_digits_iff in D. congruence.
    + apply extract_connect_bad. intros [D _]. apply nonempty_digits_iff in D. congruence.
Qed.

Lemma timeout_handled_proof : forall c r p,
  name_of r <> [] -> announces r p ->
  exists f t r',
    snd (checks fq c r) = Served (name_of r) f t r' /\
    match timeout_header p r with
    | [] => t = None /\ r' = r /\ (forall k, In k f -> is_timeout_kind k = false)
    | s :: _ =>
      r' = without_timeout p r /\ timeout_header p r' = [] /\
      (forall d, t = Some d <-> timeout_is p s d) /\
      ((exists k, In k f /\ is_timeout_kind k = true) <-> ~ exists d, timeout_is p s d)
    end /\
    echo_ms (Served (name_of r) f t r') = option_map (fun d => d / 1000000) t.
Proof.
  intros c r p NE AN. rewrite checks_served by exact NE. unfold served, pro_part.
  rewrite (enum_announced r p AN), extract_timeout_uniform.
  pose proof (no_timeout_app _ _ (no_timeout_rep c (name_of r))
                (no_timeout_app _ _ (no_timeout_plain _ (plain_ver_part r))
                   (no_timeout_app _ _ (no_timeout_plain _ (plain_dup_header (lit "x-expect-protocol") (x_protocol r)))
                      (no_timeout_plain _ (plain_protocol (protocol_num p) r))))) as Before.
  assert (After : forall r', no_timeout (cod_part r' ++ cmp_part r' ++ check_tls r' ++ check_method r' ++ trl_part r')).
  { intros r'.
    apply no_timeout_app; [apply no_timeout_plain, plain_cod_part|].
    apply no_timeout_app; [apply no_timeout_plain, plain_cmp_part|].
    apply no_timeout_app; [apply no_timeout_plain, plain_tls|].
    apply no_timeout_app; [apply no_timeout_plain, plain_method|apply no_timeout_trl]. }
  destruct (timeout_header p r) as [|s rest] eqn:HD.
  - (* no timeout header *)
    eexists _, None, r. cbn [snd]. split; [reflexivity|]. split; [|reflexivity].
    split; [reflexivity|]. split; [reflexivity|].
    rewrite app_nil_r.
    replace (rep_part c (name_of r) ++ ver_part r ++ (dup_header (lit "x-expect-protocol") (x_protocol r) ++ check_protocol (protocol_num p) r) ++ cod_part r ++ cmp_part r ++ check_tls r ++ check_method r ++ trl_part r)
      with ((rep_part c (name_of r) ++ ver_part r ++ dup_header (lit "x-expect-protocol") (x_protocol r) ++ check_protocol (protocol_num p) r) ++ cod_part r ++ cmp_part r ++ check_tls r ++ check_method r ++ trl_part r)
      by (rewrite <- !app_assoc; reflexivity).
    apply no_timeout_app; [exact Before|apply After].
  - (* a timeout header with first value s *)
    set (r' := without_timeout p r).
    set (dupT := dup_header (header_name p) (s :: rest)).
    assert (Gone : timeout_header p r' = []) by (subst r'; destruct p; reflexivity).
    assert (Shape : forall t f0, extract_one p s = (t, f0) ->
      (exists k, In k (rep_part c (name_of r) ++ ver_part r ++
                       (dup_header (lit "x-expect-protocol") (x_protocol r) ++ check_protocol (protocol_num p) r ++ dupT ++ f0) ++
                       cod_part r' ++ cmp_part r' ++ check_tls r' ++ check_method r' ++ trl_part r') /\ is_timeout_kind k = true) <->
      (exists k, In k f0 /\ is_timeout_kind k = true)).
    { intros t f0 _.
      replace (rep_part c (name_of r) ++ ver_part r ++
               (dup_header (lit "x-expect-protocol") (x_protocol r) ++ check_protocol (protocol_num p) r ++ dupT ++ f0) ++
               cod_part r' ++ cmp_part r' ++ check_tls r' ++ check_method r' ++ trl_part r')
        with (((rep_part c (name_of r) ++ ver_part r ++ dup_header (lit "x-expect-protocol") (x_protocol r) ++
                check_protocol (protocol_num p) r) ++ dupT) ++ f0 ++
              (cod_part r' ++ cmp_part r' ++ check_tls r' ++ check_method r' ++ trl_part r'))
        by (rewrite <- !app_assoc; reflexivity).
      apply timeout_in_middle; [|apply After].
      apply no_timeout_app; [exact Before|]. apply no_timeout_plain, plain_dup_header. }
    destruct (extract_one_total p s) as [(d0 & T & E)|(NT & k0 & K0 & E)]; rewrite E; cbn [fst snd].
    + eexists _, (Some d0), r'. split; [reflexivity|]. split.
      * split; [reflexivity|]. split; [exact Gone|]. split.
        -- intros d. split; [intros H; inversion H; subst; exact T|].
           intros T'. rewrite (timeout_is_fun p s d d0 T' T). reflexivity.
        -- rewrite (Shape _ _ E). split.
           ++ intros (k & [] & _).
           ++ intros N. exfalso. apply N. exists d0. exact T.
      * cbn [echo_ms option_map]. unfold ms_ns. rewrite Z.quot_div_nonneg; [reflexivity| |lia].
        apply (timeout_is_nonneg p s d0 T).
    + eexists _, None, r'. split; [reflexivity|]. split.
      * split; [reflexivity|]. split; [exact Gone|]. split.
        -- intros d. split; [discriminate|]. intros T. exfalso. apply NT. exists d. exact T.
        -- rewrite (Shape _ _ E). split; [intros _; exact NT|].
           intros _. exists k0. split; [left; reflexivity|exact K0].
      * reflexivity.
Qed.
End Handled.

(* the exact quotient, which the extracted model uses, is one of the admissible conversions *)
Lemma float_quot_ok_exact : float_quot_ok Z.quot.
Proof. intros t u _. split; [rewrite Z.sub_diag; cbn; lia|reflexivity]. Qed.

(* ====================================================================== *)
(* I. entry and exit of referenceServerChecks; overlapping requests       *)
(* ====================================================================== *)
Lemma enter_checks fq c r :
  match enter fq c r with
  | (c', Served n f t r') => checks fq c r = (c', Served n (f ++ leave r') t r')
  | (c', Rejected) => checks fq c r = (c', Rejected)
  end.
Proof. unfold checks. destruct (enter fq c r) as [c' [|n f t r']]; reflexivity. Qed.

Lemma enter_named fq c r : name_of r <> [] ->
  exists f t r', enter fq c r = (bump c (name_of r), Served (name_of r) f t r') /\ same_but_timeout r r'.
Proof.
  intros NE. rewrite enter_eq. destruct (name_of r) as [|n nm] eqn:E; [congruence|]. unfold entered.
  destruct (pro_part_shape fq r) as (t & fa & ft & r' & E' & _ & _ & SB). rewrite E'. eauto.
Qed.

Lemma enter_nameless fq c r : name_of r = [] -> enter fq c r = (c, Rejected).
Proof. intros E. rewrite enter_eq, E. reflexivity. Qed.

Lemma leave_only_trailers r k : In k (leave r) -> k = KTrailers (trailer_keys r) /\ 0 < trailer_keys r.
Proof.
  unfold leave. destruct (Z.ltb_spec 0 (trailer_keys r)); [|intros []].
  intros [<-|[]]. split; [reflexivity|assumption].
Qed.

Lemma enter_repeat fq c r m : name_of r <> [] ->
  In (KRepeat m) (feedback_of (snd (enter fq c r))) <->
  0 < count_of c (name_of r) /\ m = count_of c (name_of r) + 1.
Proof.
  intros NE. rewrite <- (repeat_in_checks fq c r m NE).
  destruct (enter_named fq c r NE) as (f & t & r' & E & _).
  pose proof (enter_checks fq c r) as C. rewrite E in C. rewrite E, C. cbn [snd feedback_of].
  rewrite in_app_iff. split; [auto|]. intros [H|H]; [exact H|].
  apply leave_only_trailers in H. destruct H as [H _]. discriminate.
Qed.

Fixpoint state_after (fq : Z -> Z -> Z) (s : hstate) (es : list event) : hstate :=
  match es with [] => s | e :: es' => state_after fq (fst (step fq s e)) es' end.

Lemma run_events_nth fq : forall history s e later,
  nth (length history) (run_events fq s (history ++ e :: later)) OIdle = snd (step fq (state_after fq s history) e).
Proof.
  induction history as [|h hs IH]; intros s e later; cbn [app run_events state_after length nth].
  - destruct (step fq s e). reflexivity.
  - destruct (step fq s h) as [s' o] eqn:E. cbn [nth fst]. apply IH.
Qed.

Lemma step_begin fq s r :
  step fq s (EvBegin r) =
  ({| h_calls := fst (enter fq (h_calls s) r);
      h_open := h_open s ++ [match snd (enter fq (h_calls s) r) with Served _ _ _ r' => Some r' | Rejected => None end] |},
   OBegin (snd (enter fq (h_calls s) r))).
Proof. cbn [step]. destruct (enter fq (h_calls s) r). reflexivity. Qed.

Lemma step_end_calls fq s i : h_calls (fst (step fq s (EvEnd i))) = h_calls s.
Proof. cbn [step]. destruct (nth_error (h_open s) i) as [[r'|]|]; reflexivity. Qed.

Lemma calls_after_events fq name : name <> [] -> forall history s,
  count_of (h_calls (state_after fq s history)) name = count_of (h_calls s) name + begun_before name history.
Proof.
  intros NE. induction history as [|[r|i] hs IH]; intros s; cbn [state_after begun_before]; [lia| |].
  - rewrite IH, step_begin. cbn [fst h_calls].
    destruct (name_of r) as [|n nm] eqn:E.
    + rewrite enter_nameless by exact E. cbn [fst]. destruct (bytes_eqb_spec name []); [congruence|lia].
    + destruct (enter_named fq (h_calls s) r) as (f & t & r' & -> & _); [congruence|]. cbn [fst].
      rewrite count_bump, E. lia.
  - rewrite IH, step_end_calls. reflexivity.
Qed.

Lemma repeat_flagged_proof : forall fq history r later m,
  name_of r <> [] ->
  In (KRepeat m) (written (nth (length history) (run_events fq h_init (history ++ EvBegin r :: later)) OIdle)) <->
  0 < begun_before (name_of r) history /\ m = begun_before (name_of r) history + 1.
Proof.
  intros fq history r later m NE. rewrite run_events_nth, step_begin. cbn [snd written].
  rewrite enter_repeat by exact NE. rewrite calls_after_events by exact NE.
  cbn [h_init h_calls count_of]. rewrite Z.add_0_l. reflexivity.
Qed.

(* nothing but the trailers line is written when a request ends *)
Lemma end_writes_trailers_only_proof : forall fq history i later k,
  In k (written (nth (length history) (run_events fq h_init (history ++ EvEnd i :: later)) OIdle)) ->
  exists n, k = KTrailers n /\ 0 < n.
Proof.
  intros fq history i later k. rewrite run_events_nth. cbn [step].
  destruct (nth_error (h_open (state_after fq h_init history)) i) as [[r'|]|]; cbn [snd written]; try (intros []).
  intros H. apply leave_only_trailers in H. destruct H as [-> P]. eauto.
Qed.

Lemma nth_error_last {A} (l : list A) x : nth_error (l ++ [x]) (length l) = Some x.
Proof. induction l; cbn; auto. Qed.

(* a request that begins and ends with nothing in between writes exactly what `checks` says *)
Lemma begin_end_is_checks_proof : forall fq s r,
  concat (map written (run_events fq s [EvBegin r; EvEnd (length (h_open s))])) =
  feedback_of (snd (checks fq (h_calls s) r)).
Proof.
  intros fq s r. cbn [run_events]. rewrite step_begin.
  pose proof (enter_checks fq (h_calls s) r) as C.
  destruct (enter fq (h_calls s) r) as [c' [|n f t r']]; rewrite C; cbn [step snd fst h_open h_calls];
    rewrite nth_error_last; cbn [map written concat feedback_of snd].
  - reflexivity.
  - rewrite app_nil_r. reflexivity.
Qed.

(* ====================================================================== *)
(* J. the assembled server (createServer)                                 *)
(* ====================================================================== *)
Lemma workaround_version p r : bidi_workaround p r = set_proto_major r (handler_version p (proto_major r)).
Proof.
  destruct r. unfold bidi_workaround, handler_version, set_proto_major. cbn.
  destruct p; cbn; try reflexivity. destruct (_ =? 1); reflexivity.
Qed.

Lemma server_feedback fq c p r : feedback_of (snd (server fq c p r)) = feedback_of (snd (checks fq c r)).
Proof. unfold server. destruct (checks fq c r) as [c' [|n f t r']]; reflexivity. Qed.

Lemma checks_same_version fq c r n f t r' : snd (checks fq c r) = Served n f t r' -> proto_major r' = proto_major r.
Proof.
  intros E. destruct (name_of r) as [|x nm] eqn:N.
  - destruct (no_name_rejected_proof fq c r) as [R _]. rewrite R in E by exact N. discriminate.
  - rewrite checks_served in E by congruence.
    destruct (served_shape fq c (name_of r) r) as (t0 & fa & ft & fb' & r0 & S & _ & _ & _ & SB).
    rewrite S in E. cbn [snd] in E. inversion E; subst. destruct SB as [->|[->| ->]]; reflexivity.
Qed.

Lemma bidi_exemption_scope_proof : forall fq c p r,
  fst (server fq c p r) = fst (checks fq c r) /\
  match snd (checks fq c r) with
  | Rejected => snd (server fq c p r) = Rejected
  | Served n f t r' => snd (server fq c p r) = Served n f t (set_proto_major r' (handler_version p (proto_major r)))
  end.
Proof.
  intros fq c p r. pose proof (checks_same_version fq c r) as V. unfold server.
  destruct (checks fq c r) as [c' [|n f t r']]; cbn [fst snd] in *; split; try reflexivity.
  rewrite workaround_version, (V n f t r' eq_refl). reflexivity.
Qed.

Lemma bidi_served_over_http1_proof : forall fq c p r n f t seen,
  1 <= proto_major r -> snd (server fq c p r) = Served n f t seen -> handler_refuses p seen = false.
Proof.
  intros fq c p r n f t seen P E. destruct (bidi_exemption_scope_proof fq c p r) as [_ S].
  destruct (snd (checks fq c r)) as [|n0 f0 t0 r0]; rewrite S in E; [discriminate|]. inversion E; subst.
  unfold handler_refuses, handler_version. destruct p; cbn; try reflexivity.
  destruct (Z.eqb_spec (proto_major r) 1); cbn; [reflexivity|]. apply Z.ltb_ge. lia.
Qed.

Section ServerMatrix.
Variables (fq : Z -> Z -> Z) (name : bytes) (e : axes) (a : actual) (p : procedure).
Hypothesis name_given : name <> [].

Lemma server_feedback_exact_proof :
  server fq [] p (with_expect name e (render a)) =
  ([(name, 1)], Served name (expected_feedback e (project a)) None
                       (set_proto_major (with_expect name e (render a)) (handler_version p (version_num (c_version a))))).
Proof.
  unfold server. rewrite matrix_feedback_exact_proof by exact name_given. rewrite workaround_version. reflexivity.
Qed.

Let feedback := feedback_of (snd (server fq [] p (with_expect name e (render a)))).

Lemma server_feedback_is : feedback = expected_feedback e (project a).
Proof. unfold feedback. rewrite server_feedback_exact_proof. reflexivity. Qed.

Lemma server_silent_iff_match_proof : feedback = [] <-> project a = e.
Proof. rewrite server_feedback_is. apply expected_feedback_nil. Qed.

Lemma server_names_each_aspect_proof : forall A,
  deviates A e (project a) <-> exists k, In k feedback /\ aspect_of k = Some A.
Proof. intros A. rewrite server_feedback_is. symmetry. apply expected_asp. Qed.

Lemma server_only_deviations_named_proof : forall k,
  In k feedback -> exists A, aspect_of k = Some A /\ deviates A e (project a).
Proof.
  intros k. rewrite server_feedback_is. intros I.
  pose proof (expected_all_aspect e (project a)) as H. rewrite forallb_forall in H.
  specialize (H k I). unfold has_aspect in H. destruct (aspect_of k) as [A|] eqn:E; [|discriminate].
  exists A. split; [reflexivity|]. apply expected_asp. exists k. auto.
Qed.
End ServerMatrix.

(* the other order of composition - workaround first, checks second - would break both directions *)
Definition mk_axes v := {| a_version := v; a_get := false; a_protocol := PConnect; a_codec := CProto;
                           a_compression := ZIdentity; a_tls := Plain |}.
Definition mk_actual v := {| c_version := v; c_shape := ConnectStream; c_codec := CProto;
                             c_compression := ZIdentity; c_tls := Plain |}.
Lemma workaround_outside_refuted_proof : forall fq,
  (exists e a, project a = e /\
     feedback_of (snd (checks fq [] (bidi_workaround ProcBidiStream (with_expect (lit "t") e (render a))))) <> []) /\
  (exists e a, project a <> e /\
     feedback_of (snd (checks fq [] (bidi_workaround ProcBidiStream (with_expect (lit "t") e (render a))))) = []).
Proof.
  intros fq. split.
  - exists (mk_axes V1), (mk_actual V1). split; [reflexivity|]. vm_compute. discriminate.
  - exists (mk_axes V2), (mk_actual V1). split; [discriminate|]. vm_compute. reflexivity.
Qed.
