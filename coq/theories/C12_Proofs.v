From V Require Export C12_Model.
