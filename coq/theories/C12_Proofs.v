(* C12_Proofs.v — proofs that the model of checks.go (C12_Model) meets C12_Spec. *)
From Coq Require Import Lia.
From V Require Export C12_Spec.
Open Scope Z_scope.

(* ====================================================================== *)
(* A. digit strings                                                       *)
(* ====================================================================== *)
Lemma is_digit_digit c : is_digit c = true <-> digit c.
Proof. unfold is_digit, digit. rewrite andb_true_iff, !N.leb_le. tauto. Qed.

Lemma all_digits_Forall s : all_digits s = true <-> Forall digit s.
Proof.
  unfold all_digits. rewrite forallb_forall, Forall_forall.
  split; intros H x Hx; apply is_digit_digit; auto.
Qed.

Lemma nonempty_digits_iff s : nonempty_digits s = true <-> digits s.
Proof.
  unfold digits. destruct s as [|c s].
  - simpl. split; [discriminate|intros [H _]; congruence].
  - change (nonempty_digits (c :: s)) with (all_digits (c :: s)). rewrite all_digits_Forall.
    split; [intros H; split; [discriminate|exact H]|tauto].
Qed.

Lemma dec_value_app s c : dec_value (s ++ [c]) = dec_value s * 10 + digit_val c.
Proof. unfold dec_value. rewrite fold_left_app. reflexivity. Qed.

Lemma value_app s c : value (s ++ [c]) = (Z.of_N c - 48) + 10 * value s.
Proof. unfold value. rewrite rev_unit. reflexivity. Qed.

Lemma dec_value_value s : dec_value s = value s.
Proof.
  induction s as [|c s IH] using rev_ind; [reflexivity|].
  rewrite dec_value_app, value_app, IH. unfold digit_val. lia.
Qed.

Lemma value_bounds s : Forall digit s -> 0 <= value s < 10 ^ Z.of_nat (length s).
Proof.
  induction s as [|c s IH] using rev_ind; intros H.
  - cbn. lia.
  - apply Forall_app in H as [H1 H2]. inversion H2 as [|? ? Hc _]; subst.
    rewrite value_app, app_length. cbn [length]. rewrite Nat.add_1_r, Nat2Z.inj_succ, Z.pow_succ_r by lia.
    specialize (IH H1). unfold digit in Hc. lia.
Qed.

Lemma value_lt_pow s n : Forall digit s -> (length s <= n)%nat -> 0 <= value s < 10 ^ Z.of_nat n.
Proof.
  intros H L. pose proof (value_bounds s H) as B.
  assert (10 ^ Z.of_nat (length s) <= 10 ^ Z.of_nat n) by (apply Z.pow_le_mono_r; lia). lia.
Qed.

Lemma zlen_nat {A} (l : list A) : zlen l = Z.of_nat (length l).
Proof. reflexivity. Qed.

(* strconv.ParseInt on a string of digits *)
Lemma parse_int_digits bits s : digits s ->
  parse_int bits s =
  if (- int_bound bits <=? value s) && (value s <? int_bound bits) then Some (value s) else None.
Proof.
  intros [NE D]. destruct s as [|c r]; [congruence|].
  pose proof D as D'. inversion D as [|? ? Hc _]; subst. unfold digit in Hc.
  unfold parse_int.
  replace (c =? 43)%N with false by (symmetry; apply N.eqb_neq; lia).
  replace (c =? 45)%N with false by (symmetry; apply N.eqb_neq; lia).
  apply all_digits_Forall in D'. rewrite D', dec_value_value. reflexivity.
Qed.

Lemma parse_int64_small s : digits s -> (length s <= 10)%nat -> parse_int 64 s = Some (value s).
Proof.
  intros D L. rewrite parse_int_digits by exact D.
  destruct D as [_ D]. pose proof (value_lt_pow s 10 D L) as B.
  change (10 ^ Z.of_nat 10) with 10000000000 in B.
  change (int_bound 64) with 9223372036854775808.
  rewrite (proj2 (Z.leb_le _ _)) by lia. rewrite (proj2 (Z.ltb_lt _ _)) by lia. reflexivity.
Qed.

(* ====================================================================== *)
(* B. int64 arithmetic                                                    *)
(* ====================================================================== *)
Lemma wrap64_small z : - 9223372036854775808 <= z < 9223372036854775808 -> wrap64 z = z.
Proof. intros H. unfold wrap64. rewrite Z.mod_small by lia. lia. Qed.

Lemma wrap64_range z : - 9223372036854775808 <= wrap64 z < 9223372036854775808.
Proof.
  unfold wrap64.
  pose proof (Z.mod_pos_bound (z + 9223372036854775808) 18446744073709551616 ltac:(lia)). lia.
Qed.

(* one or more whole turns are lost when the product does not fit *)
Lemma wrap64_overflow z : 9223372036854775808 <= z -> wrap64 z <= z - 18446744073709551616.
Proof.
  intros H. unfold wrap64.
  pose proof (Z.div_mod (z + 9223372036854775808) 18446744073709551616 ltac:(lia)) as E.
  pose proof (Z.mod_pos_bound (z + 9223372036854775808) 18446744073709551616 ltac:(lia)) as B.
  assert (1 <= (z + 9223372036854775808) / 18446744073709551616)
    by (apply Z.div_le_lower_bound; lia).
  lia.
Qed.

Lemma max_duration_eq : max_duration = max_int64.
Proof. reflexivity. Qed.

Lemma saturate_small z : z <= 9223372036854775807 -> saturate z = z.
Proof. intros H. unfold saturate. rewrite max_duration_eq. unfold max_int64. lia. Qed.

Lemma saturate_big z : 9223372036854775807 <= z -> saturate z = max_int64.
Proof. intros H. unfold saturate. rewrite max_duration_eq. unfold max_int64 in *. lia. Qed.

(* ====================================================================== *)
(* C. extractTimeout, Connect                                             *)
(* ====================================================================== *)
Lemma extract_connect_ok s :
  connect_grammar s -> extract_connect s = (Some (connect_duration s), []).
Proof.
  intros [D L]. unfold extract_connect.
  pose proof D as D'. apply nonempty_digits_iff in D'. rewrite D'. cbn [negb].
  change c12_connect_max_digits with 10. rewrite zlen_nat.
  replace (10 <? Z.of_nat (length s)) with false by (symmetry; apply Z.ltb_ge; lia).
  rewrite parse_int64_small by assumption.
  destruct D as [_ D]. pose proof (value_lt_pow s 10 D L) as B.
  change (10 ^ Z.of_nat 10) with 10000000000 in B.
  replace (value s <? 0) with false by (symmetry; apply Z.ltb_ge; lia).
  unfold ms_ns. rewrite wrap64_small by lia.
  rewrite Z.quot_mul by lia. rewrite Z.eqb_refl.
  unfold connect_duration. rewrite saturate_small by lia. reflexivity.
Qed.

Lemma extract_connect_bad s :
  ~ connect_grammar s -> exists k, is_timeout_kind k = true /\ extract_connect s = (None, [k]).
Proof.
  intros NG. unfold extract_connect.
  destruct (nonempty_digits s) eqn:ND; cbn [negb].
  - apply nonempty_digits_iff in ND.
    change c12_connect_max_digits with 10. rewrite zlen_nat.
    destruct (10 <? Z.of_nat (length s)) eqn:LL.
    + exists KTimeoutConnectLong. split; reflexivity.
    + exfalso. apply NG. split; [exact ND|]. apply Z.ltb_ge in LL. lia.
  - exists KTimeoutConnectInvalid. split; reflexivity.
Qed.

Lemma timeout_connect_proof : forall s d,
  extract_connect s = (Some d, []) <-> connect_grammar s /\ d = connect_duration s.
Proof.
  intros s d. split.
  - intros E. assert (G : connect_grammar s).
    { destruct (nonempty_digits s) eqn:ND.
      - apply nonempty_digits_iff in ND. split; [exact ND|].
        destruct (Nat.le_gt_cases (length s) 10) as [L|L]; [exact L|exfalso].
        destruct (extract_connect_bad s) as (k & _ & E'); [|congruence].
        intros [_ L']. lia.
      - exfalso. destruct (extract_connect_bad s) as (k & _ & E'); [|congruence].
        intros [D _]. apply nonempty_digits_iff in D. congruence. }
    split; [exact G|]. rewrite (extract_connect_ok s G) in E. congruence.
  - intros [G ->]. apply extract_connect_ok; exact G.
Qed.

Lemma timeout_connect_rejected_proof : forall s,
  ~ connect_grammar s <-> exists k, is_timeout_kind k = true /\ extract_connect s = (None, [k]).
Proof.
  intros s. split; [apply extract_connect_bad|].
  intros (k & _ & E) G. rewrite (extract_connect_ok s G) in E. discriminate.
Qed.

(* ====================================================================== *)
(* D. extractTimeout, gRPC                                                *)
(* ====================================================================== *)
Lemma split_last_app ds u : split_last (ds ++ [u]) = Some (ds, u).
Proof.
  induction ds as [|c ds IH]; [reflexivity|].
  cbn [app split_last]. rewrite IH. destruct (ds ++ [u]) eqn:E; [destruct ds; discriminate|reflexivity].
Qed.

Lemma split_last_some s : forall ds u, split_last s = Some (ds, u) -> s = ds ++ [u].
Proof.
  induction s as [|c s IH]; intros ds u H; [discriminate|].
  destruct s as [|c' s'].
  - cbn in H. inversion H; subst. reflexivity.
  - change (split_last (c :: c' :: s')) with
      (match split_last (c' :: s') with Some (i, l) => Some (c :: i, l) | None => None end) in H.
    destruct (split_last (c' :: s')) as [[i l]|] eqn:E; [|discriminate].
    inversion H; subst. cbn [app]. f_equal. apply IH. reflexivity.
Qed.

Lemma split_last_none s : split_last s = None -> s = [].
Proof.
  destruct s as [|c s]; [reflexivity|]. intros H. exfalso.
  destruct (exists_last (l := c :: s) ltac:(discriminate)) as (ds & u & E).
  rewrite E, split_last_app in H. discriminate.
Qed.

Lemma units_agree u : assoc_N u c12_grpc_units = unit_ns u.
Proof.
  unfold c12_grpc_units, unit_ns. cbn [assoc_N].
  repeat match goal with
         | |- context [(u =? ?k)%N] => destruct (N.eqb_spec u k); [subst; reflexivity|]
         end.
  reflexivity.
Qed.

Lemma unit_ns_cases u ns : unit_ns u = Some ns ->
  (u = 72%N /\ ns = 3600000000000) \/ (u = 77%N /\ ns = 60000000000) \/ (u = 83%N /\ ns = 1000000000) \/
  (u = 109%N /\ ns = 1000000) \/ (u = 117%N /\ ns = 1000) \/ (u = 110%N /\ ns = 1).
Proof.
  unfold unit_ns.
  repeat match goal with
         | |- context [(u =? ?k)%N] => destruct (N.eqb_spec u k); [intros H; inversion H; subst; tauto|]
         end.
  discriminate.
Qed.

Section Grpc.
Variable fq : Z -> Z -> Z.
Hypothesis fq_ok : float_quot_ok fq.

(* the round trip through float64 recognises overflow: exact when the product fits,
   several units away from v when it does not *)
Lemma float_roundtrip v ns :
  0 <= v -> 0 < ns <= 3600000000000 ->
  (fq (wrap64 (v * ns)) ns =? v) = (v * ns <=? 9223372036854775807).
Proof.
  intros Hv Hns. destruct (Z.leb_spec (v * ns) 9223372036854775807) as [Fit|Over].
  - rewrite wrap64_small by nia.
    destruct (fq_ok (v * ns) ns ltac:(lia)) as [_ Ex]. rewrite Ex by (apply Z.rem_mul; lia).
    rewrite Z.quot_mul by lia. apply Z.eqb_refl.
  - apply Z.eqb_neq. intros E.
    destruct (fq_ok (wrap64 (v * ns)) ns ltac:(lia)) as [Near _]. rewrite E in Near.
    pose proof (wrap64_overflow (v * ns) ltac:(lia)) as W.
    pose proof (wrap64_range (v * ns)) as R.
    set (t := wrap64 (v * ns)) in *.
    (* t <= v*ns - 2^64 and 2^64 > 3*ns: the truncated quotient is at most v - 3 *)
    assert (Q : Z.quot t ns <= v - 3).
    { destruct (Z.le_gt_cases 0 t) as [P|N].
      - rewrite Z.quot_div_nonneg by lia. apply Z.lt_succ_r. apply Z.div_lt_upper_bound; nia.
      - assert (Z.quot t ns <= 0).
        { replace t with (- (- t)) by lia. rewrite Z.quot_opp_l by lia.
          pose proof (Z.quot_pos (- t) ns ltac:(lia) ltac:(lia)). lia. }
        assert (3 <= v) by nia. lia. }
    lia.
Qed.
End Grpc.

Section Grpc2.
Variable fq : Z -> Z -> Z.
Hypothesis fq_ok : float_quot_ok fq.

Lemma extract_grpc_ok ds u ns :
  digits ds -> (length ds <= 8)%nat -> unit_ns u = Some ns ->
  extract_grpc fq (ds ++ [u]) = (Some (saturate (value ds * ns)), []).
Proof.
  intros D L U. unfold extract_grpc.
  rewrite split_last_app, units_agree, U.
  pose proof D as D'. apply nonempty_digits_iff in D'. rewrite D'. cbn [negb].
  change c12_grpc_max_digits with 8. rewrite zlen_nat.
  rewrite (proj2 (Z.ltb_ge _ _)) by lia.
  rewrite parse_int64_small by (try assumption; lia).
  destruct D as [_ D]. pose proof (value_lt_pow ds 8 D L) as B.
  change (10 ^ Z.of_nat 8) with 100000000 in B.
  rewrite (proj2 (Z.ltb_ge _ _)) by lia.
  set (v := value ds) in *.
  destruct (unit_ns_cases u ns U) as [[-> ->]|[[-> ->]|[[-> ->]|[[-> ->]|[[-> ->]|[-> ->]]]]]];
    cbn [unit_is_float N.eqb Pos.eqb orb].
  - (* H: the only unit whose product can leave int64 *)
    rewrite (float_roundtrip fq fq_ok) by lia.
    destruct (Z.leb_spec (v * 3600000000000) 9223372036854775807).
    + rewrite wrap64_small by lia. rewrite saturate_small by lia. reflexivity.
    + rewrite saturate_big by lia. reflexivity.
  - rewrite (float_roundtrip fq fq_ok) by lia.
    rewrite (proj2 (Z.leb_le _ _)) by lia.
    rewrite wrap64_small by lia. rewrite saturate_small by lia. reflexivity.
  - rewrite (float_roundtrip fq fq_ok) by lia.
    rewrite (proj2 (Z.leb_le _ _)) by lia.
    rewrite wrap64_small by lia. rewrite saturate_small by lia. reflexivity.
  - rewrite wrap64_small by lia. rewrite Z.quot_mul by lia. rewrite Z.eqb_refl.
    rewrite saturate_small by lia. reflexivity.
  - rewrite wrap64_small by lia. rewrite Z.quot_mul by lia. rewrite Z.eqb_refl.
    rewrite saturate_small by lia. reflexivity.
  - rewrite wrap64_small by lia. rewrite Z.quot_mul by lia. rewrite Z.eqb_refl.
    rewrite saturate_small by lia. reflexivity.
Qed.

Lemma grpc_timeout_is_fun s d d' : grpc_timeout_is s d -> grpc_timeout_is s d' -> d = d'.
Proof.
  intros (ds & u & ns & -> & _ & _ & U & ->) (ds' & u' & ns' & E & _ & _ & U' & ->).
  apply app_inj_tail in E as [-> ->]. congruence.
Qed.

(* every byte string is either a timeout of the grammar, accepted with exactly its duration and
   no feedback, or rejected with one feedback line *)
Lemma extract_grpc_total s :
  (exists d, grpc_timeout_is s d /\ extract_grpc fq s = (Some d, [])) \/
  (~ grpc_grammar s /\ exists k, is_timeout_kind k = true /\ extract_grpc fq s = (None, [k])).
Proof.
  destruct (split_last s) as [[ds u]|] eqn:SL.
  - apply split_last_some in SL. subst s.
    destruct (unit_ns u) as [ns|] eqn:U.
    + destruct (nonempty_digits ds) eqn:ND.
      * apply nonempty_digits_iff in ND.
        destruct (Nat.le_gt_cases (length ds) 8) as [L|L].
        -- left. exists (saturate (value ds * ns)). split.
           ++ exists ds, u, ns. repeat split; auto; apply ND.
           ++ apply extract_grpc_ok; assumption.
        -- right. split.
           ++ intros (d & ds' & u' & ns' & E & _ & L' & _). apply app_inj_tail in E as [-> ->]. lia.
           ++ exists KTimeoutGrpcLong. split; [reflexivity|].
              unfold extract_grpc. rewrite split_last_app, units_agree, U.
              apply nonempty_digits_iff in ND. rewrite ND. cbn [negb].
              change c12_grpc_max_digits with 8. rewrite zlen_nat.
              rewrite (proj2 (Z.ltb_lt _ _)) by lia. reflexivity.
      * right. split.
        -- intros (d & ds' & u' & ns' & E & D' & _). apply app_inj_tail in E as [-> ->].
           apply nonempty_digits_iff in D'. congruence.
        -- exists KTimeoutGrpcInvalid. split; [reflexivity|].
           unfold extract_grpc. rewrite split_last_app, units_agree, U, ND. reflexivity.
    + right. split.
      * intros (d & ds' & u' & ns' & E & _ & _ & U' & _). apply app_inj_tail in E as [-> ->]. congruence.
      * exists KTimeoutGrpcUnit. split; [reflexivity|].
        unfold extract_grpc. rewrite split_last_app, units_agree, U. reflexivity.
  - apply split_last_none in SL. subst s. right. split.
    + intros (d & ds' & u' & ns' & E & _). destruct ds'; discriminate.
    + exists KTimeoutGrpcEmpty. split; reflexivity.
Qed.

Lemma timeout_grpc_proof : forall s d, extract_grpc fq s = (Some d, []) <-> grpc_timeout_is s d.
Proof.
  intros s d. destruct (extract_grpc_total s) as [(d' & G & E)|(NG & k & _ & E)]; rewrite E.
  - split.
    + intros H. inversion H; subst. exact G.
    + intros G'. rewrite (grpc_timeout_is_fun s d d' G' G). reflexivity.
  - split; [discriminate|]. intros G. exfalso. apply NG. exists d. exact G.
Qed.

Lemma timeout_grpc_rejected_proof : forall s,
  ~ grpc_grammar s <-> exists k, is_timeout_kind k = true /\ extract_grpc fq s = (None, [k]).
Proof.
  intros s. destruct (extract_grpc_total s) as [(d' & G & E)|(NG & k & K & E)].
  - split.
    + intros NG. exfalso. apply NG. exists d'. exact G.
    + intros (k & _ & E'). rewrite E in E'. discriminate.
  - split; [intros _; exists k; auto|intros _; exact NG].
Qed.
End Grpc2.
