(* C15_ProofsL3b.v — the content of a well-formed stream's trace (C15_SpecL3.exchange), streams without
   test name, GOAWAY, and the combination with stream independence for all interleavings. *)
From Coq Require Import Lia Permutation.
From V Require Export C15_ProofsL3 C15_SpecL3.
Open Scope N_scope.

(* ---------------------------------------------------------------------------------------- *)
(* the builder under message events                                                         *)
(* ---------------------------------------------------------------------------------------- *)
Definition is_data (e : bev) : Prop :=
  match e with BReqData _ _ | BRespData _ _ | BRespEndStream _ => True | _ => False end.

Lemma is_data_ev isreq e n : is_data (data_ev isreq e n).
Proof. destruct isreq; simpl; trivial. Qed.

Lemma b_adds_app : forall a c b,
  b_adds b (a ++ c) =
  match b_adds b a with (b1, l1) => match b_adds b1 c with (b2, l2) => (b2, l1 ++ l2) end end.
Proof.
  induction a as [|e a IH]; intros c b; simpl.
  - destruct (b_adds b c); reflexivity.
  - destruct (b_add b e) as [b1 o]. rewrite IH.
    destruct (b_adds b1 a) as [b2 l2]. destruct (b_adds b2 c) as [b3 l3]. destruct o; reflexivity.
Qed.

Lemma b_adds_data : forall evs nm rq rt rs er ev cl iq ip,
  is_nil nm = false -> Forall is_data evs ->
  b_adds (mkB (mkTr nm rq rt rs er ev) cl iq ip) evs =
  (mkB (mkTr nm rq rt rs er (ev ++ fst (number iq ip evs))) cl
       (fst (snd (number iq ip evs))) (snd (snd (number iq ip evs))), []).
Proof.
  induction evs as [|e r IH]; intros nm rq rt rs er ev cl iq ip Nm F.
  - simpl. rewrite app_nil_r. reflexivity.
  - inversion F as [|? ? Fe Fr]; subst.
    destruct e; try contradiction; cbn [b_adds]; unfold b_add; cbn [b_trace t_name]; rewrite Nm;
      cbn [finishing b_req b_resp b_cleared t_err t_resp t_req t_reqtrailer t_events t_name];
      rewrite (IH _ _ _ _ _ _ _ _ _ Nm Fr); cbn [number];
      destruct (number _ _ r) as [l [a b]]; cbn [fst snd]; rewrite <- app_assoc; reflexivity.
Qed.

Lemma b_adds_nameless : forall evs b, is_nil (t_name (b_trace b)) = true -> b_adds b evs = (b, []).
Proof.
  induction evs as [|e r IH]; intros b Nm; [reflexivity|].
  cbn [b_adds]. unfold b_add. rewrite Nm. rewrite (IH b Nm). reflexivity.
Qed.

Lemma b_add_nameless b e : is_nil (t_name (b_trace b)) = true -> b_add b e = (b, None).
Proof. intros Nm. unfold b_add. rewrite Nm. reflexivity. Qed.

(* ---------------------------------------------------------------------------------------- *)
(* the envelope parser emits message events only                                            *)
(* ---------------------------------------------------------------------------------------- *)
Lemma dt_step_data d data d1 out k : dt_step d data = (d1, out, k) -> Forall is_data out.
Proof.
  unfold dt_step. destruct (d_expect d =? 0).
  - destruct (take _ _) as [x [rest|]].
    + destruct (be_decode _ _ =? 0); intros E; inversion E; subst; repeat constructor. apply is_data_ev.
    + intros E; inversion E; subst; constructor.
  - destruct (take _ _) as [x [rest|]].
    + intros E; inversion E; subst.
      destruct (d_end d) as [bb|]; [destruct (bb ++ x)|]; repeat constructor; apply is_data_ev.
    + intros E; inversion E; subst; constructor.
Qed.

Lemma dt_loop_data : forall fuel d data d1 out, dt_loop fuel d data = (d1, out) -> Forall is_data out.
Proof.
  induction fuel as [|fuel IH]; intros d data d1 out.
  - destruct data; simpl; intros E; inversion E; subst; constructor.
  - destruct data as [|x data]; [simpl; intros E; inversion E; subst; constructor|].
    cbn [dt_loop]. destruct (dt_step d (x :: data)) as [[d2 o2] [rest|]] eqn:S.
    + apply dt_step_data in S. destruct (dt_loop fuel d2 rest) as [d3 o3] eqn:L. apply IH in L.
      intros E; inversion E; subst. apply Forall_app; auto.
    + apply dt_step_data in S. intros E; inversion E; subst. exact S.
Qed.

Lemma dt_trace_data d data d1 out : dt_trace d data = (d1, out) -> Forall is_data out /\ d_hasb d1 = d_hasb d.
Proof.
  intros E. split; [|eapply dt_trace_props; eauto].
  revert E. unfold dt_trace. destruct (d_stream d).
  - apply dt_loop_data.
  - intros E; inversion E; subst; constructor.
Qed.

Lemma dt_flush_data d : d_hasb d = true ->
  dt_flush d = Some (rewound d, partial_msg d) /\ Forall is_data (partial_msg d) /\ d_hasb (rewound d) = true /\
  partial_msg (rewound d) = [] /\ rewound (rewound d) = rewound d.
Proof.
  intros H. unfold partial_msg, rewound, dt_flush. rewrite H.
  destruct (0 <? _) eqn:U; cbn [d_expect d_prefix d_actual d_hasb d_isreq d_stream len length N.of_nat N.eqb N.ltb N.compare andb];
    repeat split; auto; repeat constructor; apply is_data_ev.
Qed.

(* ---------------------------------------------------------------------------------------- *)
(* the gathered state and the stream-table entry it stands for                              *)
(* ---------------------------------------------------------------------------------------- *)
Definition stream_of (x : xst) : stream :=
  mkS (mkB (x_tr x) false (x_nq x) (x_np x)) (x_dq x) (x_popen x) (x_dp x).

Definition x_wf (x : xst) : Prop :=
  is_nil (t_name (x_tr x)) = false /\ t_err (x_tr x) = ENil /\ d_hasb (x_dq x) = true /\
  (if x_popen x then d_hasb (x_dp x) = true /\ t_resp (x_tr x) <> None else x_dp x = dt_zero).

Lemma b_adds_msgs x evs : is_nil (t_name (x_tr x)) = false -> Forall is_data evs ->
  b_adds (mkB (x_tr x) false (x_nq x) (x_np x)) evs =
  (mkB (x_tr (x_msgs x evs)) false (x_nq (x_msgs x evs)) (x_np (x_msgs x evs)), []).
Proof.
  intros Nm F. destruct x as [[nm rq rt rs er ev] nq np dq dp qo po]. cbn [x_tr x_nq x_np t_name] in *.
  rewrite (b_adds_data evs nm rq rt rs er ev false nq np Nm F).
  unfold x_msgs. cbn [x_tr x_nq x_np]. destruct (number nq np evs) as [l [a b]]. reflexivity.
Qed.

Lemma x_msgs_fields x evs :
  x_dq (x_msgs x evs) = x_dq x /\ x_dp (x_msgs x evs) = x_dp x /\ x_qopen (x_msgs x evs) = x_qopen x /\
  x_popen (x_msgs x evs) = x_popen x /\ t_name (x_tr (x_msgs x evs)) = t_name (x_tr x) /\
  t_err (x_tr (x_msgs x evs)) = t_err (x_tr x) /\ t_resp (x_tr (x_msgs x evs)) = t_resp (x_tr x) /\
  t_req (x_tr (x_msgs x evs)) = t_req (x_tr x) /\ t_reqtrailer (x_tr (x_msgs x evs)) = t_reqtrailer (x_tr x).
Proof. unfold x_msgs. destruct (number _ _ evs) as [l [a b]]. cbn. repeat split; reflexivity. Qed.

Lemma x_msgs_wf x evs : x_wf x -> x_wf (x_msgs x evs).
Proof.
  intros (A & B & C & D). destruct (x_msgs_fields x evs) as (E1 & E2 & E3 & E4 & E5 & E6 & E7 & _).
  unfold x_wf. rewrite E1, E2, E4, E5, E6, E7. auto.
Qed.

Definition bld (x : xst) : builder := mkB (x_tr x) false (x_nq x) (x_np x).

Lemma bld_msgs x evs : is_nil (t_name (x_tr x)) = false -> Forall is_data evs ->
  b_adds (bld x) evs = (bld (x_msgs x evs), []).
Proof. apply b_adds_msgs. Qed.

Lemma bld_flush_req x : bld (x_flush_req x) = bld (x_msgs x (partial_msg (x_dq x))).
Proof. destruct x. unfold x_flush_req, x_msgs, bld. cbn. destruct (number _ _ _) as [l [a b]]. reflexivity. Qed.
Lemma bld_flush_resp x : bld (x_flush_resp x) = bld (x_msgs x (partial_msg (x_dp x))).
Proof. destruct x. unfold x_flush_resp, x_msgs, bld. cbn. destruct (number _ _ _) as [l [a b]]. reflexivity. Qed.

Lemma x_flush_req_fields x :
  x_dq (x_flush_req x) = rewound (x_dq x) /\ x_dp (x_flush_req x) = x_dp x /\ x_popen (x_flush_req x) = x_popen x /\
  x_qopen (x_flush_req x) = x_qopen x /\
  t_name (x_tr (x_flush_req x)) = t_name (x_tr x) /\ t_err (x_tr (x_flush_req x)) = t_err (x_tr x) /\
  t_resp (x_tr (x_flush_req x)) = t_resp (x_tr x).
Proof. unfold x_flush_req, x_msgs. cbn. destruct (number _ _ _) as [l [a b]]. cbn. repeat split; reflexivity. Qed.

Lemma x_flush_resp_fields x :
  x_dq (x_flush_resp x) = x_dq x /\ x_dp (x_flush_resp x) = rewound (x_dp x) /\ x_popen (x_flush_resp x) = x_popen x /\
  x_qopen (x_flush_resp x) = x_qopen x /\
  t_name (x_tr (x_flush_resp x)) = t_name (x_tr x) /\ t_err (x_tr (x_flush_resp x)) = t_err (x_tr x) /\
  t_resp (x_tr (x_flush_resp x)) = t_resp (x_tr x).
Proof. unfold x_flush_resp, x_msgs. cbn. destruct (number _ _ _) as [l [a b]]. cbn. repeat split; reflexivity. Qed.

(* builder.add of the events that are not messages *)
Lemma b_add_req_end t cl iq ip : is_nil (t_name t) = false -> t_err t = ENil ->
  b_add (mkB t cl iq ip) (BReqEnd ENil) = (mkB (t_push t [TReqEnd ENil]) cl iq ip, None).
Proof. intros Nm E. unfold b_add, t_push. cbn. rewrite Nm, E. reflexivity. Qed.

Lemma b_add_resp_end t cl iq ip e : is_nil (t_name t) = false -> t_err t = ENil ->
  b_add (mkB t cl iq ip) (BRespEnd e) =
  (mkB empty_trace true iq ip,
   Some (mkTr (t_name t) (t_req t) (t_reqtrailer t) (t_resp t) e (t_events t ++ [TRespEnd e]))).
Proof. intros Nm E. unfold b_add. cbn. rewrite Nm, E. reflexivity. Qed.

Lemma b_add_req_reset t cl iq ip c : is_nil (t_name t) = false -> t_err t = ENil ->
  b_add (mkB t cl iq ip) (BReqEnd (EStream c)) =
  (mkB empty_trace true iq ip,
   Some (mkTr (t_name t) (t_req t) (t_reqtrailer t) (t_resp t) (EStream c) (t_events t ++ [TReqEnd (EStream c)]))).
Proof. intros Nm E. unfold b_add. cbn. rewrite Nm, E. reflexivity. Qed.

Lemma b_add_resp_start t cl iq ip s h : is_nil (t_name t) = false ->
  b_add (mkB t cl iq ip) (BRespStart s h) =
  (mkB (mkTr (t_name t) (t_req t) (t_reqtrailer t) (Some (s, h, [])) (t_err t) (t_events t ++ [TRespStart s h])) cl iq ip,
   None).
Proof. intros Nm. unfold b_add. cbn. rewrite Nm. reflexivity. Qed.

Lemma x_flush_req_wf x : x_wf x -> x_wf (x_flush_req x).
Proof.
  intros (A & B & C & D). destruct (x_flush_req_fields x) as (E1 & E2 & E3 & E4 & E5 & E6 & E7).
  destruct (dt_flush_data _ C) as (_ & _ & H & _).
  unfold x_wf. rewrite E1, E2, E3, E5, E6, E7. auto.
Qed.

(* END_STREAM on the request direction *)
Lemma close_req_end sid x : x_wf x ->
  close_stream sid (stream_of x) true ENil = Some (Some (stream_of (x_req_end x)), []) /\ x_wf (x_req_end x).
Proof.
  intros W. pose proof W as (Nm & Er & Hq & Hp).
  destruct (dt_flush_data _ Hq) as (Fl & Fd & Hq' & _).
  split.
  - unfold close_stream. cbn [stream_of s_req s_b s_got s_resp andb is_nil_err]. rewrite Fl.
    fold (bld x). rewrite b_adds_app, (bld_msgs x _ Nm Fd), <- bld_flush_req.
    destruct (x_flush_req_fields x) as (E1 & E2 & E3 & E4 & E5 & E6 & E7).
    unfold bld at 1. cbn [b_adds]. rewrite b_add_req_end by congruence.
    unfold completes, stream_of, x_req_end. cbn. rewrite E1, E2, E3. reflexivity.
  - pose proof (x_flush_req_wf x W) as (A & B & C & D).
    unfold x_wf, x_req_end. cbn. auto.
Qed.

(* the response ends, or the server resets the stream *)
Lemma close_resp_end sid x e : x_wf x -> (x_popen x = false -> is_nil_err e = false) ->
  close_stream sid (stream_of x) false e = Some (None, [CComplete sid (x_resp_end x e)]).
Proof.
  intros W Hne. pose proof W as (Nm & Er & Hq & Hp).
  destruct (dt_flush_data _ Hq) as (Fl & Fd & Hq' & _).
  destruct (x_flush_req_fields x) as (E1 & E2 & E3 & E4 & E5 & E6 & E7).
  unfold close_stream, x_resp_end. cbn [stream_of s_req s_b s_got s_resp andb].
  destruct (x_popen x) eqn:Po.
  - destruct Hp as [Hp Hr]. rewrite Hp, Fl.
    destruct (dt_flush_data _ Hp) as (Fl2 & Fd2 & _). rewrite Fl2.
    fold (bld x). rewrite b_adds_app, (bld_msgs x _ Nm Fd), <- bld_flush_req.
    rewrite <- E2 in Fd2 |- *.
    rewrite b_adds_app, (bld_msgs (x_flush_req x) _ (eq_trans (f_equal is_nil E5) Nm) Fd2), <- bld_flush_resp.
    destruct (x_flush_resp_fields (x_flush_req x)) as (G1 & G2 & G3 & G4 & G5 & G6 & G7).
    unfold bld. cbn [b_adds]. rewrite b_add_resp_end by congruence.
    reflexivity.
  - rewrite Hp. cbn [d_hasb dt_zero]. rewrite (Hne eq_refl). cbn [negb]. rewrite Fl.
    fold (bld x). rewrite b_adds_app, (bld_msgs x _ Nm Fd), <- bld_flush_req.
    unfold bld. cbn [b_adds]. rewrite b_add_resp_end by congruence.
    reflexivity.
Qed.

(* the client resets the stream *)
Lemma close_client_reset sid x c : x_wf x ->
  close_stream sid (stream_of x) true (EStream c) = Some (None, [CComplete sid (x_client_reset x c)]).
Proof.
  intros W. pose proof W as (Nm & Er & Hq & Hp).
  destruct (dt_flush_data _ Hq) as (Fl & Fd & Hq' & _).
  destruct (x_flush_req_fields x) as (E1 & E2 & E3 & E4 & E5 & E6 & E7).
  unfold close_stream, x_client_reset. cbn [stream_of s_req s_b s_got s_resp andb is_nil_err]. rewrite Fl.
  fold (bld x). rewrite b_adds_app, (bld_msgs x _ Nm Fd), <- bld_flush_req.
  unfold bld. cbn [b_adds]. rewrite b_add_req_reset by congruence.
  reflexivity.
Qed.

(* ---------------------------------------------------------------------------------------- *)
(* one production = one handleFrame                                                         *)
(* ---------------------------------------------------------------------------------------- *)
Lemma x_req_data_wf x data : x_wf x -> x_wf (x_req_data x data).
Proof.
  intros (A & B & C & D). unfold x_req_data. destruct (dt_trace (x_dq x) data) as [d evs] eqn:T.
  apply dt_trace_data in T. destruct T as [_ H]. apply x_msgs_wf. unfold x_wf. cbn. rewrite H. auto.
Qed.

Lemma x_resp_data_wf x data : x_wf x -> x_popen x = true -> x_wf (x_resp_data x data).
Proof.
  intros (A & B & C & D) Po. rewrite Po in D. unfold x_resp_data. destruct (dt_trace (x_dp x) data) as [d evs] eqn:T.
  apply dt_trace_data in T. destruct T as [_ H]. apply x_msgs_wf. unfold x_wf. cbn. rewrite Po, H. auto.
Qed.

Lemma x_resp_start_wf x fs : x_wf x -> x_wf (x_resp_start x fs) /\ x_popen (x_resp_start x fs) = true.
Proof. intros (A & B & C & D). unfold x_wf, x_resp_start. cbn. repeat split; auto. discriminate. Qed.

Lemma x_set_reqtrailer_wf x tr : x_wf x -> x_wf (x_set_reqtrailer x tr).
Proof. intros (A & B & C & D). unfold x_wf, x_set_reqtrailer. cbn. auto. Qed.

Lemma x_set_trailer_wf x tr : x_wf x -> x_popen x = true -> x_wf (x_set_trailer x tr) /\ x_popen (x_set_trailer x tr) = true.
Proof.
  intros (A & B & C & D) Po. rewrite Po in D. destruct D as [D1 D2]. unfold x_wf, x_set_trailer. cbn. rewrite Po.
  repeat split; auto. destruct (t_resp (x_tr x)) as [[[s h] t0]|]; [discriminate|congruence].
Qed.

Lemma loc_req_data sid x data mx : x_wf x ->
  sm_local (Some (stream_of x)) mx true (FData sid false data) = Some (USet (stream_of (x_req_data x data)), []).
Proof.
  intros (Nm & Er & Hq & Hp). unfold sm_local, x_req_data. cbn [stream_of s_req s_b s_got s_resp].
  destruct (dt_trace (x_dq x) data) as [d evs] eqn:T. apply dt_trace_data in T. destruct T as [Fd _].
  cbn [s_b s_req s_got s_resp].
  set (x1 := mkX (x_tr x) (x_nq x) (x_np x) d (x_dp x) (x_qopen x) (x_popen x)).
  change (mkB (x_tr x) false (x_nq x) (x_np x)) with (bld x1).
  rewrite (bld_msgs x1 evs Nm Fd).
  destruct (x_msgs_fields x1 evs) as (E1 & E2 & E3 & E4 & _).
  unfold stream_of, bld, completes. cbn. rewrite E1, E2, E4. reflexivity.
Qed.

Lemma loc_req_data_end sid x data mx : x_wf x ->
  sm_local (Some (stream_of x)) mx true (FData sid true data) =
  Some (USet (stream_of (x_req_end (x_req_data x data))), []).
Proof.
  intros W. pose proof (x_req_data_wf x data W) as W1. pose proof W as (Nm & Er & Hq & Hp).
  unfold sm_local. cbn [stream_of s_req s_b s_got s_resp].
  pose proof (close_req_end sid _ W1) as [Cl _]. revert Cl. unfold x_req_data.
  destruct (dt_trace (x_dq x) data) as [d evs] eqn:T. apply dt_trace_data in T. destruct T as [Fd _].
  cbn [s_b s_req s_got s_resp].
  set (x1 := mkX (x_tr x) (x_nq x) (x_np x) d (x_dp x) (x_qopen x) (x_popen x)).
  change (mkB (x_tr x) false (x_nq x) (x_np x)) with (bld x1).
  rewrite (bld_msgs x1 evs Nm Fd).
  destruct (x_msgs_fields x1 evs) as (E1 & E2 & E3 & E4 & _).
  intros Cl.
  replace (mkS (bld (x_msgs x1 evs)) d (x_popen x) (x_dp x)) with (stream_of (x_msgs x1 evs))
    by (unfold stream_of, bld; rewrite E1, E2, E4; reflexivity).
  rewrite Cl. reflexivity.
Qed.

Lemma loc_resp_data sid x data mx : x_wf x -> x_popen x = true ->
  sm_local (Some (stream_of x)) mx false (FData sid false data) = Some (USet (stream_of (x_resp_data x data)), []).
Proof.
  intros (Nm & Er & Hq & Hp) Po. unfold sm_local, x_resp_data. cbn [stream_of s_req s_b s_got s_resp].
  destruct (dt_trace (x_dp x) data) as [d evs] eqn:T. apply dt_trace_data in T. destruct T as [Fd _].
  cbn [s_b s_req s_got s_resp].
  set (x1 := mkX (x_tr x) (x_nq x) (x_np x) (x_dq x) d (x_qopen x) (x_popen x)).
  change (mkB (x_tr x) false (x_nq x) (x_np x)) with (bld x1).
  rewrite (bld_msgs x1 evs Nm Fd).
  destruct (x_msgs_fields x1 evs) as (E1 & E2 & E3 & E4 & _).
  unfold stream_of, bld, completes. cbn. rewrite E1, E2, E4. reflexivity.
Qed.

Lemma loc_resp_data_end sid x data mx : x_wf x -> x_popen x = true ->
  sm_local (Some (stream_of x)) mx false (FData sid true data) =
  Some (UDel, [CComplete sid (x_resp_end (x_resp_data x data) ENil)]).
Proof.
  intros W Po. pose proof (x_resp_data_wf x data W Po) as W1. pose proof W as (Nm & Er & Hq & Hp).
  unfold sm_local. cbn [stream_of s_req s_b s_got s_resp].
  assert (Po1 : x_popen (x_resp_data x data) = true).
  { unfold x_resp_data. destruct (dt_trace (x_dp x) data) as [d evs].
    destruct (x_msgs_fields (mkX (x_tr x) (x_nq x) (x_np x) (x_dq x) d (x_qopen x) (x_popen x)) evs) as (_ & _ & _ & E4 & _).
    rewrite E4. exact Po. }
  assert (Cl := close_resp_end sid _ ENil W1). revert Cl. unfold x_resp_data in *.
  destruct (dt_trace (x_dp x) data) as [d evs] eqn:T. apply dt_trace_data in T. destruct T as [Fd _].
  cbn [s_b s_req s_got s_resp].
  set (x1 := mkX (x_tr x) (x_nq x) (x_np x) (x_dq x) d (x_qopen x) (x_popen x)) in *.
  change (mkB (x_tr x) false (x_nq x) (x_np x)) with (bld x1).
  rewrite (bld_msgs x1 evs Nm Fd).
  destruct (x_msgs_fields x1 evs) as (E1 & E2 & E3 & E4 & _).
  intros Cl.
  replace (mkS (bld (x_msgs x1 evs)) (x_dq x) (x_popen x) d) with (stream_of (x_msgs x1 evs))
    by (unfold stream_of, bld; rewrite E1, E2, E4; reflexivity).
  rewrite Cl; [reflexivity|]. rewrite Po1. discriminate.
Qed.

Lemma loc_req_trailers sid x fs mx : x_wf x ->
  sm_local (Some (stream_of x)) mx true (FHeaders sid true fs) =
  Some (USet (stream_of (x_req_end (x_set_reqtrailer x (make_headers fs)))), []).
Proof.
  intros W. pose proof (x_set_reqtrailer_wf x (make_headers fs) W) as W1.
  destruct (close_req_end sid _ W1) as [Cl _].
  unfold sm_local. cbn [stream_of s_req s_b s_got s_resp b_cleared negb andb b_trace b_req b_resp app].
  change (mkS _ (x_dq x) (x_popen x) (x_dp x)) with (stream_of (x_set_reqtrailer x (make_headers fs))).
  rewrite Cl. reflexivity.
Qed.

Lemma loc_resp_headers sid x fs mx : x_wf x -> x_popen x = false ->
  sm_local (Some (stream_of x)) mx false (FHeaders sid false fs) = Some (USet (stream_of (x_resp_start x fs)), []).
Proof.
  intros (Nm & Er & Hq & Hp) Po. rewrite Po in Hp.
  unfold sm_local. cbn [stream_of s_req s_b s_got s_resp negb andb]. rewrite Po. cbn [negb andb].
  rewrite b_add_resp_start by exact Nm. rewrite Hp. reflexivity.
Qed.

Lemma loc_resp_only sid x fs mx : x_wf x -> x_popen x = false ->
  sm_local (Some (stream_of x)) mx false (FHeaders sid true fs) =
  Some (UDel, [CComplete sid (x_resp_end (x_resp_start x fs) ENil)]).
Proof.
  intros W Po. destruct (x_resp_start_wf x fs W) as [W1 Po1]. pose proof W as (Nm & Er & Hq & Hp). rewrite Po in Hp.
  assert (Cl := close_resp_end sid _ ENil W1).
  unfold sm_local. cbn [stream_of s_req s_b s_got s_resp negb andb]. rewrite Po. cbn [negb andb].
  rewrite b_add_resp_start by exact Nm. rewrite Hp.
  change (mkS _ (x_dq x) true _) with (stream_of (x_resp_start x fs)).
  rewrite Cl; [reflexivity|]. rewrite Po1. discriminate.
Qed.

Lemma loc_resp_trailers sid x fs mx : x_wf x -> x_popen x = true ->
  sm_local (Some (stream_of x)) mx false (FHeaders sid true fs) =
  Some (UDel, [CComplete sid (x_resp_end (x_set_trailer x (make_headers fs)) ENil)]).
Proof.
  destruct x as [t nq np dq dp qo po]. cbn [x_popen]. intros W Po. subst po.
  destruct (x_set_trailer_wf _ (make_headers fs) W eq_refl) as [W1 Po1].
  pose proof W as (Nm & Er & Hq & Hp). cbn in Hp. destruct Hp as [Hp Hr].
  assert (Cl := close_resp_end sid _ ENil W1).
  unfold sm_local. cbn [stream_of s_req s_b s_got s_resp negb andb x_popen x_tr x_nq x_np x_dq x_dp b_trace].
  revert Cl. unfold x_set_trailer. cbn [x_tr x_nq x_np x_dq x_dp x_qopen x_popen].
  destruct (t_resp t) as [[[stt h] tr0]|] eqn:R; [|congruence].
  intros Cl. cbn [b_cleared b_req b_resp].
  unfold stream_of in Cl. cbn [x_tr x_nq x_np x_dq x_dp x_qopen x_popen] in Cl.
  rewrite Cl; [reflexivity|]. discriminate.
Qed.

Lemma loc_rst_server sid x c mx : x_wf x ->
  sm_local (Some (stream_of x)) mx false (FRst sid c) = Some (UDel, [CComplete sid (x_resp_end x (EStream c))]).
Proof. intros W. unfold sm_local. rewrite close_resp_end; [reflexivity|exact W|reflexivity]. Qed.

Lemma loc_rst_client sid x c mx : x_wf x ->
  sm_local (Some (stream_of x)) mx true (FRst sid c) = Some (UDel, [CComplete sid (x_client_reset x c)]).
Proof. intros W. unfold sm_local. rewrite close_client_reset; [reflexivity|exact W]. Qed.

(* ---------------------------------------------------------------------------------------- *)
(* a well-formed stream with a test name, alone on the connection                           *)
(* ---------------------------------------------------------------------------------------- *)
Lemma frame_on_single client sid v mx isreq f u acts :
  fsid f = Some sid -> sm_local (Some v) mx isreq f = Some (u, acts) ->
  sm_frame client (mkSM [(sid, v)] mx) isreq f =
  Some (mkSM (match u with UKeep => [(sid, v)] | USet v' => [(sid, v')] | UDel => [] end) mx, acts).
Proof.
  intros Ft L.
  assert (X : sm_frame client (mkSM [(sid, v)] mx) isreq f =
              match sm_local (m_get sid [(sid, v)]) mx isreq f with
              | None => None
              | Some (u, acts) => Some (mkSM (apply_upd sid u [(sid, v)]) mx, acts)
              end).
  { destruct f; simpl in Ft; inversion Ft; subst; reflexivity. }
  rewrite X. cbn [m_get]. rewrite N.eqb_refl, L.
  destruct u; unfold apply_upd, m_set, m_del; simpl; rewrite ?N.eqb_refl; reflexivity.
Qed.

Lemma fos client sid v mx isreq f u acts :
  sm_local (Some v) mx isreq f = Some (u, acts) -> fsid f = Some sid ->
  sm_frame client (mkSM [(sid, v)] mx) isreq f =
  Some (mkSM (match u with UKeep => [(sid, v)] | USet v' => [(sid, v')] | UDel => [] end) mx, acts).
Proof. intros L Ft. apply frame_on_single; assumption. Qed.

Lemma late_run client sid mx : forall r, Forall (late sid) r ->
  sm_run client (mkSM [] mx) r = Some (mkSM [] mx, []).
Proof.
  induction r as [|[isreq f] r IH]; intros F; [reflexivity|].
  inversion F as [|? ? Fe Fr]; subst. cbn [sm_run].
  destruct f; simpl in Fe; try contradiction; subst; simpl; rewrite (IH Fr); reflexivity.
Qed.

Definition acts_of (sid : N) (o : outcome) : list cact :=
  match o with Done t => [CComplete sid t] | Open _ => [] end.
Definition table_of (sid : N) (o : outcome) : list (N * stream) :=
  match o with Done _ => [] | Open x => [(sid, stream_of x)] end.

Lemma steps_run client sid : forall x r o, steps sid x r o -> x_wf x -> forall mx,
  sm_run client (mkSM [(sid, stream_of x)] mx) r = Some (mkSM (table_of sid o) mx, acts_of sid o) /\
  match o with Open x' => x_wf x' | Done _ => True end.
Proof.
  induction 1 as [x|x data r o Q _ IH|x data r o Q _ IH|x fs r o Q _ IH|x fs r o P _ IH|x fs r P La
                  |x data r o P _ IH|x data r P La|x fs r P La|x code r La|x code r La]; intros W mx.
  - split; [reflexivity|exact W].
  - cbn [sm_run]. rewrite (fos client sid _ mx _ _ _ _ (loc_req_data sid x data mx W) eq_refl).
    destruct (IH (x_req_data_wf x data W) mx) as [E K]. rewrite E. split; [reflexivity|exact K].
  - cbn [sm_run]. rewrite (fos client sid _ mx _ _ _ _ (loc_req_data_end sid x data mx W) eq_refl).
    destruct (close_req_end sid _ (x_req_data_wf x data W)) as [_ W1].
    destruct (IH W1 mx) as [E K]. rewrite E. split; [reflexivity|exact K].
  - cbn [sm_run]. rewrite (fos client sid _ mx _ _ _ _ (loc_req_trailers sid x fs mx W) eq_refl).
    destruct (close_req_end sid _ (x_set_reqtrailer_wf x (make_headers fs) W)) as [_ W1].
    destruct (IH W1 mx) as [E K]. rewrite E. split; [reflexivity|exact K].
  - cbn [sm_run]. rewrite (fos client sid _ mx _ _ _ _ (loc_resp_headers sid x fs mx W P) eq_refl).
    destruct (x_resp_start_wf x fs W) as [W1 _].
    destruct (IH W1 mx) as [E K]. rewrite E. split; [reflexivity|exact K].
  - cbn [sm_run]. rewrite (fos client sid _ mx _ _ _ _ (loc_resp_only sid x fs mx W P) eq_refl).
    rewrite (late_run client sid mx r La). split; [reflexivity|exact Logic.I].
  - cbn [sm_run]. rewrite (fos client sid _ mx _ _ _ _ (loc_resp_data sid x data mx W P) eq_refl).
    destruct (IH (x_resp_data_wf x data W P) mx) as [E K]. rewrite E. split; [reflexivity|exact K].
  - cbn [sm_run]. rewrite (fos client sid _ mx _ _ _ _ (loc_resp_data_end sid x data mx W P) eq_refl).
    rewrite (late_run client sid mx r La). split; [reflexivity|exact Logic.I].
  - cbn [sm_run]. rewrite (fos client sid _ mx _ _ _ _ (loc_resp_trailers sid x fs mx W P) eq_refl).
    rewrite (late_run client sid mx r La). split; [reflexivity|exact Logic.I].
  - cbn [sm_run]. rewrite (fos client sid _ mx _ _ _ _ (loc_rst_server sid x code mx W) eq_refl).
    rewrite (late_run client sid mx r La). split; [reflexivity|exact Logic.I].
  - cbn [sm_run]. rewrite (fos client sid _ mx _ _ _ _ (loc_rst_client sid x code mx W) eq_refl).
    rewrite (late_run client sid mx r La). split; [reflexivity|exact Logic.I].
Qed.

Lemma q_hdrs_make_request fs : q_hdrs (make_request fs) = make_headers fs.
Proof. unfold make_request. destruct (split_q _) as [p q]. reflexivity. Qed.

Lemma new_stream_start fs : new_stream fs = stream_of (x_start fs).
Proof. unfold new_stream, stream_of, x_start. cbn. rewrite q_hdrs_make_request. reflexivity. Qed.

Lemma x_start_wf fs : is_nil (test_name fs) = false -> x_wf (x_start fs).
Proof. intros Nm. unfold x_wf, x_start. cbn. auto. Qed.

(* the name an exchange carries: that of its request HEADERS *)
Definition first_name (frames : list (bool * dframe)) : bytes :=
  match frames with (_, FHeaders _ _ fs) :: _ => test_name fs | _ => [] end.

Lemma exchange_named_run client sid frames o : exchange sid frames o -> is_nil (first_name frames) = false ->
  sm_run client sm_init frames = Some (mkSM (table_of sid o) 0, CNew (first_name frames) :: acts_of sid o) /\
  match o with Open x' => x_wf x' | Done _ => True end.
Proof.
  intros X Nm. destruct X as [fs r o S|fs r o S]; cbn [first_name] in *.
  - destruct (steps_run client sid _ _ _ S (x_start_wf fs Nm) 0) as [E K].
    cbn [sm_run]. unfold sm_frame. cbn [fsid sm_init m_streams m_max m_get sm_local negb N.eqb andb app apply_upd m_set m_del filter].
    change (m_set sid (new_stream fs) []) with [(sid, new_stream fs)].
    rewrite new_stream_start, E. split; [reflexivity|exact K].
  - destruct (close_req_end sid _ (x_start_wf fs Nm)) as [Cl W1].
    destruct (steps_run client sid _ _ _ S W1 0) as [E K].
    cbn [sm_run]. unfold sm_frame. cbn [fsid sm_init m_streams m_max m_get sm_local negb N.eqb andb app apply_upd m_set m_del filter].
    rewrite new_stream_start, Cl. cbn [close_upd apply_upd app].
    change (m_set sid (stream_of (x_req_end (x_start fs))) []) with [(sid, stream_of (x_req_end (x_start fs)))].
    rewrite E. split; [reflexivity|exact K].
Qed.

(* ---------------------------------------------------------------------------------------- *)
(* streams without test name                                                                *)
(* ---------------------------------------------------------------------------------------- *)
Definition nameless (v : stream) : Prop := is_nil (t_name (b_trace (s_b v))) = true.

Lemma all_completions_app a b : all_completions (a ++ b) = all_completions a ++ all_completions b.
Proof. unfold all_completions. apply flat_map_app. Qed.

Lemma all_completions_none s acts : all_completions acts = [] -> completions_of s acts = [].
Proof.
  induction acts as [|a r IH]; [reflexivity|]. simpl. destruct a; simpl; auto; try discriminate.
Qed.

Lemma tagged_all t acts : tagged t acts -> all_completions acts = completions_of t acts.
Proof.
  induction 1 as [|a r Ha _ IH]; [reflexivity|]. simpl. destruct a as [n|s' tr|n|]; simpl; auto.
  subst s'. rewrite N.eqb_refl, IH. reflexivity.
Qed.

Lemma close_stream_nameless sid v isreq e r acts : nameless v ->
  close_stream sid v isreq e = Some (r, acts) -> acts = [] /\ (forall v', r = Some v' -> nameless v').
Proof.
  unfold nameless, close_stream. intros Nm. destruct isreq.
  - destruct (dt_flush (s_req v)) as [[rq evs]|]; [|discriminate].
    rewrite (b_adds_nameless _ _ Nm). intros E; inversion E; subst. split; [reflexivity|].
    intros v'. destruct (is_nil_err e); [|intros X; discriminate X]. intros X; inversion X; subst. exact Nm.
  - cbn [andb]. destruct (d_hasb (s_resp v)).
    + destruct (dt_flush (s_req v)) as [[rq evs]|]; [|discriminate].
      destruct (dt_flush (s_resp v)) as [[rs evs2]|]; [|discriminate].
      rewrite (b_adds_nameless _ _ Nm). intros E; inversion E; subst. split; [reflexivity|intros v' X; discriminate X].
    + destruct (negb (is_nil_err e)).
      * destruct (dt_flush (s_req v)) as [[rq evs]|]; [|discriminate].
        rewrite (b_adds_nameless _ _ Nm). intros E; inversion E; subst. split; [reflexivity|intros v' X; discriminate X].
      * intros E; inversion E; subst. split; [reflexivity|intros v' X; discriminate X].
Qed.

Lemma close_upd_nameless sid v isreq e pre u acts : nameless v -> all_completions pre = [] ->
  close_upd (close_stream sid v isreq e) pre = Some (u, acts) ->
  all_completions acts = [] /\ (forall v', u = USet v' -> nameless v').
Proof.
  intros Nm Pre. destruct (close_stream sid v isreq e) as [[r a]|] eqn:C; [|discriminate].
  destruct (close_stream_nameless _ _ _ _ _ _ Nm C) as [-> K].
  destruct r as [v2|]; simpl; intros E; inversion E; subst; rewrite app_nil_r; (split; [exact Pre|]).
  - intros v' X; inversion X; subst. apply K; reflexivity.
  - intros v' X; discriminate X.
Qed.

Lemma sm_local_nameless g mx isreq f u acts :
  (forall v, g = Some v -> nameless v) ->
  (g = None -> isreq = true -> forall s' es fs, f = FHeaders s' es fs -> is_nil (test_name fs) = true) ->
  sm_local g mx isreq f = Some (u, acts) ->
  all_completions acts = [] /\ (forall v', u = USet v' -> nameless v').
Proof.
  intros G Hn. destruct f as [sid es fs|sid es data|sid code|last code|]; simpl;
    try (intros E; inversion E; subst; split; [reflexivity|intros v' X; discriminate X]).
  - (* HEADERS *)
    assert (Fin : forall s1 acts01, nameless s1 -> all_completions acts01 = [] ->
              (if es then close_upd (close_stream sid s1 isreq ENil) acts01 else Some (USet s1, acts01)) = Some (u, acts) ->
              all_completions acts = [] /\ (forall v', u = USet v' -> nameless v')).
    { intros s1 a01 N1 A. destruct es.
      - apply close_upd_nameless; assumption.
      - intros E; inversion E; subst. split; [exact A|]. intros v' X; inversion X; subst. exact N1. }
    destruct g as [v|].
    + pose proof (G v eq_refl) as Nv. unfold nameless in Nv.
      destruct (negb isreq && negb (s_got v)).
      * rewrite (b_add_nameless _ _ Nv). apply Fin; [exact Nv|reflexivity].
      * destruct isreq.
        -- destruct (b_cleared (s_b v)); [discriminate|]. apply Fin; [exact Nv|reflexivity].
        -- destruct (t_resp (b_trace (s_b v))) as [[[stt h] tr]|]; apply Fin; try exact Nv; reflexivity.
    + destruct isreq; cbn [negb]; [|intros E; inversion E; subst; split; [reflexivity|intros v' X; discriminate X]].
      destruct (negb (mx =? 0) && (mx <? sid)); [intros E; inversion E; subst; split; [reflexivity|intros v' X; discriminate X]|].
      apply Fin; [|reflexivity]. unfold nameless, new_stream. cbn. exact (Hn eq_refl eq_refl _ _ _ eq_refl).
  - (* DATA *)
    destruct g as [v|]; [|intros E; inversion E; subst; split; [reflexivity|intros v' X; discriminate X]].
    pose proof (G v eq_refl) as Nv. unfold nameless in Nv.
    destruct isreq.
    + destruct (dt_trace (s_req v) data) as [d evs]. cbv beta iota. cbn [s_b s_req s_got s_resp].
      rewrite (b_adds_nameless _ _ Nv). destruct es.
      * apply close_upd_nameless; [exact Nv|reflexivity].
      * intros E; inversion E; subst. split; [reflexivity|]. intros v' X; inversion X; subst. exact Nv.
    + destruct (dt_trace (s_resp v) data) as [d evs]. cbv beta iota. cbn [s_b s_req s_got s_resp].
      rewrite (b_adds_nameless _ _ Nv). destruct es.
      * apply close_upd_nameless; [exact Nv|reflexivity].
      * intros E; inversion E; subst. split; [reflexivity|]. intros v' X; inversion X; subst. exact Nv.
  - (* RST *)
    destruct g as [v|]; [|intros E; inversion E; subst; split; [reflexivity|intros v' X; discriminate X]].
    apply close_upd_nameless; [apply G; reflexivity|reflexivity].
Qed.

Lemma abandon_resp_nameless k v e x : nameless v -> abandon_resp k v e = Some x -> x = [].
Proof.
  unfold nameless, abandon_resp. intros Nm. destruct (dt_flush (s_req v)) as [[rq evs]|]; [|discriminate].
  destruct (if d_hasb (s_resp v) then dt_flush (s_resp v) else Some (s_resp v, [])) as [[rs evs2]|]; [|discriminate].
  rewrite (b_adds_nameless _ _ Nm). intros E; inversion E; reflexivity.
Qed.

Lemma abandon_req_nameless k v e x : nameless v -> abandon_req k v e = Some x -> x = [].
Proof.
  unfold nameless, abandon_req. intros Nm. destruct (dt_flush (s_req v)) as [[rq evs]|]; [|discriminate].
  rewrite (b_adds_nameless _ _ Nm). intros E; inversion E; reflexivity.
Qed.

(* all entries of the table with key s *)
Definition nameless_at (s : N) (st : sm) : Prop := Forall (fun e => nameless (snd e)) (sview s (m_streams st)).

Lemma nameless_at_get s st v : nameless_at s st -> m_get s (m_streams st) = Some v -> nameless v.
Proof.
  unfold nameless_at. rewrite m_get_sview. destruct (sview s (m_streams st)) as [|e r]; [discriminate|].
  intros F E; inversion E; subst. inversion F; assumption.
Qed.

Lemma no_name_gen client s : forall fs st st' acts,
  no_name_on s fs -> nameless_at s st -> sm_run client st fs = Some (st', acts) ->
  completions_of s acts = [] /\ nameless_at s st'.
Proof.
  induction fs as [|[isreq f] r IH]; intros st st' acts H NI; simpl.
  - intros E; inversion E; subst. auto.
  - destruct (sm_frame client st isreq f) as [[m1 b1]|] eqn:F1; [|discriminate].
    destruct (sm_run client m1 r) as [[m1' c1]|] eqn:R1; [|discriminate].
    intros E; inversion E; subst.
    assert (Hr : no_name_on s r) by (intros es fields I; apply (H es fields); right; exact I).
    assert (S : completions_of s b1 = [] /\ nameless_at s m1).
    { destruct (concerns_cases s isreq f) as [[_ [Ft|(last & code & Ef)]]|[_ [(t & Ft & Ne)|Ef]]]; try subst f.
      - assert (X : match sm_local (m_get s (m_streams st)) (m_max st) isreq f with
                    | None => None
                    | Some (u, acts) => Some (mkSM (apply_upd s u (m_streams st)) (m_max st), acts)
                    end = Some (m1, b1)).
        { destruct f; simpl in Ft; inversion Ft; subst; exact F1. }
        destruct (sm_local _ _ _ _) as [[u a]|] eqn:L; [|discriminate]. inversion X; subst.
        assert (Hn : m_get s (m_streams st) = None -> isreq = true ->
                     forall s' es fields, f = FHeaders s' es fields -> is_nil (test_name fields) = true).
        { intros _ Hq s' es fields Ef. subst. simpl in Ft. inversion Ft; subst. apply (H es fields). left; reflexivity. }
        destruct (sm_local_nameless _ _ _ _ _ _ (fun v Gv => nameless_at_get s st v NI Gv) Hn L) as [A K].
        split; [apply all_completions_none; exact A|].
        unfold nameless_at. cbn [m_streams]. rewrite sview_apply_same.
        destruct u as [|v'|]; [exact NI|constructor; [apply K; reflexivity|constructor]|constructor].
      - simpl in F1.
        destruct (abandon_all _ _) as [a|] eqn:A; [|discriminate]. inversion F1; subst. split.
        + rewrite (abandon_all_view _ s (abandon_resp_tagged (EConn code)) _ _ A).
          rewrite sview_filter_gt. destruct (last <? s); [|reflexivity].
          unfold nameless_at in NI. induction NI as [|[k v] l Nv _ IHl]; [reflexivity|].
          simpl. destruct (abandon_resp k v (EConn code)) as [x|] eqn:Ab; [|exact IHl].
          rewrite (abandon_resp_nameless _ _ _ _ Nv Ab). exact IHl.
        + unfold nameless_at. cbn [m_streams]. rewrite sview_filter_le. destruct (last <? s); [constructor|exact NI].
      - destruct (sm_frame_other _ _ _ _ _ _ s t F1 Ft Ne) as [[V _] C]. split; [exact C|].
        unfold nameless_at. rewrite V. exact NI.
      - simpl in F1. inversion F1; subst. split; [reflexivity|exact NI]. }
    destruct S as [C1 NI1]. destruct (IH _ _ _ Hr NI1 R1) as [C2 NI2].
    split; [rewrite completions_app, C1, C2; reflexivity|exact NI2].
Qed.

(* streams whose request headers carry no test name never produce a trace: ANY frames, any other streams *)
Lemma no_name_no_trace_proof : forall client fs s,
  no_name_on s fs ->
  exists st acts, sm_run client sm_init fs = Some (st, acts) /\ completions_of s acts = [].
Proof.
  intros client fs s H.
  destruct (sm_run_ok client fs sm_init) as (st & acts & E & _); [constructor|].
  exists st, acts. split; [exact E|].
  destruct (no_name_gen client s fs sm_init st acts H) as [C _]; [constructor|exact E|exact C].
Qed.

(* ---- a well-formed stream without test name, alone on the connection ---- *)
Lemma close_req_keeps sid s1 r acts : close_stream sid s1 true ENil = Some (r, acts) -> exists v', r = Some v'.
Proof.
  unfold close_stream. destruct (dt_flush (s_req s1)) as [[rq evs]|]; [|discriminate].
  destruct (b_adds _ _) as [b done]. cbn. intros E; inversion E; eauto.
Qed.

Lemma close_upd_req_keeps sid s1 pre u acts :
  close_upd (close_stream sid s1 true ENil) pre = Some (u, acts) -> exists v', u = USet v'.
Proof.
  destruct (close_stream sid s1 true ENil) as [[r a]|] eqn:C; [|discriminate].
  destruct (close_req_keeps _ _ _ _ C) as [v' ->]. simpl. intros E; inversion E; eauto.
Qed.

Definition stays_frame (isreq : bool) (f : dframe) : Prop :=
  match f with FData _ es _ | FHeaders _ es _ => es = false \/ isreq = true | _ => False end.

Lemma sm_local_stays v mx isreq f u acts :
  sm_local (Some v) mx isreq f = Some (u, acts) -> stays_frame isreq f -> exists v', u = USet v'.
Proof.
  destruct f as [sid es fs|sid es data|sid code|last code|]; simpl; [| |intros _ []..].
  - intros E St.
    match type of E with match ?X with _ => _ end = _ => destruct X as [[s1 a1]|] end; [|discriminate].
    destruct es.
    + destruct St as [St|St]; [discriminate|subst isreq]. eapply close_upd_req_keeps; eauto.
    + inversion E; eauto.
  - intros E St. destruct isreq.
    + destruct (dt_trace (s_req v) data) as [d evs]. cbv beta iota in E. destruct (b_adds _ _) as [b done].
      destruct es; [eapply close_upd_req_keeps; eauto|inversion E; eauto].
    + destruct St as [->|St]; [|discriminate].
      destruct (dt_trace (s_resp v) data) as [d evs]. cbv beta iota in E. destruct (b_adds _ _) as [b done].
      inversion E; eauto.
Qed.

Definition tbl (sid : N) (v : stream) (u : upd) : list (N * stream) :=
  match u with UKeep => [(sid, v)] | USet v' => [(sid, v')] | UDel => [] end.

Lemma single_nameless_step client sid v mx isreq f : nameless v -> ok_stream v -> fsid f = Some sid ->
  exists u acts, sm_local (Some v) mx isreq f = Some (u, acts) /\
    sm_frame client (mkSM [(sid, v)] mx) isreq f = Some (mkSM (tbl sid v u) mx, acts) /\
    all_completions acts = [] /\ (forall v', u = USet v' -> nameless v' /\ ok_stream v').
Proof.
  intros Nm Ok Ft.
  destruct (sm_local_ok (Some v) mx isreq f) as (u & acts & L & K).
  { intros v0 E; inversion E; subst; exact Ok. }
  destruct (sm_local_nameless (Some v) mx isreq f u acts) as [A Kn]; [intros v0 E; inversion E; subst; exact Nm|discriminate|exact L|].
  exists u, acts. split; [exact L|]. split; [apply frame_on_single; assumption|]. split; [exact A|].
  intros v' E. split; [apply Kn|apply K]; exact E.
Qed.

Lemma late_nameless client sid mx : forall r, Forall (late sid) r -> forall tb,
  tb = [] \/ (exists v, tb = [(sid, v)] /\ nameless v /\ ok_stream v) ->
  exists st acts, sm_run client (mkSM tb mx) r = Some (st, acts) /\ all_completions acts = [].
Proof.
  induction r as [|[isreq f] r IH]; intros F tb T.
  - eexists; eexists; split; reflexivity.
  - destruct T as [->|(v & -> & Nm & Ok)].
    + rewrite (late_run client sid mx _ F). eexists; eexists; split; reflexivity.
    + inversion F as [|? ? Fe Fr]; subst.
      assert (Ft : fsid f = Some sid) by (destruct f; unfold late in Fe; simpl in Fe; try contradiction; subst; reflexivity).
      destruct (single_nameless_step client sid v mx isreq f Nm Ok Ft) as (u & acts & _ & E & A & K).
      cbn [sm_run]. rewrite E.
      destruct (IH Fr (tbl sid v u)) as (st & a2 & E2 & A2).
      { destruct u as [|v'|]; simpl; [right; eauto|right; exists v'; destruct (K v' eq_refl); auto|left; reflexivity]. }
      rewrite E2. eexists; eexists; split; [reflexivity|]. rewrite all_completions_app, A, A2. reflexivity.
Qed.

(* where a nameless stream still open has been left *)
Definition nameless_left (sid : N) (o : outcome) (st : sm) (mx : N) : Prop :=
  match o with
  | Open _ => exists v', st = mkSM [(sid, v')] mx /\ nameless v' /\ ok_stream v'
  | Done _ => True
  end.

Lemma steps_nameless_run client sid : forall x r o, steps sid x r o -> forall v mx, nameless v -> ok_stream v ->
  exists st acts, sm_run client (mkSM [(sid, v)] mx) r = Some (st, acts) /\ all_completions acts = [] /\
                  nameless_left sid o st mx.
Proof.
  assert (Stay : forall o v mx isreq f r, nameless v -> ok_stream v -> fsid f = Some sid -> stays_frame isreq f ->
            (forall v' mx, nameless v' -> ok_stream v' ->
               exists st acts, sm_run client (mkSM [(sid, v')] mx) r = Some (st, acts) /\ all_completions acts = [] /\
                               nameless_left sid o st mx) ->
            exists st acts, sm_run client (mkSM [(sid, v)] mx) ((isreq, f) :: r) = Some (st, acts) /\
                            all_completions acts = [] /\ nameless_left sid o st mx).
  { intros o v mx isreq f r Nm Ok Ft St IH.
    destruct (single_nameless_step client sid v mx isreq f Nm Ok Ft) as (u & acts & L & E & A & K).
    destruct (sm_local_stays _ _ _ _ _ _ L St) as [v' ->]. destruct (K v' eq_refl) as [Nm' Ok'].
    destruct (IH v' mx Nm' Ok') as (st & a2 & E2 & A2 & NL).
    cbn [sm_run]. rewrite E. cbn [tbl]. rewrite E2. eexists; eexists; split; [reflexivity|].
    split; [|exact NL]. rewrite all_completions_app, A, A2. reflexivity. }
  assert (Fin : forall t v mx isreq f r, nameless v -> ok_stream v -> fsid f = Some sid -> Forall (late sid) r ->
            exists st acts, sm_run client (mkSM [(sid, v)] mx) ((isreq, f) :: r) = Some (st, acts) /\
                            all_completions acts = [] /\ nameless_left sid (Done t) st mx).
  { intros t v mx isreq f r Nm Ok Ft La.
    destruct (single_nameless_step client sid v mx isreq f Nm Ok Ft) as (u & acts & L & E & A & K).
    destruct (late_nameless client sid mx r La (tbl sid v u)) as (st & a2 & E2 & A2).
    { destruct u as [|v'|]; simpl; [right; eauto|right; exists v'; destruct (K v' eq_refl); auto|left; reflexivity]. }
    cbn [sm_run]. rewrite E, E2. eexists; eexists; split; [reflexivity|]. split; [|exact Logic.I].
    rewrite all_completions_app, A, A2. reflexivity. }
  induction 1 as [x|x data r o Q _ IH|x data r o Q _ IH|x fs r o Q _ IH|x fs r o P _ IH|x fs r P La
                  |x data r o P _ IH|x data r P La|x fs r P La|x code r La|x code r La]; intros v mx Nm Ok.
  - eexists; eexists; split; [reflexivity|]. split; [reflexivity|]. exists v. auto.
  - apply Stay; auto. simpl; auto.
  - apply Stay; auto. simpl; auto.
  - apply Stay; auto. simpl; auto.
  - apply Stay; auto. simpl; auto.
  - apply Fin; auto.
  - apply Stay; auto. simpl; auto.
  - apply Fin; auto.
  - apply Fin; auto.
  - apply Fin; auto.
  - apply Fin; auto.
Qed.

Lemma exchange_nameless_run client sid frames o : exchange sid frames o -> is_nil (first_name frames) = true ->
  exists st acts, sm_run client sm_init frames = Some (st, acts) /\ all_completions acts = [] /\
                  nameless_left sid o st 0.
Proof.
  intros X Nm. destruct X as [fs r o S|fs r o S]; cbn [first_name] in Nm.
  - destruct (steps_nameless_run client sid _ _ _ S (new_stream fs) 0) as (st & acts & E & A & NL);
      [exact Nm|apply new_stream_ok|].
    cbn [sm_run]. unfold sm_frame. cbn [fsid sm_init m_streams m_max m_get sm_local negb N.eqb andb app apply_upd].
    change (m_set sid (new_stream fs) []) with [(sid, new_stream fs)].
    rewrite E. eexists; eexists; split; [reflexivity|]. split; [exact A|exact NL].
  - destruct (close_stream_ok sid (new_stream fs) true ENil (new_stream_ok fs)) as (r0 & a0 & C & K).
    destruct (close_stream_nameless _ _ _ _ _ _ (Nm : nameless (new_stream fs)) C) as [-> Kn].
    destruct (close_req_keeps _ _ _ _ C) as [v' ->].
    destruct (steps_nameless_run client sid _ _ _ S v' 0) as (st & acts & E & A & NL); [apply Kn; reflexivity|apply K; reflexivity|].
    cbn [sm_run]. unfold sm_frame. cbn [fsid sm_init m_streams m_max m_get sm_local negb N.eqb andb app apply_upd].
    rewrite C. cbn [close_upd apply_upd app].
    change (m_set sid v' []) with [(sid, v')].
    rewrite E. eexists; eexists; split; [reflexivity|]. split; [exact A|exact NL].
Qed.

(* ---------------------------------------------------------------------------------------- *)
(* single_stream_trace_content                                                              *)
(* ---------------------------------------------------------------------------------------- *)
Lemma steps_name sid : forall x r o, steps sid x r o ->
  match o with Done t => t_name t = t_name (x_tr x) | Open x' => t_name (x_tr x') = t_name (x_tr x) end.
Proof.
  assert (M : forall x evs, t_name (x_tr (x_msgs x evs)) = t_name (x_tr x)) by (intros; apply x_msgs_fields).
  assert (Fq : forall x, t_name (x_tr (x_flush_req x)) = t_name (x_tr x)) by (intros; apply x_flush_req_fields).
  assert (Fp : forall x, t_name (x_tr (x_flush_resp x)) = t_name (x_tr x)) by (intros; apply x_flush_resp_fields).
  assert (Dq : forall x data, t_name (x_tr (x_req_data x data)) = t_name (x_tr x)).
  { intros. unfold x_req_data. destruct (dt_trace _ _). rewrite M. reflexivity. }
  assert (Dp : forall x data, t_name (x_tr (x_resp_data x data)) = t_name (x_tr x)).
  { intros. unfold x_resp_data. destruct (dt_trace _ _). rewrite M. reflexivity. }
  assert (Qe : forall x, t_name (x_tr (x_req_end x)) = t_name (x_tr x)).
  { intros. unfold x_req_end. cbn. apply Fq. }
  assert (Re : forall x e, t_name (x_resp_end x e) = t_name (x_tr x)).
  { intros. unfold x_resp_end, x_done. cbn. destruct (x_popen x); rewrite ?Fp, Fq; reflexivity. }
  induction 1; try (rewrite ?Re, ?Dp; reflexivity);
    try (destruct o; rewrite IHsteps, ?Qe, ?Dq, ?Dp; reflexivity).
  unfold x_client_reset, x_done. cbn. apply Fq.
Qed.

Lemma exchange_name sid frames o : exchange sid frames o ->
  match o with Done t => t_name t = first_name frames | Open x' => t_name (x_tr x') = first_name frames end.
Proof.
  intros X. destruct X as [fs r o S|fs r o S]; apply steps_name in S; destruct o; auto; cbn [first_name].
Qed.

(* every exchange the grammar generates, alone on a connection: the run exists, the stream hands the
   collector exactly the expected traces (one if it carries a test name and ended, else none) and
   nothing else is completed *)
Lemma single_stream_trace_content_proof : forall client sid frames o,
  exchange sid frames o ->
  exists st acts, sm_run client sm_init frames = Some (st, acts) /\
    all_completions acts = traces_of o /\ completions_of sid acts = traces_of o /\
    (forall t, o = Done t -> is_nil (t_name t) = false -> m_get sid (m_streams st) = None).
Proof.
  intros client sid frames o X. pose proof (exchange_name sid frames o X) as Hn.
  destruct (is_nil (first_name frames)) eqn:Nm.
  - destruct (exchange_nameless_run client sid frames o X Nm) as (st & acts & E & A & _).
    exists st, acts. split; [exact E|].
    assert (T : traces_of o = []) by (destruct o; cbn; [rewrite Hn, Nm|]; reflexivity).
    rewrite T. split; [exact A|]. split; [apply all_completions_none; exact A|].
    intros t Eo Nt. subst o. rewrite Hn, Nm in Nt. discriminate.
  - destruct (exchange_named_run client sid frames o X Nm) as [E K].
    eexists; eexists; split; [exact E|].
    assert (T : traces_of o = all_completions (acts_of sid o)).
    { destruct o; cbn; [rewrite Hn, Nm|]; reflexivity. }
    split; [cbn; symmetry; exact T|]. split.
    + rewrite T. destruct o; cbn; rewrite ?N.eqb_refl; reflexivity.
    + intros t -> _. reflexivity.
Qed.

(* ---------------------------------------------------------------------------------------- *)
(* all interleavings of any number of well-formed streams                                   *)
(* ---------------------------------------------------------------------------------------- *)
Lemma concerns_own s : forall fs, Forall (fun f => is_goaway (snd f) = false) fs ->
  filter (concerns s) fs = filter (own s) fs.
Proof.
  induction 1 as [|[isreq f] r Hf _ IH]; [reflexivity|]. simpl. rewrite IH.
  unfold concerns, own. destruct f; simpl in *; try reflexivity. discriminate.
Qed.

Definition tags_in (l : list N) (acts : list cact) : Prop :=
  Forall (fun a => match a with CComplete s' _ => In s' l | _ => True end) acts.

Lemma tagged_tags_in t l acts : tagged t acts -> In t l -> tags_in l acts.
Proof.
  intros T I. unfold tags_in, tagged in *. eapply Forall_impl; [|exact T].
  intros a. destruct a; auto. intros ->. exact I.
Qed.

Lemma run_tags client l : forall fs st st' acts,
  Forall (fun f => is_goaway (snd f) = false /\ forall t, fsid (snd f) = Some t -> In t l) fs ->
  sm_run client st fs = Some (st', acts) -> tags_in l acts.
Proof.
  induction fs as [|[isreq f] r IH]; intros st st' acts F; simpl.
  - intros E; inversion E; constructor.
  - inversion F as [|? ? [Hg Hf] Fr]; subst. simpl in Hg, Hf.
    destruct (sm_frame client st isreq f) as [[m1 b1]|] eqn:F1; [|discriminate].
    destruct (sm_run client m1 r) as [[m1' c1]|] eqn:R1; [|discriminate].
    intros E; inversion E; subst. apply Forall_app. split; [|eapply IH; eauto].
    destruct (fsid f) as [t|] eqn:Ft.
    + assert (X : match sm_local (m_get t (m_streams st)) (m_max st) isreq f with
                  | None => None
                  | Some (u, acts) => Some (mkSM (apply_upd t u (m_streams st)) (m_max st), acts)
                  end = Some (m1, b1)).
      { destruct f; simpl in Ft; inversion Ft; subst; exact F1. }
      destruct (sm_local _ _ _ _) as [[u a]|] eqn:L; [|discriminate]. inversion X; subst.
      eapply tagged_tags_in; [eapply sm_local_tagged; eauto|apply Hf; reflexivity].
    + destruct f; simpl in Ft, Hg; try discriminate. simpl in F1. inversion F1; constructor.
Qed.

Lemma flat_map_not_in {A} (g : N -> list A) s' t : forall l, ~ In s' l ->
  flat_map (fun s => (if s' =? s then [t] else []) ++ g s) l = flat_map g l.
Proof.
  induction l as [|s0 l IH]; intros Ni; [reflexivity|]. simpl.
  destruct (N.eqb_spec s' s0) as [->|Ne]; [exfalso; apply Ni; left; reflexivity|].
  rewrite IH; [reflexivity|]. intros I; apply Ni; right; exact I.
Qed.

Lemma flat_map_insert {A} (g : N -> list A) s' t : forall l, NoDup l -> In s' l ->
  Permutation (flat_map (fun s => (if s' =? s then [t] else []) ++ g s) l) (t :: flat_map g l).
Proof.
  induction l as [|s0 l IH]; intros ND I; [destruct I|]. inversion ND as [|? ? Ni ND']; subst. simpl.
  destruct (N.eqb_spec s' s0) as [->|Ne].
  - rewrite (flat_map_not_in g s0 t l Ni). simpl. apply Permutation_refl.
  - destruct I as [I|I]; [congruence|]. simpl.
    eapply Permutation_trans; [apply Permutation_app_head, (IH ND' I)|].
    apply Permutation_sym, Permutation_middle.
Qed.

Lemma completions_partition l : NoDup l -> forall acts, tags_in l acts ->
  Permutation (all_completions acts) (flat_map (fun s => completions_of s acts) l).
Proof.
  intros ND. induction acts as [|a r IH]; intros T.
  - simpl. replace (flat_map (fun _ : N => @nil btrace) l) with (@nil btrace); [constructor|].
    clear. induction l; simpl; auto.
  - inversion T as [|? ? Ta Tr]; subst. specialize (IH Tr).
    destruct a as [n|s' t|n|]; try exact IH.
    simpl. eapply Permutation_trans; [apply perm_skip, IH|].
    apply Permutation_sym.
    apply (flat_map_insert (fun s => completions_of s r) s' t l ND Ta).
Qed.

Lemma sm_run_det client st fs r1 r2 : sm_run client st fs = Some r1 -> sm_run client st fs = Some r2 -> r1 = r2.
Proof. congruence. Qed.

(* any interleaving of any number of well-formed streams with distinct ids: every stream hands over exactly
   its expected traces, and all traces completed on the connection are, as a multiset, the expected ones *)
Lemma wellformed_interleaving_traces_proof : forall client xs fs,
  interleaving_of xs fs ->
  exists st acts, sm_run client sm_init fs = Some (st, acts) /\
    (forall e, In e xs -> completions_of (xc_sid e) acts = traces_of (xc_out e)) /\
    Permutation (all_completions acts) (flat_map (fun e => traces_of (xc_out e)) xs).
Proof.
  intros client xs fs (ND & FX & FF).
  destruct (sm_run_ok client fs sm_init) as (st & acts & E & _); [constructor|].
  exists st, acts. split; [exact E|].
  assert (NG : Forall (fun f => is_goaway (snd f) = false) fs).
  { eapply Forall_impl; [|exact FF]. intros f [H _]; exact H. }
  assert (Each : forall e, In e xs -> completions_of (xc_sid e) acts = traces_of (xc_out e)).
  { intros e I. rewrite Forall_forall in FX. destruct (FX e I) as [X Pr].
    destruct (stream_independent_proof client fs (xc_sid e)) as (st1 & a1 & st2 & a2 & E1 & E2 & C & _).
    rewrite (concerns_own _ _ NG), Pr in E2.
    destruct (single_stream_trace_content_proof client _ _ _ X) as (st3 & a3 & E3 & _ & C3 & _).
    rewrite E in E1. inversion E1; subst. rewrite E2 in E3. inversion E3; subst. congruence. }
  split; [exact Each|].
  eapply Permutation_trans; [apply (completions_partition _ ND acts (run_tags client _ fs _ _ _ FF E))|].
  clear - Each. induction xs as [|e r IH]; [constructor|]. simpl.
  rewrite (Each e (or_introl eq_refl)). apply Permutation_app_head. apply IH.
  intros e' I. apply Each. right; exact I.
Qed.

(* ---------------------------------------------------------------------------------------- *)
(* GOAWAY                                                                                   *)
(* ---------------------------------------------------------------------------------------- *)
Definition same_view_g (s : N) (st1 st2 : sm) : Prop :=
  sview s (m_streams st1) = sview s (m_streams st2) /\ cut_off (m_max st1) s = cut_off (m_max st2) s.

Lemma sm_local_gate g mx1 mx2 isreq f s : fsid f = Some s -> cut_off mx1 s = cut_off mx2 s ->
  sm_local g mx1 isreq f = sm_local g mx2 isreq f.
Proof.
  intros Ft H. destruct f; simpl in Ft; inversion Ft; subst; try reflexivity.
  unfold cut_off in H. simpl. rewrite H. reflexivity.
Qed.

Lemma sm_frame_local client st isreq f s st' acts : fsid f = Some s ->
  sm_frame client st isreq f = Some (st', acts) ->
  exists u, sm_local (m_get s (m_streams st)) (m_max st) isreq f = Some (u, acts) /\
            st' = mkSM (apply_upd s u (m_streams st)) (m_max st).
Proof.
  intros Ft E.
  assert (X : match sm_local (m_get s (m_streams st)) (m_max st) isreq f with
              | None => None
              | Some (u, acts) => Some (mkSM (apply_upd s u (m_streams st)) (m_max st), acts)
              end = Some (st', acts)).
  { destruct f; simpl in Ft; inversion Ft; subst; exact E. }
  destruct (sm_local _ _ _ _) as [[u a]|]; [|discriminate]. inversion X; subst. eauto.
Qed.

Lemma sm_frame_goaway_view client st isreq last code st' acts s :
  sm_frame client st isreq (FGoAway last code) = Some (st', acts) ->
  sview s (m_streams st') = (if last <? s then [] else sview s (m_streams st)) /\ m_max st' = last /\
  completions_of s acts =
  (if last <? s
   then flat_map (fun e => match abandon_resp (fst e) (snd e) (EConn code) with Some x => completions_of s x | None => [] end)
                 (sview s (m_streams st))
   else []).
Proof.
  simpl. destruct (abandon_all _ _) as [a|] eqn:A; [|discriminate]. intros E; inversion E; subst. cbn [m_streams m_max].
  split; [apply sview_filter_le|]. split; [reflexivity|].
  rewrite (abandon_all_view _ s (abandon_resp_tagged (EConn code)) _ _ A), sview_filter_gt.
  destruct (last <? s); reflexivity.
Qed.

Lemma sim_gate client s : forall fs st1 st2 st1' a1 st2' a2,
  same_view_g s st1 st2 ->
  sm_run client st1 fs = Some (st1', a1) -> sm_run client st2 fs = Some (st2', a2) ->
  same_view_g s st1' st2' /\ completions_of s a1 = completions_of s a2.
Proof.
  induction fs as [|[isreq f] r IH]; intros st1 st2 st1' a1 st2' a2 V; simpl.
  - intros E1 E2; inversion E1; inversion E2; subst. auto.
  - destruct (sm_frame client st1 isreq f) as [[m1 b1]|] eqn:F1; [|discriminate].
    destruct (sm_run client m1 r) as [[m1' c1]|] eqn:R1; [|discriminate].
    destruct (sm_frame client st2 isreq f) as [[m2 b2]|] eqn:F2; [|discriminate].
    destruct (sm_run client m2 r) as [[m2' c2]|] eqn:R2; [|discriminate].
    intros E1 E2; inversion E1; inversion E2; subst.
    assert (S : same_view_g s m1 m2 /\ completions_of s b1 = completions_of s b2).
    { destruct V as [V G].
      destruct (concerns_cases s isreq f) as [[_ [Ft|(last & code & Ef)]]|[_ [(t & Ft & Ne)|Ef]]]; try subst f.
      - destruct (sm_frame_local _ _ _ _ _ _ _ Ft F1) as (u1 & L1 & ->).
        destruct (sm_frame_local _ _ _ _ _ _ _ Ft F2) as (u2 & L2 & ->).
        rewrite (m_get_sview s (m_streams st1)), V, <- (m_get_sview s (m_streams st2)) in L1.
        rewrite (sm_local_gate _ _ _ _ _ _ Ft G), L2 in L1. inversion L1; subst.
        split; [|reflexivity]. split; cbn [m_streams m_max]; [|exact G].
        rewrite !sview_apply_same. destruct u1; auto.
      - destruct (sm_frame_goaway_view _ _ _ _ _ _ _ s F1) as (V1 & M1 & C1).
        destruct (sm_frame_goaway_view _ _ _ _ _ _ _ s F2) as (V2 & M2 & C2).
        split; [split; [rewrite V1, V2, V; reflexivity|rewrite M1, M2; reflexivity]|].
        rewrite C1, C2, V. reflexivity.
      - destruct (sm_frame_other _ _ _ _ _ _ s t F1 Ft Ne) as [[V1 M1] C1].
        destruct (sm_frame_other _ _ _ _ _ _ s t F2 Ft Ne) as [[V2 M2] C2].
        split; [split; [rewrite V1, V2; exact V|rewrite M1, M2; exact G]|congruence].
      - simpl in F1, F2. inversion F1; inversion F2; subst. split; [split; assumption|reflexivity]. }
    destruct S as [V' Cb]. destruct (IH _ _ _ _ _ _ V' R1 R2) as [V'' Cc].
    split; [exact V''|]. rewrite !completions_app. congruence.
Qed.

(* from ANY reachable state (any streams open, in any phase): a GOAWAY leaves every stream at or below its
   last-stream-id exactly as it would be without it, now and for everything that follows
   (hypothesis: s has not been cut off already by an earlier GOAWAY, which a later one would otherwise lift) *)
Lemma goaway_keeps_lower_from_proof : forall client st d last code post s,
  sm_ok st -> s <= last -> cut_off (m_max st) s = false ->
  exists st1 a1 st2 a2,
    sm_run client st ((d, FGoAway last code) :: post) = Some (st1, a1) /\
    sm_run client st post = Some (st2, a2) /\
    completions_of s a1 = completions_of s a2 /\
    m_get s (m_streams st1) = m_get s (m_streams st2).
Proof.
  intros client st d last code post s Ok Le Cut.
  destruct (sm_run_ok client ((d, FGoAway last code) :: post) st Ok) as (st1 & a1 & E1 & _).
  destruct (sm_run_ok client post st Ok) as (st2 & a2 & E2 & _).
  exists st1, a1, st2, a2. split; [exact E1|]. split; [exact E2|].
  cbn [sm_run] in E1.
  destruct (sm_frame client st d (FGoAway last code)) as [[m1 b1]|] eqn:F1; [|discriminate].
  destruct (sm_run client m1 post) as [[m1' c1]|] eqn:R1; [|discriminate]. inversion E1; subst.
  destruct (sm_frame_goaway_view _ _ _ _ _ _ _ s F1) as (V1 & M1 & C1).
  assert (Lt : last <? s = false) by (apply N.ltb_ge; exact Le).
  rewrite Lt in V1, C1.
  assert (V : same_view_g s m1 st).
  { split; [exact V1|]. rewrite M1, Cut. unfold cut_off. rewrite Lt. apply andb_false_r. }
  destruct (sim_gate client s post _ _ _ _ _ _ V R1 E2) as [[V' _] C].
  split; [rewrite completions_app, C1; exact C|]. rewrite !m_get_sview, V'. reflexivity.
Qed.

Lemma sm_run_app client : forall a b st,
  sm_run client st (a ++ b) =
  match sm_run client st a with
  | Some (st1, a1) => match sm_run client st1 b with Some (st2, a2) => Some (st2, a1 ++ a2) | None => None end
  | None => None
  end.
Proof.
  induction a as [|[isreq f] a IH]; intros b st; simpl.
  - destruct (sm_run client st b) as [[st2 a2]|]; reflexivity.
  - destruct (sm_frame client st isreq f) as [[m1 b1]|]; [|reflexivity].
    rewrite IH. destruct (sm_run client m1 a) as [[m2 b2]|]; [|reflexivity].
    destruct (sm_run client m2 b) as [[m3 b3]|]; [|reflexivity]. rewrite app_assoc. reflexivity.
Qed.

Lemma sm_frame_max client st isreq f st' acts : sm_frame client st isreq f = Some (st', acts) ->
  m_max st' = match f with FGoAway l _ => l | _ => m_max st end.
Proof.
  destruct f as [sid es fs|sid es data|sid code|last code|]; unfold sm_frame; cbn [fsid].
  1-3: destruct (sm_local _ _ _ _) as [[u a]|]; [|discriminate]; intros E; inversion E; reflexivity.
  - destruct (abandon_all _ _); [|discriminate]. intros E; inversion E; reflexivity.
  - intros E; inversion E; reflexivity.
Qed.

Lemma spares_run client s : forall pre st st' acts,
  Forall (spares s) pre -> cut_off (m_max st) s = false -> sm_run client st pre = Some (st', acts) ->
  cut_off (m_max st') s = false.
Proof.
  induction pre as [|[isreq f] r IH]; intros st st' acts F Cut; simpl.
  - intros E; inversion E; subst; exact Cut.
  - inversion F as [|? ? Sp Fr]; subst.
    destruct (sm_frame client st isreq f) as [[m1 b1]|] eqn:F1; [|discriminate].
    destruct (sm_run client m1 r) as [[m1' c1]|] eqn:R1; [|discriminate].
    intros E; inversion E; subst. apply (IH m1 st' c1 Fr); [|exact R1].
    rewrite (sm_frame_max _ _ _ _ _ _ F1). destruct f; try exact Cut.
    unfold spares in Sp. simpl in Sp. unfold cut_off.
    replace (last <? s) with false by (symmetry; apply N.ltb_ge; exact Sp). apply andb_false_r.
Qed.

(* the same on a whole connection: whatever came before (as long as no earlier GOAWAY had cut s off) *)
Lemma goaway_keeps_lower_proof : forall client pre d last code post s,
  s <= last -> Forall (spares s) pre ->
  exists st1 a1 st2 a2,
    sm_run client sm_init (pre ++ (d, FGoAway last code) :: post) = Some (st1, a1) /\
    sm_run client sm_init (pre ++ post) = Some (st2, a2) /\
    completions_of s a1 = completions_of s a2 /\
    m_get s (m_streams st1) = m_get s (m_streams st2).
Proof.
  intros client pre d last code post s Le Sp.
  destruct (sm_run_ok client pre sm_init) as (st0 & a0 & E0 & Ok0); [constructor|].
  assert (Cut : cut_off (m_max st0) s = false) by exact (spares_run client s pre sm_init st0 a0 Sp eq_refl E0).
  destruct (goaway_keeps_lower_from_proof client st0 d last code post s Ok0 Le Cut) as (st1 & a1 & st2 & a2 & E1 & E2 & C & G).
  exists st1, (a0 ++ a1), st2, (a0 ++ a2).
  rewrite !sm_run_app, E0, E1, E2. repeat split; [|exact G]. rewrite !completions_app, C. reflexivity.
Qed.

(* ---- streams above the last-stream-id ---- *)
Definition dead (s : N) (st : sm) : Prop := sview s (m_streams st) = [] /\ cut_off (m_max st) s = true.

Lemma sm_local_dead mx isreq f s : cut_off mx s = true -> fsid f = Some s ->
  sm_local None mx isreq f = Some (UKeep, []).
Proof.
  intros C Ft. destruct f; simpl in Ft; inversion Ft; subst; try reflexivity.
  simpl. destruct isreq; [|reflexivity]. unfold cut_off in C. cbn [negb]. rewrite C. reflexivity.
Qed.

Lemma dead_run client s : forall post st st' acts,
  dead s st -> Forall (fun f => is_goaway (snd f) = false) post ->
  sm_run client st post = Some (st', acts) -> completions_of s acts = [] /\ dead s st'.
Proof.
  induction post as [|[isreq f] r IH]; intros st st' acts D F; simpl.
  - intros E; inversion E; subst. auto.
  - inversion F as [|? ? Hg Fr]; subst. simpl in Hg.
    destruct (sm_frame client st isreq f) as [[m1 b1]|] eqn:F1; [|discriminate].
    destruct (sm_run client m1 r) as [[m1' c1]|] eqn:R1; [|discriminate].
    intros E; inversion E; subst.
    assert (S : completions_of s b1 = [] /\ dead s m1).
    { destruct D as [V C].
      destruct (concerns_cases s isreq f) as [[_ [Ft|(last & code & Ef)]]|[_ [(t & Ft & Ne)|Ef]]]; try subst f.
      - destruct (sm_frame_local _ _ _ _ _ _ _ Ft F1) as (u1 & L1 & ->).
        rewrite m_get_sview, V, (sm_local_dead _ _ _ _ C Ft) in L1. inversion L1; subst.
        split; [reflexivity|]. split; [exact V|exact C].
      - discriminate.
      - destruct (sm_frame_other _ _ _ _ _ _ s t F1 Ft Ne) as [[V1 M1] C1].
        split; [exact C1|]. split; [rewrite V1; exact V|rewrite M1; exact C].
      - simpl in F1. inversion F1; subst. split; [reflexivity|]. split; assumption. }
    destruct S as [C1 D1]. destruct (IH _ _ _ D1 Fr R1) as [C2 D2].
    split; [rewrite completions_app, C1, C2; reflexivity|exact D2].
Qed.

(* from ANY reachable state: a GOAWAY with a lower (non-zero) last-stream-id abandons stream s exactly as
   setMaxStreamIDLocked does (abandon_resp: both tracers flushed, ResponseBodyEnd with the connection error),
   removes it, and nothing that follows (no further GOAWAY) on any stream makes s complete or reappear *)
Lemma goaway_cancels_higher_from_proof : forall client st d last code post s,
  sm_ok st -> last < s -> last <> 0 -> Forall (fun f => is_goaway (snd f) = false) post ->
  exists st1 a1,
    sm_run client st ((d, FGoAway last code) :: post) = Some (st1, a1) /\
    completions_of s a1 =
      flat_map (fun e => match abandon_resp (fst e) (snd e) (EConn code) with Some x => completions_of s x | None => [] end)
               (sview s (m_streams st)) /\
    m_get s (m_streams st1) = None.
Proof.
  intros client st d last code post s Ok Lt Nz NG.
  destruct (sm_run_ok client ((d, FGoAway last code) :: post) st Ok) as (st1 & a1 & E1 & _).
  exists st1, a1. split; [exact E1|].
  cbn [sm_run] in E1.
  destruct (sm_frame client st d (FGoAway last code)) as [[m1 b1]|] eqn:F1; [|discriminate].
  destruct (sm_run client m1 post) as [[m1' c1]|] eqn:R1; [|discriminate]. inversion E1; subst.
  destruct (sm_frame_goaway_view _ _ _ _ _ _ _ s F1) as (V1 & M1 & C1).
  assert (Ltb : last <? s = true) by (apply N.ltb_lt; exact Lt).
  rewrite Ltb in V1, C1.
  assert (D : dead s m1).
  { split; [exact V1|]. rewrite M1. unfold cut_off. rewrite Ltb.
    destruct (N.eqb_spec last 0); [contradiction|reflexivity]. }
  destruct (dead_run client s post _ _ _ D NG R1) as [C2 [V2 _]].
  split; [rewrite completions_app, C1, C2, app_nil_r; reflexivity|]. rewrite m_get_sview, V2. reflexivity.
Qed.

Lemma abandon_resp_spec sid x e : x_wf x ->
  abandon_resp sid (stream_of x) e = Some [CComplete sid (x_resp_end x e)].
Proof.
  intros W. pose proof W as (Nm & Er & Hq & Hp).
  destruct (dt_flush_data _ Hq) as (Fl & Fd & Hq' & _).
  destruct (x_flush_req_fields x) as (E1 & E2 & E3 & E4 & E5 & E6 & E7).
  unfold abandon_resp, x_resp_end. cbn [stream_of s_req s_b s_got s_resp]. rewrite Fl.
  destruct (x_popen x) eqn:Po.
  - destruct Hp as [Hp Hr]. rewrite Hp.
    destruct (dt_flush_data _ Hp) as (Fl2 & Fd2 & _). rewrite Fl2.
    fold (bld x). rewrite b_adds_app, (bld_msgs x _ Nm Fd), <- bld_flush_req.
    rewrite <- E2 in Fd2 |- *.
    rewrite b_adds_app, (bld_msgs (x_flush_req x) _ (eq_trans (f_equal is_nil E5) Nm) Fd2), <- bld_flush_resp.
    destruct (x_flush_resp_fields (x_flush_req x)) as (G1 & G2 & G3 & G4 & G5 & G6 & G7).
    unfold bld. cbn [b_adds]. rewrite b_add_resp_end by congruence.
    reflexivity.
  - rewrite Hp. cbn [d_hasb dt_zero app].
    fold (bld x). rewrite b_adds_app, (bld_msgs x _ Nm Fd), <- bld_flush_req.
    unfold bld. cbn [b_adds]. rewrite b_add_resp_end by congruence.
    reflexivity.
Qed.

Lemma own_no_goaway sid : forall post, Forall (fun f => own sid f = true) post ->
  Forall (fun f => is_goaway (snd f) = false) post.
Proof.
  intros post F. eapply Forall_impl; [|exact F]. intros [isreq f]. unfold own. destruct f; simpl; auto.
Qed.

(* a well-formed stream still open (in whatever phase) when a GOAWAY with a lower non-zero last-stream-id
   arrives: exactly one trace if it carries a test name, what was gathered so far, ended by the connection
   error; whatever the stream's peers still send on it afterwards is ignored *)
Lemma goaway_cancels_higher_proof : forall client sid frames x d last code post,
  exchange sid frames (Open x) -> last < sid -> last <> 0 -> Forall (fun f => own sid f = true) post ->
  exists st acts,
    sm_run client sm_init (frames ++ (d, FGoAway last code) :: post) = Some (st, acts) /\
    completions_of sid acts = x_abandoned x (EConn code) /\
    m_get sid (m_streams st) = None.
Proof.
  intros client sid frames x d last code post X Lt Nz Ow.
  pose proof (exchange_name sid frames _ X) as Hn. cbn in Hn.
  pose proof (own_no_goaway sid post Ow) as NG.
  destruct (is_nil (first_name frames)) eqn:Nm.
  - destruct (exchange_nameless_run client sid frames _ X Nm) as (st0 & a0 & E0 & A0 & (v' & -> & Nv & Okv)).
    destruct (goaway_cancels_higher_from_proof client (mkSM [(sid, v')] 0) d last code post sid) as (st1 & a1 & E1 & C1 & G1);
      try assumption.
    { constructor; [exact Okv|constructor]. }
    exists st1, (a0 ++ a1). rewrite sm_run_app, E0, E1. split; [reflexivity|]. split; [|exact G1].
    rewrite completions_app, (all_completions_none sid a0 A0), C1. cbn [m_streams sview filter fst]. rewrite N.eqb_refl.
    cbn [flat_map fst snd]. unfold x_abandoned. rewrite Hn, Nm.
    destruct (abandon_resp sid v' (EConn code)) as [xx|] eqn:Ab; [|reflexivity].
    rewrite (abandon_resp_nameless _ _ _ _ Nv Ab). reflexivity.
  - destruct (exchange_named_run client sid frames _ X Nm) as [E0 W].
    cbn [table_of acts_of] in E0.
    destruct (goaway_cancels_higher_from_proof client (mkSM [(sid, stream_of x)] 0) d last code post sid) as (st1 & a1 & E1 & C1 & G1);
      try assumption.
    { constructor; [|constructor]. destruct W as (_ & _ & Hq & _). split; [exact Hq|reflexivity]. }
    eexists; eexists. rewrite sm_run_app, E0, E1. split; [reflexivity|]. split; [|exact G1].
    change (CNew (first_name frames) :: [] ++ a1) with ([CNew (first_name frames)] ++ a1).
    rewrite completions_app, C1. cbn [m_streams sview filter fst]. rewrite N.eqb_refl.
    cbn [flat_map fst snd]. rewrite (abandon_resp_spec sid x (EConn code) W).
    unfold x_abandoned. rewrite Hn, Nm. cbn. rewrite N.eqb_refl. reflexivity.
Qed.

(* the same on a whole connection, whatever came before *)
Lemma goaway_cancels_higher_any_proof : forall client pre d last code post s,
  last < s -> last <> 0 -> Forall (fun f => is_goaway (snd f) = false) post ->
  exists st0 a0 st1 a1,
    sm_run client sm_init pre = Some (st0, a0) /\
    sm_run client sm_init (pre ++ (d, FGoAway last code) :: post) = Some (st1, a1) /\
    completions_of s a1 =
      completions_of s a0 ++
      flat_map (fun e => match abandon_resp (fst e) (snd e) (EConn code) with Some x => completions_of s x | None => [] end)
               (filter (fun e => fst e =? s) (m_streams st0)) /\
    m_get s (m_streams st1) = None.
Proof.
  intros client pre d last code post s Lt Nz NG.
  destruct (sm_run_ok client pre sm_init) as (st0 & a0 & E0 & Ok0); [constructor|].
  destruct (goaway_cancels_higher_from_proof client st0 d last code post s Ok0 Lt Nz NG) as (st1 & a1 & E1 & C1 & G1).
  exists st0, a0, st1, (a0 ++ a1). split; [exact E0|]. rewrite sm_run_app, E0, E1. split; [reflexivity|].
  split; [|exact G1]. rewrite completions_app, C1. reflexivity.
Qed.

(* ---------------------------------------------------------------------------------------- *)
(* bytes delivered together with an error are traced, and traced first                      *)
(* ---------------------------------------------------------------------------------------- *)
Section Traced.
Variable dec_r dec_w : list bytes -> bytes -> option (list field).

Lemma cancel_conn_tracers c c2 : cancel_conn c = Some c2 -> c_rd c2 = c_rd c /\ c_wr c2 = c_wr c.
Proof.
  unfold cancel_conn. destruct (sm_cancel _ _ _) as [[m acts]|]; [|discriminate].
  intros E; inversion E; subst; auto.
Qed.

Lemma ft_feed_cons_fst dec st d rest :
  fst (ft_feed dec st (d :: rest)) = fst (ft_feed dec (fst (ft_trace dec st d)) rest).
Proof. simpl. destruct (ft_trace dec st d) as [st1 o1]. cbn [fst]. destruct (ft_feed dec st1 rest) as [st2 o2]. reflexivity. Qed.

Lemma conn_op_tracers c o c' r : conn_op dec_r dec_w c o = Some (c', r) ->
  c_rd c' = fst (ft_feed dec_r (c_rd c) (read_chunks [o])) /\
  c_wr c' = fst (ft_feed dec_w (c_wr c) (write_chunks [o])).
Proof.
  destruct o as [data e|data k e|e|n]; unfold read_chunks, write_chunks; cbn [flat_map app conn_op].
  - rewrite ft_feed_cons_fst. destruct (ft_trace dec_r (c_rd c) data) as [rd frames]. cbn [fst ft_feed].
    destruct (sm_frames _ _ _ _) as [[m acts]|]; [|discriminate].
    destruct ((e =? 0) || (e =? 2)).
    + intros E; inversion E; subst; auto.
    + destruct (cancel_conn _) as [c2|] eqn:Cc; [|discriminate]. apply cancel_conn_tracers in Cc.
      intros E; inversion E; subst. exact Cc.
  - rewrite ft_feed_cons_fst. destruct (ft_trace dec_w (c_wr c) data) as [wr frames]. cbn [fst ft_feed].
    destruct (sm_frames _ _ _ _) as [[m acts]|]; [|discriminate].
    destruct (e =? 0).
    + intros E; inversion E; subst; auto.
    + destruct (cancel_conn _) as [c2|] eqn:Cc; [|discriminate]. apply cancel_conn_tracers in Cc.
      intros E; inversion E; subst. exact Cc.
  - destruct (cancel_conn c) as [c2|] eqn:Cc; [|discriminate]. apply cancel_conn_tracers in Cc.
    intros E; inversion E; subst. exact Cc.
  - intros E; inversion E; subst; auto.
Qed.

Lemma ft_feed_app_fst dec : forall a b st,
  fst (ft_feed dec st (a ++ b)) = fst (ft_feed dec (fst (ft_feed dec st a)) b).
Proof.
  induction a as [|d a IH]; intros b st; [reflexivity|].
  change ((d :: a) ++ b) with (d :: (a ++ b)). rewrite !ft_feed_cons_fst. apply IH.
Qed.

(* for ANY op list - any inner-conn errors, returned with or without bytes, timeouts, short writes: the read
   tracer has been fed exactly the chunks the inner Reads delivered, all of them, in order, and the write
   tracer exactly what the caller handed to Write *)
Lemma all_bytes_traced_proof : forall ops c c' rs,
  conn_run dec_r dec_w c ops = Some (c', rs) ->
  c_rd c' = fst (ft_feed dec_r (c_rd c) (read_chunks ops)) /\
  c_wr c' = fst (ft_feed dec_w (c_wr c) (write_chunks ops)).
Proof.
  induction ops as [|o r IH]; intros c c' rs; cbn [conn_run].
  - intros E; inversion E; subst; auto.
  - destruct (conn_op dec_r dec_w c o) as [[c1 x]|] eqn:O; [|discriminate].
    destruct (conn_run dec_r dec_w c1 r) as [[c2 xs]|] eqn:R; [|discriminate].
    intros E; inversion E; subst.
    destruct (conn_op_tracers _ _ _ _ O) as [A B]. destruct (IH _ _ _ R) as [A2 B2].
    replace (read_chunks (o :: r)) with (read_chunks [o] ++ read_chunks r)
      by (unfold read_chunks; cbn [flat_map]; rewrite app_nil_r; reflexivity).
    replace (write_chunks (o :: r)) with (write_chunks [o] ++ write_chunks r)
      by (unfold write_chunks; cbn [flat_map]; rewrite app_nil_r; reflexivity).
    rewrite (ft_feed_app_fst dec_r (read_chunks [o]) (read_chunks r)), (ft_feed_app_fst dec_w (write_chunks [o]) (write_chunks r)).
    rewrite <- A, <- B. auto.
Qed.

(* so on a fresh connection the tracers are where ONE error-free call on all the bytes would have left them *)
Lemma all_bytes_traced_one_shot_proof : forall server ops c' rs,
  conn_run dec_r dec_w (conn_init server) ops = Some (c', rs) ->
  c_rd c' = fst (ft_trace dec_r (ft_init server) (concat (read_chunks ops))) /\
  c_wr c' = fst (ft_trace dec_w (ft_init (negb server)) (concat (write_chunks ops))).
Proof.
  intros server ops c' rs E. destruct (all_bytes_traced_proof _ _ _ _ E) as [A B].
  cbn [conn_init c_rd c_wr] in A, B. rewrite A, B, !chunking_independent_proof. auto.
Qed.

(* a Read that returns bytes together with an error: first exactly what the same Read without error does
   (bytes through the frame tracer, completed frames to the stream layer), THEN the error is acted upon
   (nothing for a timeout, cancelAll otherwise); the caller gets bytes and error *)
Lemma read_error_after_tracing_proof : forall c data e,
  conn_op dec_r dec_w c (ORead data e) =
  match conn_op dec_r dec_w c (ORead data 0) with
  | None => None
  | Some (c1, _) =>
    if read_fatal e
    then match cancel_conn c1 with None => None | Some c2 => Some (c2, RRead data e) end
    else Some (c1, RRead data e)
  end.
Proof.
  intros c data e. unfold read_fatal. cbn [conn_op].
  destruct (ft_trace dec_r (c_rd c) data) as [rd frames].
  destruct (sm_frames _ _ _ _) as [[m acts]|]; [|reflexivity].
  cbn [N.eqb orb]. destruct ((e =? 0) || (e =? 2)); reflexivity.
Qed.
End Traced.
