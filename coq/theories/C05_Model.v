(* C05_Model.v — executable model of the scheduling core of
     internal/app/connectconformance/connectconformance.go  (run: clients x servers x server
         instances, filterGRPCImplTestCases, filter.apply, skip empty, semaphore, goroutine,
         release; serverInstancesSlice)
     internal/app/connectconformance/test_case_library.go  (groupTestCases, serverInstanceForCase,
         filterGRPCImplTestCases, addGRPCMarkerToName, testCaseFilter.apply)
     internal/app/connectconformance/server_runner.go       (ServerCompatRequest, request completion,
         "TLS but no certificate" setup failure)
   as it is coded.  The run is a transition system: one action per semaphore operation,
   process start/exit, message written to / read from a peer; a schedule is a list of actions and
   a disabled action is a no-op, so EVERY list is a schedule.  Owned by other properties and kept
   abstract here: suite expansion (C07: the library is a list of permutations), the pattern
   matcher (C08: a predicate on names), the client multiplexer (C10: a sent request is answered
   by one Answer action), fault handling inside a batch (C11).  No proofs here. *)
From V Require Export Base.
From V Require Export C05_Load.
From V Require Import C08_Model.
Open Scope N_scope.

(* ====================================================================== *)
(* permutations, server instances                                         *)
(* ====================================================================== *)
Definition header := (bytes * list bytes)%type.

(* serverInstance *)
Record inst := mkInst { i_proto : N; i_ver : N; i_tls : bool; i_certs : bool }.

Definition inst_eqb (a b : inst) : bool :=
  (a.(i_proto) =? b.(i_proto)) && (a.(i_ver) =? b.(i_ver))
  && Bool.eqb a.(i_tls) b.(i_tls) && Bool.eqb a.(i_certs) b.(i_certs).

(* the fields of a *conformancev1.TestCase this part of the runner looks at *)
Record tcase := mkTC {
  tc_name : bytes;              (* Request.TestName (full permutation name) *)
  tc_simple : bytes;            (* lib.testCaseNames[name] *)
  tc_proto : N; tc_ver : N; tc_codec : N; tc_comp : N;
  tc_tls : bool;                (* len(Request.ServerTlsCert) > 0 *)
  tc_certs : bool;              (* Request.ClientTlsCreds != nil *)
  tc_headers : list header;     (* Request.RequestHeaders *)
  tc_raw : option (list header);(* Request.RawRequest (its Headers) *)
  tc_rawresp : bool;            (* hasRawResponse(Request.RequestMessages) *)
  tc_get : bool }.              (* Request.UseGetHttpMethod *)

(* serverInstanceForCase *)
Definition inst_of (tc : tcase) : inst :=
  mkInst tc.(tc_proto) tc.(tc_ver) tc.(tc_tls) tc.(tc_certs).

(* groupTestCases: casesByServer[g] *)
Definition group (lib : list tcase) (g : inst) : list tcase :=
  filter (fun tc => inst_eqb (inst_of tc) g) lib.

(* the key set of casesByServer, in first-occurrence order (Go: map order, i.e. ANY order) *)
Fixpoint mem_inst (g : inst) (l : list inst) : bool :=
  match l with [] => false | h :: t => inst_eqb g h || mem_inst g t end.
Fixpoint instances_from (seen : list inst) (lib : list tcase) : list inst :=
  match lib with
  | [] => []
  | tc :: r => if mem_inst (inst_of tc) seen then instances_from seen r
               else inst_of tc :: instances_from (inst_of tc :: seen) r
  end.
Definition instances (lib : list tcase) : list inst := instances_from [] lib.

(* serverInstancesSlice(lib, sorted=true): the comparison function of sort.Slice *)
Definition inst_less (a b : inst) : bool :=
  if negb (a.(i_ver) =? b.(i_ver)) then a.(i_ver) <? b.(i_ver)
  else if negb (a.(i_proto) =? b.(i_proto)) then a.(i_proto) <? b.(i_proto)
  else if negb (Bool.eqb a.(i_tls) b.(i_tls)) then negb a.(i_tls)
  else negb a.(i_certs) || b.(i_certs).
Fixpoint insert_inst (x : inst) (l : list inst) : list inst :=
  match l with
  | [] => [x]
  | y :: l' => if inst_less x y then x :: l else y :: insert_inst x l'
  end.
Definition sort_insts (l : list inst) : list inst := fold_right insert_inst [] l.

(* ====================================================================== *)
(* filterGRPCImplTestCases, addGRPCMarkerToName, filter.apply             *)
(* ====================================================================== *)
Definition is_some {A} (o : option A) : bool := match o with Some _ => true | None => false end.

(* the chain of `continue`s, in the code's order and with Go's precedence
   (clientIsGRPCImpl && proto != GRPC || proto == CONNECT) *)
Definition grpc_keep (c s : bool) (tc : tcase) : bool :=
  if (c && negb (tc.(tc_proto) =? 2)) || (tc.(tc_proto) =? 1) then false
  else if (if tc.(tc_proto) =? 3
           then negb ((tc.(tc_ver) =? 1) || (tc.(tc_ver) =? 2))
           else negb (tc.(tc_ver) =? 2)) then false
  else if negb (tc.(tc_codec) =? 1) then false
  else if negb (tc.(tc_comp) =? 1) && negb (tc.(tc_comp) =? 2) then false
  else if tc.(tc_tls) then false
  else if is_some tc.(tc_raw) && c then false
  else if tc.(tc_rawresp) && s then false
  else true.

Definition marker (c s : bool) : bytes :=
  if c && s then bs "(grpc impls)"
  else if c then bs "(grpc client impl)"
  else if s then bs "(grpc server impl)" else [].

(* strings.TrimSuffix *)
Fixpoint strip_prefix (p s : bytes) : option bytes :=
  match p, s with
  | [], _ => Some s
  | x :: p', y :: s' => if x =? y then strip_prefix p' s' else None
  | _ :: _, [] => None
  end.
Definition trim_suffix (s suf : bytes) : bytes :=
  match strip_prefix (rev suf) (rev s) with Some r => rev r | None => s end.

Definition add_marker (full simple : bytes) (c s : bool) : bytes :=
  trim_suffix full simple ++ marker c s ++ 47 :: simple.

Definition rename (c s : bool) (tc : tcase) : tcase :=
  mkTC (add_marker tc.(tc_name) tc.(tc_simple) c s) tc.(tc_simple)
       tc.(tc_proto) tc.(tc_ver) tc.(tc_codec) tc.(tc_comp) tc.(tc_tls) tc.(tc_certs)
       tc.(tc_headers) tc.(tc_raw) tc.(tc_rawresp) tc.(tc_get).

Definition filter_grpc (c s : bool) (cases : list tcase) : list tcase :=
  if negb c && negb s then cases
  else map (rename c s) (filter (grpc_keep c s) cases).

(* testCaseFilter.apply; `sel` is the accept predicate on names (C08) *)
Definition apply_filter (sel : bytes -> bool) (cases : list tcase) : list tcase :=
  filter (fun tc => sel tc.(tc_name)) cases.

(* ====================================================================== *)
(* the loops of run(): which batches there are, in which order             *)
(* ====================================================================== *)
(* processInfo *)
Record peer := mkPeer { p_ref : bool; p_grpc : bool }.
Definition peers_of (use_reference : bool) : list peer :=
  if use_reference then [mkPeer true false; mkPeer false true] else [mkPeer false false].

(* one goroutine of run(): runTestCasesForServer(…, svrInstance, testCases, …) *)
Record batch := mkBatch {
  b_phase : nat;                (* index of the client process it talks to *)
  b_cref : bool; b_sref : bool; (* isReferenceImpl of client / server *)
  b_inst : inst;
  b_cases : list tcase }.

Definition batch_cases (lib : list tcase) (sel : bytes -> bool) (c s : peer) (g : inst) : list tcase :=
  apply_filter sel (filter_grpc c.(p_grpc) s.(p_grpc) (group lib g)).

Definition plan_phase (lib : list tcase) (sel : bytes -> bool) (order : list inst)
           (servers : list peer) (ph : nat) (c : peer) : list batch :=
  flat_map (fun s =>
    flat_map (fun g =>
      match batch_cases lib sel c s g with
      | [] => []                                       (* len(testCases) == 0: continue *)
      | cs => [mkBatch ph c.(p_ref) s.(p_ref) g cs]
      end) order) servers.

Fixpoint plan_from (lib : list tcase) (sel : bytes -> bool) (order : list inst)
         (servers : list peer) (ph : nat) (clients : list peer) : list batch :=
  match clients with
  | [] => []
  | c :: cl => plan_phase lib sel order servers ph c ++ plan_from lib sel order servers (S ph) cl
  end.

Definition plan lib sel order clients servers : list batch :=
  plan_from lib sel order servers 0 clients.

(* ====================================================================== *)
(* server_runner.go: the two messages it composes                          *)
(* ====================================================================== *)
(* ServerCompatRequest: protocol, version, use_tls, server creds present, client cert present *)
Definition server_request (g : inst) : list N * list bool :=
  ([g.(i_proto); g.(i_ver)], [g.(i_tls); g.(i_tls); g.(i_certs)]).

(* ServerCompatResponse *)
Record addr := mkAddr { a_host : bytes; a_port : N; a_cert : bytes }.

(* the ClientCompatRequest handed to the client: the fields the runner fills in *)
Record creq := mkReq {
  r_name : bytes; r_host : bytes; r_port : N; r_cert : bytes;
  r_creds : bool;                        (* ClientTlsCreds != nil *)
  r_headers : list header;
  r_raw : option (list header) }.

Definition default_host : bytes := bs "127.0.0.1".
Definition is_empty {A} (l : list A) : bool := match l with [] => true | _ => false end.

(* strconv.Itoa of an enum number *)
Definition dec_small (n : N) : bytes :=
  if n <? 10 then [48 + n] else [48 + n / 10; 48 + n mod 10].

Definition expect_headers (a : addr) (g : inst) (tc : tcase) : list header :=
  [ (bs "x-expect-http-version", [dec_small tc.(tc_ver)]);
    (bs "x-expect-http-method", [if tc.(tc_get) then bs "GET" else bs "POST"]);
    (bs "x-expect-protocol", [dec_small tc.(tc_proto)]);
    (bs "x-expect-codec", [dec_small tc.(tc_codec)]);
    (bs "x-expect-compression", [dec_small tc.(tc_comp)]);
    (bs "x-expect-tls", [if is_empty a.(a_cert) then bs "false" else bs "true"]) ]
  ++ (if g.(i_certs) then [(bs "x-expect-client-cert", [bs "Conformance Client"])] else []).

Definition complete (a : addr) (g : inst) (sref : bool) (tc : tcase) : creq :=
  let name_header := (bs "x-test-case-name", [tc.(tc_name)]) in
  let extra := if sref then expect_headers a g tc else [] in
  mkReq tc.(tc_name)
        (if is_empty a.(a_host) then default_host else a.(a_host))
        a.(a_port) a.(a_cert) g.(i_certs)
        (tc.(tc_headers) ++ name_header :: extra)
        (option_map (fun hs => hs ++ name_header :: extra) tc.(tc_raw)).

(* ====================================================================== *)
(* the transition system                                                  *)
(* ====================================================================== *)
Inductive status :=
| Pending                                  (* loop has not reached it *)
| Acquired                                 (* semaphore held, goroutine spawned *)
| Spawned                                  (* server process exists, request written, awaiting response *)
| Up (a : addr) (rest : list tcase)        (* server answered with a; `rest` still to be sent *)
| Failed                                   (* setup failure recorded, process (if any) gone *)
| Stopped                                  (* all answered, server aborted and exited *)
| Released.                                (* sema.Release + wg.Done *)

Record slot := mkSlot { sl_b : batch; sl_st : status }.

Inductive event :=
| EAcq (k : nat)
| ESpawn (k : nat)
| EReady (k : nat) (a : addr)
| EFail (k : nat)                          (* results.failedToStart(batch) *)
| ESend (k : nat) (tc : tcase) (r : creq)  (* client.sendRequest *)
| EAns (k : nat) (n : bytes)
| EStop (k : nat)                          (* server process has exited *)
| ERel (k : nat).

Record state := mkSt {
  slots : list slot;
  sem : nat;                               (* permits held of semaphore.NewWeighted(MaxServers) *)
  pc : nat;                                (* position of the (sequential) loop in the plan *)
  outst : list (nat * bytes);              (* requests sent and not answered: (batch, name) *)
  trace : list event }.                    (* newest first *)

Inductive action :=
| Acquire
| Spawn (k : nat)                          (* startServer ok *)
| SpawnFail (k : nat)                      (* startServer returned an error *)
| Ready (k : nat) (a : addr)               (* ServerCompatResponse read *)
| Die (k : nat)                            (* server exits / closes stdout without a response *)
| Send (k : nat)
| Answer (k : nat) (n : bytes)
| Stop (k : nat)
| Release (k : nat).

Definition init_state (p : list batch) : state :=
  mkSt (map (fun b => mkSlot b Pending) p) 0 0 [] [].

Fixpoint upd {A} (k : nat) (x : A) (l : list A) : list A :=
  match l, k with
  | [], _ => []
  | _ :: t, O => x :: t
  | h :: t, S k' => h :: upd k' x t
  end.

Definition set_st (s : state) (k : nat) (st : status) : list slot :=
  match nth_error s.(slots) k with
  | Some sl => upd k (mkSlot sl.(sl_b) st) s.(slots)
  | None => s.(slots)
  end.

Definition status_of (s : state) (k : nat) : option status :=
  option_map sl_st (nth_error s.(slots) k).

Definition is_released (st : status) : bool := match st with Released => true | _ => false end.

(* the loop over clients is sequential: the deferred wg.Wait() ends a client's batches before the
   next client is started *)
Definition phase_ok (s : state) (b : batch) : bool :=
  forallb (fun sl => Nat.eqb sl.(sl_b).(b_phase) b.(b_phase) || is_released sl.(sl_st))
          (firstn s.(pc) s.(slots)).

Definition pair_eqb (x y : nat * bytes) : bool := Nat.eqb (fst x) (fst y) && bytes_eqb (snd x) (snd y).
Fixpoint remove_one (x : nat * bytes) (l : list (nat * bytes)) : list (nat * bytes) :=
  match l with
  | [] => []
  | y :: t => if pair_eqb x y then t else y :: remove_one x t
  end.
Definition has_outst (k : nat) (l : list (nat * bytes)) : bool := existsb (fun y => Nat.eqb (fst y) k) l.

(* None = the action is not enabled *)
Definition step_opt (max : nat) (s : state) (a : action) : option state :=
  match a with
  | Acquire =>
    match nth_error s.(slots) s.(pc) with
    | Some sl =>
      if Nat.ltb s.(sem) max && phase_ok s sl.(sl_b)
      then Some (mkSt (set_st s s.(pc) Acquired) (S s.(sem)) (S s.(pc)) s.(outst) (EAcq s.(pc) :: s.(trace)))
      else None
    | None => None
    end
  | Spawn k =>
    match status_of s k with
    | Some Acquired => Some (mkSt (set_st s k Spawned) s.(sem) s.(pc) s.(outst) (ESpawn k :: s.(trace)))
    | _ => None
    end
  | SpawnFail k =>
    match status_of s k with
    | Some Acquired => Some (mkSt (set_st s k Failed) s.(sem) s.(pc) s.(outst) (EFail k :: s.(trace)))
    | _ => None
    end
  | Ready k a =>
    match nth_error s.(slots) k with
    | Some (mkSlot b Spawned) =>
      if b.(b_inst).(i_tls) && is_empty a.(a_cert)
      then (* "server config uses TLS, but server response did not indicate a certificate" *)
        Some (mkSt (set_st s k Failed) s.(sem) s.(pc) s.(outst) (EStop k :: EFail k :: s.(trace)))
      else Some (mkSt (set_st s k (Up a b.(b_cases))) s.(sem) s.(pc) s.(outst) (EReady k a :: s.(trace)))
    | _ => None
    end
  | Die k =>
    match status_of s k with
    | Some Spawned => Some (mkSt (set_st s k Failed) s.(sem) s.(pc) s.(outst) (EStop k :: EFail k :: s.(trace)))
    | _ => None
    end
  | Send k =>
    match nth_error s.(slots) k with
    | Some (mkSlot b (Up a (tc :: rest))) =>
      Some (mkSt (set_st s k (Up a rest)) s.(sem) s.(pc) ((k, tc.(tc_name)) :: s.(outst))
                 (ESend k tc (complete a b.(b_inst) b.(b_sref) tc) :: s.(trace)))
    | _ => None
    end
  | Answer k n =>
    if existsb (pair_eqb (k, n)) s.(outst)
    then Some (mkSt s.(slots) s.(sem) s.(pc) (remove_one (k, n) s.(outst)) (EAns k n :: s.(trace)))
    else None
  | Stop k =>
    match status_of s k with
    | Some (Up _ []) =>
      if has_outst k s.(outst) then None     (* wg.Wait() *)
      else Some (mkSt (set_st s k Stopped) s.(sem) s.(pc) s.(outst) (EStop k :: s.(trace)))
    | _ => None
    end
  | Release k =>
    match status_of s k with
    | Some Failed | Some Stopped =>
      Some (mkSt (set_st s k Released) (pred s.(sem)) s.(pc) s.(outst) (ERel k :: s.(trace)))
    | _ => None
    end
  end.

Definition step (max : nat) (s : state) (a : action) : state :=
  match step_opt max s a with Some s' => s' | None => s end.

Definition run_from (max : nat) (s : state) (acts : list action) : state := fold_left (step max) acts s.
Definition run_sched (max : nat) (p : list batch) (acts : list action) : state :=
  run_from max (init_state p) acts.

Definition terminal (s : state) : bool := forallb (fun sl => is_released sl.(sl_st)) s.(slots).

(* ---------- observations on a trace (newest first) ---------- *)
Fixpoint remove_nat (k : nat) (l : list nat) : list nat :=
  match l with [] => [] | h :: t => if Nat.eqb h k then remove_nat k t else h :: remove_nat k t end.

(* server processes that exist *)
Fixpoint alive_list (tr : list event) : list nat :=
  match tr with
  | [] => []
  | ESpawn k :: old => k :: alive_list old
  | EStop k :: old => remove_nat k (alive_list old)
  | _ :: old => alive_list old
  end.

Fixpoint max_alive (tr : list event) : nat :=
  match tr with
  | [] => 0
  | _ :: old => Nat.max (length (alive_list tr)) (max_alive old)
  end.

(* the address with which batch k's server is serving, if it is *)
Fixpoint serving (tr : list event) (k : nat) : option addr :=
  match tr with
  | [] => None
  | EReady j a :: old => if Nat.eqb j k then Some a else serving old k
  | EStop j :: old => if Nat.eqb j k then None else serving old k
  | _ :: old => serving old k
  end.

(* ====================================================================== *)
(* a scheduler for the correspondence runs                                 *)
(* ====================================================================== *)
(* what the scripted peers decide: per server instance, answer with an address or die; `missing`
   = the server command cannot be executed at all *)
Record decision := mkDec { d_inst : inst; d_ok : bool; d_addr : addr }.

Fixpoint find_dec (ds : list decision) (g : inst) : option decision :=
  match ds with
  | [] => None
  | d :: r => if inst_eqb d.(d_inst) g then Some d else find_dec r g
  end.

Fixpoint index_where {A} (p : A -> bool) (l : list A) (i : nat) : option nat :=
  match l with
  | [] => None
  | x :: r => if p x then Some i else index_where p r (S i)
  end.

(* what the runner does on its own (everything but the peers' moves), first enabled first *)
Definition internal_action (max : nat) (missing : bool) (s : state) : option action :=
  match index_where (fun sl => match sl.(sl_st) with Failed | Stopped => true | _ => false end) s.(slots) 0 with
  | Some k => Some (Release k)
  | None =>
  match index_where (fun sl => match sl.(sl_st) with Acquired => true | _ => false end) s.(slots) 0 with
  | Some k => Some (if missing then SpawnFail k else Spawn k)
  | None =>
  match index_where (fun sl => match sl.(sl_st) with Up _ (_ :: _) => true | _ => false end) s.(slots) 0 with
  | Some k => Some (Send k)
  | None =>
  match index_where (fun p => match snd p with Up _ [] => negb (has_outst (fst p) s.(outst)) | _ => false end)
                    (combine (seq 0 (length s.(slots))) (map sl_st s.(slots))) 0 with
  | Some k => Some (Stop k)
  | None =>
    match step_opt max s Acquire with Some _ => Some Acquire | None => None end
  end end end end.

Fixpoint settle (fuel : nat) (max : nat) (missing : bool) (s : state) (acc : list action) : state * list action :=
  match fuel with
  | O => (s, acc)
  | S f =>
    match internal_action max missing s with
    | Some a => settle f max missing (step max s a) (a :: acc)
    | None => (s, acc)
    end
  end.

(* the work that is left, counted in actions: every enabled action lowers it by at least one *)
Definition weight (sl : slot) : nat :=
  match sl.(sl_st) with
  | Pending => 5 + 2 * length sl.(sl_b).(b_cases)
  | Acquired => 4 + 2 * length sl.(sl_b).(b_cases)
  | Spawned => 3 + 2 * length sl.(sl_b).(b_cases)
  | Up _ rest => 2 + 2 * length rest
  | Failed => 1
  | Stopped => 1
  | Released => 0
  end.
Definition measure (s : state) : nat :=
  fold_right (fun sl acc => weight sl + acc)%nat 0%nat s.(slots) + length s.(outst).

(* the peers' moves of a script *)
Inductive move :=
| MGo (g : inst)                 (* the held server of instance g acts as decided *)
| MAns (n : bytes).              (* the client answers request n *)

Definition spawned_with (s : state) (g : inst) : option nat :=
  index_where (fun sl => match sl.(sl_st) with Spawned => inst_eqb sl.(sl_b).(b_inst) g | _ => false end) s.(slots) 0.

Definition move_action (ds : list decision) (s : state) (m : move) : option action :=
  match m with
  | MGo g =>
    match spawned_with s g with
    | Some k => match find_dec ds g with
                | Some d => Some (if d.(d_ok) then Ready k d.(d_addr) else Die k)
                | None => Some (Die k)
                end
    | None => None
    end
  | MAns n =>
    match index_where (fun p => bytes_eqb (snd p) n) s.(outst) 0 with
    | Some i => match nth_error s.(outst) i with Some (k, _) => Some (Answer k n) | None => None end
    | None => None
    end
  end.

(* snapshot at quiescence: instances of held servers, of serving servers, outstanding names *)
Definition held_insts (s : state) : list inst :=
  flat_map (fun sl => match sl.(sl_st) with Spawned => [sl.(sl_b).(b_inst)] | _ => [] end) s.(slots).
Definition up_insts (s : state) : list inst :=
  flat_map (fun sl => match sl.(sl_st) with Up _ _ => [sl.(sl_b).(b_inst)] | _ => [] end) s.(slots).

Record snapshot := mkSnap { sn_held : list inst; sn_up : list inst; sn_out : list bytes }.
Definition snap (s : state) : snapshot := mkSnap (held_insts s) (up_insts s) (map snd s.(outst)).

Fixpoint play (max : nat) (missing : bool) (ds : list decision) (s : state) (acc : list action)
         (script : list move) : state * list action * list snapshot :=
  match script with
  | [] => (s, acc, [])
  | m :: r =>
    let '(s1, acc1) := match move_action ds s m with
                       | Some a => (step max s a, a :: acc)
                       | None => (s, acc)
                       end in
    let '(s2, acc2) := settle (S (measure s1)) max missing s1 acc1 in
    let '(s3, acc3, sn) := play max missing ds s2 acc2 r in
    (s3, acc3, snap s2 :: sn)
  end.

(* after the script: let every held server act (smallest slot first), then answer everything
   (oldest request first), until nothing is left *)
Definition drain_move (s : state) : option move :=
  match index_where (fun sl => match sl.(sl_st) with Spawned => true | _ => false end) s.(slots) 0 with
  | Some k => match nth_error s.(slots) k with Some sl => Some (MGo sl.(sl_b).(b_inst)) | None => None end
  | None => match rev s.(outst) with (_, n) :: _ => Some (MAns n) | [] => None end
  end.

Fixpoint drain (fuel : nat) (max : nat) (missing : bool) (ds : list decision) (s : state) (acc : list action)
  : state * list action :=
  match fuel with
  | O => (s, acc)
  | S f =>
    match drain_move s with
    | None => (s, acc)
    | Some m =>
      let '(s1, acc1) := match move_action ds s m with
                         | Some a => (step max s a, a :: acc)
                         | None => (s, acc)
                         end in
      let '(s2, acc2) := settle (S (measure s1)) max missing s1 acc1 in
      drain f max missing ds s2 acc2
    end
  end.

(* the whole scripted run; returns the schedule it followed (oldest first) as well *)
Definition scripted (max : nat) (missing : bool) (ds : list decision) (p : list batch) (script : list move)
  : state * list action * list snapshot :=
  let s0 := init_state p in
  let '(s1, acc1) := settle (S (measure s0)) max missing s0 [] in
  let '(s2, acc2, sn) := play max missing ds s1 acc1 script in
  let '(s3, acc3) := drain (S (measure s2)) max missing ds s2 acc2 in
  (s3, rev acc3, snap s1 :: sn).

(* ====================================================================== *)
(* case decoding / result encoding (extracted glue)                       *)
(* ====================================================================== *)
(* The library of a case is written as suites with exactly one relevant protocol / version /
   codec / compression and unary cases, so that (C07, not re-modelled here) the permutation
   name is  suite [/TLS:false] / simple  and every template yields one permutation. *)
Definition un_header (s : sx) : option header :=
  match s with
  | L [B n; vs] => do vs <- un_listof un_B vs; ret (n, vs)
  | _ => None
  end.
Definition sx_header (h : header) : sx := L [B (fst h); L (map B (snd h))].

(* (simple rawreq? (rawheaders) rawresp? get? (headers)) *)
Definition un_template (s : sx) : option (bytes * option (list header) * bool * bool * list header) :=
  match s with
  | L [B simple; rr; rh; rp; g; hs] =>
    do rr <- un_bool rr; do rh <- un_listof un_header rh; do rp <- un_bool rp; do g <- un_bool g;
    do hs <- un_listof un_header hs;
    ret (simple, (if rr then Some rh else None), rp, g, hs)
  | _ => None
  end.

(* (name mode proto ver codec comp tls certs (templates)); mode 0 unspecified 1 client 2 server *)
Definition un_suite (run_mode : N) (s : sx) : option (list tcase) :=
  match s with
  | L [B name; m; p; v; cd; cp; tls; certs; ts] =>
    do m <- un_N m; do p <- un_N p; do v <- un_N v; do cd <- un_N cd; do cp <- un_N cp;
    do tls <- un_bool tls; do certs <- un_bool certs; do ts <- un_listof un_template ts;
    if negb (m =? 0) && negb (m =? run_mode) then ret []
    else
      let prefix := if tls then name else name ++ 47 :: bs "TLS:false" in
      ret (map (fun t => match t with (simple, raw, rp, g, hs) =>
                 mkTC (prefix ++ 47 :: simple) simple p v cd cp tls (tls && certs) hs raw rp g end) ts)
  | _ => None
  end.

Definition un_inst (s : sx) : option inst :=
  match s with
  | L [p; v; t; c] => do p <- un_N p; do v <- un_N v; do t <- un_bool t; do c <- un_bool c; ret (mkInst p v t c)
  | _ => None
  end.
Definition sx_inst (g : inst) : sx := L [sx_N g.(i_proto); sx_N g.(i_ver); sx_bool g.(i_tls); sx_bool g.(i_certs)].

(* (inst ok? host port cert) *)
Definition un_decision (s : sx) : option decision :=
  match s with
  | L [g; ok; B h; p; B c] =>
    do g <- un_inst g; do ok <- un_bool ok; do p <- un_N p; ret (mkDec g ok (mkAddr h p c))
  | _ => None
  end.

Definition un_move (s : sx) : option move :=
  match s with
  | L [I 0%Z; g] => do g <- un_inst g; ret (MGo g)
  | L [I 1%Z; B n] => ret (MAns n)
  | _ => None
  end.

(* canonical orders for sets *)
Definition inst_key (g : inst) : bytes :=
  [g.(i_proto); g.(i_ver); if g.(i_tls) then 1 else 0; if g.(i_certs) then 1 else 0].
Definition sort_insts_key (l : list inst) : list inst :=
  fold_right (fun x acc =>
    (fix ins (l : list inst) : list inst :=
       match l with
       | [] => [x]
       | y :: l' => if bytes_leb (inst_key x) (inst_key y) then x :: l else y :: ins l'
       end) acc) [] l.

Fixpoint insert_by {A} (key : A -> bytes) (x : A) (l : list A) : list A :=
  match l with
  | [] => [x]
  | y :: l' => if bytes_leb (key x) (key y) then x :: l else y :: insert_by key x l'
  end.
Definition sort_by {A} (key : A -> bytes) (l : list A) : list A := fold_right (insert_by key) [] l.

Definition sx_snapshot (sn : snapshot) : sx :=
  L [ L (map sx_inst (sort_insts_key sn.(sn_held)));
      L (map sx_inst (sort_insts_key sn.(sn_up)));
      L (map B (sort_bytes sn.(sn_out))) ].

(* one send, as the logging peers see it: (name, instance of the server it is addressed to,
   that server is serving with exactly this address, details) *)
Definition send_records (p : list batch) (detail : N) (tr : list event) : list (bytes * sx) :=
  (fix go (tr : list event) : list (bytes * sx) :=
     match tr with
     | [] => []
     | ESend k tc r :: old =>
       let g := match nth_error p k with Some b => b.(b_inst) | None => mkInst 0 0 false false end in
       let sref := match nth_error p k with Some b => b.(b_sref) | None => false end in
       let ok := match serving old k with
                 | Some a => bytes_eqb (if is_empty a.(a_host) then default_host else a.(a_host)) r.(r_host)
                             && (a.(a_port) =? r.(r_port)) && bytes_eqb a.(a_cert) r.(r_cert)
                             && inst_eqb (inst_of tc) g
                 | None => false
                 end in
       (r.(r_name),
        L ([B r.(r_name); sx_inst g; sx_bool ok] ++
           (if detail =? 0 then
              [B r.(r_host); sx_N r.(r_port); B r.(r_cert); sx_bool r.(r_creds);
               L (map sx_header r.(r_headers)); sx_opt (fun hs => L (map sx_header hs)) r.(r_raw)]
            else if detail =? 2 then [sx_bool sref]
            else []))) :: go old
     | _ :: old => go old
     end) tr.

Definition outcome_records (p : list batch) (tr : list event) : list (bytes * sx) :=
  flat_map (fun e =>
    match e with
    | ESend _ tc _ => [(tc.(tc_name), L [B tc.(tc_name); I 0%Z])]
    | EFail k => match nth_error p k with
                 | Some b => map (fun tc => (tc.(tc_name), L [B tc.(tc_name); I 1%Z])) b.(b_cases)
                 | None => []
                 end
    | _ => []
    end) tr.

Definition count_ev (p : event -> bool) (tr : list event) : nat := length (filter p tr).

(* c05.run:
     detail   0 = scripted server and client (everything observable), 1 = scripted server with the
              real in-process clients, 2 = scripted client with the real in-process servers (reference
              AND grpc-go: two server kinds, one semaphore), 3 = as 2 with answers held back
     lockstep 1 = the script is followed move by move and snapshots are compared
     verbose  1 = flags.Verbose (instances sorted)
   (detail lockstep verbose maxservers missing (run patterns) (skip patterns) (suites) (decisions) (script))
   -> (error? (snapshots) (sends) (maxalive-or-bounded spawned stopped alive-at-end) (outcomes) (start order)) *)
Definition run_c05_run (args : list sx) : sx :=
  or_bad (match args with
  | [detail; lockstep; verbose; maxs; missing; runp; skipp; suites; ds; script] =>
    do detail <- un_N detail; do lockstep <- un_bool lockstep; do verbose <- un_bool verbose;
    do maxs <- un_nat maxs; do missing <- un_bool missing;
    (* detail 3 = detail 2 with a client that holds its answers while requests keep arriving: the same
       plan, the same semaphore for the batches of BOTH server kinds, the same observables *)
    let detail := if detail =? 3 then 2 else detail in
    do runp <- un_listof un_B runp; do skipp <- un_listof un_B skipp;
    let refc := (detail =? 1) in
    let refs := (detail =? 2) in
    let run_mode := if refc then 2 else if refs then 1 else 0 in
    do lib <- un_listof (un_suite run_mode) suites;
    let lib := concat lib in
    do ds <- un_listof un_decision ds; do script <- un_listof un_move script;
    let all_names := map tc_name (lib ++ (if refc then filter_grpc true false lib else [])
                                       ++ (if refs then filter_grpc false true lib else [])) in
    match lib with
    | [] => ret (L [B (bs "no-cases")])
    | _ =>
      if (match runp with [] => false | _ => has_unmatched runp all_names end)
         || (match skipp with [] => false | _ => has_unmatched skipp all_names end)
      then ret (L [B (bs "unmatched")]) else
      let order := if verbose then sort_insts (instances lib) else instances lib in
      let p := plan lib (accept runp skipp) order (peers_of refc) (peers_of refs) in
      (* the in-process reference servers always answer, with an address of their own choosing *)
      let ds := if refs then map (fun g => mkDec g true (mkAddr [] 1 (if g.(i_tls) then [1] else []))) (instances lib)
                else if refc
                then (* a listening scripted server answers with its real port and the runner's certificate *)
                  map (fun d => mkDec d.(d_inst) d.(d_ok) (mkAddr [] 1 (if d.(d_inst).(i_tls) then [1] else []))) ds
                else ds in
      let '(s, _, sn) := scripted maxs missing ds p (if lockstep then script else []) in
      let tr := s.(trace) in
      ret (L [ sx_bool (negb (terminal s));
               L (if lockstep then map sx_snapshot sn else []);
               L (map snd (sort_by fst (send_records p detail tr)));
               (if refs then L [ sx_bool (Nat.leb (max_alive tr) maxs) ]
                else L [ (if lockstep then sx_nat (max_alive tr) else sx_bool (Nat.leb (max_alive tr) maxs));
                         sx_nat (count_ev (fun e => match e with ESpawn _ => true | _ => false end) tr);
                         sx_nat (count_ev (fun e => match e with EStop _ => true | _ => false end) tr);
                         sx_nat (length (alive_list tr)) ]);
               L (map snd (sort_by fst (outcome_records p tr)));
               L (if lockstep && verbose && Nat.eqb maxs 1
                  then flat_map (fun e => match e with
                                          | ESpawn k => match nth_error p k with Some b => [sx_inst b.(b_inst)] | None => [] end
                                          | _ => [] end) (rev tr)
                  else []) ])
    end
  | _ => None end).

(* c05.complete: one batch through runTestCasesForServer with a scripted server response.
   (inst sref (host port cert) (suite)) -> ((server request) (requests in order)) *)
Definition sx_creq (r : creq) : sx :=
  L [ B r.(r_name); B r.(r_host); sx_N r.(r_port); B r.(r_cert); sx_bool r.(r_creds);
      L (map sx_header r.(r_headers)); sx_opt (fun hs => L (map sx_header hs)) r.(r_raw) ].

Definition run_c05_complete (args : list sx) : sx :=
  or_bad (match args with
  | [g; sref; L [B h; port; B cert]; suite] =>
    do g <- un_inst g; do sref <- un_bool sref; do port <- un_N port;
    do cases <- un_suite 0 suite;
    let a := mkAddr h port cert in
    let '(ns, bsl) := server_request g in
    let p := [mkBatch 0 false sref g cases] in
    let s := run_sched 1 p ([Acquire; Spawn 0; Ready 0 a] ++ map (fun _ => Send 0) cases) in
    ret (L [ L (map sx_N ns ++ map sx_bool bsl);
             L (flat_map (fun e => match e with ESend _ _ r => [sx_creq r] | _ => [] end) (rev s.(trace)));
             L (map snd (sort_by fst (outcome_records p s.(trace)))) ])
  | _ => None end).

Definition c05_table : list (bytes * (list sx -> sx)) :=
  [ (bs "c05.run", run_c05_run);
    (bs "c05.complete", run_c05_complete);
    (bs "c05.load", run_c05_load) ].
