(* C12_Model.v — executable model of
     internal/app/referenceserver/checks.go  (referenceServerChecks and everything it calls)
     internal/app/referenceserver/impl.go    (createRequestInfo: TimeoutMs from timeoutFromContext)
     internal/app/referenceserver/server.go  (createServer: the order in which the HTTP/1.1-bidi
                                              workaround, referenceServerChecks and the RPC handler are composed)
     internal/app/connectconformance/server_runner.go (extraHeaders -> with_expect)
   plus `render`, the spec-conformant client rendering of a point of the test matrix.
   The tables in C12_Consts.v are regenerated from the compiled code on every run.
   No proofs here. *)
From V Require Export Base.
From V Require Export C12_Consts.
Open Scope Z_scope.

(* byte-string literals are elaborated to explicit lists once, at definition time (the VM would
   otherwise rebuild them on every call) *)
Notation "'lit' s" := (ltac:(let v := eval vm_compute in (bs s) in exact v)) (at level 0, s at level 0, only parsing).

(* ---------- strconv.ParseInt(s, 10, bits), strconv.ParseBool ---------- *)
Definition digit_val (c : N) : Z := Z.of_N c - 48.
Definition all_digits (s : bytes) : bool := forallb is_digit s.
Definition nonempty_digits (s : bytes) : bool := match s with [] => false | _ => all_digits s end.
(* value of a digit string, most significant first *)
Definition dec_value (s : bytes) : Z := fold_left (fun acc c => acc * 10 + digit_val c) s 0.

Definition int_bound (bits : Z) : Z :=
  if bits =? 32 then 2147483648 else if bits =? 64 then 9223372036854775808 else 2 ^ (bits - 1).

Definition parse_int (bits : Z) (s : bytes) : option Z :=
  let '(neg, ds) := match s with
                    | c :: r => if (c =? 43)%N then (false, r) else if (c =? 45)%N then (true, r) else (false, s)
                    | [] => (false, [])
                    end in
  match ds with
  | [] => None
  | _ =>
    if all_digits ds then
      let v := if neg then - dec_value ds else dec_value ds in
      let b := int_bound bits in
      if (- b <=? v) && (v <? b) then Some v else None
    else None
  end.

Definition parse_bool (s : bytes) : option bool :=
  if mem_bytes s [lit "1"; lit "t"; lit "T"; lit "TRUE"; lit "true"; lit "True"] then Some true
  else if mem_bytes s [lit "0"; lit "f"; lit "F"; lit "FALSE"; lit "false"; lit "False"] then Some false
  else None.

(* ---------- the request, as far as the checks read it ---------- *)
(* A header / query parameter is the list of its values (http.Header.Values); Get = first or "". *)
Record request := {
  proto_major : Z;
  method : bytes;
  content_type : list bytes;
  grpc_encoding : list bytes;
  connect_content_encoding : list bytes;
  content_encoding : list bytes;
  te : list bytes;
  connect_timeout : list bytes;
  grpc_timeout : list bytes;
  x_name : list bytes;
  x_version : list bytes;
  x_method : list bytes;
  x_protocol : list bytes;
  x_codec : list bytes;
  x_compression : list bytes;
  x_tls : list bytes;
  x_cert : list bytes;
  q_encoding : list bytes;
  q_compression : list bytes;
  body_empty : bool;
  tls : option (list bytes);   (* None: plain text; Some cns: common names of the peer certificates *)
  trailer_keys : Z             (* len(req.Trailer) once the body is drained *)
}.

Definition set_connect_timeout (r : request) (v : list bytes) : request :=
  {| proto_major := proto_major r; method := method r; content_type := content_type r;
     grpc_encoding := grpc_encoding r; connect_content_encoding := connect_content_encoding r;
     content_encoding := content_encoding r; te := te r; connect_timeout := v; grpc_timeout := grpc_timeout r;
     x_name := x_name r; x_version := x_version r; x_method := x_method r; x_protocol := x_protocol r;
     x_codec := x_codec r; x_compression := x_compression r; x_tls := x_tls r; x_cert := x_cert r;
     q_encoding := q_encoding r; q_compression := q_compression r; body_empty := body_empty r;
     tls := tls r; trailer_keys := trailer_keys r |}.
Definition set_grpc_timeout (r : request) (v : list bytes) : request :=
  {| proto_major := proto_major r; method := method r; content_type := content_type r;
     grpc_encoding := grpc_encoding r; connect_content_encoding := connect_content_encoding r;
     content_encoding := content_encoding r; te := te r; connect_timeout := connect_timeout r; grpc_timeout := v;
     x_name := x_name r; x_version := x_version r; x_method := x_method r; x_protocol := x_protocol r;
     x_codec := x_codec r; x_compression := x_compression r; x_tls := x_tls r; x_cert := x_cert r;
     q_encoding := q_encoding r; q_compression := q_compression r; body_empty := body_empty r;
     tls := tls r; trailer_keys := trailer_keys r |}.

Definition set_proto_major (r : request) (v : Z) : request :=
  {| proto_major := v; method := method r; content_type := content_type r;
     grpc_encoding := grpc_encoding r; connect_content_encoding := connect_content_encoding r;
     content_encoding := content_encoding r; te := te r; connect_timeout := connect_timeout r;
     grpc_timeout := grpc_timeout r;
     x_name := x_name r; x_version := x_version r; x_method := x_method r; x_protocol := x_protocol r;
     x_codec := x_codec r; x_compression := x_compression r; x_tls := x_tls r; x_cert := x_cert r;
     q_encoding := q_encoding r; q_compression := q_compression r; body_empty := body_empty r;
     tls := tls r; trailer_keys := trailer_keys r |}.

(* ---------- feedback ---------- *)
Inductive kind :=
| KRepeat (n : Z)
| KDupHeader (name : bytes) (n : Z)
| KDupQuery (name : bytes) (n : Z)
| KEnumSyntax (name : bytes)
| KEnumRange (name : bytes) (v : Z)
| KBadExpVersion (v : Z)
| KVersion (e g : Z)
| KProtoUnknown
| KProtocol (e g : Z)
| KTe
| KBadExpCodec (v : Z)
| KGetContentType
| KGetBody
| KNoEncoding
| KCodec (e g : bytes)
| KBadExpCompression (v : Z)
| KCompression (e g : bytes)
| KTlsSyntax
| KTlsExpected
| KPlainExpected
| KCert (e g : bytes)
| KMethod (e g : bytes)
| KTrailers (n : Z)
| KTimeoutConnectInvalid
| KTimeoutConnectLong
| KTimeoutGrpcEmpty
| KTimeoutGrpcUnit
| KTimeoutGrpcInvalid
| KTimeoutGrpcLong.

Definition fb := list kind.

Definition first (vals : list bytes) : bytes := hd [] vals.
Definition present (vals : list bytes) : bool := match vals with [] => false | _ => true end.
Definition zlen {A} (l : list A) : Z := Z.of_nat (length l).

(* getHeader / getQueryParam: complain when the name appears more than once *)
Definition dup_header (name : bytes) (vals : list bytes) : fb :=
  if 1 <? zlen vals then [KDupHeader name (zlen vals)] else [].
Definition dup_query (name : bytes) (vals : list bytes) : fb :=
  if 1 <? zlen vals then [KDupQuery name (zlen vals)] else [].

Definition mem_Z (z : Z) (l : list Z) : bool := existsb (Z.eqb z) l.
Fixpoint assoc_Z {A} (z : Z) (l : list (Z * A)) : option A :=
  match l with [] => None | (k, v) :: l' => if z =? k then Some v else assoc_Z z l' end.
Fixpoint assoc_N {A} (n : N) (l : list (N * A)) : option A :=
  match l with [] => None | (k, v) :: l' => if (n =? k)%N then Some v else assoc_N n l' end.

(* enumValue *)
Definition enum_value (name : bytes) (vals : list bytes) (valid : list Z) : option Z * fb :=
  let f := dup_header name vals in
  match parse_int 32 (first vals) with
  | None => (None, f ++ [KEnumSyntax name])
  | Some i => if mem_Z i valid then (Some i, f) else (None, f ++ [KEnumRange name i])
  end.

Definition check_http_version (e : Z) (r : request) : fb :=
  match (if e =? 1 then Some 1 else if e =? 2 then Some 2 else if e =? 3 then Some 3 else None) with
  | None => [KBadExpVersion e]
  | Some v => if proto_major r =? v then [] else [KVersion v (proto_major r)]
  end.

Definition ct_grpc := lit "application/grpc".
Definition ct_grpc_plus := lit "application/grpc+".
Definition ct_grpc_web := lit "application/grpc-web".
Definition ct_grpc_web_plus := lit "application/grpc-web+".
Definition ct_connect_stream := lit "application/connect+".
Definition ct_app := lit "application/".
Definition m_get := lit "GET".
Definition m_post := lit "POST".

Definition check_protocol (e : Z) (r : request) : fb :=
  let ct := first (content_type r) in
  let actual :=
    if bytes_eqb ct ct_grpc || has_prefix ct_grpc_plus ct then Some 2
    else if bytes_eqb ct ct_grpc_web || has_prefix ct_grpc_web_plus ct then Some 3
    else if has_prefix ct_app ct || bytes_eqb (method r) m_get then Some 1
    else None in
  match actual with
  | None => [KProtoUnknown]
  | Some a =>
    if negb (e =? a) then [KProtocol e a]
    else if (e =? 2) && negb (bytes_eqb (first (te r)) (lit "trailers")) then [KTe]
    else []
  end.

Fixpoint drop_prefix (p s : bytes) : bytes :=
  match p, s with
  | _ :: p', _ :: s' => drop_prefix p' s'
  | _, _ => s
  end.

Definition check_codec (e : Z) (r : request) : fb :=
  match assoc_Z e c12_codec_names with
  | None => [KBadExpCodec e]
  | Some expect =>
    let f0 := dup_header (lit "content-type") (content_type r) in
    let ct := first (content_type r) in
    let cmp (actual : bytes) : fb := if bytes_eqb expect actual then [] else [KCodec expect actual] in
    if bytes_eqb (method r) m_get then
      let f1 := if present (content_type r) then [KGetContentType] else [] in
      let f2 := if body_empty r then [] else [KGetBody] in
      let f3 := dup_query (lit "encoding") (q_encoding r) in
      if present (q_encoding r) then f0 ++ f1 ++ f2 ++ f3 ++ cmp (first (q_encoding r))
      else f0 ++ f1 ++ f2 ++ f3 ++ [KNoEncoding]
    else if bytes_eqb ct ct_grpc || bytes_eqb ct ct_grpc_web then f0 ++ cmp (lit "proto")
    else if has_prefix ct_grpc_plus ct then f0 ++ cmp (drop_prefix ct_grpc_plus ct)
    else if has_prefix ct_grpc_web_plus ct then f0 ++ cmp (drop_prefix ct_grpc_web_plus ct)
    else if has_prefix ct_connect_stream ct then f0 ++ cmp (drop_prefix ct_connect_stream ct)
    else if has_prefix ct_app ct then f0 ++ cmp (drop_prefix ct_app ct)
    else f0
  end.

Definition check_compression (e : Z) (r : request) : fb :=
  match assoc_Z e c12_compression_names with
  | None => [KBadExpCompression e]
  | Some expect =>
    let cmp (vals : list bytes) : fb :=
      let actual := if present vals then first vals else lit "identity" in
      if bytes_eqb expect actual then [] else [KCompression expect actual] in
    if bytes_eqb (method r) m_get then
      dup_query (lit "compression") (q_compression r) ++ cmp (q_compression r)
    else
      let ct := first (content_type r) in
      if bytes_eqb ct ct_grpc || bytes_eqb ct ct_grpc_web || has_prefix ct_grpc_plus ct || has_prefix ct_grpc_web_plus ct
      then dup_header (lit "grpc-encoding") (grpc_encoding r) ++ cmp (grpc_encoding r)
      else if has_prefix ct_connect_stream ct
      then dup_header (lit "connect-content-encoding") (connect_content_encoding r) ++ cmp (connect_content_encoding r)
      else if has_prefix ct_app ct
      then dup_header (lit "content-encoding") (content_encoding r) ++ cmp (content_encoding r)
      else []
  end.

Definition check_tls (r : request) : fb :=
  let f0 := dup_header (lit "x-expect-tls") (x_tls r) in
  match parse_bool (first (x_tls r)) with
  | None => f0 ++ [KTlsSyntax]
  | Some expect =>
    match tls r with
    | None => if expect then f0 ++ [KTlsExpected] else f0
    | Some cns =>
      if negb expect then f0 ++ [KPlainExpected]
      else
        let f1 := dup_header (lit "x-expect-client-cert") (x_cert r) in
        let e := first (x_cert r) in
        let a := first cns in
        f0 ++ f1 ++ (if bytes_eqb e a then [] else [KCert e a])
    end
  end.

Definition check_method (r : request) : fb :=
  dup_header (lit "x-expect-http-method") (x_method r) ++
  (if bytes_eqb (method r) (first (x_method r)) then [] else [KMethod (first (x_method r)) (method r)]).

(* ---------- timeouts ---------- *)
Definition max_int64 : Z := 9223372036854775807.
Definition wrap64 (z : Z) : Z := (z + 9223372036854775808) mod 18446744073709551616 - 9223372036854775808.
Definition ms_ns : Z := 1000000.

Section Timeout.
(* int64(d.Hours()), int64(d.Minutes()), int64(d.Seconds()) go through float64 in package time;
   fquot d unit stands for that computation (the extracted model uses the exact quotient; the
   theorems hold for every function within 1 of it that is exact on exact multiples). *)
Variable fquot : Z -> Z -> Z.

(* extractTimeout, Connect branch, on the header value *)
Definition extract_connect (val : bytes) : option Z * fb :=
  if negb (nonempty_digits val) then (None, [KTimeoutConnectInvalid])
  else if c12_connect_max_digits <? zlen val then (None, [KTimeoutConnectLong])
  else match parse_int 64 val with
       | None => (None, [KTimeoutConnectInvalid])
       | Some v =>
         if v <? 0 then (None, [KTimeoutConnectInvalid])
         else
           let t := wrap64 (v * ms_ns) in
           if Z.quot t ms_ns =? v then (Some t, []) else (Some max_int64, [])
       end.

Fixpoint split_last (s : bytes) : option (bytes * N) :=
  match s with
  | [] => None
  | [c] => Some ([], c)
  | c :: s' => match split_last s' with Some (i, l) => Some (c :: i, l) | None => None end
  end.

(* how the round trip is computed for each unit: float (H, M, S) or integer division *)
Definition unit_is_float (u : N) : bool := (u =? 72)%N || (u =? 77)%N || (u =? 83)%N.

Definition extract_grpc (val : bytes) : option Z * fb :=
  match split_last val with
  | None => (None, [KTimeoutGrpcEmpty])
  | Some (ds, u) =>
    match assoc_N u c12_grpc_units with
    | None => (None, [KTimeoutGrpcUnit])
    | Some ns =>
      if negb (nonempty_digits ds) then (None, [KTimeoutGrpcInvalid])
      else if c12_grpc_max_digits <? zlen ds then (None, [KTimeoutGrpcLong])
      else match parse_int 64 ds with
           | None => (None, [KTimeoutGrpcInvalid])
           | Some v =>
             if v <? 0 then (None, [KTimeoutGrpcInvalid])
             else
               let t := wrap64 (v * ns) in
               let rt := if unit_is_float u then fquot t ns else Z.quot t ns in
               if rt =? v then (Some t, []) else (Some max_int64, [])
           end
    end
  end.

(* extractTimeout: (accepted duration, feedback, request with the header deleted) *)
Definition extract_timeout (protocol : Z) (r : request) : option Z * fb * request :=
  if protocol =? 1 then
    if present (connect_timeout r) then
      let '(t, f) := extract_connect (first (connect_timeout r)) in
      (t, dup_header (lit "connect-timeout-ms") (connect_timeout r) ++ f, set_connect_timeout r [])
    else (None, [], r)
  else if (protocol =? 2) || (protocol =? 3) then
    if present (grpc_timeout r) then
      let '(t, f) := extract_grpc (first (grpc_timeout r)) in
      (t, dup_header (lit "grpc-timeout") (grpc_timeout r) ++ f, set_grpc_timeout r [])
    else (None, [], r)
  else (None, [], r).

(* ---------- referenceServerChecks ---------- *)
Definition calls := list (bytes * Z).
Fixpoint count_of (c : calls) (name : bytes) : Z :=
  match c with [] => 0 | (k, v) :: c' => if bytes_eqb name k then v else count_of c' name end.
Fixpoint bump (c : calls) (name : bytes) : calls :=
  match c with
  | [] => [(name, 1)]
  | (k, v) :: c' => if bytes_eqb name k then (k, v + 1) :: c' else (k, v) :: bump c' name
  end.

Inductive outcome :=
| Rejected                       (* no test name: InvalidArgument written, handler not called, no feedback *)
| Served (name : bytes)          (* prefix of every feedback line *)
         (feedback : fb)
         (timeout : option Z)    (* duration stored in the context handed to the inner handler (ns) *)
         (seen : request).       (* the request the inner handler sees *)

(* referenceServerChecks has three phases: what it does BEFORE it calls the wrapped handler (`enter`:
   test name, call counter read AND incremented under one lock region, the per-aspect checks, timeout
   extraction), the wrapped handler itself, and what it does AFTER the handler has returned (`leave`:
   body drained, request trailers counted).  While the handler runs other requests may enter. *)
Definition enter (c : calls) (r : request) : calls * outcome :=
  let name := first (x_name r) in
  match name with
  | [] => (c, Rejected)
  | _ =>
    let count := count_of c name in
    let f_rep := if 0 <? count then [KRepeat (count + 1)] else [] in
    let f_ver := match enum_value (lit "x-expect-http-version") (x_version r) c12_http_versions with
                 | (Some v, f) => f ++ check_http_version v r
                 | (None, f) => f
                 end in
    let '(t, f_pro, r') := match enum_value (lit "x-expect-protocol") (x_protocol r) c12_protocols with
                           | (Some p, f) =>
                             let '(t, ft, r') := extract_timeout p r in
                             (t, f ++ check_protocol p r ++ ft, r')
                           | (None, f) => (None, f, r)
                           end in
    let f_cod := match enum_value (lit "x-expect-codec") (x_codec r') c12_codecs with
                 | (Some v, f) => f ++ check_codec v r'
                 | (None, f) => f
                 end in
    let f_cmp := match enum_value (lit "x-expect-compression") (x_compression r') c12_compressions with
                 | (Some v, f) => f ++ check_compression v r'
                 | (None, f) => f
                 end in
    let f_tls := check_tls r' in
    let f_met := check_method r' in
    (bump c name, Served name (f_rep ++ f_ver ++ f_pro ++ f_cod ++ f_cmp ++ f_tls ++ f_met) t r')
  end.

Definition leave (r' : request) : fb :=
  if 0 <? trailer_keys r' then [KTrailers (trailer_keys r')] else [].

(* one request handled without anything in between: entry, handler, exit *)
Definition checks (c : calls) (r : request) : calls * outcome :=
  match enter c r with
  | (c', Served name f t r') => (c', Served name (f ++ leave r') t r')
  | (c', Rejected) => (c', Rejected)
  end.

(* createRequestInfo: TimeoutMs = timeout.Milliseconds() when the context carries one *)
Definition echo_ms (o : outcome) : option Z :=
  match o with
  | Served _ _ (Some t) _ => Some (Z.quot t ms_ns)
  | _ => None
  end.

Fixpoint run_seq (c : calls) (rs : list request) : list outcome :=
  match rs with
  | [] => []
  | r :: rs' => let '(c', o) := checks c r in o :: run_seq c' rs'
  end.

(* ---------- overlapping requests: histories of BEGIN and END events ---------- *)
(* EvBegin r: a request arrives and runs up to the point where the wrapped handler is called (one
   atomic step: the only shared state, the call counter, is read and written inside one lock region
   at the very beginning).  EvEnd i: the handler of the i-th begun request (0-based, counting every
   EvBegin) returns and that request runs to its end.  In between, any number of other requests may
   begin and end. *)
Inductive event := EvBegin (r : request) | EvEnd (i : nat).

Inductive ev_out :=
| OBegin (o : outcome)              (* Rejected, or Served with the feedback written before the handler is called *)
| OEnd (name : bytes) (f : fb)      (* feedback written after the handler returned *)
| OIdle.                            (* EvEnd of a request that is not in flight: nothing happens *)

(* in flight: per EvBegin, in order, the request its handler was given (None: rejected or already ended) *)
Record hstate := { h_calls : calls; h_open : list (option request) }.
Definition h_init : hstate := {| h_calls := []; h_open := [] |}.

Fixpoint close_nth (l : list (option request)) (i : nat) : list (option request) :=
  match l, i with
  | [], _ => []
  | _ :: l', O => None :: l'
  | x :: l', S i' => x :: close_nth l' i'
  end.

Definition step (s : hstate) (e : event) : hstate * ev_out :=
  match e with
  | EvBegin r =>
    let '(c', o) := enter (h_calls s) r in
    ({| h_calls := c';
        h_open := h_open s ++ [match o with Served _ _ _ r' => Some r' | Rejected => None end] |}, OBegin o)
  | EvEnd i =>
    match nth_error (h_open s) i with
    | Some (Some r') =>
      ({| h_calls := h_calls s; h_open := close_nth (h_open s) i |}, OEnd (first (x_name r')) (leave r'))
    | _ => (s, OIdle)
    end
  end.

Fixpoint run_events (s : hstate) (es : list event) : list ev_out :=
  match es with
  | [] => []
  | e :: es' => let '(s', o) := step s e in o :: run_events s' es'
  end.

(* ---------- createServer (reference mode): how the layers are composed ---------- *)
(* innermost first:   mux (connect-go RPC handlers, one per procedure)
                      <- HTTP/1.1-bidi workaround (BidiStream path and ProtoMajor = 1: the request is
                         relabelled HTTP/2.0 so that connect-go serves half-duplex bidi)
                      <- referenceServerChecks
                      <- rawResponder <- (tracing) <- cors <- (h2c upgrade for HTTP/2 without TLS).
   rawResponder, cors and h2c do not touch what the checks read.  So the checks judge the request as it
   arrived; only the RPC handler is told the other version. *)
Inductive procedure := ProcUnary | ProcServerStream | ProcClientStream | ProcBidiStream | ProcIdempotentUnary.
Definition is_bidi (p : procedure) : bool := match p with ProcBidiStream => true | _ => false end.

Definition bidi_workaround (p : procedure) (r : request) : request :=
  if is_bidi p && (proto_major r =? 1) then set_proto_major r 2 else r.

(* the outcome's `seen` is now the request as the RPC handler gets it *)
Definition server (c : calls) (p : procedure) (r : request) : calls * outcome :=
  match checks c r with
  | (c', Served name f t r') => (c', Served name f t (bidi_workaround p r'))
  | (c', Rejected) => (c', Rejected)
  end.

Fixpoint run_server (c : calls) (p : procedure) (rs : list request) : list outcome :=
  match rs with
  | [] => []
  | r :: rs' => let '(c', o) := server c p r in o :: run_server c' p rs'
  end.
End Timeout.

(* connect-go refuses (505) a bidi stream whose request says HTTP/1.x: what the workaround prevents *)
Definition handler_refuses (p : procedure) (seen : request) : bool := is_bidi p && (proto_major seen <? 2).

Definition feedback_of (o : outcome) : fb := match o with Served _ f _ _ => f | Rejected => [] end.

(* ---------- the test matrix: what the runner announces, what a client renders ---------- *)
Inductive version := V1 | V2 | V3.
Inductive protocol := PConnect | PGrpc | PGrpcWeb.
Inductive codec := CProto | CJson.
Inductive compression := ZIdentity | ZGzip | ZBr | ZZstd | ZDeflate | ZSnappy.
Inductive tlsmode := Plain | Tls | TlsCert.

(* the runner's view of a test case (server_runner.go extraHeaders) *)
Record axes := {
  a_version : version; a_get : bool; a_protocol : protocol; a_codec : codec;
  a_compression : compression; a_tls : tlsmode }.

(* what a conformant client can put on the wire: GET only for Connect unary; the Connect content-type
   depends on the stream type; gRPC and gRPC-Web may omit the "+proto" suffix *)
Inductive shape := ConnectGet | ConnectUnary | ConnectStream | GrpcPost | GrpcBare | GrpcWebPost | GrpcWebBare.
Record actual := {
  c_version : version; c_shape : shape; c_codec : codec; c_compression : compression; c_tls : tlsmode }.

Definition version_num (v : version) : Z := match v with V1 => 1 | V2 => 2 | V3 => 3 end.
Definition protocol_num (p : protocol) : Z := match p with PConnect => 1 | PGrpc => 2 | PGrpcWeb => 3 end.
Definition codec_num (c : codec) : Z := match c with CProto => 1 | CJson => 2 end.
Definition compression_num (c : compression) : Z :=
  match c with ZIdentity => 1 | ZGzip => 2 | ZBr => 3 | ZZstd => 4 | ZDeflate => 5 | ZSnappy => 6 end.
Definition codec_name (c : codec) : bytes := match c with CProto => lit "proto" | CJson => lit "json" end.
Definition compression_name (c : compression) : bytes :=
  match c with ZIdentity => lit "identity" | ZGzip => lit "gzip" | ZBr => lit "br" | ZZstd => lit "zstd"
          | ZDeflate => lit "deflate" | ZSnappy => lit "snappy" end.

Definition shape_protocol (s : shape) : protocol :=
  match s with
  | ConnectGet | ConnectUnary | ConnectStream => PConnect
  | GrpcPost | GrpcBare => PGrpc
  | GrpcWebPost | GrpcWebBare => PGrpcWeb
  end.
Definition shape_get (s : shape) : bool := match s with ConnectGet => true | _ => false end.

Definition project (a : actual) : axes :=
  {| a_version := c_version a; a_get := shape_get (c_shape a); a_protocol := shape_protocol (c_shape a);
     a_codec := c_codec a; a_compression := c_compression a; a_tls := c_tls a |}.

Definition dec1 (z : Z) : bytes := [Z.to_N (z + 48)].   (* strconv.Itoa for 0..9 *)

Definition render (a : actual) : request :=
  let cn := codec_name (c_codec a) in
  let enc := match c_compression a with ZIdentity => [] | z => [compression_name z] end in
  let sh := c_shape a in
  {| proto_major := version_num (c_version a);
     method := if shape_get sh then m_get else m_post;
     content_type := match sh with
                     | ConnectGet => []
                     | ConnectUnary => [ct_app ++ cn]
                     | ConnectStream => [ct_connect_stream ++ cn]
                     | GrpcPost => [ct_grpc_plus ++ cn]
                     | GrpcBare => match c_codec a with CProto => [ct_grpc] | _ => [ct_grpc_plus ++ cn] end
                     | GrpcWebPost => [ct_grpc_web_plus ++ cn]
                     | GrpcWebBare => match c_codec a with CProto => [ct_grpc_web] | _ => [ct_grpc_web_plus ++ cn] end
                     end;
     grpc_encoding := match shape_protocol sh with PConnect => [] | _ => enc end;
     connect_content_encoding := match sh with ConnectStream => enc | _ => [] end;
     content_encoding := match sh with ConnectUnary => enc | _ => [] end;
     te := match shape_protocol sh with PGrpc => [lit "trailers"] | _ => [] end;
     connect_timeout := []; grpc_timeout := [];
     x_name := []; x_version := []; x_method := []; x_protocol := []; x_codec := []; x_compression := [];
     x_tls := []; x_cert := [];
     q_encoding := match sh with ConnectGet => [cn] | _ => [] end;
     q_compression := match sh with ConnectGet => enc | _ => [] end;
     body_empty := shape_get sh;
     tls := match c_tls a with Plain => None | Tls => Some [] | TlsCert => Some [c12_client_cert_name] end;
     trailer_keys := 0 |}.

(* server_runner.go: x-test-case-name and the x-expect-* headers appended to the request *)
Definition with_expect (name : bytes) (e : axes) (r : request) : request :=
  {| proto_major := proto_major r; method := method r; content_type := content_type r;
     grpc_encoding := grpc_encoding r; connect_content_encoding := connect_content_encoding r;
     content_encoding := content_encoding r; te := te r; connect_timeout := connect_timeout r;
     grpc_timeout := grpc_timeout r;
     x_name := [name];
     x_version := [dec1 (version_num (a_version e))];
     x_method := [if a_get e then m_get else m_post];
     x_protocol := [dec1 (protocol_num (a_protocol e))];
     x_codec := [dec1 (codec_num (a_codec e))];
     x_compression := [dec1 (compression_num (a_compression e))];
     x_tls := [match a_tls e with Plain => lit "false" | _ => lit "true" end];
     x_cert := match a_tls e with TlsCert => [c12_client_cert_name] | _ => [] end;
     q_encoding := q_encoding r; q_compression := q_compression r; body_empty := body_empty r;
     tls := tls r; trailer_keys := trailer_keys r |}.

Definition all_versions := [V1; V2; V3].
Definition all_protocols := [PConnect; PGrpc; PGrpcWeb].
Definition all_codecs := [CProto; CJson].
Definition all_compressions := [ZIdentity; ZGzip; ZBr; ZZstd; ZDeflate; ZSnappy].
Definition all_tls := [Plain; Tls; TlsCert].
Definition all_shapes := [ConnectGet; ConnectUnary; ConnectStream; GrpcPost; GrpcBare; GrpcWebPost; GrpcWebBare].

Definition all_axes : list axes :=
  flat_map (fun v => flat_map (fun g => flat_map (fun p => flat_map (fun c => flat_map (fun z => map (fun t =>
    {| a_version := v; a_get := g; a_protocol := p; a_codec := c; a_compression := z; a_tls := t |})
    all_tls) all_compressions) all_codecs) all_protocols) [false; true]) all_versions.
Definition all_actual : list actual :=
  flat_map (fun v => flat_map (fun s => flat_map (fun c => flat_map (fun z => map (fun t =>
    {| c_version := v; c_shape := s; c_codec := c; c_compression := z; c_tls := t |})
    all_tls) all_compressions) all_codecs) all_shapes) all_versions.

(* ---------- internal/printer.go: the printer that run() (server.go) makes of the server's stderr ---------- *)
(* run() does `errPrinter := internal.NewPrinter(errWriter)` and hands it to createServer, which hands it to
   referenceServerChecks; every check writes through feedbackPrinter.Printf(format, args...) =
   errPrinter.PrefixPrintf(testCaseName, format, args...).  NewPrinter = safePrinter over a peekWriter: the
   bytes that reached the underlying writer and the last byte written so far. *)
Record pw := { pw_out : bytes; pw_last : N }.
Definition pw_init : pw := {| pw_out := []; pw_last := 0%N |}.
Definition pw_write (w : pw) (data : bytes) : pw :=
  {| pw_out := pw_out w ++ data; pw_last := last data (pw_last w) |}.    (* `if n > 0 { p.last = data[n-1] }` *)
Definition sep_colon : bytes := [58; 32]%N.                              (* ": " *)
(* safePrinter.PrefixPrintf(prefix, format, args...), `msg` being the formatted message
   (fmt.Sprintf(format, args...): package fmt is not modelled).  Two writes under one lock region:
   Fprintf(w, "%s: ", prefix) - the prefix is an ARGUMENT of the verb %s, so its bytes are copied and never
   read as a format - then Fprintf(w, format, args...), then a newline unless the last byte written is one. *)
Definition prefix_printf (w : pw) (prefix msg : bytes) : pw :=
  let w1 := pw_write w (prefix ++ sep_colon) in
  let w2 := pw_write w1 msg in
  if (pw_last w2 =? 10)%N then w2 else pw_write w2 [10%N].

Section Printer.
(* how a feedback kind reads: the formatted message of the check that writes it *)
Variable text : kind -> bytes.
(* the checks write their lines in order, each through feedbackPrinter{p: errPrinter, testCaseName: name} *)
Definition print_feedback (w : pw) (name : bytes) (f : fb) : pw :=
  fold_left (fun w k => prefix_printf w name (text k)) f w.
(* what a handled request adds to the server's stderr *)
Definition stderr_of (w : pw) (o : outcome) : pw :=
  match o with Served name f _ _ => print_feedback w name f | Rejected => w end.
End Printer.

(* the reading end (server_runner.go, the goroutine over serverProcess.stderr): a line is trimmed
   (strings.TrimSpace; ASCII white space here), split at the FIRST ": " (strings.SplitN(str, ": ", 2)) and is
   side-band feedback for a test case iff the part before is one of the batch's test names *)
Fixpoint split_sep (s : bytes) : option (bytes * bytes) :=
  match s with
  | [] => None
  | c :: s' =>
    if (c =? 58)%N && (match s' with d :: _ => (d =? 32)%N | [] => false end)
    then Some ([], tl s')
    else match split_sep s' with Some (a, b) => Some (c :: a, b) | None => None end
  end.
Definition sideband (names : list bytes) (line : bytes) : option (bytes * bytes) :=
  match split_sep (trim_space line) with
  | Some (n, m) => if mem_bytes n names then Some (n, m) else None
  | None => None
  end.
(* ReadString('\n') until the end, blank lines skipped *)
Definition stderr_lines (s : bytes) : list bytes :=
  filter (fun l => match trim_space l with [] => false | _ => true end) (split_on 10%N s).

(* ---------- case decoding / result encoding (extracted glue) ---------- *)
Definition sx_kind (k : kind) : sx :=
  match k with
  | KRepeat n => L [I 1; I n]
  | KDupHeader h n => L [I 2; B h; I n]
  | KDupQuery h n => L [I 3; B h; I n]
  | KEnumSyntax h => L [I 4; B h]
  | KEnumRange h v => L [I 5; B h; I v]
  | KBadExpVersion v => L [I 6; I v]
  | KVersion e g => L [I 7; I e; I g]
  | KProtoUnknown => L [I 8]
  | KProtocol e g => L [I 9; I e; I g]
  | KTe => L [I 10]
  | KBadExpCodec v => L [I 11; I v]
  | KGetContentType => L [I 12]
  | KGetBody => L [I 13]
  | KNoEncoding => L [I 14]
  | KCodec e g => L [I 15; B e; B g]
  | KBadExpCompression v => L [I 16; I v]
  | KCompression e g => L [I 17; B e; B g]
  | KTlsSyntax => L [I 20]
  | KTlsExpected => L [I 21]
  | KPlainExpected => L [I 22]
  | KCert e g => L [I 23; B e; B g]
  | KMethod e g => L [I 24; B e; B g]
  | KTrailers n => L [I 25; I n]
  | KTimeoutConnectInvalid => L [I 30]
  | KTimeoutConnectLong => L [I 31]
  | KTimeoutGrpcEmpty => L [I 32]
  | KTimeoutGrpcUnit => L [I 33]
  | KTimeoutGrpcInvalid => L [I 34]
  | KTimeoutGrpcLong => L [I 35]
  end.

Definition sx_outcome (o : outcome) : sx :=
  match o with
  | Rejected => L [B (lit "rejected")]
  | Served name f t r' =>
    (* the name is observable only as the prefix of feedback lines *)
    L [ B (match f with [] => [] | _ => name end); L (map sx_kind f); sx_opt I t;
        sx_bool (present (connect_timeout r')); sx_bool (present (grpc_timeout r'));
        sx_opt I (echo_ms o) ]
  end.

Definition un_bl (s : sx) : option (list bytes) := un_listof un_B s.

Definition un_request (s : sx) : option request :=
  match s with
  | L [I pm; B me; ct; ge; cce; ce; te_; cto; gto; xn; xv; xm; xp; xc; xz; xt; xcert; qe; qc; be; tl; I tr] =>
    do ct <- un_bl ct; do ge <- un_bl ge; do cce <- un_bl cce; do ce <- un_bl ce; do te_ <- un_bl te_;
    do cto <- un_bl cto; do gto <- un_bl gto; do xn <- un_bl xn; do xv <- un_bl xv; do xm <- un_bl xm;
    do xp <- un_bl xp; do xc <- un_bl xc; do xz <- un_bl xz; do xt <- un_bl xt; do xcert <- un_bl xcert;
    do qe <- un_bl qe; do qc <- un_bl qc; do be <- un_bool be; do tl <- un_opt un_bl tl;
    ret {| proto_major := pm; method := me; content_type := ct; grpc_encoding := ge;
           connect_content_encoding := cce; content_encoding := ce; te := te_; connect_timeout := cto;
           grpc_timeout := gto; x_name := xn; x_version := xv; x_method := xm; x_protocol := xp; x_codec := xc;
           x_compression := xz; x_tls := xt; x_cert := xcert; q_encoding := qe; q_compression := qc;
           body_empty := be; tls := tl; trailer_keys := tr |}
  | _ => None
  end.

Definition sx_bl (l : list bytes) : sx := L (map B l).
Definition sx_request (r : request) : sx :=
  L [ I (proto_major r); B (method r); sx_bl (content_type r); sx_bl (grpc_encoding r);
      sx_bl (connect_content_encoding r); sx_bl (content_encoding r); sx_bl (te r);
      sx_bl (connect_timeout r); sx_bl (grpc_timeout r); sx_bl (x_name r); sx_bl (x_version r);
      sx_bl (x_method r); sx_bl (x_protocol r); sx_bl (x_codec r); sx_bl (x_compression r);
      sx_bl (x_tls r); sx_bl (x_cert r); sx_bl (q_encoding r); sx_bl (q_compression r);
      sx_bool (body_empty r); sx_opt sx_bl (tls r); I (trailer_keys r) ].

(* the extracted model computes the float round trip with the exact quotient *)
Definition checks_x := checks Z.quot.

(* c12.seq: (request ...) on one wrapped handler, in order -> (outcome ...) *)
Definition run_c12_seq (args : list sx) : sx :=
  or_bad (match args with
  | [rs] => do rs <- un_listof un_request rs; ret (L (map sx_outcome (run_seq Z.quot [] rs)))
  | _ => None end).

(* axes codes: mixed radix, in the order of all_axes / all_actual *)
Definition un_axes (s : sx) : option axes := do n <- un_nat s; nth_error all_axes n.
Definition un_actual (s : sx) : option actual := do n <- un_nat s; nth_error all_actual n.

(* c12.matrix: expected-code (actual-code ...) -> feedback of a fresh handler on each rendering *)
Definition run_c12_matrix (args : list sx) : sx :=
  or_bad (match args with
  | [e; acts] =>
    do e <- un_axes e; do acts <- un_listof un_actual acts;
    ret (L (map (fun a => L (map sx_kind (feedback_of (snd (checks_x [] (with_expect (lit "t") e (render a))))))) acts))
  | _ => None end).

(* c12.render: actual-code -> the rendered request (compared with the harness's independent renderer) *)
Definition run_c12_render (args : list sx) : sx :=
  or_bad (match args with
  | [a; e] => do a <- un_actual a; do e <- un_axes e; ret (sx_request (with_expect (lit "t") e (render a)))
  | _ => None end).

(* c12.timeouts: protocol (header-value ...) -> per value the outcome of a request that matches its
   expectations in every aspect and carries that timeout header *)
Definition timeout_request (p : Z) (val : bytes) : option request :=
  let mk sh := {| c_version := V2; c_shape := sh; c_codec := CProto; c_compression := ZIdentity; c_tls := Plain |} in
  if p =? 1 then Some (set_connect_timeout (with_expect (lit "t") (project (mk ConnectUnary)) (render (mk ConnectUnary))) [val])
  else if p =? 2 then Some (set_grpc_timeout (with_expect (lit "t") (project (mk GrpcPost)) (render (mk GrpcPost))) [val])
  else if p =? 3 then Some (set_grpc_timeout (with_expect (lit "t") (project (mk GrpcWebPost)) (render (mk GrpcWebPost))) [val])
  else None.

Definition run_c12_timeouts (args : list sx) : sx :=
  or_bad (match args with
  | [I p; vals] =>
    do vals <- un_bl vals;
    do _ <- timeout_request p [];
    ret (L (map (fun v => match timeout_request p v with
                          | Some r => sx_outcome (snd (checks_x [] r))
                          | None => sx_bad end) vals))
  | _ => None end).

(* transports of the live kinds: the transport decides HTTP version, TLS and client certificate
   (0 HTTP/1.1 plain, 1 HTTP/1.1 TLS, 2 HTTP/1.1 TLS + client certificate, 3 HTTP/2 TLS,
    4 HTTP/2 TLS + client certificate, 5 h2c with prior knowledge, 6 HTTP/1.1 plain to the h2c server,
    7 HTTP/1.1 over TLS to the HTTP/2 server) *)
Definition with_transport (mode : Z) (r : request) : option request :=
  let mk pm t :=
    Some {| proto_major := pm; method := method r; content_type := content_type r;
            grpc_encoding := grpc_encoding r; connect_content_encoding := connect_content_encoding r;
            content_encoding := content_encoding r; te := te r; connect_timeout := connect_timeout r;
            grpc_timeout := grpc_timeout r; x_name := x_name r; x_version := x_version r; x_method := x_method r;
            x_protocol := x_protocol r; x_codec := x_codec r; x_compression := x_compression r; x_tls := x_tls r;
            x_cert := x_cert r; q_encoding := q_encoding r; q_compression := q_compression r;
            body_empty := body_empty r; tls := t; trailer_keys := trailer_keys r |} in
  if mode =? 0 then mk 1 None
  else if mode =? 1 then mk 1 (Some [])
  else if mode =? 2 then mk 1 (Some [c12_client_cert_name])
  else if mode =? 3 then mk 2 (Some [])
  else if mode =? 4 then mk 2 (Some [c12_client_cert_name])
  else if mode =? 5 then mk 2 None
  else if mode =? 6 then mk 1 None
  else if mode =? 7 then mk 1 (Some [])
  else None.

(* c12.wire: mode request -> outcome of that request sent by a real client over a real listener to
   referenceServerChecks around a recording handler (modes 0-5) *)
Definition run_c12_wire (args : list sx) : sx :=
  or_bad (match args with
  | [I mode; r] =>
    if (0 <=? mode) && (mode <=? 5) then
      do r <- un_request r; do r <- with_transport mode r; ret (sx_outcome (snd (checks_x [] r)))
    else None
  | _ => None end).

(* c12.events: ((0 request) | (1 index) ...) on one wrapped handler whose inner handler parks until the
   matching (1 index) -> per event what was written during that event.  An end of something that is not
   in flight is not a case. *)
Definition un_event (s : sx) : option event :=
  match s with
  | L [I 0; r] => do r <- un_request r; ret (EvBegin r)
  | L [I 1; i] => do i <- un_nat i; ret (EvEnd i)
  | _ => None
  end.
Definition sx_ev_out (o : ev_out) : sx :=
  match o with
  | OBegin o => L [I 0; sx_outcome o]
  | OEnd name f => L [I 1; B (match f with [] => [] | _ => name end); L (map sx_kind f)]
  | OIdle => sx_bad
  end.
Definition is_idle (o : ev_out) : bool := match o with OIdle => true | _ => false end.
Definition run_c12_events (args : list sx) : sx :=
  or_bad (match args with
  | [es] =>
    do es <- un_listof un_event es;
    let outs := run_events Z.quot h_init es in
    if existsb is_idle outs then None else ret (L (map sx_ev_out outs))
  | _ => None end).

(* c12.live: mode procedure (request ...) sent in order by a real client to the server that createServer
   builds (reference mode) -> per request: rejected, or prefix, feedback as a multiset (sorted by kind),
   whether the RPC handler refused the HTTP version, and - for the requests the RPC handler answers with a
   decodable unary response - what its RequestInfo says about the timeout *)
Definition kind_tag (k : kind) : Z := match sx_kind k with L (I t :: _) => t | _ => 0 end.
Fixpoint insert_kind (k : kind) (l : fb) : fb :=
  match l with
  | [] => [k]
  | x :: l' => if kind_tag k <=? kind_tag x then k :: l else x :: insert_kind k l'
  end.
Definition sort_kinds (f : fb) : fb := fold_right insert_kind [] f.

Definition un_procedure (s : sx) : option procedure :=
  match s with
  | I 0 => Some ProcUnary | I 1 => Some ProcServerStream | I 2 => Some ProcClientStream
  | I 3 => Some ProcBidiStream | I 4 => Some ProcIdempotentUnary | _ => None
  end.

Definition is_single (v : list bytes) (b : bytes) : bool := match v with [x] => bytes_eqb x b | _ => false end.
Definition is_nil {A} (l : list A) : bool := match l with [] => true | _ => false end.
(* requests the reference server's unary handlers answer with a response message: a Connect unary POST of an
   empty proto message, or a gRPC-Web POST of one empty enveloped message (the live harness sends five zero
   bytes as the non-empty body), uncompressed, and no timeout header that connect-go would still find (none
   sent, or the announced protocol is the one whose header the checks remove).  A predicate on the request as
   sent, so that the harness can evaluate it without knowing what the checks do. *)
Definition echo_observable (p : procedure) (r : request) : bool :=
  match p with ProcUnary | ProcIdempotentUnary => true | _ => false end &&
  bytes_eqb (method r) m_post && (trailer_keys r =? 0) &&
  ((is_single (content_type r) (lit "application/proto") && is_nil (content_encoding r) && body_empty r &&
    (is_nil (connect_timeout r) || is_single (x_protocol r) (lit "1"))) ||
   ((is_single (content_type r) ct_grpc_web || is_single (content_type r) (lit "application/grpc-web+proto")) &&
    is_nil (grpc_encoding r) && negb (body_empty r) &&
    (is_nil (grpc_timeout r) || is_single (x_protocol r) (lit "2") || is_single (x_protocol r) (lit "3")))).

Definition sx_live (p : procedure) (r : request) (o : outcome) : sx :=
  match o with
  | Rejected => L [B (lit "rejected")]
  | Served name f t seen =>
    L [ B (match f with [] => [] | _ => name end); L (map sx_kind (sort_kinds f));
        sx_bool (handler_refuses p seen);
        if echo_observable p r
        then L [sx_opt I (echo_ms o); sx_bool (present (connect_timeout seen)); sx_bool (present (grpc_timeout seen))]
        else L [] ]
  end.

Definition run_c12_live (args : list sx) : sx :=
  or_bad (match args with
  | [I mode; p; rs] =>
    do p <- un_procedure p;
    do rs <- un_listof (fun x => do r <- un_request x; with_transport mode r) rs;
    ret (L (map (fun ro => sx_live p (fst ro) (snd ro)) (combine rs (run_server Z.quot [] p rs))))
  | _ => None end).

(* ---------- the runner's side: server_runner.go runTestCasesForServer ----------
   For every test case of the batch that shares one server instance the runner clones the request, appends
   the test-case-name header and - for a reference server - the x-expect-* headers, to the request headers and
   to the headers of a raw request if the case has one, and hands the request to the client.  The headers are
   built inside the loop from the request at hand; the only facts taken from the instance are whether the
   server's response carried a certificate and whether client credentials are in use. *)
Definition header := (bytes * list bytes)%type.
Inductive stream_type := StUnary | StClientStream | StServerStream | StHalfDuplex | StFullDuplex.

Record rcase := {
  rc_name : bytes;
  rc_version : version; rc_protocol : protocol;       (* req.HttpVersion, req.Protocol *)
  rc_codec : codec; rc_compression : compression;     (* req.Codec, req.Compression *)
  rc_stream : stream_type; rc_get : bool;             (* req.StreamType, req.UseGetHttpMethod *)
  rc_headers : list header;                           (* the test's own request headers *)
  rc_raw : option (list header) }.                    (* headers of the raw request, if any *)

Record rinst := {
  ri_ref : bool;          (* isReferenceServer *)
  ri_use_tls : bool;      (* meta.useTLS *)
  ri_use_certs : bool;    (* meta.useTLSClientCerts *)
  ri_pem : bool;          (* len(resp.PemCert) > 0 *)
  ri_creds : bool }.      (* the caller passed client credentials *)

Record sent := { s_name : bytes; s_headers : list header; s_raw : option (list header) }.

Definition h_test_name := lit "x-test-case-name".
Definition h_version := lit "x-expect-http-version".
Definition h_method := lit "x-expect-http-method".
Definition h_protocol := lit "x-expect-protocol".
Definition h_codec := lit "x-expect-codec".
Definition h_compression := lit "x-expect-compression".
Definition h_tls := lit "x-expect-tls".
Definition h_cert := lit "x-expect-client-cert".

Definition name_header (c : rcase) : header := (h_test_name, [rc_name c]).

(* clientCreds is dropped unless the instance uses client certificates *)
Definition creds_in_use (i : rinst) : bool := ri_creds i && ri_use_certs i.

Definition expectation_headers (i : rinst) (c : rcase) : list header :=
  [ (h_version, [dec1 (version_num (rc_version c))]);
    (h_method, [if rc_get c then m_get else m_post]);
    (h_protocol, [dec1 (protocol_num (rc_protocol c))]);
    (h_codec, [dec1 (codec_num (rc_codec c))]);
    (h_compression, [dec1 (compression_num (rc_compression c))]);
    (h_tls, [if ri_pem i then lit "true" else lit "false"]) ]
  ++ (if creds_in_use i then [(h_cert, [c12_client_cert_name])] else []).

Definition added_headers (i : rinst) (c : rcase) : list header :=
  name_header c :: (if ri_ref i then expectation_headers i c else []).

Definition send_one (i : rinst) (c : rcase) : sent :=
  {| s_name := rc_name c;
     s_headers := rc_headers c ++ added_headers i c;
     s_raw := option_map (fun h => h ++ added_headers i c) (rc_raw c) |}.

(* the loop: cases in order, nothing carried from one iteration to the next but the list of what was sent *)
Fixpoint batch_loop (i : rinst) (cs : list rcase) (acc : list sent) : list sent :=
  match cs with
  | [] => rev acc
  | c :: cs' => batch_loop i cs' (send_one i c :: acc)
  end.

(* a TLS instance whose server response names no certificate: nothing is sent *)
Definition starts (i : rinst) : bool := negb (ri_use_tls i) || ri_pem i.
Definition run_batch (i : rinst) (cs : list rcase) : list sent :=
  if starts i then batch_loop i cs [] else [].

(* the other way to write the loop (seeded C12-19): the expectation headers are built when the first case is
   sent and reused, only the method being refreshed.  Not what the code does; kept to be refuted. *)
Definition refresh_method (c : rcase) (hs : list header) : list header :=
  map (fun h => if bytes_eqb (fst h) h_method then (h_method, [if rc_get c then m_get else m_post]) else h) hs.
Fixpoint batch_loop_shared (i : rinst) (cs : list rcase) (cache : option (list header)) (acc : list sent) : list sent :=
  match cs with
  | [] => rev acc
  | c :: cs' =>
    let hs := match cache with Some hs => hs | None => expectation_headers i c end in
    let extra := name_header c :: (if ri_ref i then refresh_method c hs else []) in
    batch_loop_shared i cs' (Some hs)
      ({| s_name := rc_name c; s_headers := rc_headers c ++ extra;
          s_raw := option_map (fun h => h ++ extra) (rc_raw c) |} :: acc)
  end.

(* what a client does with the request headers it is handed: they go on the wire; header names are
   case-insensitive there, the values of equally named headers are concatenated in order.  Of these only the
   eight the checks read are part of the request record. *)
Definition values_of (n : bytes) (hs : list header) : list bytes :=
  flat_map (fun h => if bytes_eqb (lower (fst h)) n then snd h else []) hs.
Definition put_headers (hs : list header) (r : request) : request :=
  {| proto_major := proto_major r; method := method r; content_type := content_type r;
     grpc_encoding := grpc_encoding r; connect_content_encoding := connect_content_encoding r;
     content_encoding := content_encoding r; te := te r; connect_timeout := connect_timeout r;
     grpc_timeout := grpc_timeout r;
     x_name := values_of h_test_name hs;
     x_version := values_of h_version hs;
     x_method := values_of h_method hs;
     x_protocol := values_of h_protocol hs;
     x_codec := values_of h_codec hs;
     x_compression := values_of h_compression hs;
     x_tls := values_of h_tls hs;
     x_cert := values_of h_cert hs;
     q_encoding := q_encoding r; q_compression := q_compression r; body_empty := body_empty r;
     tls := tls r; trailer_keys := trailer_keys r |}.

(* the wire shape the reference client uses for a case, and the procedure it calls *)
Definition case_shape (c : rcase) : shape :=
  match rc_protocol c with
  | PConnect => match rc_stream c with
                | StUnary => if rc_get c then ConnectGet else ConnectUnary
                | _ => ConnectStream
                end
  | PGrpc => GrpcPost
  | PGrpcWeb => GrpcWebPost
  end.
Definition case_procedure (c : rcase) : procedure :=
  match rc_stream c with
  | StUnary => if rc_get c then ProcIdempotentUnary else ProcUnary
  | StClientStream => ProcClientStream
  | StServerStream => ProcServerStream
  | StHalfDuplex | StFullDuplex => ProcBidiStream
  end.
(* TLS as the connection will be: a certificate announced by the server, client credentials in use *)
Definition inst_tls (i : rinst) : tlsmode :=
  if ri_pem i then (if creds_in_use i then TlsCert else Tls) else Plain.
Definition client_rendering (i : rinst) (c : rcase) : actual :=
  {| c_version := rc_version c; c_shape := case_shape c; c_codec := rc_codec c;
     c_compression := rc_compression c; c_tls := inst_tls i |}.

(* decoding *)
Definition un_enum {A} (l : list A) (s : sx) : option A :=
  match s with I z => if (1 <=? z) then nth_error l (Z.to_nat (z - 1)) else None | _ => None end.
Definition un_stream (s : sx) : option stream_type :=
  un_enum [StUnary; StClientStream; StServerStream; StHalfDuplex; StFullDuplex] s.
Definition un_header (s : sx) : option header :=
  match s with L [B n; vs] => do vs <- un_bl vs; ret (n, vs) | _ => None end.
Definition un_rcase (s : sx) : option rcase :=
  match s with
  | L [B name; v; p; c; z; st; g; hs; raw] =>
    do v <- un_enum all_versions v; do p <- un_enum all_protocols p; do c <- un_enum all_codecs c;
    do z <- un_enum all_compressions z; do st <- un_stream st; do g <- un_bool g;
    do hs <- un_listof un_header hs; do raw <- un_opt (un_listof un_header) raw;
    ret {| rc_name := name; rc_version := v; rc_protocol := p; rc_codec := c; rc_compression := z;
           rc_stream := st; rc_get := g; rc_headers := hs; rc_raw := raw |}
  | _ => None
  end.
Definition un_rinst (s : sx) : option rinst :=
  match s with
  | L [r; t; cc; pem; cr] =>
    do r <- un_bool r; do t <- un_bool t; do cc <- un_bool cc; do pem <- un_bool pem; do cr <- un_bool cr;
    ret {| ri_ref := r; ri_use_tls := t; ri_use_certs := cc; ri_pem := pem; ri_creds := cr |}
  | _ => None
  end.
Definition sx_header (h : header) : sx := L [B (fst h); sx_bl (snd h)].
Definition sx_sent (s : sent) : sx :=
  L [B (s_name s); L (map sx_header (s_headers s)); sx_opt (fun hs => L (map sx_header hs)) (s_raw s)].

(* c12.runner: instance (case ...) -> per request handed to the client, in order: test name, request headers,
   raw request headers *)
Definition run_c12_runner (args : list sx) : sx :=
  or_bad (match args with
  | [i; cs] => do i <- un_rinst i; do cs <- un_listof un_rcase cs; ret (L (map sx_sent (run_batch i cs)))
  | _ => None end).

(* c12.runlive: the same batch through the real reference client to the real reference server: per case the
   x-expect-* headers it was sent with and whether the server wrote feedback about it (the case's own request
   headers are not part of the observation: the live harness supplies a runnable request of its own) *)
Definition is_expect_header (h : header) : bool := has_prefix (lit "x-") (fst h).
Definition run_c12_runlive (args : list sx) : sx :=
  or_bad (match args with
  | [i; cs] =>
    do i <- un_rinst i; do cs <- un_listof un_rcase cs;
    ret (L (map (fun cs' =>
           let c := fst cs' in let s := snd cs' in
           L [ B (s_name s); L (map sx_header (filter is_expect_header (s_headers s)));
               sx_bool (negb (is_nil (feedback_of (snd (server Z.quot [] (case_procedure c)
                                 (put_headers (s_headers s) (render (client_rendering i c)))))))) ])
         (combine cs (run_batch i cs))))
  | _ => None end).

(* c12.print: (request ...) on one wrapped handler whose printer is the REAL internal.NewPrinter over a buffer:
   per request the bytes that reached the buffer, read back the way the runner reads the server's stderr
   (the batch's test names = the names of the case's requests): per line (test name, feedback kind) - the kind
   standing for the message: the harness reports the kind of a line only when the text after the split IS
   fmt.Sprintf of the recorded format and arguments - plus whether the bytes are exactly
   name ++ ": " ++ message ++ newline per line.  The extracted model prints a kind as `kind_text`. *)
Definition kind_text (k : kind) : bytes := lit "expected %d: instead got %v%% #" ++ [Z.to_N (kind_tag k + 64)].
Definition ensure_nl (m : bytes) : bytes := if (last m 0 =? 10)%N then m else m ++ [10%N].
Fixpoint zip_lines (names : list bytes) (lines : list bytes) (f : fb) : option (list sx) :=
  match lines, f with
  | [], [] => Some []
  | l :: lines', k :: f' =>
    do rest <- zip_lines names lines' f';
    ret (match sideband names l with
         | Some (n, m) => L [B n; if bytes_eqb m (trim_right (kind_text k)) then sx_kind k else sx_err "garbled-message"]
         | None => sx_err "unattributed"
         end :: rest)
  | _, _ => None
  end.
Fixpoint print_seq (names : list bytes) (w : pw) (os : list outcome) : list sx :=
  match os with
  | [] => []
  | o :: os' =>
    let w' := stderr_of kind_text w o in
    let delta := skipn (length (pw_out w)) (pw_out w') in
    match o with
    | Rejected => L [B (lit "rejected")]
    | Served name f _ _ =>
      L [ sx_bool (bytes_eqb delta (concat (map (fun k => name ++ sep_colon ++ ensure_nl (kind_text k)) f)));
          match zip_lines names (stderr_lines delta) f with Some ls => L ls | None => sx_err "line-count" end ]
    end :: print_seq names w' os'
  end.
Definition run_c12_print (args : list sx) : sx :=
  or_bad (match args with
  | [rs] => do rs <- un_listof un_request rs;
            ret (L (print_seq (map (fun r => first (x_name r)) rs) pw_init (run_seq Z.quot [] rs)))
  | _ => None end).

Definition c12_table : list (bytes * (list sx -> sx)) :=
  [ (lit "c12.seq", run_c12_seq);
    (lit "c12.matrix", run_c12_matrix);
    (lit "c12.render", run_c12_render);
    (lit "c12.timeouts", run_c12_timeouts);
    (lit "c12.wire", run_c12_wire);
    (lit "c12.events", run_c12_events);
    (lit "c12.live", run_c12_live);
    (lit "c12.runner", run_c12_runner);
    (lit "c12.runlive", run_c12_runlive);
    (lit "c12.print", run_c12_print) ].
