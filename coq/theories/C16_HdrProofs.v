(* C16_HdrProofs.v — proofs about the request-header store of client-side traces (C16_Hdr.v). *)
From V Require Import C16_Hdr.
From Coq Require Import Lia.
Open Scope N_scope.

(* every value handed out under the clone policy is a clone cell that still holds what it held *)
Definition got_ok (s : hstate) : Prop :=
  forall r c, In (r, c) s.(h_got) ->
    exists i, r = S i /\ (i < length s.(h_clones))%nat /\ nth i s.(h_clones) [] = c.

Lemma got_ok_get s : got_ok s -> got_ok (get_headers HClone s).
Proof.
  intros H r c Hin. simpl in Hin. apply in_app_or in Hin. destruct Hin as [Hin | [Heq | []]].
  - destruct (H r c Hin) as (i & -> & Hlt & Hn). exists i. simpl. split; [reflexivity|].
    rewrite app_length. split; [lia|]. rewrite app_nth1 by exact Hlt. exact Hn.
  - inversion Heq; subst. exists (length (h_clones s)). simpl. split; [reflexivity|].
    rewrite app_length. simpl. split; [lia|].
    rewrite app_nth2 by lia. rewrite Nat.sub_diag. reflexivity.
Qed.

Lemma got_ok_step s a : got_ok s -> got_ok (hstep HClone s a).
Proof.
  intros H. destruct a as [k v| |]; simpl.
  - destruct (k =? 0); [exact H|]. exact H.
  - destruct (h_done s); [exact H|]. apply got_ok_get. exact H.
  - destruct (h_done s); [|exact H]. apply got_ok_get. exact H.
Qed.

Lemma got_ok_fold acts : forall s, got_ok s -> got_ok (fold_left (hstep HClone) acts s).
Proof.
  induction acts as [|a acts IH]; intros s H; simpl; [exact H|].
  apply IH. apply got_ok_step. exact H.
Qed.

Lemma delivered_headers_frozen_after_completion_proof : forall acts r c,
  In (r, c) (hrun HClone acts).(h_got) -> deref (hrun HClone acts) r = c.
Proof.
  intros acts r c Hin.
  assert (H : got_ok (hrun HClone acts)).
  { apply got_ok_fold. intros r' c' []. }
  destruct (H r c Hin) as (i & -> & _ & Hn). exact Hn.
Qed.

(* what was handed out stays handed out *)
Lemma got_extends p acts : forall s, exists ext, (fold_left (hstep p) acts s).(h_got) = s.(h_got) ++ ext.
Proof.
  induction acts as [|a acts IH]; intros s; simpl.
  - exists []. rewrite app_nil_r. reflexivity.
  - destruct (IH (hstep p s a)) as [ext Hext]. rewrite Hext.
    assert (Hs : exists e, (hstep p s a).(h_got) = s.(h_got) ++ e).
    { destruct a as [k v| |]; simpl.
      - destruct (k =? 0); exists []; simpl; rewrite app_nil_r; reflexivity.
      - destruct (h_done s); [exists []; rewrite app_nil_r; reflexivity|].
        destruct p; simpl; eexists; reflexivity.
      - destruct (h_done s); [|exists []; rewrite app_nil_r; reflexivity].
        destruct p; simpl; eexists; reflexivity. }
    destruct Hs as [e He]. rewrite He. exists (e ++ ext). rewrite app_assoc. reflexivity.
Qed.

(* before the completion: only the live map changes *)
Lemma before_completion p acts : forall m,
  existsb is_hcomplete acts = false ->
  fold_left (hstep p) acts (mkH m [] false [])
  = mkH (fold_left (fun m a => match a with HField k v => if k =? 0 then m else hset k v m | _ => m end) acts m)
        [] false [].
Proof.
  induction acts as [|a acts IH]; intros m H; simpl; [reflexivity|].
  simpl in H. apply orb_false_iff in H. destruct H as [Ha H].
  destruct a as [k v| |]; simpl in *; try discriminate.
  - destruct (k =? 0); apply IH; exact H.
  - apply IH; exact H.
Qed.

Lemma nothing_handed_out_before_completion_proof : forall p acts,
  existsb is_hcomplete acts = false -> (hrun p acts).(h_got) = [].
Proof.
  intros p acts H. unfold hrun, h_init. rewrite (before_completion p acts [] H). reflexivity.
Qed.

Lemma completion_takes_fields_so_far_proof : forall p pre post,
  existsb is_hcomplete pre = false ->
  exists r rest, (hrun p (pre ++ HComplete :: post)).(h_got) = (r, fields_of pre) :: rest.
Proof.
  intros p pre post H. unfold hrun, h_init. rewrite fold_left_app.
  rewrite (before_completion p pre [] H). simpl.
  fold (fields_of pre).
  destruct (got_extends p post (get_headers p (mkH (fields_of pre) [] true []))) as [ext Hext].
  rewrite Hext. destruct p; simpl; eexists; eexists; reflexivity.
Qed.
