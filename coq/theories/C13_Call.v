(* C13_Call.v — the glue between a server's on-the-wire response and the examiners of C13_Model:
     internal/app/referenceclient/impl.go     the call sites of invoker.examineWireDetails
                                              (doUnary, serverStream, clientStream, bidiStream)
     internal/app/referenceclient/wire_details.go  getBodyEndStream, isTrailersOnlyResponse: what the
                                              examiners read off the completed trace
     internal/tracer/reader.go                what the trace holds for a response body made of complete
                                              envelopes: one data event per envelope and, for an envelope
                                              with an end-stream flag (0x80 | 0x02) and a non-empty payload,
                                              an end-stream event carrying the WHOLE payload
   as they are coded.  Compression of the end-stream message and truncated bodies are C14's subject
   (C14_Model models the dataTracer byte by byte); here the body is a list of complete envelopes, identity
   encoded.  checkBinaryMetadata on the headers connect-go decoded is projected away (C13_Model models it
   on its own: c13.binmeta).  No proofs here. *)
From V Require Export C13_Model.
Open Scope N_scope.

(* ---------------------------------------------------------------------- *)
(* 1. the trace of a response body                                          *)
(* ---------------------------------------------------------------------- *)
Definition envelope := (N * bytes)%type.            (* flags, payload *)
Inductive tevent := TData | TEndStream (content : bytes).

(* tracePrefixLocked: (env.Flags & 0x82) != 0 *)
Definition is_end_flag (f : N) : bool := negb (N.land f 130 =? 0).
(* traceMessageLocked / tracePrefixLocked: a data event for every envelope; the end-stream capture is
   created only for a non-zero declared length and emitted only when the content is not "" — and it is
   everything that was written into it: the whole payload, whatever its length *)
Definition env_events (e : envelope) : list tevent :=
  TData :: (if is_end_flag (fst e) && negb (is_nil (snd e)) then [TEndStream (snd e)] else []).
(* propertiesFromHeaders (no Content-Encoding header): envelopes are looked for in
   application/connect* and application/grpc* bodies only *)
Definition is_stream_ctype (ct : bytes) : bool :=
  has_prefix (bs "application/connect") (lower ct) || has_prefix (bs "application/grpc") (lower ct).
Definition body_events (ct : bytes) (envs : list envelope) : list tevent :=
  if is_stream_ctype ct then flat_map env_events envs else [].

(* getBodyEndStream: the first end-stream event *)
Fixpoint first_end_stream (evs : list tevent) : option bytes :=
  match evs with
  | [] => None
  | TEndStream c :: _ => Some c
  | TData :: r => first_end_stream r
  end.
Definition has_data_event (evs : list tevent) : bool :=
  existsb (fun e => match e with TData => true | _ => false end) evs.

(* ---------------------------------------------------------------------- *)
(* 2. a response as the server put it on the wire -> what examineWireDetails sees *)
(* ---------------------------------------------------------------------- *)
Record response := mk_response {
  r_status : Z; r_ctype : bytes;
  r_headers : hmap;                 (* canonical keys *)
  r_envs : list envelope;           (* the body of a stream protocol *)
  r_body_json : option json;        (* the body of a unary Connect error as encoding/json parses it *)
  r_eos_json : option json;         (* the first end-stream content as encoding/json parses it *)
  r_trailers : hmap }.              (* HTTP trailers *)

Definition wire_of_response (r : response) : wire :=
  let evs := body_events (r_ctype r) (r_envs r) in
  mk_wire (r_ctype r) (r_status r) (r_body_json r) (first_end_stream evs) (r_eos_json r)
          (r_headers r) (r_trailers r) (has_data_event evs) false.

(* ---------------------------------------------------------------------- *)
(* 3. the call sites                                                        *)
(* ---------------------------------------------------------------------- *)
Inductive method := MUnary | MIdempotentUnary | MUnimplemented | MServerStream | MClientStream | MBidiStream.

(* does the call site hand the call's trace to the examiners?  doUnary (Unary, IdempotentUnary,
   Unimplemented) and clientStream: always, after the stub returned, whatever it returned; serverStream:
   in the deferred function, unless creating the stream failed (the early return); bidiStream: in the
   deferred function.  [ended] is how connect-go reported the end of the RPC to the call site (None: no
   error, Some c: error code c): no call site looks at it. *)
Definition site_examines (m : method) (setup_failed : bool) (ended : option N) : bool :=
  match m with
  | MServerStream => negb setup_failed
  | _ => true
  end.

Section Call.
  Variable unmarshal : bytes -> ustatus.

  (* invoker.examineWireDetails: nothing outside reference mode; otherwise the HTTP status code of the
     traced response and the examiners' feedback *)
  Definition call_feedback (refmode : bool) (m : method) (setup_failed : bool) (ended : option N)
             (r : response) : outcome (option Z * list fb) :=
    if refmode && site_examines m setup_failed ended then
      match examine_wire unmarshal (wire_of_response r) with
      | Crash => Crash
      | Done f => Done (Some (r_status r), f)
      end
    else Done (None, []).
End Call.

(* ---------------------------------------------------------------------- *)
(* case decoding                                                            *)
(* ---------------------------------------------------------------------- *)
Definition un_method (z : Z) : option method :=
  match z with
  | 0%Z => Some MUnary | 1%Z => Some MServerStream | 2%Z => Some MUnimplemented
  | 3%Z => Some MClientStream | 4%Z => Some MIdempotentUnary | 5%Z => Some MBidiStream
  | _ => None
  end.

(* body parts: (0 raw) | (1 flags payload) *)
Definition un_part (s : sx) : option (option envelope) :=
  match s with
  | L [I 0%Z; B _] => Some None
  | L [I 1%Z; I f; B p] => if ((0 <=? f) && (f <? 256))%Z then Some (Some (Z.to_N f, p)) else None
  | _ => None
  end.
Fixpoint keep_some {A} (l : list (option A)) : list A :=
  match l with [] => [] | Some a :: r => a :: keep_some r | None :: r => keep_some r end.

(* c13.invoke: refmode proto method status ctype headers parts trailers ended body-tree eos-tree table digest
     -> (status | -1, ended, feedback)
   [ended] is echoed: the Go side answers with the code the client reported when the case names one
   (>= 0), so that "for each of the 16 codes" is something the run shows, not assumes. *)
Definition run_c13_invoke (args : list sx) : sx :=
  or_bad (match args with
  | [I refmode; I _; I m; I status; B ct; hs; parts; ts; I ended; bt; et; tbl; B _] =>
    do m <- un_method m;
    do hs <- un_headers hs; do ts <- un_headers ts;
    do parts <- un_listof un_part parts;
    do bt <- un_json_opt bt; do et <- un_json_opt et; do tbl <- un_utable tbl;
    let r := mk_response status ct hs (keep_some parts) bt et ts in
    let e := if (ended <? 0)%Z then None else Some (Z.to_N ended) in
    ret (sx_outcome (fun '(st, f) =>
           L [I (match st with Some z => z | None => (-1)%Z end); I ended; sx_fbs f])
         (call_feedback (utable_lookup tbl) (negb (Z.eqb refmode 0)) m false e r))
  | _ => None end).

Definition c13_table : list (bytes * (list sx -> sx)) :=
  C13_Model.c13_table ++ [ (bs "c13.invoke", run_c13_invoke) ].
