(* C18_Props.v — the property theorems of C18 and nothing else.
   Each is closed by `exact <lemma>` and followed by Print Assumptions.
   The third-party libraries are universally quantified and constrained by the contracts of
   C18_Spec.v (detail_contract, b64_contract, bin_contract, json_contract); the last theorem
   shows the contracts are satisfied by the instances the extracted model runs with. *)
From V Require Import C18_Spec C18_Proofs C18_Instances.
Open Scope N_scope.

(* ---------------------------------------------------------------- errors *)
(* the model's scan for the last '/' computes the declarative type name; the default prefix the
   repository puts back in front of it restores a canonical type URL exactly *)
Theorem type_url_restoration : forall url,
  type_name url = type_of url /\ ~ In slash (type_of url) /\
  type_of (default_prefix ++ type_of url) = type_of url /\
  (canonical_url url -> default_prefix ++ type_of url = url).
Proof. exact type_url_restoration_proof. Qed.
Print Assumptions type_url_restoration.

(* test-case form -> Connect form: the Connect error shows the code, the message text and, for
   every detail in order, its type and its bytes *)
Theorem err_connect_view : forall new_detail d_type d_bytes,
  detail_contract new_detail d_type d_bytes -> forall e,
  cerr_view d_type d_bytes (connect_of_proto new_detail e) =
  (to_u32 (p_code e), message_of e, map (fun a => (type_of (fst a), snd a)) (p_details e)).
Proof. exact connect_view_proof. Qed.
Print Assumptions err_connect_view.

(* test-case form -> Connect form -> test-case form: same code, message and details (type, bytes,
   order); with canonical type URLs the very same error, the message now set *)
Theorem err_roundtrip_connect : forall new_detail d_type d_bytes,
  detail_contract new_detail d_type d_bytes -> forall e,
  int32 (p_code e) ->
  same_error (proto_of_connect d_type d_bytes (connect_of_proto new_detail e)) e /\
  (canonical_details (p_details e) ->
   proto_of_connect d_type d_bytes (connect_of_proto new_detail e) =
   PErr (p_code e) (Some (message_of e)) (p_details e)).
Proof. exact err_roundtrip_connect_proof. Qed.
Print Assumptions err_roundtrip_connect.

(* Connect form -> test-case form -> Connect form: indistinguishable for an observer *)
Theorem err_roundtrip_proto : forall new_detail d_type d_bytes,
  detail_contract new_detail d_type d_bytes -> forall c,
  uint32 (c_code c) -> Forall (fun d => ~ In slash (d_type d)) (c_details c) ->
  cerr_view d_type d_bytes (connect_of_proto new_detail (proto_of_connect d_type d_bytes c)) =
  cerr_view d_type d_bytes c.
Proof. exact err_roundtrip_proto_proof. Qed.
Print Assumptions err_roundtrip_proto.

(* ConvertErrorToConnectError / ConvertErrorToProtoError: a Connect error, bare or wrapped, is
   found and converted as above; anything else is code unknown with the error text *)
Theorem err_from_go : forall new_detail d_type d_bytes,
  detail_contract new_detail d_type d_bytes ->
  (forall c, connect_of_error (GoConnect c) = c) /\
  (forall t c, connect_of_error (GoWrapped t c) = c) /\
  (forall t, cerr_view d_type d_bytes (connect_of_error (GoPlain t)) = (2%Z, t, [])) /\
  (forall g, proto_of_error d_type d_bytes g = proto_of_connect d_type d_bytes (connect_of_error g)) /\
  (forall e t, int32 (p_code e) ->
     same_error (proto_of_error d_type d_bytes (GoConnect (connect_of_proto new_detail e))) e /\
     same_error (proto_of_error d_type d_bytes (GoWrapped t (connect_of_proto new_detail e))) e).
Proof. exact err_from_go_proof. Qed.
Print Assumptions err_from_go.

(* test-case form -> gRPC status -> test-case form: OK (0) is no error; every other code gives a
   status with the same code, message and details, and converts back to the same error *)
Theorem err_roundtrip_grpc : forall e,
  int32 (p_code e) ->
  (grpc_of_proto e = None <-> p_code e = 0%Z) /\
  (p_code e <> 0%Z ->
   exists s, grpc_of_proto e = Some s /\
             (g_code s, g_msg s, g_details s) = (p_code e, message_of e, p_details e) /\
             proto_of_grpc (GrpcStatus s) = PErr (p_code e) (Some (message_of e)) (p_details e) /\
             same_error (proto_of_grpc (GrpcStatus s)) e /\
             (forall t, p_code (proto_of_grpc (GrpcWrapped t s)) = p_code e /\
                        p_details (proto_of_grpc (GrpcWrapped t s)) = p_details e)).
Proof. exact err_roundtrip_grpc_proof. Qed.
Print Assumptions err_roundtrip_grpc.

(* gRPC status -> test-case form -> gRPC status *)
Theorem err_roundtrip_status : forall s,
  int32 (g_code s) -> g_code s <> 0%Z -> grpc_of_proto (proto_of_grpc (GrpcStatus s)) = Some s.
Proof. exact err_roundtrip_status_proof. Qed.
Print Assumptions err_roundtrip_status.

(* -------------------------------------------------------------- metadata *)
(* header list -> metadata -> header list.  One entry per name up to letter case; under key k the
   values of every header whose name is k up to case, in order; a `-bin` value is decoded into the
   metadata and reads back as the base64 text of its content - encoded once; a header list
   produced from binary data reads back unchanged.  No base64 assumption for the first four parts. *)
Theorem md_roundtrip : forall b64enc b64dec hs,
  NoDup (map fst (proto_of_md b64enc (md_of_proto b64dec hs))) /\
  (forall k, In k (map fst (proto_of_md b64enc (md_of_proto b64dec hs))) <->
             exists h, In h hs /\ lower (fst h) = k) /\
  (forall k, md_get (md_of_proto b64dec hs) k =
             if occurs k hs
             then Some (if is_bin k then map (decode_or_raw b64dec) (values_for k hs) else values_for k hs)
             else None) /\
  (forall k, md_get (proto_of_md b64enc (md_of_proto b64dec hs)) k =
             if occurs k hs then Some (once b64enc b64dec k (values_for k hs)) else None) /\
  (b64_contract b64enc b64dec -> canonical_bin b64enc hs ->
   forall k, md_get (proto_of_md b64enc (md_of_proto b64dec hs)) k =
             if occurs k hs then Some (values_for k hs) else None).
Proof. exact md_roundtrip_proof. Qed.
Print Assumptions md_roundtrip.

(* metadata (unique lower-case keys, as grpc-go keeps it) -> header list -> metadata *)
Theorem md_roundtrip_back : forall b64enc b64dec (m : md),
  b64_contract b64enc b64dec ->
  NoDup (map fst m) -> Forall (fun kv => lower (fst kv) = fst kv) m ->
  Forall (fun kv => Forall (Forall is_byte) (snd kv)) m ->
  forall k, md_get (md_of_proto b64dec (proto_of_md b64enc m)) k = md_get m k.
Proof. exact md_roundtrip_back_proof. Qed.
Print Assumptions md_roundtrip_back.

(* the client path: AppendToOutgoingContext, grpc-go's outgoing metadata, and what the peer's
   ConvertMetadataToProtoHeader reports.  grpc-go receives what ConvertProtoHeaderToMetadata
   builds (a name without values carries nothing), `-bin` values are reported encoded once *)
Theorem outgoing_once : forall b64enc b64dec hs,
  NoDup (map fst (outgoing_reported b64enc b64dec hs)) /\
  (forall k, md_get (grpc_outgoing_md (outgoing_pairs b64dec hs)) k =
             some_nonempty (get_or_nil (md_get (md_of_proto b64dec hs) k))) /\
  (forall k, md_get (outgoing_reported b64enc b64dec hs) k =
             some_nonempty (once b64enc b64dec k (values_for k hs))) /\
  (b64_contract b64enc b64dec -> canonical_bin b64enc hs ->
   forall k, md_get (outgoing_reported b64enc b64dec hs) k = some_nonempty (values_for k hs)).
Proof. exact outgoing_once_proof. Qed.
Print Assumptions outgoing_once.

(* internal/headers.go: AddHeaders / AddTrailers into an http.Header and ConvertToProtoHeader back:
   one entry per canonical name, all values in order, the name changed in letter case only; trailer
   names that differ in letter case only share one key (repair e7bd693) *)
Theorem http_headers : forall hs,
  (NoDup (map fst (convert_to_proto_header (add_headers hs []))) /\
   (forall k, md_get (convert_to_proto_header (add_headers hs [])) k = some_nonempty (values_under canonical_key k hs)) /\
   (forall n, lower (canonical_key n) = lower n)) /\
  (NoDup (map fst (convert_to_proto_header (add_trailers hs []))) /\
   (forall k, md_get (convert_to_proto_header (add_trailers hs [])) k = some_nonempty (values_under trailer_key k hs)) /\
   (forall n, lower (trailer_key n) = lower trailer_prefix ++ lower n) /\
   (forall n n', lower n = lower n' -> forallb is_token_char n = true -> trailer_key n = trailer_key n')).
Proof. exact http_headers_proof. Qed.
Print Assumptions http_headers.

(* ------------------------------------------------------ percent-encoding *)
(* for ALL byte strings: decodable to the original, printable ASCII only, identity on safe text *)
Theorem percent_inverse : forall m,
  Forall is_byte m ->
  percent_decode (percent_encode m) = Some m /\
  Forall printable_ascii (percent_encode m) /\
  (Forall safe_char m -> percent_encode m = m).
Proof. exact percent_inverse_proof. Qed.
Print Assumptions percent_inverse.

Theorem percent_injective : forall m1 m2,
  Forall is_byte m1 -> Forall is_byte m2 -> percent_encode m1 = percent_encode m2 -> m1 = m2.
Proof. exact percent_injective_proof. Qed.
Print Assumptions percent_injective.

(* ShouldEscapeByteInMessage is the complement of "printable and not '%'" *)
Theorem escape_class : forall c, should_escape c = false <-> safe_char c.
Proof. exact should_escape_spec. Qed.
Print Assumptions escape_class.

(* ---------------------------------------------------------- strict codecs *)
Theorem codec_roundtrip : forall wire marshal_bin unmarshal_bin marshal_json unmarshal_json json_unknown,
  @bin_contract wire marshal_bin unmarshal_bin ->
  json_contract marshal_json unmarshal_json json_unknown ->
  forall m, ~ has_unknown m ->
  strict_proto_unmarshal wire unmarshal_bin (strict_proto_marshal wire marshal_bin m) = COk m /\
  strict_json_unmarshal wire unmarshal_json (strict_json_marshal wire marshal_json m) = COk m.
Proof. exact codec_roundtrip_proof. Qed.
Print Assumptions codec_roundtrip.

(* unknown fields are rejected at any depth and never dropped: whatever the binary codec accepts is
   the library's parse of the data and has no unrecognised field anywhere *)
Theorem codec_rejects_unknown : forall wire marshal_bin unmarshal_bin marshal_json unmarshal_json json_unknown,
  @bin_contract wire marshal_bin unmarshal_bin ->
  json_contract marshal_json unmarshal_json json_unknown ->
  (forall w m, unmarshal_bin w = Some m -> has_unknown m ->
               strict_proto_unmarshal wire unmarshal_bin w = CErrUnknown) /\
  (forall w m, strict_proto_unmarshal wire unmarshal_bin w = COk m ->
               unmarshal_bin w = Some m /\ ~ has_unknown m) /\
  (forall m, has_unknown m -> strict_proto_unmarshal wire unmarshal_bin (marshal_bin m) = CErrUnknown) /\
  (forall w, json_unknown w -> strict_json_unmarshal wire unmarshal_json w = CErrMalformed) /\
  (forall w m, strict_json_unmarshal wire unmarshal_json w = COk m ->
               unmarshal_json false w = Some m /\ ~ has_unknown m).
Proof. exact codec_rejects_unknown_proof. Qed.
Print Assumptions codec_rejects_unknown.

(* ------------------------------------------- the contracts are satisfiable *)
(* ... by the instances the extracted model runs with; the base64 one is the Gallina transcription
   of Go's encoding/base64 as connect uses it, compared with the Go functions on every check *)
Theorem contracts_inhabited :
  detail_contract new_detail_i d_type_i d_bytes_i /\ (forall d, ~ In slash (d_type_i d)) /\
  b64_contract b64enc_i b64dec_i /\
  bin_contract marshal_bin_i unmarshal_bin_i /\
  json_contract marshal_json_i unmarshal_json_i json_unknown_i.
Proof. exact contracts_inhabited_proof. Qed.
Print Assumptions contracts_inhabited.

(* ---- non-vacuity and the behaviour of the pinned code, for the record ---- *)
Example ex_type_of :
  type_of (bs "type.googleapis.com/google.rpc.ErrorInfo") = bs "google.rpc.ErrorInfo" /\
  type_of (bs "example.com/a/b/x.Y") = bs "x.Y" /\ type_of (bs "x.Y") = bs "x.Y" /\ type_of (bs "a/") = [].
Proof. vm_compute. auto. Qed.

Example ex_canonical_url : canonical_url (bs "type.googleapis.com/google.rpc.ErrorInfo").
Proof.
  exists (bs "google.rpc.ErrorInfo"). split; [reflexivity|]. vm_compute. intuition discriminate.
Qed.

(* a non-canonical URL keeps its type but gets the default prefix *)
Example ex_prefix_rewritten :
  p_details (p_of_c (c_of_p (PErr 5 None [(bs "example.com/x.Y", [1; 2])]))) =
  [(bs "type.googleapis.com/x.Y", [1; 2])].
Proof. vm_compute. reflexivity. Qed.

(* #10: the pinned ConvertProtoHeaderToMetadata assigned; repeated names lost values *)
Example ex_md_assign_refuted :
  md_of_proto_assign b64dec_i [(bs "X-A", [bs "1"]); (bs "x-a", [bs "2"])] = [(bs "x-a", [bs "2"])] /\
  md_of_proto b64dec_i [(bs "X-A", [bs "1"]); (bs "x-a", [bs "2"])] = [(bs "x-a", [bs "1"; bs "2"])].
Proof. vm_compute. auto. Qed.

(* #13: the pinned AppendToOutgoingContext passed the base64 text on; grpc-go encoded it again *)
Example ex_outgoing_raw_refuted :
  outgoing_reported_raw b64enc_i [(bs "Key-Bin", [bs "AQID"])] = [(bs "key-bin", [bs "QVFJRA"])] /\
  outgoing_reported b64enc_i b64dec_i [(bs "Key-Bin", [bs "AQID"])] = [(bs "key-bin", [bs "AQID"])].
Proof. vm_compute. auto. Qed.

(* a padded value is not canonical: its content survives, its text is re-encoded (once) *)
Example ex_padded_value :
  proto_of_md_i (md_of_proto_i [(bs "k-bin", [bs "AQ=="; bs "not base64"])]) =
  [(bs "k-bin", [bs "AQ"; bs "bm90IGJhc2U2NA"])].
Proof. vm_compute. reflexivity. Qed.

Example ex_canonical_bin : canonical_bin b64enc_i [(bs "X-Bin", [bs "AQID"]); (bs "x", [bs "!"])].
Proof.
  intros h v [<-|[<-|[]]] B Hv; [|discriminate B].
  destruct Hv as [<-|[]]. exists [1; 2; 3]. split; [|reflexivity].
  repeat constructor.
Qed.

Example ex_trailers_merge :
  convert_to_proto_header (add_trailers [(bs "x-a", [bs "1"]); (bs "X-A", [bs "2"])] []) = [(bs "Trailer:X-A", [bs "1"; bs "2"])].
Proof. vm_compute. reflexivity. Qed.

Example ex_percent :
  percent_encode (bs "a%b" ++ [10; 195; 164]) = bs "a%25b%0A%C3%A4" /\
  percent_decode (bs "a%25b%0A%C3%A4") = Some (bs "a%b" ++ [10; 195; 164]) /\
  percent_encode (bs "safe text~") = bs "safe text~" /\ percent_decode (bs "%zz") = None.
Proof. vm_compute. auto. Qed.

(* #11: the pinned StrictProtoCodec marshalled JSON, which its own Unmarshal refuses *)
Example ex_proto_marshal_pinned :
  strict_proto_unmarshal _ unmarshal_bin_i (strict_proto_marshal_pinned _ marshal_json_i (PMsg (bs "n") [] [])) = CErrMalformed /\
  strict_proto_unmarshal _ unmarshal_bin_i (strict_proto_marshal _ marshal_bin_i (PMsg (bs "n") [] [])) = COk (PMsg (bs "n") [] []).
Proof. vm_compute. auto. Qed.

(* #12: the pinned StrictProtoCodec looked at the top level only *)
Example ex_nested_unknown_pinned :
  let m := PMsg (bs "t") [] [PMsg (bs "GET") [192; 62; 1] []] in
  has_unknown m /\
  strict_proto_unmarshal_pinned _ unmarshal_bin_i (marshal_bin_i m) = COk m /\
  strict_proto_unmarshal _ unmarshal_bin_i (marshal_bin_i m) = CErrUnknown.
Proof.
  cbv zeta. split; [|vm_compute; auto].
  eapply hu_below; [left; reflexivity|]. apply hu_here. discriminate.
Qed.

Example ex_no_unknown : ~ has_unknown (PMsg (bs "t") [] [PMsg (bs "GET") [] []]).
Proof. apply clean_iff. vm_compute. reflexivity. Qed.
