From V Require Import C18_Spec C18_Proofs.
