(* C18_Props.v — the property theorems of C18 and nothing else.
   Each is closed by `exact <lemma>` and followed by Print Assumptions.
   The third-party libraries are universally quantified and constrained by the contracts of
   C18_Spec.v (detail_contract, b64_contract, bin_contract, json_contract); the last theorem
   shows the contracts are satisfied by the instances the extracted model runs with. *)
From V Require Import C18_Spec C18_Proofs C18_Instances C18_Hist C18_Wiring.
Open Scope N_scope.

(* ---------------------------------------------------------------- errors *)
(* the model's scan for the last '/' computes the declarative type name; the default prefix the
   repository puts back in front of it restores a canonical type URL exactly *)
Theorem type_url_restoration : forall url,
  type_name url = type_of url /\ ~ In slash (type_of url) /\
  type_of (default_prefix ++ type_of url) = type_of url /\
  (canonical_url url -> default_prefix ++ type_of url = url).
Proof. exact type_url_restoration_proof. Qed.
Print Assumptions type_url_restoration.

(* test-case form -> Connect form: the Connect error shows the code, the message text and, for
   every detail in order, its type and its bytes *)
Theorem err_connect_view : forall new_detail d_type d_bytes,
  detail_contract new_detail d_type d_bytes -> forall e,
  cerr_view d_type d_bytes (connect_of_proto new_detail e) =
  (to_u32 (p_code e), message_of e, map (fun a => (type_of (fst a), snd a)) (p_details e)).
Proof. exact connect_view_proof. Qed.
Print Assumptions err_connect_view.

(* test-case form -> Connect form -> test-case form: same code, message and details (type, bytes,
   order); with canonical type URLs the very same error, the message now set *)
Theorem err_roundtrip_connect : forall new_detail d_type d_bytes,
  detail_contract new_detail d_type d_bytes -> forall e,
  int32 (p_code e) ->
  same_error (proto_of_connect d_type d_bytes (connect_of_proto new_detail e)) e /\
  (canonical_details (p_details e) ->
   proto_of_connect d_type d_bytes (connect_of_proto new_detail e) =
   PErr (p_code e) (Some (message_of e)) (p_details e)).
Proof. exact err_roundtrip_connect_proof. Qed.
Print Assumptions err_roundtrip_connect.

(* Connect form -> test-case form -> Connect form: indistinguishable for an observer *)
Theorem err_roundtrip_proto : forall new_detail d_type d_bytes,
  detail_contract new_detail d_type d_bytes -> forall c,
  uint32 (c_code c) -> Forall (fun d => ~ In slash (d_type d)) (c_details c) ->
  cerr_view d_type d_bytes (connect_of_proto new_detail (proto_of_connect d_type d_bytes c)) =
  cerr_view d_type d_bytes c.
Proof. exact err_roundtrip_proto_proof. Qed.
Print Assumptions err_roundtrip_proto.

(* ConvertErrorToConnectError / ConvertErrorToProtoError: a Connect error, bare or wrapped, is
   found and converted as above; anything else is code unknown with the error text *)
Theorem err_from_go : forall new_detail d_type d_bytes,
  detail_contract new_detail d_type d_bytes ->
  (forall c, connect_of_error (GoConnect c) = c) /\
  (forall t c, connect_of_error (GoWrapped t c) = c) /\
  (forall t, cerr_view d_type d_bytes (connect_of_error (GoPlain t)) = (2%Z, t, [])) /\
  (forall g, proto_of_error d_type d_bytes g = proto_of_connect d_type d_bytes (connect_of_error g)) /\
  (forall e t, int32 (p_code e) ->
     same_error (proto_of_error d_type d_bytes (GoConnect (connect_of_proto new_detail e))) e /\
     same_error (proto_of_error d_type d_bytes (GoWrapped t (connect_of_proto new_detail e))) e).
Proof. exact err_from_go_proof. Qed.
Print Assumptions err_from_go.

(* test-case form -> gRPC status -> test-case form: OK (0) is no error; every other code gives a
   status with the same code, message and details, and converts back to the same error *)
Theorem err_roundtrip_grpc : forall e,
  int32 (p_code e) ->
  (grpc_of_proto e = None <-> p_code e = 0%Z) /\
  (p_code e <> 0%Z ->
   exists s, grpc_of_proto e = Some s /\
             (g_code s, g_msg s, g_details s) = (p_code e, message_of e, p_details e) /\
             proto_of_grpc (GrpcStatus s) = PErr (p_code e) (Some (message_of e)) (p_details e) /\
             same_error (proto_of_grpc (GrpcStatus s)) e /\
             (forall t, p_code (proto_of_grpc (GrpcWrapped t s)) = p_code e /\
                        p_details (proto_of_grpc (GrpcWrapped t s)) = p_details e)).
Proof. exact err_roundtrip_grpc_proof. Qed.
Print Assumptions err_roundtrip_grpc.

(* gRPC status -> test-case form -> gRPC status *)
Theorem err_roundtrip_status : forall s,
  int32 (g_code s) -> g_code s <> 0%Z -> grpc_of_proto (proto_of_grpc (GrpcStatus s)) = Some s.
Proof. exact err_roundtrip_status_proof. Qed.
Print Assumptions err_roundtrip_status.

(* -------------------------------------------------------------- metadata *)
(* header list -> metadata -> header list.  One entry per name up to letter case; under key k the
   values of every header whose name is k up to case, in order; a `-bin` value is decoded into the
   metadata and reads back as the base64 text of its content - encoded once; a header list
   produced from binary data reads back unchanged.  No base64 assumption for the first four parts. *)
Theorem md_roundtrip : forall b64enc b64dec hs,
  NoDup (map fst (proto_of_md b64enc (md_of_proto b64dec hs))) /\
  (forall k, In k (map fst (proto_of_md b64enc (md_of_proto b64dec hs))) <->
             exists h, In h hs /\ lower (fst h) = k) /\
  (forall k, md_get (md_of_proto b64dec hs) k =
             if occurs k hs
             then Some (if is_bin k then map (decode_or_raw b64dec) (values_for k hs) else values_for k hs)
             else None) /\
  (forall k, md_get (proto_of_md b64enc (md_of_proto b64dec hs)) k =
             if occurs k hs then Some (once b64enc b64dec k (values_for k hs)) else None) /\
  (b64_contract b64enc b64dec -> canonical_bin b64enc hs ->
   forall k, md_get (proto_of_md b64enc (md_of_proto b64dec hs)) k =
             if occurs k hs then Some (values_for k hs) else None).
Proof. exact md_roundtrip_proof. Qed.
Print Assumptions md_roundtrip.

(* metadata (unique lower-case keys, as grpc-go keeps it) -> header list -> metadata *)
Theorem md_roundtrip_back : forall b64enc b64dec (m : md),
  b64_contract b64enc b64dec ->
  NoDup (map fst m) -> Forall (fun kv => lower (fst kv) = fst kv) m ->
  Forall (fun kv => Forall (Forall is_byte) (snd kv)) m ->
  forall k, md_get (md_of_proto b64dec (proto_of_md b64enc m)) k = md_get m k.
Proof. exact md_roundtrip_back_proof. Qed.
Print Assumptions md_roundtrip_back.

(* the client path: AppendToOutgoingContext, grpc-go's outgoing metadata, and what the peer's
   ConvertMetadataToProtoHeader reports.  grpc-go receives what ConvertProtoHeaderToMetadata
   builds (a name without values carries nothing), `-bin` values are reported encoded once *)
Theorem outgoing_once : forall b64enc b64dec hs,
  NoDup (map fst (outgoing_reported b64enc b64dec hs)) /\
  (forall k, md_get (grpc_outgoing_md (outgoing_pairs b64dec hs)) k =
             some_nonempty (get_or_nil (md_get (md_of_proto b64dec hs) k))) /\
  (forall k, md_get (outgoing_reported b64enc b64dec hs) k =
             some_nonempty (once b64enc b64dec k (values_for k hs))) /\
  (b64_contract b64enc b64dec -> canonical_bin b64enc hs ->
   forall k, md_get (outgoing_reported b64enc b64dec hs) k = some_nonempty (values_for k hs)).
Proof. exact outgoing_once_proof. Qed.
Print Assumptions outgoing_once.

(* internal/headers.go: AddHeaders / AddTrailers into an http.Header and ConvertToProtoHeader back:
   one entry per canonical name, all values in order, the name changed in letter case only; trailer
   names that differ in letter case only share one key (repair e7bd693) *)
Theorem http_headers : forall hs,
  (NoDup (map fst (convert_to_proto_header (add_headers hs []))) /\
   (forall k, md_get (convert_to_proto_header (add_headers hs [])) k = some_nonempty (values_under canonical_key k hs)) /\
   (forall n, lower (canonical_key n) = lower n)) /\
  (NoDup (map fst (convert_to_proto_header (add_trailers hs []))) /\
   (forall k, md_get (convert_to_proto_header (add_trailers hs [])) k = some_nonempty (values_under trailer_key k hs)) /\
   (forall n, lower (trailer_key n) = lower trailer_prefix ++ lower n) /\
   (forall n n', lower n = lower n' -> forallb is_token_char n = true -> trailer_key n = trailer_key n')).
Proof. exact http_headers_proof. Qed.
Print Assumptions http_headers.

(* ------------------------------------------------------ percent-encoding *)
(* for ALL byte strings: decodable to the original, printable ASCII only, identity on safe text *)
Theorem percent_inverse : forall m,
  Forall is_byte m ->
  percent_decode (percent_encode m) = Some m /\
  Forall printable_ascii (percent_encode m) /\
  (Forall safe_char m -> percent_encode m = m).
Proof. exact percent_inverse_proof. Qed.
Print Assumptions percent_inverse.

Theorem percent_injective : forall m1 m2,
  Forall is_byte m1 -> Forall is_byte m2 -> percent_encode m1 = percent_encode m2 -> m1 = m2.
Proof. exact percent_injective_proof. Qed.
Print Assumptions percent_injective.

(* ShouldEscapeByteInMessage is the complement of "printable and not '%'" *)
Theorem escape_class : forall c, should_escape c = false <-> safe_char c.
Proof. exact should_escape_spec. Qed.
Print Assumptions escape_class.

(* ---------------------------------------------------------- strict codecs *)
Theorem codec_roundtrip : forall wire marshal_bin unmarshal_bin marshal_json unmarshal_json json_unknown,
  @bin_contract wire marshal_bin unmarshal_bin ->
  json_contract marshal_json unmarshal_json json_unknown ->
  forall m, ~ has_unknown m ->
  strict_proto_unmarshal wire unmarshal_bin (strict_proto_marshal wire marshal_bin m) = COk m /\
  strict_json_unmarshal wire unmarshal_json (strict_json_marshal wire marshal_json m) = COk m.
Proof. exact codec_roundtrip_proof. Qed.
Print Assumptions codec_roundtrip.

(* unknown fields are rejected at any depth and never dropped: whatever the binary codec accepts is
   the library's parse of the data and has no unrecognised field anywhere *)
Theorem codec_rejects_unknown : forall wire marshal_bin unmarshal_bin marshal_json unmarshal_json json_unknown,
  @bin_contract wire marshal_bin unmarshal_bin ->
  json_contract marshal_json unmarshal_json json_unknown ->
  (forall w m, unmarshal_bin w = Some m -> has_unknown m ->
               strict_proto_unmarshal wire unmarshal_bin w = CErrUnknown) /\
  (forall w m, strict_proto_unmarshal wire unmarshal_bin w = COk m ->
               unmarshal_bin w = Some m /\ ~ has_unknown m) /\
  (forall m, has_unknown m -> strict_proto_unmarshal wire unmarshal_bin (marshal_bin m) = CErrUnknown) /\
  (forall w, json_unknown w -> strict_json_unmarshal wire unmarshal_json w = CErrMalformed) /\
  (forall w m, strict_json_unmarshal wire unmarshal_json w = COk m ->
               unmarshal_json false w = Some m /\ ~ has_unknown m).
Proof. exact codec_rejects_unknown_proof. Qed.
Print Assumptions codec_rejects_unknown.

(* which peer decodes with which codec is set-up code of the peers, outside this property (C18_Wiring.v): the
   table of registrations is regenerated from the peers' sources and recorded, never pinned.  What the codec
   theorems give for a peer, for ANY table: a peer that installs a strict codec on every path through its
   set-up code rejects unknown fields in that format *)
Theorem strict_where_installed : forall wire marshal_bin unmarshal_bin marshal_json unmarshal_json json_unknown,
  @bin_contract wire marshal_bin unmarshal_bin ->
  json_contract marshal_json unmarshal_json json_unknown ->
  forall t peer,
  (always_installs t peer 1 = true ->
     forall w, json_unknown w -> peer_unmarshal_json wire unmarshal_json t peer w = CErrMalformed) /\
  (always_installs t peer 2 = true ->
     forall w m, unmarshal_bin w = Some m -> has_unknown m ->
                 peer_unmarshal_proto wire unmarshal_bin t peer w = CErrUnknown).
Proof. exact strict_where_installed_proof. Qed.
Print Assumptions strict_where_installed.

(* --------------------------------------------- histories: structures used further *)
(* The detail bytes are handed on as they are - for ANY bytes, a non-canonical encoding of a
   registered type included: under connect-go's contract the Connect error shows them and the
   conversion back returns them; the conversions (with the extracted instances) commute with every
   function on the bytes, so nothing decodes or re-encodes them. *)
Theorem detail_bytes_verbatim :
  (forall new_detail d_type d_bytes, detail_contract new_detail d_type d_bytes -> forall e,
     map d_bytes (c_details (connect_of_proto new_detail e)) = map snd (p_details e) /\
     map snd (p_details (proto_of_connect d_type d_bytes (connect_of_proto new_detail e))) = map snd (p_details e)) /\
  (forall d_type d_bytes c, map snd (p_details (proto_of_connect d_type d_bytes c)) = map d_bytes (c_details c)) /\
  (forall f e, c_of_p (perr_map f e) = cerr_map f (c_of_p e)) /\
  (forall f c, p_of_c (cerr_map f c) = perr_map f (p_of_c c)) /\
  (forall f e, grpc_of_proto (perr_map f e) = option_map (gstat_map f) (grpc_of_proto e)) /\
  (forall f s, proto_of_grpc (GrpcStatus (gstat_map f s)) = perr_map f (proto_of_grpc (GrpcStatus s))) /\
  (forall f t s, proto_of_grpc (GrpcWrapped t (gstat_map f s)) = perr_map f (proto_of_grpc (GrpcWrapped t s))).
Proof. exact detail_bytes_verbatim_proof. Qed.
Print Assumptions detail_bytes_verbatim.

(* Explicit memory (C18_Model 2b; every array has spare capacity, append() is in place).  A header /
   metadata conversion run on a source that lies in memory allocated before the call: reads only;
   returns what the value-level conversion gives for the values of the source; every array of the
   result was allocated by the call and no two value lists share one; hence the result reads the same
   whatever is done afterwards to all other memory - the source's arrays, a sibling destination filled
   from the same source, anything allocated later. *)
Theorem conversions_do_not_alias : forall touch keyf valf h0 src h1 A,
  src_below (next h0) src ->
  conv_h false touch keyf valf src (h0, []) = (h1, A) ->
  (forall id, (id < next h0)%nat -> same_arr h0 h1 id) /\
  image h1 A = conv_v touch keyf valf (image h0 src) [] /\
  (next h0 <= next h1)%nat /\ Forall (fun id => next h0 <= id < next h1)%nat (ids A) /\ NoDup (ids A) /\
  (forall h', (forall id, (next h0 <= id < next h1)%nat -> same_arr h1 h' id) -> image h' A = image h1 A).
Proof. exact conversions_do_not_alias_proof. Qed.
Print Assumptions conversions_do_not_alias.

(* ... and conv_v is the model's conversion for each of the five functions (a Go map has unique
   keys); append() through a slice writes to that slice's array or to a new one, nowhere else *)
Theorem heap_conversions_are_the_models :
  (forall src dest, conv_v false canonical_key val_id src dest = add_headers src dest) /\
  (forall src dest, conv_v false trailer_key val_id src dest = add_trailers src dest) /\
  (forall b64enc b64dec hs, conv_v true lower (fn_val b64enc b64dec 3) hs [] = md_of_proto b64dec hs) /\
  (forall b64enc b64dec (m : md), NoDup (map fst m) ->
     conv_v true (fun k => k) (fn_val b64enc b64dec 4) m [] = proto_of_md b64enc m) /\
  (forall m : md, NoDup (map fst m) -> conv_v true (fun k => k) val_id m [] = convert_to_proto_header m) /\
  (forall h s x h' s', sl_append h s x = (h', s') ->
     (next h <= next h')%nat /\
     forall id, (match s with SRef id0 _ => id <> id0 | SNil => id <> next h end) -> same_arr h h' id).
Proof.
  exact (conj conv_v_add_headers (conj conv_v_add_trailers (conj conv_v_md_of_proto
        (conj conv_v_proto_of_md (conj conv_v_convert_to_proto_header sl_append_writes))))).
Qed.
Print Assumptions heap_conversions_are_the_models.

(* A message object with a history (changed, sized, encoded, changed again ...): the result of every
   Marshal is that of a fresh message holding the current value - the codec keeps no state and trusts
   none in the message; with the library contracts every encoding decodes to the current value. *)
Theorem codec_stateless :
  (forall wire (marshal : pmsg -> wire) unmarshal ops o,
     run_hist wire marshal unmarshal false ops o =
     map (fun m => Some (unmarshal (marshal m))) (values_at_marshal ops (o_cur o))) /\
  (forall wire marshal_bin unmarshal_bin marshal_json unmarshal_json json_unknown,
     @bin_contract wire marshal_bin unmarshal_bin ->
     json_contract marshal_json unmarshal_json json_unknown ->
     forall ops o, Forall (fun m => ~ has_unknown m) (values_at_marshal ops (o_cur o)) ->
     run_hist wire (strict_proto_marshal wire marshal_bin) (strict_proto_unmarshal wire unmarshal_bin) false ops o =
       map (fun m => Some (COk m)) (values_at_marshal ops (o_cur o)) /\
     run_hist wire (strict_json_marshal wire marshal_json) (strict_json_unmarshal wire unmarshal_json) false ops o =
       map (fun m => Some (COk m)) (values_at_marshal ops (o_cur o))).
Proof. exact (conj codec_stateless_proof codec_hist_roundtrip_proof). Qed.
Print Assumptions codec_stateless.

(* The outputs of the codecs are VALUES: every output of a history (Marshal / MarshalAppend /
   MarshalStable are one `marshal` each), kept and read again in the memory as it is after ALL calls,
   is still the encoding of the value the object held at ITS call - a later call writes no cell an
   earlier call returned; with the library contracts each decodes to its own message. *)
Theorem codec_outputs_are_values :
  (forall wire (marshal : pmsg -> wire) unmarshal ops cur,
     reread_outputs wire marshal unmarshal false ops cur =
     map (fun m => Some (unmarshal (marshal m))) (values_at_marshal ops cur)) /\
  (forall wire marshal_bin unmarshal_bin marshal_json unmarshal_json json_unknown,
     @bin_contract wire marshal_bin unmarshal_bin ->
     json_contract marshal_json unmarshal_json json_unknown ->
     forall ops cur, Forall (fun m => ~ has_unknown m) (values_at_marshal ops cur) ->
     reread_outputs wire (strict_proto_marshal wire marshal_bin) (strict_proto_unmarshal wire unmarshal_bin) false ops cur =
       map (fun m => Some (COk m)) (values_at_marshal ops cur) /\
     reread_outputs wire (strict_json_marshal wire marshal_json) (strict_json_unmarshal wire unmarshal_json) false ops cur =
       map (fun m => Some (COk m)) (values_at_marshal ops cur)).
Proof. exact codec_outputs_are_values_proof. Qed.
Print Assumptions codec_outputs_are_values.

(* ------------------------------------------- the contracts are satisfiable *)
(* ... by the instances the extracted model runs with; the base64 one is the Gallina transcription
   of Go's encoding/base64 as connect uses it, compared with the Go functions on every check *)
Theorem contracts_inhabited :
  detail_contract new_detail_i d_type_i d_bytes_i /\ (forall d, ~ In slash (d_type_i d)) /\
  b64_contract b64enc_i b64dec_i /\
  bin_contract marshal_bin_i unmarshal_bin_i /\
  json_contract marshal_json_i unmarshal_json_i json_unknown_i.
Proof. exact contracts_inhabited_proof. Qed.
Print Assumptions contracts_inhabited.

(* ---- non-vacuity and the behaviour of the pinned code, for the record ---- *)
Example ex_type_of :
  type_of (bs "type.googleapis.com/google.rpc.ErrorInfo") = bs "google.rpc.ErrorInfo" /\
  type_of (bs "example.com/a/b/x.Y") = bs "x.Y" /\ type_of (bs "x.Y") = bs "x.Y" /\ type_of (bs "a/") = [].
Proof. vm_compute. auto. Qed.

Example ex_canonical_url : canonical_url (bs "type.googleapis.com/google.rpc.ErrorInfo").
Proof.
  exists (bs "google.rpc.ErrorInfo"). split; [reflexivity|]. vm_compute. intuition discriminate.
Qed.

(* a non-canonical URL keeps its type but gets the default prefix *)
Example ex_prefix_rewritten :
  p_details (p_of_c (c_of_p (PErr 5 None [(bs "example.com/x.Y", [1; 2])]))) =
  [(bs "type.googleapis.com/x.Y", [1; 2])].
Proof. vm_compute. reflexivity. Qed.

(* #10: the pinned ConvertProtoHeaderToMetadata assigned; repeated names lost values *)
Example ex_md_assign_refuted :
  md_of_proto_assign b64dec_i [(bs "X-A", [bs "1"]); (bs "x-a", [bs "2"])] = [(bs "x-a", [bs "2"])] /\
  md_of_proto b64dec_i [(bs "X-A", [bs "1"]); (bs "x-a", [bs "2"])] = [(bs "x-a", [bs "1"; bs "2"])].
Proof. vm_compute. auto. Qed.

(* #13: the pinned AppendToOutgoingContext passed the base64 text on; grpc-go encoded it again *)
Example ex_outgoing_raw_refuted :
  outgoing_reported_raw b64enc_i [(bs "Key-Bin", [bs "AQID"])] = [(bs "key-bin", [bs "QVFJRA"])] /\
  outgoing_reported b64enc_i b64dec_i [(bs "Key-Bin", [bs "AQID"])] = [(bs "key-bin", [bs "AQID"])].
Proof. vm_compute. auto. Qed.

(* a padded value is not canonical: its content survives, its text is re-encoded (once) *)
Example ex_padded_value :
  proto_of_md_i (md_of_proto_i [(bs "k-bin", [bs "AQ=="; bs "not base64"])]) =
  [(bs "k-bin", [bs "AQ"; bs "bm90IGJhc2U2NA"])].
Proof. vm_compute. reflexivity. Qed.

Example ex_canonical_bin : canonical_bin b64enc_i [(bs "X-Bin", [bs "AQID"]); (bs "x", [bs "!"])].
Proof.
  intros h v [<-|[<-|[]]] B Hv; [|discriminate B].
  destruct Hv as [<-|[]]. exists [1; 2; 3]. split; [|reflexivity].
  repeat constructor.
Qed.

Example ex_trailers_merge :
  convert_to_proto_header (add_trailers [(bs "x-a", [bs "1"]); (bs "X-A", [bs "2"])] []) = [(bs "Trailer:X-A", [bs "1"; bs "2"])].
Proof. vm_compute. reflexivity. Qed.

Example ex_percent :
  percent_encode (bs "a%b" ++ [10; 195; 164]) = bs "a%25b%0A%C3%A4" /\
  percent_decode (bs "a%25b%0A%C3%A4") = Some (bs "a%b" ++ [10; 195; 164]) /\
  percent_encode (bs "safe text~") = bs "safe text~" /\ percent_decode (bs "%zz") = None.
Proof. vm_compute. auto. Qed.

(* #11: the pinned StrictProtoCodec marshalled JSON, which its own Unmarshal refuses *)
Example ex_proto_marshal_pinned :
  strict_proto_unmarshal _ unmarshal_bin_i (strict_proto_marshal_pinned _ marshal_json_i (PMsg (bs "n") [] [])) = CErrMalformed /\
  strict_proto_unmarshal _ unmarshal_bin_i (strict_proto_marshal _ marshal_bin_i (PMsg (bs "n") [] [])) = COk (PMsg (bs "n") [] []).
Proof. vm_compute. auto. Qed.

(* #12: the pinned StrictProtoCodec looked at the top level only *)
Example ex_nested_unknown_pinned :
  let m := PMsg (bs "t") [] [PMsg (bs "GET") [192; 62; 1] []] in
  has_unknown m /\
  strict_proto_unmarshal_pinned _ unmarshal_bin_i (marshal_bin_i m) = COk m /\
  strict_proto_unmarshal _ unmarshal_bin_i (marshal_bin_i m) = CErrUnknown.
Proof.
  cbv zeta. split; [|vm_compute; auto].
  eapply hu_below; [left; reflexivity|]. apply hu_here. discriminate.
Qed.

Example ex_no_unknown : ~ has_unknown (PMsg (bs "t") [] [PMsg (bs "GET") [] []]).
Proof. apply clean_iff. vm_compute. reflexivity. Qed.

(* seeded C18-14: AddHeaders keeps the source's slice for a new name.  The same list added to two
   destinations, one more value appended to each, the source re-used: the first destination has lost
   its own value and shows the scribbling; the conversion as it is keeps everything *)
Example ex_sharing_refuted :
  let src := [(bs "X-Custom", [bs "v1"; bs "v2"; bs "v3"])] in
  alias_history (conv_h true false canonical_key val_id) src (bs "first-extra") (bs "second-extra") =
    ([(bs "X-Custom", [bs "v1"; bs "v2"; bs "v3"])],
     [(bs "X-Custom", [bs "#"; bs "#"; bs "#"; bs "#"])], [(bs "X-Custom", [bs "#"; bs "#"; bs "#"; bs "#"])]) /\
  alias_history (conv_h false false canonical_key val_id) src (bs "first-extra") (bs "second-extra") =
    ([(bs "X-Custom", [bs "v1"; bs "v2"; bs "v3"])],
     [(bs "X-Custom", [bs "v1"; bs "v2"; bs "v3"; bs "first-extra"])],
     [(bs "X-Custom", [bs "v1"; bs "v2"; bs "v3"; bs "second-extra"])]).
Proof. vm_compute. auto. Qed.

(* seeded C18-11: Marshal trusting the sizes cached in the message (UseCachedSize).  Encode, change
   a nested message, encode again: the variant fails, the codec as it is encodes the current value *)
Example ex_cached_size_refuted :
  let t1 := PMsg (bs "t") [] [PMsg (bs "GET") [] []] in
  let t2 := PMsg (bs "t") [] [PMsg (bs "GET") [] [PMsg (bs "a longer text") [] []]] in
  let ops := [HSet t1; HMarshal; HSet t2; HMarshal] in
  let o := MObj (PMsg [] [] []) NotSized in
  run_hist _ (strict_proto_marshal _ marshal_bin_i) (strict_proto_unmarshal _ unmarshal_bin_i) true ops o =
    [Some (COk t1); None] /\
  run_hist _ (strict_proto_marshal _ marshal_bin_i) (strict_proto_unmarshal _ unmarshal_bin_i) false ops o =
    [Some (COk t1); Some (COk t2)] /\
  values_at_marshal ops (o_cur o) = [t1; t2].
Proof. vm_compute. auto. Qed.

(* seeded C18-27: the result is a view of a pooled scratch buffer.  Three messages encoded, then the
   outputs read again: the variant shows the LAST message three times, the codec as it is each its own *)
Example ex_pooled_output_refuted :
  let t1 := PMsg (bs "one") [] [] in
  let t2 := PMsg (bs "two") [] [PMsg (bs "GET") [] []] in
  let t3 := PMsg (bs "three") [] [] in
  let ops := [HSet t1; HMarshal; HSet t2; HSize; HMarshal; HSet t3; HMarshal] in
  reread_outputs _ (strict_json_marshal _ marshal_json_i) (strict_json_unmarshal _ unmarshal_json_i) true ops (PMsg [] [] []) =
    [Some (COk t3); Some (COk t3); Some (COk t3)] /\
  reread_outputs _ (strict_json_marshal _ marshal_json_i) (strict_json_unmarshal _ unmarshal_json_i) false ops (PMsg [] [] []) =
    [Some (COk t1); Some (COk t2); Some (COk t3)] /\
  values_at_marshal ops (PMsg [] [] []) = [t1; t2; t3].
Proof. vm_compute. auto. Qed.

(* a non-canonical encoding of a registered type (Header{name = "k", value = ["a"]} with the fields
   out of order) comes back byte for byte *)
Example ex_noncanonical_detail :
  p_details (p_of_c (c_of_p (PErr 5 None [(bs "type.googleapis.com/connectrpc.conformance.v1.Header",
                                          [18; 1; 97; 10; 1; 107])]))) =
  [(bs "type.googleapis.com/connectrpc.conformance.v1.Header", [18; 1; 97; 10; 1; 107])].
Proof. vm_compute. reflexivity. Qed.
