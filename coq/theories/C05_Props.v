(* C05_Props.v - placeholder, being written *)
From V Require Import C05_Spec C05_Proofs.
