(* C05_Props.v — the property theorems of C05 and nothing else.
   A schedule is an ARBITRARY list of actions (one action = one semaphore operation, process
   start / exit, message to or from a peer; a disabled action is a no-op), the library, the
   selection predicate, the instance order and MaxServers are arbitrary. *)
From V Require Import C05_Spec C05_Proofs C05_LoadProofs.
Open Scope N_scope.

(* ---- which permutations are issued -------------------------------------------------- *)
(* Grouping by server instance, gRPC filter, run/skip filter and the dropping of empty groups
   neither lose nor duplicate anything: the batches of a run are, as a multiset, exactly the
   selected permutations (gRPC variants only where supported, under their marked names) — for
   every order in which the instances are visited. *)
Theorem partition : forall lib sel order clients servers,
  NoDup order -> (forall tc, In tc lib -> In (inst_of tc) order) ->
  Permutation (concat (map b_cases (plan lib sel order clients servers)))
              (selected lib sel clients servers).
Proof. exact partition_proof. Qed.
Print Assumptions partition.

(* the two orders run() uses (map order = any duplicate-free enumeration; sorted with -v) qualify *)
Theorem instances_ok : forall lib,
  NoDup (instances lib) /\ forall tc, In tc lib -> In (inst_of tc) (instances lib).
Proof. exact instances_ok_proof. Qed.
Print Assumptions instances_ok.
Theorem sorted_ok : forall lib,
  NoDup (sort_insts (instances lib)) /\ forall tc, In tc lib -> In (inst_of tc) (sort_insts (instances lib)).
Proof. exact sorted_ok_proof. Qed.
Print Assumptions sorted_ok.

(* every batch is non-empty and holds only permutations of the instance its server is started for *)
Theorem matching_server : forall lib sel order clients servers b,
  In b (plan lib sel order clients servers) ->
  b.(b_cases) <> [] /\ forall tc, In tc b.(b_cases) -> inst_of tc = b.(b_inst).
Proof. exact matching_server_proof. Qed.
Print Assumptions matching_server.

(* a gRPC variant's name is the original with the marker inserted before the simple name *)
Theorem marked_name : forall c s tc prefix,
  tc.(tc_name) = prefix ++ tc.(tc_simple) ->
  (rename c s tc).(tc_name) = prefix ++ marker c s ++ 47 :: tc.(tc_simple).
Proof. exact marked_name_proof. Qed.
Print Assumptions marked_name.

(* ---- the request handed to the client ------------------------------------------------ *)
Theorem request_filled : forall a g sref tc,
  let r := complete a g sref tc in
  let nh := (bs "x-test-case-name", [tc.(tc_name)]) in
  r.(r_name) = tc.(tc_name) /\
  r.(r_port) = a.(a_port) /\ r.(r_cert) = a.(a_cert) /\
  r.(r_host) = (if is_empty a.(a_host) then default_host else a.(a_host)) /\ r.(r_host) <> [] /\
  r.(r_creds) = g.(i_certs) /\
  exists extra,
    r.(r_headers) = tc.(tc_headers) ++ nh :: extra /\
    r.(r_raw) = option_map (fun hs => hs ++ nh :: extra) tc.(tc_raw) /\
    (sref = false -> extra = []) /\
    (forall h, In h extra -> has_prefix (bs "x-expect-") (fst h) = true).
Proof. exact request_filled_proof. Qed.
Print Assumptions request_filled.

(* ---- all schedules -------------------------------------------------------------------- *)
(* every send happens while the server spawned for that very batch is serving, the permutation
   is one of the batch, and the request carries that server's address and certificate *)
Theorem send_while_serving : forall max p acts, sends_ok p (run_sched max p acts).(trace).
Proof. exact send_while_serving_proof. Qed.
Print Assumptions send_while_serving.

(* never more than MaxServers server processes, at any moment of any schedule *)
Theorem bounded : forall max p acts, always_bounded max (run_sched max p acts).(trace).
Proof. exact bounded_proof. Qed.
Print Assumptions bounded.
Theorem max_alive_bounded : forall max p acts, (max_alive (run_sched max p acts).(trace) <= max)%nat.
Proof. exact max_alive_proof. Qed.
Print Assumptions max_alive_bounded.

(* client mode (both in-process server kinds, reference and grpc-go): the batches of BOTH kinds are in the one
   plan the one semaphore rules, so the bound holds across the kinds, in particular at the hand-over *)
Theorem both_server_kinds_in_plan : forall lib sel order c g,
  In g order ->
  batch_cases lib sel c (mkPeer true false) g <> [] ->
  batch_cases lib sel c (mkPeer false true) g <> [] ->
  In (mkBatch 0%nat c.(p_ref) true g (batch_cases lib sel c (mkPeer true false) g))
     (plan lib sel order [c] (peers_of true)) /\
  In (mkBatch 0%nat c.(p_ref) false g (batch_cases lib sel c (mkPeer false true) g))
     (plan lib sel order [c] (peers_of true)).
Proof. exact both_server_kinds_in_plan_proof. Qed.
Print Assumptions both_server_kinds_in_plan.
Theorem bounded_across_server_kinds : forall max lib sel order clients acts,
  always_bounded max (run_sched max (plan lib sel order clients (peers_of true)) acts).(trace) /\
  (max_alive (run_sched max (plan lib sel order clients (peers_of true)) acts).(trace) <= max)%nat.
Proof. exact bounded_across_server_kinds_proof. Qed.
Print Assumptions bounded_across_server_kinds.

(* at any moment, what was sent for a batch is a prefix of its permutations in order: nothing
   twice, nothing foreign; and nothing is sent for a batch recorded as setup failure *)
Theorem never_twice : forall max p acts k b,
  let s := run_sched max p acts in
  nth_error p k = Some b ->
  (exists rest, sent_cases s.(trace) k ++ rest = b.(b_cases)) /\
  (failed_in s.(trace) k = true -> sent_cases s.(trace) k = []).
Proof. exact never_twice_proof. Qed.
Print Assumptions never_twice.

(* when the run is over, every batch was either sent completely, each permutation once, or
   recorded as a setup failure with nothing sent *)
Theorem exactly_once : forall max p acts k b,
  let s := run_sched max p acts in
  terminal s = true -> nth_error p k = Some b ->
  (sent_cases s.(trace) k = b.(b_cases) /\ failed_in s.(trace) k = false) \/
  (sent_cases s.(trace) k = [] /\ failed_in s.(trace) k = true).
Proof. exact exactly_once_proof. Qed.
Print Assumptions exactly_once.

(* ... and every server process that was started has exited *)
Theorem all_stopped : forall max p acts,
  let s := run_sched max p acts in terminal s = true -> alive_list s.(trace) = [].
Proof. exact all_stopped_proof. Qed.
Print Assumptions all_stopped.

(* termination: every enabled action lowers the measure; a schedule of any length contains at
   most `measure init` enabled actions; a state that is not final has an enabled action (so,
   peers being fair, the run reaches the final state) *)
Theorem measure_step : forall max p acts a s',
  step_opt max (run_sched max p acts) a = Some s' -> (measure s' < measure (run_sched max p acts))%nat.
Proof. exact measure_step_proof. Qed.
Print Assumptions measure_step.
Theorem schedule_bound : forall max p acts,
  (effective max (init_state p) acts + measure (run_sched max p acts) <= measure (init_state p))%nat.
Proof. exact schedule_bound_proof. Qed.
Print Assumptions schedule_bound.
Theorem progress : forall max p acts,
  (1 <= max)%nat -> let s := run_sched max p acts in
  terminal s = false -> exists a s', step_opt max s a = Some s'.
Proof. exact progress_proof. Qed.
Print Assumptions progress.

(* the scheduler of the correspondence runs (settle / play / drain) follows a schedule, so all
   of the above applies to what the Go code is compared with *)
Theorem scripted_is_schedule : forall max missing ds p script,
  let '(s, acts, _) := scripted max missing ds p script in s = run_sched max p acts.
Proof. exact scripted_is_schedule_proof. Qed.
Print Assumptions scripted_is_schedule.

(* ---- non-vacuity ---------------------------------------------------------------------- *)
Definition tc1 := mkTC (bs "S/TLS:false/a") (bs "a") 2 2 1 1 false false [] None false false.
Definition tc2 := mkTC (bs "S/TLS:false/b") (bs "b") 2 2 1 1 false false [] None false false.
Definition tc3 := mkTC (bs "T/c") (bs "c") 1 1 1 1 true true [] None false false.
Definition lib3 := [tc1; tc3; tc2].
Definition all (_ : bytes) := true.

(* two instances, the gRPC one is issued to both clients, the Connect+TLS one only to the first *)
Example ex_plan :
  map (fun b => (b.(b_phase), map tc_name b.(b_cases)))
      (plan lib3 all (instances lib3) (peers_of true) (peers_of false))
  = [ (0%nat, [bs "S/TLS:false/a"; bs "S/TLS:false/b"]); (0%nat, [bs "T/c"]);
      (1%nat, [bs "S/TLS:false/(grpc client impl)/a"; bs "S/TLS:false/(grpc client impl)/b"]) ].
Proof. vm_compute. reflexivity. Qed.

Definition p2 := plan lib3 all (instances lib3) (peers_of false) (peers_of false).
Definition a1 := mkAddr [] 4711 [].
Definition a2 := mkAddr (bs "h") 4712 (bs "PEM").

(* with one permit the second server starts only after the first was released; the run ends *)
Example ex_serial :
  let s := run_sched 1 p2 [Acquire; Acquire; Spawn 0; Spawn 1; Ready 0 a1; Send 0; Send 0; Stop 0;
                           Answer 0 (bs "S/TLS:false/a"); Answer 0 (bs "S/TLS:false/b"); Stop 0; Release 0;
                           Acquire; Spawn 1; Ready 1 a2; Send 1; Answer 1 (bs "T/c"); Stop 1; Release 1] in
  terminal s = true /\ max_alive s.(trace) = 1%nat /\ effective 1 (init_state p2)
    [Acquire; Acquire; Spawn 0; Spawn 1] = 2%nat.
Proof. vm_compute. auto. Qed.

(* a server that dies is a setup failure for its whole batch; TLS without a certificate too *)
Example ex_failures :
  let s := run_sched 2 p2 [Acquire; Acquire; Spawn 0; Spawn 1; Die 0; Ready 1 (mkAddr [] 1 []); Release 0; Release 1] in
  terminal s = true /\ failed_in s.(trace) 0 = true /\ failed_in s.(trace) 1 = true /\ sent_cases s.(trace) 1 = [].
Proof. vm_compute. auto. Qed.

(* not final => something is enabled (here: nothing was done yet) *)
Example ex_progress : terminal (run_sched 1 p2 []) = false /\ step_opt 1 (run_sched 1 p2 []) Acquire <> None.
Proof. vm_compute. split; [reflexivity|discriminate]. Qed.

Example ex_complete :
  (complete a1 (mkInst 1 1 true true) true tc3).(r_host) = bs "127.0.0.1" /\
  length (complete a1 (mkInst 1 1 true true) true tc3).(r_headers) = 8%nat /\
  length (complete a2 (mkInst 2 2 false false) false tc1).(r_headers) = 1%nat.
Proof. vm_compute. auto. Qed.

(* ---- which suite files take part (Run: LoadTestSuitesFromFiles -> parseTestSuites) -------- *)
(* Whatever paths are given (repetitions included): the loaded map has exactly one entry per
   distinct path, holding the content of that file. *)
Theorem loader_keeps_every_path : forall (read : path -> option sfile) paths m,
  load_files read paths = Loaded m ->
  NoDup (fkeys m) /\
  (forall p, In p (fkeys m) <-> In p paths) /\
  (forall p, In p paths -> exists d, read p = Some d /\ lookup_file m p = Some d).
Proof. intros read paths m. exact (loader_keeps_every_path_proof read paths m). Qed.
Print Assumptions loader_keeps_every_path.

(* Distinct paths: no file is dropped - the map lists the paths as given, each with its file. *)
Theorem no_file_dropped : forall (read : path -> option sfile) paths m,
  NoDup paths -> load_files read paths = Loaded m ->
  map fst m = paths /\ forall p d, In (p, d) m <-> In p paths /\ read p = Some d.
Proof. intros read paths m. exact (no_file_dropped_proof read paths m). Qed.
Print Assumptions no_file_dropped.

(* ... so the permutations of every given file are in the library the run is planned from
   (`partition` then hands each selected one to a client exactly once). *)
Theorem every_suite_file_takes_part : forall (read : path -> option sfile) paths m,
  NoDup paths -> load_files read paths = Loaded m ->
  loaded_names m =
  flat_map (fun p => match read p with Some f => names_of_file f | None => [] end) paths.
Proof. exact every_suite_file_takes_part_proof. Qed.
Print Assumptions every_suite_file_takes_part.

(* The loader fails exactly when some path is unreadable or is not a .yaml file. *)
Theorem load_succeeds_iff : forall (read : path -> option sfile) paths,
  (exists m, load_files read paths = Loaded m) <->
  forall p, In p paths -> read p <> None /\ is_yaml p = true.
Proof. intros read paths. exact (load_succeeds_iff_proof read paths). Qed.
Print Assumptions load_succeeds_iff.

Definition disk : list (path * sfile) :=
  [ (bs "a/suite.yaml", mkSF (bs "One") [bs "x"; bs "y"]);
    (bs "b/suite.yaml", mkSF (bs "Two") [bs "x"]) ].
Example ex_load_both :
  match load_files (lookup_file disk) [bs "a/suite.yaml"; bs "b/suite.yaml"] with
  | Loaded m => loaded_names m = [bs "One/x"; bs "One/y"; bs "Two/x"]
  | _ => False end.
Proof. vm_compute. reflexivity. Qed.
Example ex_load_errors :
  load_files (lookup_file disk) [bs "a/suite.yaml"; bs "c/suite.yaml"] = LoadNotReadable (bs "c/suite.yaml") /\
  load_files (fun _ => Some (mkSF (bs "S") [])) [bs "a/suite.yml"] = LoadNotYaml (bs "a/suite.yml").
Proof. vm_compute. auto. Qed.
(* recorded: filing the data under the base name of the path would drop a file *)
Definition base_name (p : path) : path := last (split_on 47 p) [].
Example base_name_keying_drops_a_file :
  match load_from base_name (lookup_file disk) [bs "a/suite.yaml"; bs "b/suite.yaml"] [] with
  | Loaded m => loaded_names m = [bs "Two/x"]
  | _ => False end.
Proof. vm_compute. reflexivity. Qed.
