From V Require Import C10_Spec.
