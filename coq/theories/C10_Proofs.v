(* C10_Proofs.v — invariants of the clientProcessRunner transition system over ARBITRARY
   action lists, and the proofs of the property theorems stated in C10_Props.v. *)
From Coq Require Import Lia.
From V Require Import C10_Consts C10_Spec.
Open Scope N_scope.

(* ====================================================================== *)
(* pendingOps as an association list                                      *)
(* ====================================================================== *)
Definition ids (l : list (name * N)) : list N := map snd l.
Definition nms (l : list (name * N)) : list name := map fst l.

Lemma lookup_some n l i : lookup n l = Some i -> In (n, i) l.
Proof.
  induction l as [|[m j] l IH]; simpl; [discriminate|].
  destruct (bytes_eqb_spec m n) as [->|Hne]; intros E.
  - inversion E; subst; left; reflexivity.
  - right; auto.
Qed.

Lemma lookup_none n l : lookup n l = None -> forall i, ~ In (n, i) l.
Proof.
  induction l as [|[m j] l IH]; simpl; [tauto|].
  destruct (bytes_eqb_spec m n) as [->|Hne]; [discriminate|].
  intros E i [H|H]; [inversion H; congruence|]. eapply IH; eauto.
Qed.

Lemma lookup_in n i l : NoDup (nms l) -> In (n, i) l -> lookup n l = Some i.
Proof.
  induction l as [|[m j] l IH]; simpl; [tauto|]. intros ND [H|H].
  - inversion H; subst. rewrite bytes_eqb_refl. reflexivity.
  - inversion ND as [|? ? Hn ND']; subst.
    destruct (bytes_eqb_spec m n) as [->|Hne]; [|auto].
    exfalso; apply Hn. change n with (fst (n, i)). apply in_map. exact H.
Qed.

Lemma remove_split n l i :
  lookup n l = Some i -> exists l1 l2, l = l1 ++ (n, i) :: l2 /\ remove_name n l = l1 ++ l2.
Proof.
  induction l as [|[m j] l IH]; simpl; [discriminate|].
  destruct (bytes_eqb_spec m n) as [->|Hne]; intros E.
  - inversion E; subst. exists [], l. split; reflexivity.
  - destruct (IH E) as (l1 & l2 & -> & R). exists ((m, j) :: l1), l2. simpl. rewrite R. split; reflexivity.
Qed.

Lemma nodup_map_remove {A B} (f : A -> B) l1 x l2 :
  NoDup (map f (l1 ++ x :: l2)) -> NoDup (map f (l1 ++ l2)) /\ ~ In (f x) (map f (l1 ++ l2)).
Proof.
  rewrite !map_app. simpl. intros H. split.
  - eapply NoDup_remove_1; eauto.
  - eapply NoDup_remove_2; eauto.
Qed.

Lemma nodup_map_app_one {A B} (f : A -> B) l x :
  NoDup (map f l) -> ~ In (f x) (map f l) -> NoDup (map f (l ++ [x])).
Proof.
  intros ND Hn. rewrite map_app. simpl.
  apply NoDup_rev in ND. rewrite <- (rev_involutive (map f l ++ [f x])).
  apply NoDup_rev. rewrite rev_app_distr. simpl. constructor; [|exact ND].
  rewrite <- in_rev. exact Hn.
Qed.

(* ====================================================================== *)
(* counting callback invocations                                          *)
(* ====================================================================== *)
Definition cnt (i : N) (f : list (N * outcome)) : nat := length (fired_of i f).

Lemma cnt_app i f g : cnt i (f ++ g) = (cnt i f + cnt i g)%nat.
Proof. unfold cnt, fired_of. rewrite filter_app, map_app, app_length. reflexivity. Qed.

Lemma cnt_one_same i o : cnt i [(i, o)] = 1%nat.
Proof. unfold cnt, fired_of. simpl. rewrite N.eqb_refl. reflexivity. Qed.

Lemma cnt_one_other i j o : j <> i -> cnt i [(j, o)] = 0%nat.
Proof. intros H. unfold cnt, fired_of. simpl. destruct (N.eqb_spec j i); [congruence|reflexivity]. Qed.

Lemma cnt_drain_out i (g : name * N -> outcome) l :
  ~ In i (ids l) -> cnt i (map (fun p => (snd p, g p)) l) = 0%nat.
Proof.
  induction l as [|[m j] l IH]; simpl; intros H; [reflexivity|].
  change (cnt i (((j, g (m, j)) :: nil) ++ map (fun p => (snd p, g p)) l) = 0%nat).
  rewrite cnt_app, cnt_one_other, IH; [reflexivity| |]; intros E; apply H; [right; exact E|left; exact E].
Qed.

Lemma cnt_drain_in i (g : name * N -> outcome) l :
  NoDup (ids l) -> In i (ids l) -> cnt i (map (fun p => (snd p, g p)) l) = 1%nat.
Proof.
  induction l as [|[m j] l IH]; simpl; intros ND H; [tauto|].
  inversion ND as [|? ? Hn ND']; subst.
  change (cnt i (((j, g (m, j)) :: nil) ++ map (fun p => (snd p, g p)) l) = 1%nat).
  rewrite cnt_app. destruct H as [->|H].
  - rewrite cnt_one_same, cnt_drain_out; [reflexivity|exact Hn].
  - rewrite cnt_one_other, IH; auto. intros ->. apply Hn. exact H.
Qed.

(* ====================================================================== *)
(* the invariant                                                          *)
(* ====================================================================== *)
Definition good (s : st) (i : N) : Prop :=
  match s.(phase_of) i with
  | Writing | Ret None =>
    (In i (ids s.(pending)) /\ cnt i s.(fired) = 0%nat) \/
    (~ In i (ids s.(pending)) /\ cnt i s.(fired) = 1%nat)
  | _ => ~ In i (ids s.(pending)) /\ cnt i s.(fired) = 0%nat
  end.

Record Inv (s : st) : Prop := mkInv {
  i_nd_n : NoDup (nms s.(pending));
  i_nd_i : NoDup (ids s.(pending));
  i_name : forall n i, In (n, i) s.(pending) -> s.(rname) i = n;
  i_good : forall i, good s i;
  i_mu : forall i, s.(mu) = Some i <-> s.(phase_of) i = Writing;
  i_own : forall i j, s.(phase_of) i = Writing -> In (s.(rname) i, j) s.(pending) -> j = i;
  i_done : s.(rd) = RDone -> s.(pending) = [];
  i_closed : match s.(rd) with RStop2 _ | RDone => s.(closed) = true | _ => True end;
  i_dead : s.(alive) = false -> s.(out_open) = false /\ s.(in_open) = false /\ s.(buf) = [] }.

Lemma inv_init : Inv init.
Proof.
  constructor; simpl; try (constructor; fail); try tauto; try discriminate.
  - intros i. unfold good. simpl. split; [tauto|reflexivity].
  - intros i. split; discriminate.
Qed.

(* a step that leaves the runner's own variables alone keeps the invariant *)
Lemma inv_env s s' :
  Inv s ->
  s'.(pending) = s.(pending) -> s'.(rname) = s.(rname) -> s'.(phase_of) = s.(phase_of) ->
  s'.(fired) = s.(fired) -> s'.(mu) = s.(mu) -> s'.(rd) = s.(rd) ->
  (s.(closed) = true -> s'.(closed) = true) ->
  (s'.(alive) = false -> s'.(out_open) = false /\ s'.(in_open) = false /\ s'.(buf) = []) ->
  Inv s'.
Proof.
  intros [A B C D E F G H I] Ep En Eph Ef Em Er Hc Hd.
  constructor; unfold good in *; rewrite ?Ep, ?En, ?Eph, ?Ef, ?Em, ?Er; auto.
  destruct (rd s); auto.
Qed.

Ltac upd j i := unfold updf; destruct (N.eqb_spec j i) as [->|?].

Lemma good_idle_free s i : Inv s -> s.(phase_of) i = Idle -> ~ In i (ids s.(pending)) /\ cnt i s.(fired) = 0%nat.
Proof. intros H E. pose proof (i_good _ H i) as G. unfold good in G. rewrite E in G. exact G. Qed.

Lemma in_ids n i (l : list (name * N)) : In (n, i) l -> In i (ids l).
Proof. intros H. change i with (snd (n, i)). apply in_map. exact H. Qed.
Lemma in_nms n i (l : list (name * N)) : In (n, i) l -> In n (nms l).
Proof. intros H. change n with (fst (n, i)). apply in_map. exact H. Qed.
Lemma ids_in i (l : list (name * N)) : In i (ids l) -> exists n, In (n, i) l.
Proof. unfold ids. rewrite in_map_iff. intros ([n j] & E & H). simpl in E; subst. eauto. Qed.

Lemma inv_sendcheck X s i n q : Inv s -> Inv (step_with X s (SendCheck i n q)).
Proof.
  intros H. simpl. destruct (phase_of s i) eqn:Ph; try exact H.
  destruct (good_idle_free s i H Ph) as [Hni Hc0].
  destruct H as [A B C D E F G Hc Hd].
  constructor; simpl; auto.
  - intros n' j Hin. upd j i; [|auto]. exfalso. apply Hni. eapply in_ids; eauto.
  - intros j. unfold good; simpl. upd j i.
    + destruct (err s); auto.
    + apply D.
  - intros j. upd j i; [|apply E].
    rewrite E, Ph. destruct (err s); split; discriminate.
  - intros j k. upd j i; [destruct (err s); discriminate|].
    upd j i; [congruence|]. apply F.
Qed.

Lemma ids_snoc j l n i : In j (ids (l ++ [(n, i)])) <-> In j (ids l) \/ j = i.
Proof. unfold ids. rewrite map_app, in_app_iff. simpl. intuition. Qed.

Lemma lookup_none_nms n l : lookup n l = None -> ~ In n (nms l).
Proof.
  intros E Hin. unfold nms in Hin. rewrite in_map_iff in Hin. destruct Hin as ([m j] & Em & Hin).
  simpl in Em; subst. eapply lookup_none; eauto.
Qed.

Lemma good_transfer s s' j :
  s'.(phase_of) j = s.(phase_of) j -> s'.(fired) = s.(fired) ->
  (In j (ids s'.(pending)) <-> In j (ids s.(pending))) -> good s j -> good s' j.
Proof.
  unfold good. intros -> -> Hiff. destruct (phase_of s j) as [| | |[e|]]; tauto.
Qed.

Lemma inv_refuse s s' i e :
  Inv s ->
  s'.(pending) = s.(pending) -> s'.(rname) = s.(rname) -> s'.(fired) = s.(fired) ->
  s'.(mu) = s.(mu) -> s'.(rd) = s.(rd) -> s'.(closed) = s.(closed) ->
  s'.(alive) = s.(alive) -> s'.(out_open) = s.(out_open) -> s'.(in_open) = s.(in_open) -> s'.(buf) = s.(buf) ->
  s'.(phase_of) = updf s.(phase_of) i (Ret (Some e)) ->
  s.(phase_of) i <> Writing -> ~ In i (ids s.(pending)) -> cnt i s.(fired) = 0%nat ->
  Inv s'.
Proof.
  intros [A B C D E F G Hc Hd] Ep En Ef Em Er Ec Ea Eo Ei Eb Eph NW Hni Hc0.
  constructor; unfold good; rewrite ?Ep, ?En, ?Ef, ?Em, ?Er, ?Ec, ?Ea, ?Eo, ?Ei, ?Eb, ?Eph; auto.
  - intros j. upd j i; [auto|apply D].
  - intros j. upd j i; [|apply E]. rewrite E. split; [tauto|discriminate].
  - intros j k. upd j i; [discriminate|apply F].
Qed.

Lemma inv_sendlock X s i : Inv s -> Inv (step_with X s (SendLock i)).
Proof.
  intros H. simpl. destruct (phase_of s i) eqn:Ph; try exact H.
  destruct (mu s) eqn:Mu; try exact H.
  pose proof (i_good _ H i) as Gi. unfold good in Gi. rewrite Ph in Gi. destruct Gi as [Hni Hc0].
  assert (NoW : forall j, phase_of s j <> Writing).
  { intros j Hj. apply (i_mu _ H) in Hj. congruence. }
  destruct (closed s) eqn:Cl; [|destruct (lookup (rname s i) (pending s)) eqn:Lk].
  1,2: eapply (inv_refuse s); simpl; eauto; congruence.
  destruct H as [A B C D E F G Hc Hd]. constructor; simpl.
  - apply nodup_map_app_one; [exact A|]. simpl. apply lookup_none_nms. exact Lk.
  - apply nodup_map_app_one; [exact B|]. exact Hni.
  - intros n j Hin. apply in_app_iff in Hin. destruct Hin as [Hin|[Hin|[]]]; [auto|]. inversion Hin; subst; reflexivity.
  - intros j. destruct (N.eqb_spec j i) as [->|Hne].
    + unfold good; simpl. unfold updf. rewrite N.eqb_refl. left. split; [apply ids_snoc; right; reflexivity|exact Hc0].
    + apply (good_transfer s); simpl; auto.
      * unfold updf. destruct (N.eqb_spec j i); [congruence|reflexivity].
      * rewrite ids_snoc. intuition.
  - intros j. upd j i; [tauto|]. split; [intros E1; inversion E1; congruence|]. intros Hj. exfalso. eapply NoW; eauto.
  - intros j k. upd j i; [|intros Hj; exfalso; eapply NoW; eauto].
    intros _ Hin. apply in_app_iff in Hin. destruct Hin as [Hin|[Hin|[]]].
    + exfalso. eapply lookup_none; eauto.
    + inversion Hin; reflexivity.
  - intros Hr. rewrite Hr in Hc. congruence.
  - rewrite <- Cl. exact Hc.
  - exact Hd.
Qed.

Lemma remove_facts l l1 l2 n i :
  NoDup (nms l) -> NoDup (ids l) -> l = l1 ++ (n, i) :: l2 ->
  NoDup (nms (l1 ++ l2)) /\ NoDup (ids (l1 ++ l2)) /\ ~ In i (ids (l1 ++ l2)) /\
  (forall j, j <> i -> (In j (ids (l1 ++ l2)) <-> In j (ids l))) /\
  (forall p, In p (l1 ++ l2) -> In p l).
Proof.
  intros A B ->. unfold nms, ids in *.
  destruct (nodup_map_remove fst l1 (n, i) l2 A) as [A1 _].
  destruct (nodup_map_remove snd l1 (n, i) l2 B) as [B1 B2].
  repeat split; auto.
  - rewrite !map_app, !in_app_iff. simpl. tauto.
  - rewrite !map_app, !in_app_iff. simpl. intros [Z|[Z|Z]]; auto. congruence.
  - intros p Z. apply in_app_iff in Z. apply in_app_iff. simpl. tauto.
Qed.

Lemma no_other_writer s i j : Inv s -> s.(phase_of) i = Writing -> s.(phase_of) j = Writing -> j = i.
Proof.
  intros H Hi Hj. apply (i_mu _ H) in Hi. apply (i_mu _ H) in Hj. congruence.
Qed.

Lemma inv_writeok X s i : Inv s -> Inv (step_with X s (WriteOk i)).
Proof.
  intros H. simpl. destruct (phase_of s i) eqn:Ph; try exact H.
  destruct (alive s && in_open s && is_ok (req_of s i)); [|exact H].
  assert (Only : forall j, phase_of s j = Writing -> j = i) by (intros j Hj; eapply no_other_writer; eauto).
  pose proof (i_good _ H i) as Gi. unfold good in Gi. rewrite Ph in Gi.
  destruct H as [A B C D E F G Hc Hd]. constructor; simpl; auto.
  - intros j. unfold good; simpl. upd j i; [exact Gi|apply D].
  - intros j. upd j i; [split; discriminate|].
    split; [discriminate|]. intros Hj. exfalso. auto.
  - intros j k. upd j i; [discriminate|]. intros Hj. exfalso. auto.
Qed.

Lemma inv_writefail X s i w : Inv s -> Inv (step_with X s (WriteFail i w)).
Proof.
  intros H. simpl. destruct (phase_of s i) eqn:Ph; try exact H.
  destruct (negb (can_fail (in_open s) (req_of s i) w)); [exact H|].
  assert (Only : forall j, phase_of s j = Writing -> j = i) by (intros j Hj; eapply no_other_writer; eauto).
  pose proof (i_good _ H i) as Gi. unfold good in Gi. rewrite Ph in Gi.
  destruct (lookup (rname s i) (pending s)) eqn:Lk.
  - assert (n = i) as ->. { eapply (i_own _ H); eauto. apply lookup_some. exact Lk. }
    destruct (remove_split _ _ _ Lk) as (l1 & l2 & El & Er). rewrite Er.
    destruct H as [A B C D E F G Hc Hd].
    destruct (remove_facts _ l1 l2 _ i A B El) as (A1 & B1 & Hni & Hiff & Hsub).
    assert (Hin : In i (ids (pending s))). { rewrite El. unfold ids. rewrite map_app, in_app_iff. simpl. auto. }
    constructor; simpl; auto.
    + intros j. destruct (N.eqb_spec j i) as [->|Hne].
      * unfold good; simpl. unfold updf. rewrite N.eqb_refl. split; [exact Hni|]. destruct Gi as [[_ Z]|[Z _]]; tauto.
      * apply (good_transfer s); simpl; auto. unfold updf. destruct (N.eqb_spec j i); [congruence|reflexivity].
    + intros j. upd j i; [split; discriminate|]. split; [discriminate|]. intros Hj. exfalso; auto.
    + intros j k. upd j i; [discriminate|]. intros Hj. exfalso; auto.
    + intros Hr. apply G in Hr. rewrite Hr in El. destruct l1; discriminate.
  - destruct H as [A B C D E F G Hc Hd]. constructor; simpl; auto.
    + intros j. unfold good; simpl. upd j i; [exact Gi|apply D].
    + intros j. upd j i; [split; discriminate|]. split; [discriminate|]. intros Hj. exfalso; auto.
    + intros j k. upd j i; [discriminate|]. intros Hj. exfalso; auto.
Qed.

Lemma next_item_nil : next_item [] = INeed.
Proof. reflexivity. Qed.

Lemma inv_reader_stops s r b :
  Inv s -> (s.(alive) = false -> b = []) -> Inv (reader_stops s r b).
Proof.
  intros [A B C D E F G Hc Hd] Hb.
  destruct r; constructor; simpl; auto; try discriminate;
    intros Ha; destruct (Hd Ha) as (? & ? & ?); auto.
Qed.

Lemma inv_reader_step s : Inv s -> s.(rd) = RRun -> Inv (reader_step s).
Proof.
  intros H Hr. unfold reader_step.
  assert (Dead : alive s = false -> next_item (buf s) = INeed).
  { intros Ha. destruct (i_dead _ H Ha) as (_ & _ & ->). reflexivity. }
  destruct (next_item (buf s)) as [|m rest|rest] eqn:NI.
  - destruct (out_open s); [exact H|]. apply inv_reader_stops; auto.
  - assert (Al : alive s = false -> rest = []).
    { intros Ha. apply Dead in Ha. discriminate. }
    destruct (decode m) as [[n tag]|]; [|apply inv_reader_stops; auto].
    destruct (lookup n (pending s)) as [i|] eqn:Lk; [|apply inv_reader_stops; auto].
    destruct (remove_split _ _ _ Lk) as (l1 & l2 & El & Er). rewrite Er.
    pose proof (i_good _ H i) as Gi. unfold good in Gi.
    destruct H as [A B C D E F G Hc Hd].
    destruct (remove_facts _ l1 l2 _ i A B El) as (A1 & B1 & Hni & Hiff & Hsub).
    assert (Hin : In i (ids (pending s))). { rewrite El. unfold ids. rewrite map_app, in_app_iff. simpl. auto. }
    constructor; simpl; auto; try discriminate.
    + intros j. unfold good; simpl. rewrite cnt_app. destruct (N.eqb_spec j i) as [->|Hne].
      * rewrite cnt_one_same. destruct (phase_of s i) as [| | |[e|]]; try tauto;
          (right; split; [exact Hni|]; destruct Gi as [[_ Z]|[Z _]]; [rewrite Z; reflexivity|tauto]).
      * rewrite cnt_one_other by congruence. rewrite Nat.add_0_r.
        pose proof (D j) as Gj. unfold good in Gj. pose proof (Hiff j Hne) as Hj. unfold ids in *.
        destruct (phase_of s j) as [| | |[e|]]; tauto.
    + intros Ha. apply Dead in Ha. discriminate.
  - apply inv_reader_stops; auto. intros Ha. apply Dead in Ha. discriminate.
Qed.

Lemma inv_step X s a : Inv s -> Inv (step_with X s a).
Proof.
  intros H. destruct a.
  - apply inv_sendcheck; exact H.
  - apply inv_sendlock; exact H.
  - apply inv_writeok; exact H.
  - apply inv_writefail; exact H.
  - simpl. destruct (alive s && out_open s) eqn:AO; [|exact H].
    apply andb_true_iff in AO. destruct AO as [Al _].
    eapply inv_env; eauto; simpl; try congruence.
  - simpl. destruct (alive s) eqn:Al; [|exact H]. eapply inv_env; eauto; simpl; try discriminate.
  - simpl. destruct (alive s) eqn:Al; [|exact H]. eapply inv_env; eauto; simpl; try discriminate.
  - simpl. destruct (alive s) eqn:Al; [|exact H]. eapply inv_env; eauto; simpl; auto.
  - simpl. destruct (negb (alive s) && negb (noticed s)); [|exact H].
    eapply inv_env; eauto; simpl; try apply (i_dead _ H).
  - simpl. destruct (rd s) eqn:Hr; try exact H. apply inv_reader_step; auto.
  - simpl. destruct (rd s) eqn:Hr; try exact H. destruct (mu s) eqn:Mu; try exact H.
    destruct H as [A B C D E F G Hc Hd]. constructor; simpl; auto; try discriminate.
    + intros j. rewrite <- Mu. apply E.
    + intros Ha. destruct (Hd Ha) as (? & ? & ?); auto.
  - simpl. destruct (rd s) eqn:Hr; try exact H.
    destruct H as [A B C D E F G Hc Hd]. constructor; simpl; auto; try (constructor; fail); try tauto.
    + intros j. unfold good; simpl. rewrite cnt_app.
      pose proof (D j) as Gj. unfold good in Gj.
      destruct (in_dec N.eq_dec j (ids (pending s))) as [Hin|Hout].
      * rewrite (cnt_drain_in j (fun p => OFail (fst p) (fail_code r))) by auto.
        destruct (phase_of s j) as [| | |[e|]]; try tauto;
          (right; split; [tauto|]; destruct Gj as [[_ Z]|[Z _]]; [rewrite Z; reflexivity|tauto]).
      * rewrite (cnt_drain_out j (fun p => OFail (fst p) (fail_code r))) by auto. rewrite Nat.add_0_r.
        destruct (phase_of s j) as [| | |[e|]]; tauto.
    + rewrite Hr in Hc. exact Hc.
  - simpl. destruct (mu s) eqn:Mu; [exact H|]. eapply inv_env; eauto; simpl.
    intros Ha. destruct (i_dead _ H Ha) as (? & ? & ?); auto.
  - simpl. eapply inv_env; eauto; simpl; try apply (i_dead _ H).
  - simpl. destruct (rd s) eqn:Hr; try exact H. eapply inv_env; eauto; simpl; try apply (i_dead _ H).
Qed.

Lemma inv_run_from X s h : Inv s -> Inv (fold_left (step_with X) h s).
Proof. revert s. induction h as [|a h IH]; intros s H; simpl; [exact H|]. apply IH. apply inv_step. exact H. Qed.

Lemma inv_run_with X h : Inv (run_with X h).
Proof. apply inv_run_from. apply inv_init. Qed.

Lemma inv_run h : Inv (run h).
Proof. apply (inv_run_with true). Qed.

(* ====================================================================== *)
(* exactly once                                                           *)
(* ====================================================================== *)
Lemma times_fired_cnt i s : times_fired i s = cnt i s.(fired).
Proof. reflexivity. Qed.

Theorem at_most_once_proof : forall h i, (times_fired i (run h) <= 1)%nat.
Proof.
  intros h i. pose proof (i_good _ (inv_run h) i) as G. unfold good in G. rewrite times_fired_cnt.
  destruct (phase_of (run h) i) as [| | |[e|]]; lia.
Qed.

Theorem exactly_once_proof : forall h i,
  reader_exited (run h) ->
  (accepted (run h) i -> times_fired i (run h) = 1%nat) /\
  (refused (run h) i -> times_fired i (run h) = 0%nat) /\
  (not_called (run h) i -> times_fired i (run h) = 0%nat).
Proof.
  intros h i Hr. pose proof (inv_run h) as H. pose proof (i_good _ H i) as G. unfold good in G.
  rewrite (i_done _ H Hr) in G. simpl in G. rewrite times_fired_cnt.
  unfold accepted, refused, not_called. repeat split.
  - intros E. rewrite E in G. tauto.
  - intros [e E]. rewrite E in G. tauto.
  - intros E. rewrite E in G. tauto.
Qed.

(* a request that is still inside its write when the reader has exited has been answered too *)
Theorem nothing_pending_after_exit_proof : forall h,
  reader_exited (run h) -> (run h).(pending) = [] /\ (run h).(closed) = true.
Proof.
  intros h Hr. pose proof (inv_run h) as H. split; [apply (i_done _ H Hr)|].
  pose proof (i_closed _ H) as C. unfold reader_exited in Hr. rewrite Hr in C. exact C.
Qed.

(* ====================================================================== *)
(* things that never go back                                              *)
(* ====================================================================== *)
Ltac break :=
  repeat match goal with
  | |- context [match ?x with _ => _ end] => destruct x eqn:?
  end.

Ltac crush_step a :=
  destruct a; simpl; unfold reader_step, reader_stops; break; simpl; auto; try congruence.

Lemma err_sticky X s a : s.(err) <> None -> (step_with X s a).(err) <> None.
Proof. intros H. crush_step a; destruct (err s); simpl; congruence. Qed.

Lemma closed_sticky X s a : s.(closed) = true -> (step_with X s a).(closed) = true.
Proof. intros H. crush_step a. Qed.

Lemma term_sticky s a : s.(term) = true -> (step s a).(term) = true.
Proof. intros H. unfold step. crush_step a. Qed.

Lemma done_sticky X s a : s.(rd) = RDone -> (step_with X s a).(rd) = RDone.
Proof. intros H. crush_step a. Qed.

Lemma noticed_sticky X s a : s.(noticed) = true -> (step_with X s a).(noticed) = true.
Proof. intros H. crush_step a. Qed.

Lemma sticky_run {P : st -> Prop} (X : bool) :
  (forall s a, P s -> P (step_with X s a)) -> forall h s, P s -> P (fold_left (step_with X) h s).
Proof. intros Hs h. induction h as [|a h IH]; intros s H; simpl; auto. Qed.

Lemma run_app h h' : run (h ++ h') = run_from (run h) h'.
Proof. unfold run, run_from. apply fold_left_app. Qed.

(* once err is set or the send side is closed, a request whose sendRequest has not been
   called yet can only be refused *)
Definition shut (s : st) : Prop := s.(err) <> None \/ s.(closed) = true.
Definition barred (s : st) (i : N) : Prop :=
  (s.(err) <> None /\ (s.(phase_of) i = Idle \/ exists e, s.(phase_of) i = Ret (Some e))) \/
  (s.(closed) = true /\ (s.(phase_of) i = Idle \/ s.(phase_of) i = Checked \/ exists e, s.(phase_of) i = Ret (Some e))).

Lemma barred_step X s a i : barred s i -> barred (step_with X s a) i.
Proof.
  intros [[He Hp]|[Hc Hp]].
  - left. split; [apply err_sticky; exact He|].
    destruct a; simpl; auto; try (unfold reader_step, reader_stops; break; simpl; auto; fail).
    + destruct (phase_of s i0) eqn:P0; auto. simpl. upd i i0; auto.
      destruct (err s); [right; eauto|congruence].
    + destruct (phase_of s i0) eqn:P0; auto. break; simpl; auto; upd i i0; auto;
        destruct Hp as [Hp|[e Hp]]; congruence.
    + destruct (phase_of s i0) eqn:P0; auto. break; simpl; auto; upd i i0; auto;
        destruct Hp as [Hp|[e Hp]]; congruence.
    + destruct (phase_of s i0) eqn:P0; auto. break; simpl; auto; upd i i0; auto;
        destruct Hp as [Hp|[e Hp]]; congruence.
  - right. split; [apply closed_sticky; exact Hc|].
    destruct a; simpl; auto; try (unfold reader_step, reader_stops; break; simpl; auto; fail).
    + destruct (phase_of s i0) eqn:P0; auto. simpl. upd i i0; auto.
      destruct (err s); [right; right; eauto|auto].
    + destruct (phase_of s i0) eqn:P0; auto. destruct (mu s); auto. rewrite Hc. simpl. upd i i0; auto.
      right; right; eauto.
    + destruct (phase_of s i0) eqn:P0; auto. break; simpl; auto; upd i i0; auto;
        destruct Hp as [Hp|[Hp|[e Hp]]]; congruence.
    + destruct (phase_of s i0) eqn:P0; auto. break; simpl; auto; upd i i0; auto;
        destruct Hp as [Hp|[Hp|[e Hp]]]; congruence.
Qed.

Lemma barred_run s h i : barred s i -> barred (run_from s h) i.
Proof. unfold run_from. revert s. induction h as [|a h IH]; intros s H; simpl; auto. apply IH. apply barred_step. exact H. Qed.

Theorem refused_after_proof : forall h h' i,
  shut (run h) -> not_called (run h) i ->
  let s := run (h ++ h') in
  ~ accepted s i /\ s.(phase_of) i <> Writing /\ times_fired i s = 0%nat.
Proof.
  intros h h' i Hs Hn s. subst s. rewrite run_app.
  assert (B : barred (run h) i).
  { unfold not_called in Hn. destruct Hs as [Hs|Hs]; [left|right]; split; auto. }
  apply (barred_run _ h') in B.
  pose proof (inv_run (h ++ h')) as H. rewrite run_app in H.
  pose proof (i_good _ H i) as G. unfold good in G. unfold accepted. rewrite times_fired_cnt.
  destruct B as [[_ Hp]|[_ Hp]].
  - destruct Hp as [Hp|[e Hp]]; rewrite Hp in *; repeat split; try congruence; tauto.
  - destruct Hp as [Hp|[Hp|[e Hp]]]; rewrite Hp in *; repeat split; try congruence; tauto.
Qed.

(* a failed reader has set err, marked the runner terminated and asked the process to stop *)
Definition failed_marks (s : st) : Prop :=
  match s.(rd) with
  | RStop1 r | RStop2 r => r <> REof -> s.(err) <> None /\ s.(term) = true /\ s.(aborted) = true
  | _ => True
  end.

Lemma failed_marks_step s a : failed_marks s -> failed_marks (step s a).
Proof.
  intros H. unfold failed_marks, step in *.
  destruct (rd s) eqn:Rd; destruct a; simpl; rewrite ?Rd; unfold reader_step, reader_stops; break; simpl in *;
    rewrite ?Rd in *; auto; try congruence;
    repeat match goal with
           | Z : RStop1 _ = RStop1 _ |- _ => inversion Z; clear Z; subst
           | Z : RStop2 _ = RStop2 _ |- _ => inversion Z; clear Z; subst
           end; auto;
    try (intros Z; destruct (H Z) as (E1 & E2 & E3); repeat split; auto; destruct (err s); simpl; congruence);
    try (intros Z; repeat split; auto; destruct (err s); simpl; congruence).
Qed.

Lemma failed_marks_run h : failed_marks (run h).
Proof.
  unfold run. apply (sticky_run true (P := failed_marks)).
  - intros s a. apply failed_marks_step.
  - unfold failed_marks; simpl; auto.
Qed.

Theorem after_failure_proof : forall h h',
  reader_failed (run h) ->
  shut (run (h ++ h')) /\ is_running (run (h ++ h')) = false.
Proof.
  intros h h' (r & Hr & Hrd). pose proof (failed_marks_run h) as FM. unfold failed_marks in FM.
  assert (E : err (run h) <> None /\ term (run h) = true /\ aborted (run h) = true).
  { destruct Hrd as [Z|Z]; rewrite Z in FM; auto. }
  destruct E as (E1 & E2 & _).
  rewrite run_app. unfold run_from. split.
  - left. apply (sticky_run true (P := fun s => err s <> None)); auto. intros; apply err_sticky; auto.
  - unfold is_running. rewrite (sticky_run true (P := fun s => term s = true)); auto. intros; apply term_sticky; auto.
Qed.

(* ====================================================================== *)
(* isRunning                                                              *)
(* ====================================================================== *)
Definition notice_marks (s : st) : Prop := s.(noticed) = true -> s.(term) = true.

Lemma notice_marks_step s a : notice_marks s -> notice_marks (step s a).
Proof.
  unfold notice_marks, step. intros H.
  destruct a; simpl; unfold reader_step, reader_stops; break; simpl in *; auto.
Qed.

Lemma notice_marks_run h : notice_marks (run h).
Proof. unfold run. apply (sticky_run true (P := notice_marks)); [intros; apply notice_marks_step; auto|discriminate]. Qed.

Lemma term_run s h : s.(term) = true -> (run_from s h).(term) = true.
Proof. unfold run_from. apply (sticky_run true (P := fun s => term s = true)). intros; apply term_sticky; auto. Qed.

Theorem not_running_after_exit_proof : forall h h',
  (run h).(noticed) = true -> is_running (run (h ++ h')) = false.
Proof.
  intros h h' Hn. rewrite run_app. unfold is_running. rewrite term_run; [reflexivity|].
  apply notice_marks_run. exact Hn.
Qed.

Theorem not_running_after_stop_proof : forall h h', is_running (run (h ++ Stop :: h')) = false.
Proof.
  intros h h'. rewrite run_app.
  change (run_from (run h) (Stop :: h')) with (run_from (step (run h) Stop) h').
  unfold is_running. rewrite term_run; reflexivity.
Qed.

(* the pinned tree (exit notice stores false): the client is gone, the reader has exited,
   everybody has been told - and isRunning() is still true *)
Theorem pinned_is_running_refuted_proof :
  exists h, let s := run_with false h in
    reader_exited s /\ s.(alive) = false /\ s.(noticed) = true /\ is_running s = true.
Proof.
  exists [ProcExit false false; ExitNotice; RStep; RClose; RDrain]. vm_compute. repeat split; reflexivity.
Qed.

(* ====================================================================== *)
(* waiting returns; nothing can get stuck                                 *)
(* ====================================================================== *)
Theorem wait_returns_proof : forall h,
  reader_exited (run h) -> (step (run h) Wait).(wait_ret) <> None.
Proof. intros h Hr. unfold reader_exited in Hr. unfold step. simpl. rewrite Hr. simpl. discriminate. Qed.

Lemma writefail_returns s i w :
  s.(phase_of) i = Writing -> can_fail s.(in_open) (s.(req_of) i) w = true ->
  exists r, (step s (WriteFail i w)).(phase_of) i = Ret r.
Proof.
  intros Ph Cf. unfold step. simpl. rewrite Ph, Cf. simpl.
  destruct (lookup (rname s i) (pending s)); simpl; unfold updf; rewrite N.eqb_refl; eauto.
Qed.

Theorem writer_never_stuck_proof : forall h i,
  in_its_write (run h) i ->
  (step (run h) (WriteOk i)).(phase_of) i = Ret None \/
  exists w r, (step (run h) (WriteFail i w)).(phase_of) i = Ret r.
Proof.
  intros h i Ph. unfold in_its_write in Ph. pose proof (inv_run h) as H.
  destruct (req_of (run h) i) eqn:Q.
  - destruct (in_open (run h)) eqn:Io.
    + left. unfold step. simpl. rewrite Ph, Io, Q. destruct (alive (run h)) eqn:Al.
      * simpl. unfold updf. rewrite N.eqb_refl. reflexivity.
      * destruct (i_dead _ H Al) as (_ & Z & _). congruence.
    + right. exists WClosed. apply writefail_returns; [exact Ph|]. rewrite Io, Q. reflexivity.
  - right. exists WMarshal. apply writefail_returns; [exact Ph|]. rewrite Q. reflexivity.
  - right. exists WOther. apply writefail_returns; [exact Ph|]. rewrite Q. reflexivity.
Qed.

Theorem parked_sender_returns_proof : forall h i,
  reader_exited (run h) -> (run h).(mu) = None -> (run h).(phase_of) i = Checked ->
  (step (run h) (SendLock i)).(phase_of) i = Ret (Some EClosed).
Proof.
  intros h i Hr Mu Ph. destruct (nothing_pending_after_exit_proof h Hr) as [_ Cl].
  unfold step. simpl. rewrite Ph, Mu, Cl. simpl. unfold updf. rewrite N.eqb_refl. reflexivity.
Qed.

Record dead (s : st) : Prop := mkDead {
  d_alive : s.(alive) = false; d_out : s.(out_open) = false;
  d_in : s.(in_open) = false; d_buf : s.(buf) = [] }.

Lemma exit_makes_dead s failed peek :
  Inv s -> let s1 := step s (ProcExit failed peek) in
  dead s1 /\ s1.(mu) = s.(mu) /\ s1.(rd) = s.(rd) /\ s1.(phase_of) = s.(phase_of) /\ s1.(req_of) = s.(req_of).
Proof.
  intros H. unfold step. simpl. destruct (alive s) eqn:Al; simpl.
  - repeat split; reflexivity.
  - destruct (i_dead _ H Al) as (A & B & C). repeat split; auto.
Qed.

Lemma can_fail_for q : can_fail false q (wfail_for q) = true.
Proof. destruct q; reflexivity. Qed.

Lemma writefail_frees s i :
  dead s -> s.(phase_of) i = Writing ->
  let s2 := step s (WriteFail i (wfail_for (s.(req_of) i))) in
  dead s2 /\ s2.(mu) = None /\ s2.(rd) = s.(rd) /\ exists r, s2.(phase_of) i = Ret r.
Proof.
  intros [A B C D] Ph. unfold step. simpl. rewrite Ph, C, can_fail_for. simpl.
  destruct (lookup (rname s i) (pending s)); simpl; unfold updf; rewrite N.eqb_refl; repeat split; eauto.
Qed.

Lemma rstep_dead t : dead t -> rd t = RRun ->
  rd (step t RStep) = RStop1 REof /\ mu (step t RStep) = mu t.
Proof.
  intros [A B C D] Rd. unfold step. simpl. rewrite Rd. unfold reader_step. rewrite D. simpl. rewrite B. simpl. auto.
Qed.
Lemma rstep_noop t : rd t <> RRun -> step t RStep = t.
Proof. intros Rd. unfold step. simpl. destruct (rd t); congruence. Qed.
Lemma rclose_fact t r : rd t = RStop1 r -> mu t = None ->
  rd (step t RClose) = RStop2 r /\ mu (step t RClose) = None.
Proof. intros Rd Mu. unfold step. simpl. rewrite Rd, Mu. simpl. auto. Qed.
Lemma rclose_noop t : (forall r, rd t <> RStop1 r) -> step t RClose = t.
Proof. intros Rd. unfold step. simpl. destruct (rd t) eqn:E; try reflexivity. exfalso. eapply Rd; eauto. Qed.
Lemma rdrain_fact t r : rd t = RStop2 r ->
  rd (step t RDrain) = RDone /\ mu (step t RDrain) = mu t.
Proof. intros Rd. unfold step. simpl. rewrite Rd. simpl. auto. Qed.
Lemma rdrain_noop t : (forall r, rd t <> RStop2 r) -> step t RDrain = t.
Proof. intros Rd. unfold step. simpl. destruct (rd t) eqn:E; try reflexivity. exfalso. eapply Rd; eauto. Qed.

Lemma reader_winds_down s :
  dead s -> s.(mu) = None ->
  let s' := run_from s [RStep; RClose; RDrain] in s'.(rd) = RDone /\ s'.(mu) = None.
Proof.
  intros Dd Mu. cbv zeta.
  change (run_from s [RStep; RClose; RDrain]) with (step (step (step s RStep) RClose) RDrain).
  destruct (rd s) eqn:Rd.
  - destruct (rstep_dead s Dd Rd) as [R1 M1]. rewrite Mu in M1.
    destruct (rclose_fact _ _ R1 M1) as [R2 M2].
    destruct (rdrain_fact _ _ R2) as [R3 M3]. rewrite M2 in M3. auto.
  - rewrite (rstep_noop s) by congruence.
    destruct (rclose_fact _ _ Rd Mu) as [R2 M2].
    destruct (rdrain_fact _ _ R2) as [R3 M3]. rewrite M2 in M3. auto.
  - rewrite (rstep_noop s) by congruence. rewrite (rclose_noop s) by congruence.
    destruct (rdrain_fact _ _ Rd) as [R3 M3]. rewrite Mu in M3. auto.
  - rewrite (rstep_noop s) by congruence. rewrite (rclose_noop s) by congruence.
    rewrite (rdrain_noop s) by congruence. auto.
Qed.

Theorem no_deadlock_proof : forall h failed,
  let s' := run_from (run h) (wind_down failed (run h)) in
  reader_exited s' /\ s'.(mu) = None /\ s'.(pending) = [] /\ (forall i, s'.(phase_of) i <> Writing).
Proof.
  intros h failed s'. pose proof (inv_run h) as H.
  assert (Hinv : Inv s').
  { unfold s', run_from. apply inv_run_from. exact H. }
  assert (Hrd : s'.(rd) = RDone /\ s'.(mu) = None).
  { unfold s', wind_down.
    destruct (exit_makes_dead _ failed false H) as (Dd & Mu1 & Rd1 & Ph1 & Rq1).
    destruct (mu (run h)) as [i|] eqn:Mu.
    - change (run_from (run h) (ProcExit failed false :: [WriteFail i (wfail_for (req_of (run h) i))] ++ [RStep; RClose; RDrain]))
        with (run_from (step (step (run h) (ProcExit failed false)) (WriteFail i (wfail_for (req_of (run h) i)))) [RStep; RClose; RDrain]).
      assert (Ph : phase_of (step (run h) (ProcExit failed false)) i = Writing).
      { rewrite Ph1. apply (i_mu _ H). exact Mu. }
      destruct (writefail_frees _ i Dd Ph) as (Dd2 & Mu2 & _). rewrite Rq1 in Dd2, Mu2.
      apply (reader_winds_down _ Dd2 Mu2).
    - change (run_from (run h) (ProcExit failed false :: [] ++ [RStep; RClose; RDrain]))
        with (run_from (step (run h) (ProcExit failed false)) [RStep; RClose; RDrain]).
      apply (reader_winds_down _ Dd). exact Mu1. }
  destruct Hrd as [Hrd Hmu]. repeat split; auto.
  - apply (i_done _ Hinv Hrd).
  - intros i Hi. apply (i_mu _ Hinv) in Hi. congruence.
Qed.

(* ====================================================================== *)
(* whose response: the callback gets the request's own name, and a response *)
(* is a message the client really wrote                                   *)
(* ====================================================================== *)
Definition out_of (a : action) : bytes := match a with COut bs => bs | _ => [] end.

Lemma written_app h a : written (h ++ [a]) = written h ++ out_of a.
Proof.
  induction h as [|b h IH]; simpl.
  - destruct a; simpl; rewrite ?app_nil_r; reflexivity.
  - destruct b; rewrite IH; try reflexivity. rewrite app_assoc. reflexivity.
Qed.

Lemma client_wrote_more h a n tag : client_wrote h n tag -> client_wrote (h ++ [a]) n tag.
Proof.
  intros (pre & pfx & m & post & E & L & D & Dm). exists pre, pfx, m, (post ++ out_of a).
  rewrite written_app, E. rewrite <- !app_assoc. auto.
Qed.

Lemma next_item_msg b m rest :
  next_item b = IMsg m rest ->
  exists pfx, b = pfx ++ m ++ rest /\ length pfx = 4%nat /\ be_decode pfx 0 = N.of_nat (length m).
Proof.
  unfold next_item, c10_prefix_len.
  destruct (N.ltb_spec (N.of_nat (length b)) 4) as [|L4]; [discriminate|].
  destruct (reader_accepts ClientOutputReader (be_decode (firstn 4 b) 0)); [|discriminate]. cbn [negb].
  destruct (N.ltb_spec (N.of_nat (length (skipn 4 b))) (be_decode (firstn 4 b) 0)) as [|Ls]; [discriminate|].
  assert (H4 : (4 <= length b)%nat) by lia.
  assert (Hle : (N.to_nat (be_decode (firstn 4 b) 0) <= length (skipn 4 b))%nat).
  { clear L4 H4. revert Ls. generalize (be_decode (firstn 4 b) 0). generalize (length (skipn 4 b)). intros y x Hx. lia. }
  intros E. injection E as Em Er. subst m rest. exists (firstn 4 b).
  rewrite firstn_skipn, firstn_skipn. split; [reflexivity|]. split.
  - apply firstn_length_le. exact H4.
  - rewrite firstn_length_le by exact Hle. rewrite N2Nat.id. reflexivity.
Qed.

Lemma next_item_over b rest : next_item b = IOver rest -> exists pfx, b = pfx ++ rest.
Proof.
  unfold next_item. destruct (N.of_nat (length b) <? c10_prefix_len); [discriminate|].
  destruct (negb (reader_accepts ClientOutputReader (be_decode (firstn 4 b) 0))).
  - intros E. injection E as Er. subst rest. exists (firstn 4 b). rewrite firstn_skipn. reflexivity.
  - destruct (N.of_nat (length (skipn 4 b)) <? be_decode (firstn 4 b) 0); discriminate.
Qed.

Lemma in_fired_cnt i o f : In (i, o) f -> (1 <= cnt i f)%nat.
Proof.
  intros H. apply in_split in H. destruct H as (f1 & f2 & ->).
  change ((i, o) :: f2) with ([(i, o)] ++ f2). rewrite !cnt_app, cnt_one_same. lia.
Qed.

(* everything the reader has not consumed yet is a contiguous piece of what the client wrote,
   and every response delivered so far is backed by a frame in the client's output *)
Record Stream (h : list action) (s : st) : Prop := mkStream {
  s_buf : exists p q, written h = p ++ s.(buf) ++ q /\ (s.(alive) && s.(out_open) = true -> q = []);
  s_resp : forall i n tag, In (i, OResp n tag) s.(fired) -> s.(rname) i = n /\ client_wrote h n tag;
  s_fail : forall i n e, In (i, OFail n e) s.(fired) -> s.(rname) i = n }.

Lemma stream_init : Stream [] init.
Proof. constructor; simpl; try tauto. exists [], []. auto. Qed.

(* steps that neither touch the client's output, the callbacks nor the names *)
Lemma stream_same h a s s' :
  Stream h s -> out_of a = [] ->
  s'.(buf) = s.(buf) -> s'.(fired) = s.(fired) -> s'.(rname) = s.(rname) ->
  (s'.(alive) && s'.(out_open) = true -> s.(alive) && s.(out_open) = true) ->
  Stream (h ++ [a]) s'.
Proof.
  intros [(p & q & E & Q) R F] Ho Eb Ef En Hao.
  constructor; rewrite ?Eb, ?Ef, ?En.
  - exists p, q. rewrite written_app, Ho, app_nil_r. auto.
  - intros i n tag Hin. destruct (R i n tag Hin). split; auto. apply client_wrote_more; auto.
  - exact F.
Qed.

Lemma stream_stops h s r b :
  Stream h s ->
  (exists p q, written h = p ++ b ++ q /\ (s.(alive) && s.(out_open) = true -> q = [])) ->
  Stream (h ++ [RStep]) (reader_stops s r b).
Proof.
  intros [_ R F] (p & q & E & Q).
  assert (Stream (h ++ [RStep])
    (mkSt s.(err) s.(closed) s.(term) s.(mu) s.(pending) s.(rname) s.(req_of) s.(phase_of) s.(fired)
          (RStop1 r) s.(seen) b s.(out_open) s.(in_open) s.(alive) s.(aborted) s.(noticed) s.(status) s.(wait_ret))) as K.
  { constructor; simpl.
    - exists p, q. rewrite written_app. simpl. rewrite app_nil_r. auto.
    - intros i n tag Hin. destruct (R i n tag Hin). split; auto. apply client_wrote_more; auto.
    - exact F. }
  destruct K as [K1 K2 K3]. destruct r; constructor; simpl in *; auto.
Qed.

Lemma stream_step X h s a : Inv s -> Stream h s -> Stream (h ++ [a]) (step_with X s a).
Proof.
  intros HI HS. destruct a; simpl.
  - (* SendCheck *)
    destruct (phase_of s i) eqn:Ph; try (eapply stream_same; eauto; fail).
    destruct (good_idle_free s i HI Ph) as [_ C0].
    assert (NF : forall o, ~ In (i, o) (fired s)).
    { intros o Hin. apply in_fired_cnt in Hin. lia. }
    destruct HS as [(p & q0 & E & Q) R F]. constructor; simpl.
    + exists p, q0. rewrite written_app. simpl. rewrite app_nil_r. auto.
    + intros j n' tag Hin. destruct (R j n' tag Hin). split; [|apply client_wrote_more; auto].
      upd j i; auto. exfalso. eapply NF; eauto.
    + intros j n' e Hin. upd j i; [exfalso; eapply NF; eauto|eauto].
  - (* SendLock *) destruct (phase_of s i); try (eapply stream_same; eauto; fail).
    destruct (mu s); try (eapply stream_same; eauto; fail).
    destruct (closed s); [eapply stream_same; eauto|].
    destruct (lookup (rname s i) (pending s)); eapply stream_same; eauto.
  - (* WriteOk *) destruct (phase_of s i); try (eapply stream_same; eauto; fail).
    destruct (alive s && in_open s && is_ok (req_of s i)); eapply stream_same; eauto.
  - (* WriteFail *) destruct (phase_of s i); try (eapply stream_same; eauto; fail).
    destruct (negb (can_fail (in_open s) (req_of s i) k)); [eapply stream_same; eauto|].
    destruct (lookup (rname s i) (pending s)); eapply stream_same; eauto.
  - (* COut *)
    destruct HS as [(p & q & E & Q) R F].
    destruct (alive s && out_open s) eqn:AO.
    + constructor; simpl.
      * exists p, []. rewrite written_app. simpl. rewrite E, (Q eq_refl), !app_nil_r, app_assoc. auto.
      * intros i n tag Hin. destruct (R i n tag Hin). split; auto. apply client_wrote_more; auto.
      * exact F.
    + constructor.
      * exists p, (q ++ bs). rewrite written_app. simpl. rewrite E, <- !app_assoc. split; [reflexivity|]. congruence.
      * intros i n tag Hin. destruct (R i n tag Hin). split; auto. apply client_wrote_more; auto.
      * exact F.
  - (* CCloseOut *) destruct (alive s) eqn:Al; eapply stream_same; eauto; simpl; intros Z; try rewrite andb_false_r in Z; discriminate.
  - (* CCloseIn *) destruct (alive s) eqn:Al; eapply stream_same; eauto; simpl; rewrite Al; auto.
  - (* ProcExit *)
    destruct (alive s) eqn:Al; [|eapply stream_same; eauto].
    destruct HS as [(p & q & E & Q) R F]. constructor; simpl.
    + exists p, (buf s ++ q). rewrite written_app. simpl. rewrite app_nil_r. split; [exact E|discriminate].
    + intros i n tag Hin. destruct (R i n tag Hin). split; auto. apply client_wrote_more; auto.
    + exact F.
  - (* ExitNotice *) destruct (negb (alive s) && negb (noticed s)); eapply stream_same; eauto.
  - (* RStep *)
    destruct (rd s); try (eapply stream_same; eauto; fail).
    unfold reader_step. pose proof HS as [(p & q & E & Q) R F].
    destruct (next_item (buf s)) as [|m rest|rest] eqn:NI.
    + destruct (out_open s) eqn:Oo; [eapply stream_same; eauto|].
      apply stream_stops; auto. exists p, (buf s ++ q). split; [exact E|]. rewrite Oo, andb_false_r. discriminate.
    + destruct (next_item_msg _ _ _ NI) as (pfx & Eb & Lp & Dp).
      assert (Rest : exists p' q', written h = p' ++ rest ++ q' /\ (alive s && out_open s = true -> q' = [])).
      { exists (p ++ pfx ++ m), q. rewrite E, Eb, <- !app_assoc. auto. }
      destruct (decode m) as [[n tag]|] eqn:Dm; [|apply stream_stops; auto].
      destruct (lookup n (pending s)) as [i|] eqn:Lk; [|apply stream_stops; auto].
      destruct Rest as (p' & q' & E' & Q').
      constructor; simpl.
      * exists p', q'. rewrite written_app. simpl. rewrite app_nil_r. auto.
      * intros j n' tag' Hin. apply in_app_iff in Hin. destruct Hin as [Hin|[Hin|[]]].
        -- destruct (R j n' tag' Hin). split; auto. apply client_wrote_more; auto.
        -- inversion Hin; subst. split.
           ++ apply (i_name _ HI). apply lookup_some. exact Lk.
           ++ apply client_wrote_more. exists p, pfx, m, (rest ++ q).
              rewrite E, Eb, <- !app_assoc. auto.
      * intros j n' e Hin. apply in_app_iff in Hin. destruct Hin as [Hin|[Hin|[]]]; [eauto|discriminate].
    + destruct (next_item_over _ _ NI) as (pfx & Eb).
      apply stream_stops; auto. exists (p ++ pfx), q. rewrite E, Eb, <- !app_assoc. auto.
  - (* RClose *) destruct (rd s); try (eapply stream_same; eauto; fail). destruct (mu s); eapply stream_same; eauto.
  - (* RDrain *)
    destruct (rd s); try (eapply stream_same; eauto; fail).
    destruct HS as [(p & q & E & Q) R F]. constructor; simpl.
    + exists p, q. rewrite written_app. simpl. rewrite app_nil_r. auto.
    + intros j n' tag' Hin. apply in_app_iff in Hin. destruct Hin as [Hin|Hin].
      * destruct (R j n' tag' Hin). split; auto. apply client_wrote_more; auto.
      * apply in_map_iff in Hin. destruct Hin as ([m k] & Z & _). discriminate.
    + intros j n' e Hin. apply in_app_iff in Hin. destruct Hin as [Hin|Hin]; [eauto|].
      apply in_map_iff in Hin. destruct Hin as ([m k] & Z & Hin). simpl in Z. inversion Z; subst.
      apply (i_name _ HI). exact Hin.
  - (* CloseSend *) destruct (mu s); eapply stream_same; eauto.
  - (* Stop *) eapply stream_same; eauto.
  - (* Wait *) destruct (rd s); eapply stream_same; eauto.
Qed.

Lemma run_with_snoc X h a : run_with X (h ++ [a]) = step_with X (run_with X h) a.
Proof. unfold run_with. rewrite fold_left_app. reflexivity. Qed.

Lemma stream_run X h : Stream h (run_with X h).
Proof.
  induction h as [|a h IH] using rev_ind; [apply stream_init|].
  rewrite run_with_snoc. apply stream_step; [apply inv_run_with|exact IH].
Qed.

Theorem own_response_proof : forall h i n tag,
  In (i, OResp n tag) (run h).(fired) -> (run h).(rname) i = n /\ client_wrote h n tag.
Proof. intros h i n tag Hin. apply (s_resp _ _ (stream_run true h)). exact Hin. Qed.

Theorem failure_names_request_proof : forall h i n e,
  In (i, OFail n e) (run h).(fired) -> (run h).(rname) i = n.
Proof. intros h i n e Hin. apply (s_fail _ _ (stream_run true h) i n e). exact Hin. Qed.

(* a well-formed answer to a pending request is delivered to that request's callback *)
Theorem response_delivered_proof : forall s m rest n tag i,
  s.(rd) = RRun -> next_item s.(buf) = IMsg m rest -> decode m = Some (n, tag) ->
  lookup n s.(pending) = Some i ->
  (step s RStep).(fired) = s.(fired) ++ [(i, OResp n tag)] /\ (step s RStep).(rd) = RRun.
Proof.
  intros s m rest n tag i Rd NI Dm Lk. unfold step. simpl. rewrite Rd. unfold reader_step.
  rewrite NI, Dm, Lk. simpl. auto.
Qed.

Theorem refused_after_failure_proof : forall h h' i,
  reader_gone (run h) -> not_called (run h) i ->
  let s := run (h ++ h') in
  ~ accepted s i /\ s.(phase_of) i <> Writing /\ times_fired i s = 0%nat.
Proof.
  intros h h' i Hg. apply refused_after_proof.
  destruct Hg as [Hf|[[r Hr]|He]].
  - destruct (after_failure_proof h [] Hf) as [S _]. rewrite app_nil_r in S. exact S.
  - right. pose proof (i_closed _ (inv_run h)) as C. rewrite Hr in C. exact C.
  - right. apply nothing_pending_after_exit_proof. exact He.
Qed.

(* ====================================================================== *)
(* the write path: a refused request stays clean; its name is free again;  *)
(* the end of the process - with or without an error - releases the writer *)
(* ====================================================================== *)
Lemma ret_sticky X s a i r : s.(phase_of) i = Ret r -> (step_with X s a).(phase_of) i = Ret r.
Proof.
  intros H. destruct a; simpl; auto; try (unfold reader_step, reader_stops; break; simpl; auto; fail).
  all: destruct (phase_of s i0) eqn:P0; auto; break; simpl; auto; upd i i0; auto; congruence.
Qed.

Lemma ret_run s h i r : s.(phase_of) i = Ret r -> (run_from s h).(phase_of) i = Ret r.
Proof.
  unfold run_from. revert s. induction h as [|a h IH]; intros s H; simpl; auto.
  apply IH. apply (ret_sticky true). exact H.
Qed.

Theorem refused_is_clean_proof : forall h h' i,
  refused (run h) i ->
  let s := run (h ++ h') in refused s i /\ times_fired i s = 0%nat.
Proof.
  intros h h' i [e He] s. subst s.
  assert (E : phase_of (run (h ++ h')) i = Ret (Some e)).
  { rewrite run_app. apply ret_run. exact He. }
  split; [exists e; exact E|].
  pose proof (i_good _ (inv_run (h ++ h')) i) as G. unfold good in G. rewrite E in G.
  rewrite times_fired_cnt. tauto.
Qed.

Lemma lookup_not_in n l : ~ In n (nms l) -> lookup n l = None.
Proof.
  induction l as [|[m j] l IH]; simpl; [reflexivity|]. intros H.
  destruct (bytes_eqb_spec m n) as [->|Hne]; [exfalso; apply H; left; reflexivity|]. apply IH. tauto.
Qed.

Lemma lookup_removed n l : NoDup (nms l) -> lookup n (remove_name n l) = None.
Proof.
  intros ND. destruct (lookup n l) as [i|] eqn:Lk.
  - destruct (remove_split _ _ _ Lk) as (l1 & l2 & El & Er). rewrite Er. apply lookup_not_in.
    rewrite El in ND. unfold nms in *. destruct (nodup_map_remove fst l1 (n, i) l2 ND) as [_ Z]. exact Z.
  - assert (R : remove_name n l = l).
    { clear ND. induction l as [|[m j] l IH]; simpl in *; [reflexivity|].
      destruct (bytes_eqb m n); [discriminate|]. rewrite IH; auto. }
    rewrite R. exact Lk.
Qed.

Theorem name_free_after_failed_write_proof : forall h i w j,
  in_its_write (run h) i ->
  let s := step (run h) (WriteFail i w) in
  refused s i -> at_the_door s j -> s.(rname) j = s.(rname) i ->
  let s' := step s (SendLock j) in
  in_its_write s' j \/ s'.(phase_of) j = Ret (Some EClosed).
Proof.
  intros h i w j Ph. unfold in_its_write in Ph. pose proof (inv_run h) as H.
  unfold step at 1. simpl. rewrite Ph.
  destruct (negb (can_fail (in_open (run h)) (req_of (run h) i) w)).
  { intros [e He]. congruence. }
  destruct (lookup (rname (run h) i) (pending (run h))) eqn:Lk.
  - cbv zeta. intros _ Hj En. unfold at_the_door in Hj. simpl in Hj, En. unfold in_its_write, step. simpl.
    rewrite Hj. destruct (closed (run h)); simpl.
    + right. unfold updf at 1. rewrite N.eqb_refl. reflexivity.
    + rewrite En, (lookup_removed _ _ (i_nd_n _ H)). simpl. left. unfold updf at 1. rewrite N.eqb_refl. reflexivity.
  - cbv zeta. intros [e He]. simpl in He. unfold updf in He. rewrite N.eqb_refl in He. discriminate.
Qed.

Theorem exit_unblocks_writer_proof : forall h failed peek i,
  in_its_write (run h) i ->
  let s := step (run h) (ProcExit failed peek) in
  s.(in_open) = false /\ s.(out_open) = false /\
  exists r, (step s (WriteFail i (wfail_for (s.(req_of) i)))).(phase_of) i = Ret r.
Proof.
  intros h failed peek i Ph s. subst s. unfold in_its_write in Ph.
  destruct (exit_makes_dead _ failed peek (inv_run h)) as (Dd & _ & _ & Ph1 & _).
  split; [apply (d_in _ Dd)|]. split; [apply (d_out _ Dd)|].
  assert (Ph2 : phase_of (step (run h) (ProcExit failed peek)) i = Writing) by (rewrite Ph1; exact Ph).
  destruct (writefail_frees _ i Dd Ph2) as (_ & _ & _ & R). exact R.
Qed.
