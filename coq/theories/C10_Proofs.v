(* C10_Proofs.v — invariants of the clientProcessRunner transition system over ARBITRARY
   action lists, and the proofs of the property theorems stated in C10_Props.v. *)
From Coq Require Import Lia.
From V Require Import C10_Spec.
Open Scope N_scope.

(* ====================================================================== *)
(* pendingOps as an association list                                      *)
(* ====================================================================== *)
Definition ids (l : list (name * N)) : list N := map snd l.
Definition nms (l : list (name * N)) : list name := map fst l.

Lemma lookup_some n l i : lookup n l = Some i -> In (n, i) l.
Proof.
  induction l as [|[m j] l IH]; simpl; [discriminate|].
  destruct (bytes_eqb_spec m n) as [->|Hne]; intros E.
  - inversion E; subst; left; reflexivity.
  - right; auto.
Qed.

Lemma lookup_none n l : lookup n l = None -> forall i, ~ In (n, i) l.
Proof.
  induction l as [|[m j] l IH]; simpl; [tauto|].
  destruct (bytes_eqb_spec m n) as [->|Hne]; [discriminate|].
  intros E i [H|H]; [inversion H; congruence|]. eapply IH; eauto.
Qed.

Lemma lookup_in n i l : NoDup (nms l) -> In (n, i) l -> lookup n l = Some i.
Proof.
  induction l as [|[m j] l IH]; simpl; [tauto|]. intros ND [H|H].
  - inversion H; subst. rewrite bytes_eqb_refl. reflexivity.
  - inversion ND as [|? ? Hn ND']; subst.
    destruct (bytes_eqb_spec m n) as [->|Hne]; [|auto].
    exfalso; apply Hn. change n with (fst (n, i)). apply in_map. exact H.
Qed.

Lemma remove_split n l i :
  lookup n l = Some i -> exists l1 l2, l = l1 ++ (n, i) :: l2 /\ remove_name n l = l1 ++ l2.
Proof.
  induction l as [|[m j] l IH]; simpl; [discriminate|].
  destruct (bytes_eqb_spec m n) as [->|Hne]; intros E.
  - inversion E; subst. exists [], l. split; reflexivity.
  - destruct (IH E) as (l1 & l2 & -> & R). exists ((m, j) :: l1), l2. simpl. rewrite R. split; reflexivity.
Qed.

Lemma nodup_map_remove {A B} (f : A -> B) l1 x l2 :
  NoDup (map f (l1 ++ x :: l2)) -> NoDup (map f (l1 ++ l2)) /\ ~ In (f x) (map f (l1 ++ l2)).
Proof.
  rewrite !map_app. simpl. intros H. split.
  - eapply NoDup_remove_1; eauto.
  - eapply NoDup_remove_2; eauto.
Qed.

Lemma nodup_map_app_one {A B} (f : A -> B) l x :
  NoDup (map f l) -> ~ In (f x) (map f l) -> NoDup (map f (l ++ [x])).
Proof.
  intros ND Hn. rewrite map_app. simpl.
  apply NoDup_rev in ND. rewrite <- (rev_involutive (map f l ++ [f x])).
  apply NoDup_rev. rewrite rev_app_distr. simpl. constructor; [|exact ND].
  rewrite <- in_rev. exact Hn.
Qed.

(* ====================================================================== *)
(* counting callback invocations                                          *)
(* ====================================================================== *)
Definition cnt (i : N) (f : list (N * outcome)) : nat := length (fired_of i f).

Lemma cnt_app i f g : cnt i (f ++ g) = (cnt i f + cnt i g)%nat.
Proof. unfold cnt, fired_of. rewrite filter_app, map_app, app_length. reflexivity. Qed.

Lemma cnt_one_same i o : cnt i [(i, o)] = 1%nat.
Proof. unfold cnt, fired_of. simpl. rewrite N.eqb_refl. reflexivity. Qed.

Lemma cnt_one_other i j o : j <> i -> cnt i [(j, o)] = 0%nat.
Proof. intros H. unfold cnt, fired_of. simpl. destruct (N.eqb_spec j i); [congruence|reflexivity]. Qed.

Lemma cnt_drain_out i (g : name * N -> outcome) l :
  ~ In i (ids l) -> cnt i (map (fun p => (snd p, g p)) l) = 0%nat.
Proof.
  induction l as [|[m j] l IH]; simpl; intros H; [reflexivity|].
  change (cnt i (((j, g (m, j)) :: nil) ++ map (fun p => (snd p, g p)) l) = 0%nat).
  rewrite cnt_app, cnt_one_other, IH; [reflexivity| |]; intros E; apply H; [right; exact E|left; exact E].
Qed.

Lemma cnt_drain_in i (g : name * N -> outcome) l :
  NoDup (ids l) -> In i (ids l) -> cnt i (map (fun p => (snd p, g p)) l) = 1%nat.
Proof.
  induction l as [|[m j] l IH]; simpl; intros ND H; [tauto|].
  inversion ND as [|? ? Hn ND']; subst.
  change (cnt i (((j, g (m, j)) :: nil) ++ map (fun p => (snd p, g p)) l) = 1%nat).
  rewrite cnt_app. destruct H as [->|H].
  - rewrite cnt_one_same, cnt_drain_out; [reflexivity|exact Hn].
  - rewrite cnt_one_other, IH; auto. intros ->. apply Hn. exact H.
Qed.

(* ====================================================================== *)
(* the invariant                                                          *)
(* ====================================================================== *)
Definition good (s : st) (i : N) : Prop :=
  match s.(phase_of) i with
  | Writing | Ret None =>
    (In i (ids s.(pending)) /\ cnt i s.(fired) = 0%nat) \/
    (~ In i (ids s.(pending)) /\ cnt i s.(fired) = 1%nat)
  | _ => ~ In i (ids s.(pending)) /\ cnt i s.(fired) = 0%nat
  end.

Record Inv (s : st) : Prop := mkInv {
  i_nd_n : NoDup (nms s.(pending));
  i_nd_i : NoDup (ids s.(pending));
  i_name : forall n i, In (n, i) s.(pending) -> s.(rname) i = n;
  i_good : forall i, good s i;
  i_mu : forall i, s.(mu) = Some i <-> s.(phase_of) i = Writing;
  i_own : forall i j, s.(phase_of) i = Writing -> In (s.(rname) i, j) s.(pending) -> j = i;
  i_done : s.(rd) = RDone -> s.(pending) = [];
  i_closed : match s.(rd) with RStop2 _ | RDone => s.(closed) = true | _ => True end;
  i_dead : s.(alive) = false -> s.(out_open) = false /\ s.(in_open) = false /\ s.(buf) = [] }.

Lemma inv_init : Inv init.
Proof.
  constructor; simpl; try (constructor; fail); try tauto; try discriminate.
  - intros i. unfold good. simpl. split; [tauto|reflexivity].
  - intros i. split; discriminate.
Qed.

(* a step that leaves the runner's own variables alone keeps the invariant *)
Lemma inv_env s s' :
  Inv s ->
  s'.(pending) = s.(pending) -> s'.(rname) = s.(rname) -> s'.(phase_of) = s.(phase_of) ->
  s'.(fired) = s.(fired) -> s'.(mu) = s.(mu) -> s'.(rd) = s.(rd) ->
  (s.(closed) = true -> s'.(closed) = true) ->
  (s'.(alive) = false -> s'.(out_open) = false /\ s'.(in_open) = false /\ s'.(buf) = []) ->
  Inv s'.
Proof.
  intros [A B C D E F G H I] Ep En Eph Ef Em Er Hc Hd.
  constructor; unfold good in *; rewrite ?Ep, ?En, ?Eph, ?Ef, ?Em, ?Er; auto.
  destruct (rd s); auto.
Qed.

Ltac upd j i := unfold updf; destruct (N.eqb_spec j i) as [->|?].

Lemma good_idle_free s i : Inv s -> s.(phase_of) i = Idle -> ~ In i (ids s.(pending)) /\ cnt i s.(fired) = 0%nat.
Proof. intros H E. pose proof (i_good _ H i) as G. unfold good in G. rewrite E in G. exact G. Qed.

Lemma in_ids n i (l : list (name * N)) : In (n, i) l -> In i (ids l).
Proof. intros H. change i with (snd (n, i)). apply in_map. exact H. Qed.
Lemma in_nms n i (l : list (name * N)) : In (n, i) l -> In n (nms l).
Proof. intros H. change n with (fst (n, i)). apply in_map. exact H. Qed.
Lemma ids_in i (l : list (name * N)) : In i (ids l) -> exists n, In (n, i) l.
Proof. unfold ids. rewrite in_map_iff. intros ([n j] & E & H). simpl in E; subst. eauto. Qed.

Lemma inv_sendcheck X s i n : Inv s -> Inv (step_with X s (SendCheck i n)).
Proof.
  intros H. simpl. destruct (phase_of s i) eqn:Ph; try exact H.
  destruct (good_idle_free s i H Ph) as [Hni Hc0].
  destruct H as [A B C D E F G Hc Hd].
  constructor; simpl; auto.
  - intros n' j Hin. upd j i; [|auto]. exfalso. apply Hni. eapply in_ids; eauto.
  - intros j. unfold good; simpl. upd j i.
    + destruct (err s); auto.
    + apply D.
  - intros j. upd j i; [|apply E].
    rewrite E, Ph. destruct (err s); split; discriminate.
  - intros j k. upd j i; [destruct (err s); discriminate|].
    upd j i; [congruence|]. apply F.
Qed.

Lemma ids_snoc j l n i : In j (ids (l ++ [(n, i)])) <-> In j (ids l) \/ j = i.
Proof. unfold ids. rewrite map_app, in_app_iff. simpl. intuition. Qed.

Lemma lookup_none_nms n l : lookup n l = None -> ~ In n (nms l).
Proof.
  intros E Hin. unfold nms in Hin. rewrite in_map_iff in Hin. destruct Hin as ([m j] & Em & Hin).
  simpl in Em; subst. eapply lookup_none; eauto.
Qed.

Lemma good_transfer s s' j :
  s'.(phase_of) j = s.(phase_of) j -> s'.(fired) = s.(fired) ->
  (In j (ids s'.(pending)) <-> In j (ids s.(pending))) -> good s j -> good s' j.
Proof.
  unfold good. intros -> -> Hiff. destruct (phase_of s j) as [| | |[e|]]; tauto.
Qed.

Lemma inv_refuse s s' i e :
  Inv s ->
  s'.(pending) = s.(pending) -> s'.(rname) = s.(rname) -> s'.(fired) = s.(fired) ->
  s'.(mu) = s.(mu) -> s'.(rd) = s.(rd) -> s'.(closed) = s.(closed) ->
  s'.(alive) = s.(alive) -> s'.(out_open) = s.(out_open) -> s'.(in_open) = s.(in_open) -> s'.(buf) = s.(buf) ->
  s'.(phase_of) = updf s.(phase_of) i (Ret (Some e)) ->
  s.(phase_of) i <> Writing -> ~ In i (ids s.(pending)) -> cnt i s.(fired) = 0%nat ->
  Inv s'.
Proof.
  intros [A B C D E F G Hc Hd] Ep En Ef Em Er Ec Ea Eo Ei Eb Eph NW Hni Hc0.
  constructor; unfold good; rewrite ?Ep, ?En, ?Ef, ?Em, ?Er, ?Ec, ?Ea, ?Eo, ?Ei, ?Eb, ?Eph; auto.
  - intros j. upd j i; [auto|apply D].
  - intros j. upd j i; [|apply E]. rewrite E. split; [tauto|discriminate].
  - intros j k. upd j i; [discriminate|apply F].
Qed.

Lemma inv_sendlock X s i : Inv s -> Inv (step_with X s (SendLock i)).
Proof.
  intros H. simpl. destruct (phase_of s i) eqn:Ph; try exact H.
  destruct (mu s) eqn:Mu; try exact H.
  pose proof (i_good _ H i) as Gi. unfold good in Gi. rewrite Ph in Gi. destruct Gi as [Hni Hc0].
  assert (NoW : forall j, phase_of s j <> Writing).
  { intros j Hj. apply (i_mu _ H) in Hj. congruence. }
  destruct (closed s) eqn:Cl; [|destruct (lookup (rname s i) (pending s)) eqn:Lk].
  1,2: eapply (inv_refuse s); simpl; eauto; congruence.
  destruct H as [A B C D E F G Hc Hd]. constructor; simpl.
  - apply nodup_map_app_one; [exact A|]. simpl. apply lookup_none_nms. exact Lk.
  - apply nodup_map_app_one; [exact B|]. exact Hni.
  - intros n j Hin. apply in_app_iff in Hin. destruct Hin as [Hin|[Hin|[]]]; [auto|]. inversion Hin; subst; reflexivity.
  - intros j. destruct (N.eqb_spec j i) as [->|Hne].
    + unfold good; simpl. unfold updf. rewrite N.eqb_refl. left. split; [apply ids_snoc; right; reflexivity|exact Hc0].
    + apply (good_transfer s); simpl; auto.
      * unfold updf. destruct (N.eqb_spec j i); [congruence|reflexivity].
      * rewrite ids_snoc. intuition.
  - intros j. upd j i; [tauto|]. split; [intros E1; inversion E1; congruence|]. intros Hj. exfalso. eapply NoW; eauto.
  - intros j k. upd j i; [|intros Hj; exfalso; eapply NoW; eauto].
    intros _ Hin. apply in_app_iff in Hin. destruct Hin as [Hin|[Hin|[]]].
    + exfalso. eapply lookup_none; eauto.
    + inversion Hin; reflexivity.
  - intros Hr. rewrite Hr in Hc. congruence.
  - rewrite <- Cl. exact Hc.
  - exact Hd.
Qed.

Lemma remove_facts l l1 l2 n i :
  NoDup (nms l) -> NoDup (ids l) -> l = l1 ++ (n, i) :: l2 ->
  NoDup (nms (l1 ++ l2)) /\ NoDup (ids (l1 ++ l2)) /\ ~ In i (ids (l1 ++ l2)) /\
  (forall j, j <> i -> (In j (ids (l1 ++ l2)) <-> In j (ids l))) /\
  (forall p, In p (l1 ++ l2) -> In p l).
Proof.
  intros A B ->. unfold nms, ids in *.
  destruct (nodup_map_remove fst l1 (n, i) l2 A) as [A1 _].
  destruct (nodup_map_remove snd l1 (n, i) l2 B) as [B1 B2].
  repeat split; auto.
  - rewrite !map_app, !in_app_iff. simpl. tauto.
  - rewrite !map_app, !in_app_iff. simpl. intros [Z|[Z|Z]]; auto. congruence.
  - intros p Z. apply in_app_iff in Z. apply in_app_iff. simpl. tauto.
Qed.

Lemma no_other_writer s i j : Inv s -> s.(phase_of) i = Writing -> s.(phase_of) j = Writing -> j = i.
Proof.
  intros H Hi Hj. apply (i_mu _ H) in Hi. apply (i_mu _ H) in Hj. congruence.
Qed.

Lemma inv_writeok X s i : Inv s -> Inv (step_with X s (WriteOk i)).
Proof.
  intros H. simpl. destruct (phase_of s i) eqn:Ph; try exact H.
  destruct (alive s && in_open s); [|exact H].
  assert (Only : forall j, phase_of s j = Writing -> j = i) by (intros j Hj; eapply no_other_writer; eauto).
  pose proof (i_good _ H i) as Gi. unfold good in Gi. rewrite Ph in Gi.
  destruct H as [A B C D E F G Hc Hd]. constructor; simpl; auto.
  - intros j. unfold good; simpl. upd j i; [exact Gi|apply D].
  - intros j. upd j i; [split; discriminate|].
    split; [discriminate|]. intros Hj. exfalso. auto.
  - intros j k. upd j i; [discriminate|]. intros Hj. exfalso. auto.
Qed.

Lemma inv_writefail X s i : Inv s -> Inv (step_with X s (WriteFail i)).
Proof.
  intros H. simpl. destruct (phase_of s i) eqn:Ph; try exact H.
  destruct (in_open s); [exact H|].
  assert (Only : forall j, phase_of s j = Writing -> j = i) by (intros j Hj; eapply no_other_writer; eauto).
  pose proof (i_good _ H i) as Gi. unfold good in Gi. rewrite Ph in Gi.
  destruct (lookup (rname s i) (pending s)) eqn:Lk.
  - assert (n = i) as ->. { eapply (i_own _ H); eauto. apply lookup_some. exact Lk. }
    destruct (remove_split _ _ _ Lk) as (l1 & l2 & El & Er). rewrite Er.
    destruct H as [A B C D E F G Hc Hd].
    destruct (remove_facts _ l1 l2 _ i A B El) as (A1 & B1 & Hni & Hiff & Hsub).
    assert (Hin : In i (ids (pending s))). { rewrite El. unfold ids. rewrite map_app, in_app_iff. simpl. auto. }
    constructor; simpl; auto.
    + intros j. destruct (N.eqb_spec j i) as [->|Hne].
      * unfold good; simpl. unfold updf. rewrite N.eqb_refl. split; [exact Hni|]. destruct Gi as [[_ Z]|[Z _]]; tauto.
      * apply (good_transfer s); simpl; auto. unfold updf. destruct (N.eqb_spec j i); [congruence|reflexivity].
    + intros j. upd j i; [split; discriminate|]. split; [discriminate|]. intros Hj. exfalso; auto.
    + intros j k. upd j i; [discriminate|]. intros Hj. exfalso; auto.
    + intros Hr. apply G in Hr. rewrite Hr in El. destruct l1; discriminate.
    + intros Ha. destruct (Hd Ha) as (? & _ & ?); auto.
  - destruct H as [A B C D E F G Hc Hd]. constructor; simpl; auto.
    + intros j. unfold good; simpl. upd j i; [exact Gi|apply D].
    + intros j. upd j i; [split; discriminate|]. split; [discriminate|]. intros Hj. exfalso; auto.
    + intros j k. upd j i; [discriminate|]. intros Hj. exfalso; auto.
    + intros Ha. destruct (Hd Ha) as (? & _ & ?); auto.
Qed.

Lemma next_item_nil : next_item [] = INeed.
Proof. reflexivity. Qed.

Lemma inv_reader_stops s r b :
  Inv s -> (s.(alive) = false -> b = []) -> Inv (reader_stops s r b).
Proof.
  intros [A B C D E F G Hc Hd] Hb.
  destruct r; constructor; simpl; auto; try discriminate;
    intros Ha; destruct (Hd Ha) as (? & ? & ?); auto.
Qed.

Lemma inv_reader_step s : Inv s -> s.(rd) = RRun -> Inv (reader_step s).
Proof.
  intros H Hr. unfold reader_step.
  assert (Dead : alive s = false -> next_item (buf s) = INeed).
  { intros Ha. destruct (i_dead _ H Ha) as (_ & _ & ->). reflexivity. }
  destruct (next_item (buf s)) as [|m rest|rest] eqn:NI.
  - destruct (out_open s); [exact H|]. apply inv_reader_stops; auto.
  - assert (Al : alive s = false -> rest = []).
    { intros Ha. apply Dead in Ha. discriminate. }
    destruct (decode m) as [[n tag]|]; [|apply inv_reader_stops; auto].
    destruct (lookup n (pending s)) as [i|] eqn:Lk; [|apply inv_reader_stops; auto].
    destruct (remove_split _ _ _ Lk) as (l1 & l2 & El & Er). rewrite Er.
    pose proof (i_good _ H i) as Gi. unfold good in Gi.
    destruct H as [A B C D E F G Hc Hd].
    destruct (remove_facts _ l1 l2 _ i A B El) as (A1 & B1 & Hni & Hiff & Hsub).
    assert (Hin : In i (ids (pending s))). { rewrite El. unfold ids. rewrite map_app, in_app_iff. simpl. auto. }
    constructor; simpl; auto; try discriminate.
    + intros j. unfold good; simpl. rewrite cnt_app. destruct (N.eqb_spec j i) as [->|Hne].
      * rewrite cnt_one_same. destruct (phase_of s i) as [| | |[e|]]; try tauto;
          (right; split; [exact Hni|]; destruct Gi as [[_ Z]|[Z _]]; [rewrite Z; reflexivity|tauto]).
      * rewrite cnt_one_other by congruence. rewrite Nat.add_0_r.
        pose proof (D j) as Gj. unfold good in Gj. pose proof (Hiff j Hne) as Hj. unfold ids in *.
        destruct (phase_of s j) as [| | |[e|]]; tauto.
    + intros Ha. apply Dead in Ha. discriminate.
  - apply inv_reader_stops; auto. intros Ha. apply Dead in Ha. discriminate.
Qed.

Lemma inv_step X s a : Inv s -> Inv (step_with X s a).
Proof.
  intros H. destruct a.
  - apply inv_sendcheck; exact H.
  - apply inv_sendlock; exact H.
  - apply inv_writeok; exact H.
  - apply inv_writefail; exact H.
  - simpl. destruct (alive s && out_open s) eqn:AO; [|exact H].
    apply andb_true_iff in AO. destruct AO as [Al _].
    eapply inv_env; eauto; simpl; try congruence.
  - simpl. destruct (alive s) eqn:Al; [|exact H]. eapply inv_env; eauto; simpl; try discriminate.
  - simpl. destruct (alive s) eqn:Al; [|exact H]. eapply inv_env; eauto; simpl; try discriminate.
  - simpl. destruct (alive s) eqn:Al; [|exact H]. eapply inv_env; eauto; simpl; auto.
  - simpl. destruct (negb (alive s) && negb (noticed s)); [|exact H].
    eapply inv_env; eauto; simpl; try apply (i_dead _ H).
  - simpl. destruct (rd s) eqn:Hr; try exact H. apply inv_reader_step; auto.
  - simpl. destruct (rd s) eqn:Hr; try exact H. destruct (mu s) eqn:Mu; try exact H.
    destruct H as [A B C D E F G Hc Hd]. constructor; simpl; auto; try discriminate.
    + intros j. rewrite <- Mu. apply E.
    + intros Ha. destruct (Hd Ha) as (? & ? & ?); auto.
  - simpl. destruct (rd s) eqn:Hr; try exact H.
    destruct H as [A B C D E F G Hc Hd]. constructor; simpl; auto; try (constructor; fail); try tauto.
    + intros j. unfold good; simpl. rewrite cnt_app.
      pose proof (D j) as Gj. unfold good in Gj.
      destruct (in_dec N.eq_dec j (ids (pending s))) as [Hin|Hout].
      * rewrite (cnt_drain_in j (fun p => OFail (fst p) (fail_code r))) by auto.
        destruct (phase_of s j) as [| | |[e|]]; try tauto;
          (right; split; [tauto|]; destruct Gj as [[_ Z]|[Z _]]; [rewrite Z; reflexivity|tauto]).
      * rewrite (cnt_drain_out j (fun p => OFail (fst p) (fail_code r))) by auto. rewrite Nat.add_0_r.
        destruct (phase_of s j) as [| | |[e|]]; tauto.
    + rewrite Hr in Hc. exact Hc.
  - simpl. destruct (mu s) eqn:Mu; [exact H|]. eapply inv_env; eauto; simpl.
    intros Ha. destruct (i_dead _ H Ha) as (? & ? & ?); auto.
  - simpl. eapply inv_env; eauto; simpl; try apply (i_dead _ H).
  - simpl. destruct (rd s) eqn:Hr; try exact H. eapply inv_env; eauto; simpl; try apply (i_dead _ H).
Qed.

Lemma inv_run_from X s h : Inv s -> Inv (fold_left (step_with X) h s).
Proof. revert s. induction h as [|a h IH]; intros s H; simpl; [exact H|]. apply IH. apply inv_step. exact H. Qed.

Lemma inv_run_with X h : Inv (run_with X h).
Proof. apply inv_run_from. apply inv_init. Qed.

Lemma inv_run h : Inv (run h).
Proof. apply (inv_run_with true). Qed.
